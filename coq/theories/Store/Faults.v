(* Store/Faults.v — L2 with storage faults: every persistence step of Store/Crash.v together with its failing
   variants, following db_write.go (writeLocked: flush / writeJournal / addSeq on error / journalFailed /
   rotateMem), db_state.go (newMem), db_compaction.go (memCompaction, compactionTransact: retry, compactionCommit),
   session.go (commit: flushManifest, or newManifest when s.manifest == nil, the manifest is too big, or
   s.manifestFailed), session_util.go (flushManifest, newManifest), db_transaction.go (Commit: three attempts,
   commitFailed, the sequence numbers of a failed commit are consumed by the discard; discard: fresh manifest before the tables of a failed commit are
   removed, tables kept when that fails too) and db.go (Close, recoverJournal: the first commit after Open
   writes a fresh manifest, obsolete journals are removed after it).

   The state keeps TWO copies of the L2 state: [f_p] is what the FILES hold, [f_m] is what the running DB
   has COMMITTED IN MEMORY.  They differ exactly where the code lets them differ after a failure: a record
   that was written to the manifest but whose commit failed (or has not finished) is in [p_man (f_p s)] and
   not in [p_man (f_m s)] (with it [p_fedit], and for a transaction record the sequence number it carries).
   A commit that finds [manifestFailed] writes a FRESH manifest: one record holding the snapshot of the
   memory state plus the committed edit ([collapse]), installed by the atomic switch of CURRENT; the old
   manifest file, whatever its tail, is then dead.
   An errored journal record (written whole although the write or its Sync failed) was never applied to the
   buffer: the table flushed from its journal lacks it and a buffer holding nothing else is dropped without
   a flush.  The model keeps such a record wherever its journal or that table is kept (so its recovery is
   the largest possible), lists it in [f_unknown], and drops a frozen journal that holds nothing else.
   Every operation carries the result the caller sees ([fres]) and batches have three statuses:
   acknowledged ([p_acked]), issued but errored or unacknowledged ([p_issued] only; the journal records of
   errored writes are also in [f_unknown]), never on storage (in neither list).
   Model file: definitions only. *)
From GL Require Export Store.Crash.

Inductive cres := ROk | RErr.

Definition cres_eqb (a b : cres) : bool :=
  match a, b with ROk, ROk => true | RErr, RErr => true | _, _ => false end.

Record fstate := {
  f_p : pstate;                  (* the files (journals with synced prefixes, the current manifest) and the ghost lists *)
  f_m : pstate;                  (* the committed in-memory state (session: journal/sequence numbers, version; db.seq) *)
  f_jfail : bool;                (* db.journalFailed: the last write to the current journal failed; the next write rotates first *)
  f_mfail : bool;                (* s.manifestFailed: the last write to the current manifest failed; the next commit starts a fresh one *)
  f_pend : bool;                 (* the manifest file ends with a record that is not committed in memory *)
  f_txn : option (N * bool);     (* open transaction (holds the write lock): number of records; tr.commitFailed *)
  f_unknown : list batch;        (* journal records of writes that returned an error (since the last restart): never applied to the
                                    buffer, so the table flushed from that journal does not hold them: they are lost whenever their
                                    journal file is superseded, whatever the model's own recovery keeps *)
  f_gone : list batch            (* tables removed by a discard after a failed commit (since the last restart) *)
}.

Definition f_init : fstate :=
  {| f_p := p_init; f_m := p_init; f_jfail := false; f_mfail := false; f_pend := false; f_txn := None;
     f_unknown := []; f_gone := [] |}.

(* ---- pieces ---- *)
Definition set_man (p : pstate) (man : list medit) (ms : nat) : pstate :=
  {| p_live := p_live p; p_frozen := p_frozen p; p_fedit := p_fedit p; p_fseq := p_fseq p; p_man := man; p_msynced := ms;
     p_seq := p_seq p; p_issued := p_issued p; p_acked := p_acked p |}.

Definition set_acked (p : pstate) (a : list batch) : pstate :=
  {| p_live := p_live p; p_frozen := p_frozen p; p_fedit := p_fedit p; p_fseq := p_fseq p; p_man := p_man p; p_msynced := p_msynced p;
     p_seq := p_seq p; p_issued := p_issued p; p_acked := a |}.

(* newManifest: one record = snapshot of the version (all tables), the journal and sequence numbers *)
Definition collapse (es : list medit) : medit :=
  let '(jn, sq, tabs) := replay_man es 0 0 [] in {| m_jnum := Some jn; m_seq := Some sq; m_tab := tabs |}.

(* the fresh manifest is written and synced before CURRENT is switched to it *)
Definition collapse_man (p : pstate) : pstate := set_man p [collapse (p_man p)] 1.

(* a transaction record that reached the manifest although its commit failed: appended, not synced, not
   acknowledged; the sequence numbers it carries are consumed (Commit: the sequence numbers of a failed commit are consumed by the discard) *)
Definition txn_ghost (p : pstate) (n : N) : pstate :=
  match p_frozen p, j_recs (p_live p) with
  | None, [] =>
      if n =? 0 then p else
      let b := {| b_seq := p_seq p + 1; b_n := n |} in
      {| p_live := p_live p; p_frozen := None; p_fedit := false; p_fseq := p_fseq p;
         p_man := p_man p ++ [{| m_jnum := None; m_seq := Some (p_seq p + n); m_tab := [b] |}];
         p_msynced := p_msynced p; p_seq := p_seq p + n; p_issued := p_issued p ++ [b]; p_acked := p_acked p |}
  | _, _ => p
  end.

Inductive fop :=
| FOk (o : pop)                        (* the step of Store/Crash.v, no storage error *)
| FJWrite (n : N) (whole : bool)       (* writeJournal fails in a Write: a prefix of the record's bytes is in the file (whole: all of
                                          them); addSeq; journalFailed *)
| FJSync (n : N)                       (* the record is written, its Sync fails: addSeq; journalFailed *)
| FWriteEarly                          (* the write fails before the journal is touched (flush: compaction error, rotation failed) *)
| FWriteLate (n : N) (sync : bool)     (* journaled (synced if asked) and applied; the rotation after it fails: the caller sees an error *)
| FRotateFail                          (* newMem: Create fails: file number given back, nothing changes *)
| FTableFail                           (* create/write/sync/close of a table fails in a flush, compaction or transaction: retried, no edit *)
| FManFail (o : pop) (reached : bool)  (* flushManifest of the flush / compaction edit [o] fails in the write (reached: the whole record is
                                          in the file) or in the Sync (reached = true): manifestFailed, nothing committed *)
| FFreshFail                           (* newManifest fails (create, write, sync or the CURRENT switch): the new file is removed *)
| FRemoveFail                          (* a Remove fails: the file stays *)
| FTxnBegin (n : N)                    (* OpenTransaction + Write of n records (tables are written on Commit) *)
| FTxnCommit                           (* a commit attempt of the open transaction succeeds *)
| FTxnCommitFail (reached : bool)      (* a commit attempt fails: in flushManifest (reached as above), or in newManifest when
                                          manifestFailed is already set (reached is irrelevant then) *)
| FTxnDiscard (freshok : bool).        (* Discard (also DB.Write's own, and Close's): after a failed commit with manifestFailed set a fresh
                                          manifest is written first (freshok: it succeeds); if it fails the tables stay *)

Definition wr_ok (s : fstate) : bool :=
  negb (f_jfail s) && match f_txn s with None => true | Some _ => false end.

Definition both (s : fstate) (f : pstate -> pstate) : fstate :=
  {| f_p := f (f_p s); f_m := f (f_m s); f_jfail := f_jfail s; f_mfail := f_mfail s; f_pend := f_pend s; f_txn := f_txn s;
     f_unknown := f_unknown s; f_gone := f_gone s |}.

Definition set_jfail (s : fstate) (v : bool) : fstate :=
  {| f_p := f_p s; f_m := f_m s; f_jfail := v; f_mfail := f_mfail s; f_pend := f_pend s; f_txn := f_txn s;
     f_unknown := f_unknown s; f_gone := f_gone s |}.

Definition add_unknown (s : fstate) (b : batch) : fstate :=
  {| f_p := f_p s; f_m := f_m s; f_jfail := f_jfail s; f_mfail := f_mfail s; f_pend := f_pend s; f_txn := f_txn s;
     f_unknown := f_unknown s ++ [b]; f_gone := f_gone s |}.

(* the files become [p], memory commits to the same *)
Definition committed (s : fstate) (p : pstate) (txn : option (N * bool)) (gone : list batch) : fstate :=
  {| f_p := p; f_m := p; f_jfail := f_jfail s; f_mfail := false; f_pend := false; f_txn := txn;
     f_unknown := f_unknown s; f_gone := gone |}.

(* a commit of edit [o] that finds manifestFailed: fresh manifest = snapshot of memory + the edit *)
Definition fresh (s : fstate) (o : pop) (txn : option (N * bool)) (gone : list batch) : fstate :=
  committed s (collapse_man (pstep (f_m s) o)) txn gone.

(* is batch [x] anywhere in the files of [p] *)
Definition resident (p : pstate) (x : batch) : bool :=
  existsb (batch_eqb x)
    (concat (map m_tab (p_man p)) ++ j_recs (p_live p) ++ match p_frozen p with Some f => j_recs f | None => [] end).

(* after a crash or a close nothing of the running DB is left; of the errored records those that recovery
   found are ordinary records from now on, but the tables the MODEL flushed them into keep them, so they stay
   listed as records a real recovery may lack *)
Definition restarted (p : pstate) (unk : list batch) : fstate :=
  {| f_p := p; f_m := p; f_jfail := false; f_mfail := false; f_pend := false; f_txn := None;
     f_unknown := filter (resident p) unk; f_gone := [] |}.

(* memCompaction drops a frozen buffer that holds no entry without writing a table or an edit, and removes its
   journal.  The buffer of a journal whose only record is an errored one is empty (the record was never applied). *)
Definition drop_unsynced (p : pstate) : pstate :=
  match p_frozen p with
  | Some f =>
      if Nat.eqb (j_synced f) 0 && negb (p_fedit p) then
        {| p_live := p_live p; p_frozen := None; p_fedit := false; p_fseq := p_fseq p; p_man := p_man p; p_msynced := p_msynced p;
           p_seq := p_seq p; p_issued := p_issued p; p_acked := p_acked p |}
      else p
  | None => p
  end.

Definition grew (p p' : pstate) : bool := Nat.ltb (length (p_man p)) (length (p_man p')).

(* flushManifest of edit [o]: written to the file; committed in memory only once its Sync has returned *)
Definition append_edit (s : fstate) (o : pop) : fstate :=
  if f_pend s then s else
  let p' := pstep (f_p s) o in
  {| f_p := p'; f_m := f_m s; f_jfail := f_jfail s; f_mfail := f_mfail s; f_pend := grew (f_p s) p'; f_txn := f_txn s;
     f_unknown := f_unknown s; f_gone := f_gone s |}.

Definition no_txn (s : fstate) : bool := match f_txn s with None => true | Some _ => false end.

Definition errored_only (s : fstate) : bool :=
  match p_frozen (f_m s) with
  | Some f => match j_recs f with [x] => existsb (batch_eqb x) (f_unknown s) | _ => false end
  | None => false
  end.

Definition pre_drop (s : fstate) (p : pstate) : pstate := if errored_only s then drop_unsynced p else p.

(* OpenTransaction rotates the journal only if the live buffer holds an entry.  When the live journal's only
   record is an errored one the buffer is empty and the transaction begins at once; the record it carries is
   numbered below the transaction and recovery will skip it as soon as the transaction's record is durable.
   The model forgets it when the transaction begins (a real crash before that record is durable may still
   recover it: the one place where a real recovery can hold an errored record that the model's lacks). *)
Definition clear_live (p : pstate) : pstate :=
  match j_recs (p_live p) with
  | [_] =>
      if Nat.eqb (j_synced (p_live p)) 0 then
        {| p_live := {| j_num := j_num (p_live p); j_recs := []; j_synced := 0 |}; p_frozen := p_frozen p; p_fedit := p_fedit p;
           p_fseq := p_fseq p; p_man := p_man p; p_msynced := p_msynced p; p_seq := p_seq p; p_issued := p_issued p; p_acked := p_acked p |}
      else p
  | _ => p
  end.

Definition errored_live (s : fstate) : bool :=
  match j_recs (p_live (f_m s)) with [x] => existsb (batch_eqb x) (f_unknown s) | _ => false end.

Definition pre_txn (s : fstate) (p : pstate) : pstate := if errored_live s then clear_live p else p.

Definition fstep (s : fstate) (o : fop) : fstate :=
  match o with
  | FOk (PWrite n sync) => if wr_ok s then both s (fun p => pstep p (PWrite n sync)) else s
  | FOk PSyncJournal => if f_jfail s then s else both s (fun p => pstep p PSyncJournal)
  | FOk PRotate =>
      (* newMem under the write lock; resets db.journalFailed when it switches the journal *)
      if no_txn s then
        let s' := both s (fun p => pstep p PRotate) in
        match p_frozen (f_m s) with None => set_jfail s' false | Some _ => s' end
      else s
  | FOk PFlushEdit => if f_mfail s then fresh s PFlushEdit (f_txn s) (f_gone s) else append_edit s PFlushEdit
  | FOk PCompactEdit => if f_mfail s then fresh s PCompactEdit (f_txn s) (f_gone s) else append_edit s PCompactEdit
  | FOk PManSync =>
      (* the manifest Sync returns: the record is durable and the commit is applied in memory *)
      if f_mfail s then s else committed s (pstep (f_p s) PManSync) (f_txn s) (f_gone s)
  | FOk PDropFrozen => both s (fun p => pstep (pre_drop s p) PDropFrozen)
  | FOk (PTxnCommit n) =>
      (* OpenTransaction, Write, Commit without error *)
      if no_txn s then
        let s0 := both s (pre_txn s) in
        if f_mfail s0 then fresh s0 (PTxnCommit n) None (f_gone s0)
        else if f_pend s0 then s0 else committed s0 (pstep (f_p s0) (PTxnCommit n)) None (f_gone s0)
      else s
  | FOk (PSkipSeq n) => both s (fun p => pstep p (PSkipSeq n))
  | FOk (PRestart kl kf km) => restarted (pstep (f_p s) (PRestart kl kf km)) (f_unknown s)
  | FOk PReopen =>
      (* clean close and reopen: Open reads the files as they are and installs a fresh manifest before it
         removes anything (crash points inside Open before that leave the files of the state before the close) *)
      if no_txn s then restarted (pstep (collapse_man (f_p s)) PReopen) (f_unknown s) else s
  | FJWrite n whole =>
      if wr_ok s && negb (n =? 0) then
        let b := {| b_seq := p_seq (f_m s) + 1; b_n := n |} in
        if whole then set_jfail (add_unknown (both s (fun p => pstep p (PWrite n false))) b) true
        else set_jfail (both s (fun p => pstep p (PSkipSeq n))) true
      else s
  | FJSync n =>
      if wr_ok s && negb (n =? 0) then
        let b := {| b_seq := p_seq (f_m s) + 1; b_n := n |} in
        set_jfail (add_unknown (both s (fun p => pstep p (PWrite n false))) b) true
      else s
  | FWriteEarly => s
  | FWriteLate n sync =>
      if wr_ok s then both s (fun p => set_acked (pstep p (PWrite n sync)) (p_acked p)) else s
  | FRotateFail => s
  | FTableFail => s
  | FManFail o reached =>
      match o with
      | PFlushEdit | PCompactEdit =>
          if f_mfail s || f_pend s then s else
          let s' := if reached then append_edit s o else s in
          {| f_p := f_p s'; f_m := f_m s'; f_jfail := f_jfail s'; f_mfail := true; f_pend := f_pend s'; f_txn := f_txn s';
             f_unknown := f_unknown s'; f_gone := f_gone s' |}
      | _ => s
      end
  | FFreshFail => s
  | FRemoveFail => s
  | FTxnBegin n =>
      let s0 := both s (pre_txn s) in
      match f_txn s, p_frozen (f_m s0), j_recs (p_live (f_m s0)) with
      | None, None, [] => if n =? 0 then s else
          {| f_p := f_p s0; f_m := f_m s0; f_jfail := f_jfail s; f_mfail := f_mfail s; f_pend := f_pend s; f_txn := Some (n, false);
             f_unknown := f_unknown s; f_gone := f_gone s |}
      | _, _, _ => s
      end
  | FTxnCommit =>
      match f_txn s with
      | Some (n, _) =>
          if f_mfail s then fresh s (PTxnCommit n) None (f_gone s)
          else if f_pend s then s else committed s (pstep (f_p s) (PTxnCommit n)) None (f_gone s)
      | None => s
      end
  | FTxnCommitFail reached =>
      match f_txn s with
      | Some (n, _) =>
          if f_mfail s then
            {| f_p := f_p s; f_m := f_m s; f_jfail := f_jfail s; f_mfail := true; f_pend := f_pend s; f_txn := Some (n, true);
               f_unknown := f_unknown s; f_gone := f_gone s |}
          else if f_pend s then s
          else
            {| f_p := if reached then txn_ghost (f_p s) n else f_p s; f_m := f_m s; f_jfail := f_jfail s; f_mfail := true;
               f_pend := reached; f_txn := Some (n, true); f_unknown := f_unknown s; f_gone := f_gone s |}
      | None => s
      end
  | FTxnDiscard freshok =>
      match f_txn s with
      | Some (n, failed) =>
          (* the sequence numbers of a failed commit are consumed (Commit: the sequence numbers of a failed commit are consumed by the discard; in the
             file view they already are when the record reached the manifest): both views continue from
             the same number *)
          let b := {| b_seq := p_seq (f_m s) + 1; b_n := n |} in
          let t := N.max (p_seq (f_p s)) (p_seq (f_m s) + (if failed then n else 0)) in
          let m1 := pstep (f_m s) (PSkipSeq (t - p_seq (f_m s))) in
          let p1 := pstep (f_p s) (PSkipSeq (t - p_seq (f_p s))) in
          if failed then
            if f_mfail s then
              if freshok then committed s (collapse_man m1) None (f_gone s ++ [b])
              else {| f_p := p1; f_m := m1; f_jfail := f_jfail s; f_mfail := true; f_pend := f_pend s; f_txn := None;
                      f_unknown := f_unknown s; f_gone := f_gone s |}
            else {| f_p := p1; f_m := m1; f_jfail := f_jfail s; f_mfail := false; f_pend := f_pend s; f_txn := None;
                    f_unknown := f_unknown s; f_gone := f_gone s ++ [b] |}
          else
            {| f_p := p1; f_m := m1; f_jfail := f_jfail s; f_mfail := f_mfail s; f_pend := f_pend s; f_txn := None;
               f_unknown := f_unknown s; f_gone := f_gone s |}
      | None => s
      end
  end.

Definition frun_from (s : fstate) (ops : list fop) : fstate := fold_left fstep ops s.
Definition frun (ops : list fop) : fstate := frun_from f_init ops.

(* what the caller of the operation sees *)
Definition fres (s : fstate) (o : fop) : cres :=
  match o with
  | FOk (PWrite _ _) => if wr_ok s then ROk else RErr
  | FOk (PTxnCommit _) => if no_txn s && (f_mfail s || negb (f_pend s)) then ROk else RErr
  | FOk _ => ROk
  | FTxnBegin _ => if no_txn s then ROk else RErr
  | FTxnCommit => match f_txn s with Some _ => if f_mfail s || negb (f_pend s) then ROk else RErr | None => RErr end
  | FTxnDiscard _ => ROk
  | _ => RErr
  end.

(* ---- recovery as Open sees it: it fails when the manifest names a table that was removed ---- *)
Definition names_gone (s : fstate) (img : image) : bool :=
  existsb (fun g => existsb (batch_eqb g) (concat (map m_tab (i_man img)))) (f_gone s).

Definition frecover (s : fstate) (img : image) : option (list batch) :=
  if names_gone s img then None else Some (recover img).

(* what a real recovery may return where the model's returns [l]: the errored journal records may be missing *)
Inductive sublist {A : Type} : list A -> list A -> Prop :=
| sl_nil : sublist [] []
| sl_skip x l1 l2 : sublist l1 l2 -> sublist l1 (x :: l2)
| sl_keep x l1 l2 : sublist l1 l2 -> sublist (x :: l1) (x :: l2).

(* the sequence that brings any state back to accepting and acknowledging a synced write (no fault active):
   discard an open transaction, finish a pending commit and the pending flush, rotate, write *)
Definition heal_ops : list fop :=
  [FTxnDiscard true; FOk PManSync; FOk PFlushEdit; FOk PManSync; FOk PDropFrozen; FOk PRotate; FOk (PWrite 1 true)].
