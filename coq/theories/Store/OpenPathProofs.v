(* Store/OpenPathProofs.v — Open as a whole (Store/OpenPath.v open_bytes) on byte-level crash images.
   Proof file.  Composes, without re-proving anything of theirs:
     Store/CrashBytesProofs.v   what the tolerant journal reader yields on a crash image of a journal-format file
                                (crash_bytes_prefix: a prefix of the written records that contains the synced ones)
     Store/ManifestReplayProofs.v  session.recover on records that decode (manifest_replay, manifest_replay_abs)
     Store/OpenJournalProofs.v  the replay of written journal records into the buffer
     Store/CrashProofs.v        crash_safe of the record-level model
     Lsm/BatchWriteProofs.v     the byte-level read after a replayed group (write_wf, get_after_write)            *)
From Coq Require Import List NArith ZArith Bool Lia.
From GL Require Import Base.Bytes Base.Order Codec.IKey Codec.Journal Codec.JournalSpec Codec.JournalProofs
  Codec.Batch Codec.BatchProofs Codec.BatchGroupProofs Codec.SessionRecordSpec Codec.SessionRecordProofs
  Lsm.Lsm Lsm.History Lsm.HistoryProofs Lsm.ReadPath Lsm.ReadPathMem Lsm.BatchWriteProofs
  Store.Crash Store.CrashProofs Store.CrashBytes Store.CrashBytesProofs Store.ManifestReplayProofs
  Store.OpenPath Store.OpenJournalProofs.
From GL Require Mem.MemDB Mem.MemOps Mem.MemInv Store.Sweep.
Import ListNotations.
Open Scope N_scope.

(* ---------------------------------------------------------------- raw records of a journal-format file *)
Definition raw_id (x : bytes) : bytes := x.
Definition raw_some (x : bytes) : option bytes := Some x.

Lemma keep_decoded_raw l : keep_decoded bytes raw_some l = l.
Proof. induction l as [|x l IH]; [reflexivity|]. cbn [keep_decoded flat_map raw_some app]. f_equal. exact IH. Qed.

Lemma dec_ok_raw l : dec_ok bytes raw_id raw_some l.
Proof. apply Forall_forall. intros x _. reflexivity. Qed.

(* d is what a crash can leave of a journal-format file into which the records raws were written, the first k of
   them synced (Store/CrashBytes.v is_crash_bytes with the records as they are) *)
Definition is_crash_file (crc : bytes -> N) (p : jparams) (ck : bool) (raws : list bytes) (k : nat) (d : bytes) : Prop :=
  is_crash_bytes crc p raw_id ck raws k d.

(* the tolerant reader on such a file: clean outcomes whose records are a prefix containing the synced ones *)
Lemma crash_file_records crc p (pok : jparams_ok p) ck raws k d : is_crash_file crc p ck raws k d ->
  exists k', (k <= k')%nat /\ recs_of (jread crc p false ck d) = firstn k' raws.
Proof.
  intros H. destruct (crash_bytes_prefix crc p pok bytes raw_id raw_some ck raws k d (dec_ok_raw raws) H) as (k' & Hk & E).
  exists k'. split; [exact Hk|]. unfold recover_bytes, recover_records in E. rewrite keep_decoded_raw in E. exact E.
Qed.

Lemma upto_err_clean l : Forall clean_outcome l -> exists l', upto_err l = (l', None) /\ recs_of l' = recs_of l.
Proof.
  induction 1 as [|x l Hx Hl (l' & E & R)]; [exists []; split; reflexivity|].
  destruct x; try contradiction; cbn [upto_err]; rewrite ?E.
  - exists (Rec b :: l'). split; [reflexivity|]. cbn [recs_of flat_map app]. f_equal. exact R.
  - exists (Skipped :: l'). split; [reflexivity|]. exact R.
  - exists l'. split; [reflexivity|exact R].
Qed.

Section OpenProofs.
  Variable jcrc : bytes -> N.
  Variable jp : jparams.
  Hypothesis jpok : jparams_ok jp.
  Variable rp : SR.rparams.
  Hypothesis rpok : rparams_ok rp.
  Variable kp : kparams.
  Hypothesis kpok : kparams_ok kp.
  Hypothesis seek_val : keyTypeSeek kp <= keyTypeVal kp.
  Variable mp : MemDB.mparams.
  Hypothesis mpok : MemDB.mparams_ok mp.
  Variable tp : Table.tparams.
  Variable tcrc : bytes -> N.
  Variable compress : bytes -> bytes.
  Variable snappy : bool.
  Variable fgen : option (bytes * (list (N * list bytes) -> bytes)).
  Variable blockSize ri : N.
  Variable c : comparer.
  Hypothesis cok : comparer_ok c.

  Local Notation bhl := 12.
  Local Notation srecover := (OpenPath.session_recover jcrc jp rp c).

  (* ---------------------------------------------------------------- the manifest *)
  (* a manifest record as written: the record and its bytes, which decode to it *)
  Definition mrec_ok (x : SR.srec * bytes) : Prop := SR.decode rp SR.sr_empty (snd x) = SR.DOk (fst x).

  Lemma mrecs_forall2 (l : list (SR.srec * bytes)) : Forall mrec_ok l ->
    Forall2 (fun b r => SR.decode rp SR.sr_empty b = SR.DOk r) (map snd l) (map fst l).
  Proof. induction 1 as [|x l Hx Hl IH]; cbn [map]; constructor; assumption. Qed.

  Definition sort_levels (lv : list (list SR.atrec)) : list (list SR.atrec) :=
    map (fun lt => sort_level c (fst lt) (snd lt)) (combine (seq 0 (length lv)) lv).

  (* session.recover on a crash image of the manifest: it reads a prefix of the records that contains the synced
     ones and installs what replay_result says of that prefix *)
  Lemma session_recover_written o m mrecs ks d :
    oo_strict_man o = false -> Forall mrec_ok mrecs -> is_crash_file jcrc jp true (map snd mrecs) ks d ->
    (forall k, (ks <= k)%nat -> exists j pj nf q live cps,
       replay_result rp (oo_cmp_name o) (firstn k (map fst mrecs)) = SpecOk j pj nf q live cps) ->
    exists k j pj nf q live cps s lv,
      (ks <= k)%nat /\
      replay_result rp (oo_cmp_name o) (firstn k (map fst mrecs)) = SpecOk j pj nf q live cps /\
      srecover o m d = OOk s /\
      s_next s = nf /\ s_jnum s = j /\ s_prev s = pj /\ s_seq s = q /\ s_manfd s = Z.of_N m /\ s_hasman s = false /\
      s_levels s = sort_levels lv /\ (forall l : nat, nth l lv [] = live_at (Z.of_nat l) live).
  Proof.
    intros Hns Hrecs Hcb Hman.
    destruct (crash_file_records jcrc jp jpok true _ _ _ Hcb) as (k & Hk & Erecs).
    destruct (Hman k Hk) as (j & pj & nf & q & live & cps & Espec).
    destruct (upto_err_clean _ (jread_tolerant_clean jcrc jp jpok true d)) as (l' & Eup & Erl).
    assert (F2 : Forall2 (fun b r => SR.decode rp SR.sr_empty b = SR.DOk r)
                         (recs_of l') (firstn k (map fst mrecs))).
    { rewrite Erl, Erecs, !firstn_map. apply mrecs_forall2.
      apply Forall_forall. intros x Hx. rewrite Forall_forall in Hrecs. apply Hrecs. eapply in_firstn; exact Hx. }
    pose proof (manifest_replay rp rpok false (oo_cmp_name o) _ _ F2) as Hag.
    rewrite Espec in Hag. unfold agrees in Hag.
    destruct (SR.session_recover rp false (oo_cmp_name o) (recs_of l')) as [st|f] eqn:Esr; [|contradiction].
    destruct Hag as (Ej & Epj & Enf & Eq & Hlv & _).
    exists k, j, pj, nf, q, live, cps. eexists. exists (SR.ss_levels st).
    split; [exact Hk|]. split; [exact Espec|]. split.
    - unfold OpenPath.session_recover. rewrite Hns, Eup, Esr. reflexivity.
    - cbn [s_next s_jnum s_prev s_seq s_manfd s_hasman s_levels].
      repeat split; try assumption; reflexivity.
  Qed.

  (* ---------------------------------------------------------------- the journals *)
  Local Notation jbatch := OpenJournalProofs.jbatch.
  Local Notation jb_ok := (OpenJournalProofs.jb_ok kp).
  Local Notation jb_enc := (OpenJournalProofs.jb_enc kp).
  Local Notation jb_entries := (OpenJournalProofs.jb_entries kp).
  Local Notation minv := (OpenJournalProofs.mem_inv kp mp c).
  Local Notation loop_ro := (rj_loop_ro jcrc jp rp kp bhl mp tp tcrc compress snappy fgen blockSize ri c).

  (* a journal file: its number, the batches written to it, how many of them were synced *)
  Record jdesc := mkJD { jd_num : N; jd_bs : list jbatch; jd_synced : nat }.

  Definition jfile_ok (ck : bool) (fs : files) (jd : jdesc) : Prop :=
    Forall jb_ok (jd_bs jd) /\
    exists d, f_lookup fs (SW.FJournal, jd_num jd) = Some d /\
              is_crash_file jcrc jp ck (map jb_enc (jd_bs jd)) (jd_synced jd) d.

  (* what a crash kept of the journals sel: per journal a prefix of its batches that contains the synced ones *)
  Definition kept_prefixes (sel : list jdesc) (bss : list (list jbatch)) : Prop :=
    Forall2 (fun jd bs => exists k, (jd_synced jd <= k)%nat /\ bs = firstn k (jd_bs jd)) sel bss.

  Lemma loop_ro_written o sel : oo_strict_j o = false -> forall st,
    Forall (jfile_ok (oo_jck o) (c_files (r_c st))) sel -> minv st ->
    exists bss st', kept_prefixes sel bss /\
      loop_ro o (map jd_num sel) st = OOk st' /\ r_c st' = r_c st /\ minv st' /\
      r_seq st' = snd (accepted (concat bss) (r_seq st)) /\
      r_kept st' = r_kept st ++ map jb_pair (fst (accepted (concat bss) (r_seq st))) /\
      (forall x, In x (mem_entries mp (Some (r_mdb st'))) <->
                 In x (mem_entries mp (Some (r_mdb st))) \/
                 In x (flat_map jb_entries (fst (accepted (concat bss) (r_seq st))))).
  Proof.
    intros Hns. induction sel as [|jd sel IH]; intros st Hsel Hinv.
    - exists [], st. split; [constructor|]. cbn [map rj_loop_ro concat accepted fst snd flat_map]. rewrite app_nil_r.
      split; [reflexivity|]. split; [reflexivity|]. split; [exact Hinv|]. split; [reflexivity|]. split; [reflexivity|].
      intros x. split; [intros H; left; exact H|intros [H|[]]; exact H].
    - inversion Hsel as [|? ? (Hbs & d & Ed & Hcb) Hrest]; subst.
      destruct (crash_file_records jcrc jp jpok (oo_jck o) _ _ _ Hcb) as (k & Hk & Erecs).
      cbn [map rj_loop_ro]. unfold journal_bytes. rewrite Ed, Hns.
      rewrite (replay_outcomes_recs rp kp mp tp tcrc compress snappy fgen blockSize ri c o false (jd_num jd) _
                 (jread_tolerant_clean jcrc jp jpok (oo_jck o) d) st).
      rewrite Erecs, firstn_map.
      assert (Hbk : Forall jb_ok (firstn k (jd_bs jd))).
      { apply Forall_forall. intros x Hx. rewrite Forall_forall in Hbs. apply Hbs. eapply in_firstn; exact Hx. }
      destruct (replay_recs_written rp kp kpok seek_val mp mpok tp tcrc compress snappy fgen blockSize ri c cok
                  o (jd_num jd) _ Hns Hbk st Hinv) as (st1 & E1 & Ec1 & _ & Hinv1 & Es1 & Ek1 & Hin1).
      rewrite E1. cbn [obind].
      assert (Hsel1 : Forall (jfile_ok (oo_jck o) (c_files (r_c st1))) sel) by (rewrite Ec1; exact Hrest).
      destruct (IH st1 Hsel1 Hinv1) as (bss & st' & Hp & E' & Ec' & Hinv' & Es' & Ek' & Hin').
      exists (firstn k (jd_bs jd) :: bss), st'. split.
      { constructor; [exists k; split; [exact Hk|reflexivity]|exact Hp]. }
      split; [exact E'|]. split; [congruence|]. split; [exact Hinv'|].
      cbn [concat]. rewrite accepted_app. cbn [fst snd]. rewrite <- Es1.
      split; [exact Es'|]. split.
      + rewrite Ek', Ek1, map_app, app_assoc. reflexivity.
      + intros x. rewrite Hin', Hin1, flat_map_app, in_app_iff. tauto.
  Qed.

  (* ---------------------------------------------------------------- a fresh buffer *)
  Lemma new_mem_ok : exists d, MemDB.mdb_new mp = MemDB.Ok d /\ mem_ok c kp mp d /\ mem_entries mp (Some d) = [].
  Proof.
    destruct (MemOps.new_ok (ibc c) mp mpok) as (d & E & (I & Eabs & _)).
    exists d. split; [exact E|].
    assert (Ep : mem_pairs mp d = []).
    { rewrite (mem_pairs_abs c kp seek_val mp mpok d [] [] I). exact Eabs. }
    split.
    - split; [exists [], []; exact I|]. unfold mem_keys_okb. rewrite Ep. reflexivity.
    - cbn [mem_entries]. rewrite Ep. reflexivity.
  Qed.

  Lemma filter_map_comm {A B} (f : A -> B) (P : B -> bool) l :
    filter P (map f l) = map f (filter (fun x => P (f x)) l).
  Proof. induction l as [|x l IH]; [reflexivity|]. cbn [map filter]. destruct (P (f x)); cbn [map]; now rewrite IH. Qed.

  (* ---------------------------------------------------------------- the image *)
  (* img is a crash image of: the manifest m holding the records mrecs (ks of them synced) to which the meta
     pointer points, and the journal files js (ascending), each a crash image of its batches *)
  Definition image_ok (o : oopts) (img : simage) (m : N) (mrecs : list (SR.srec * bytes)) (ks : nat)
      (js : list jdesc) : Prop :=
    si_meta img = Some m /\
    (exists d, f_lookup (si_files img) (SW.FManifest, m) = Some d /\
               is_crash_file jcrc jp true (map snd mrecs) ks d) /\
    Forall mrec_ok mrecs /\
    SW.nsort (SW.journals_of (f_list (si_files img))) = map jd_num js /\
    Forall (jfile_ok (oo_jck o) (si_files img)) js.

  (* every admissible prefix of the manifest passes session.recover's checks *)
  Definition manifest_ok (o : oopts) (mrecs : list (SR.srec * bytes)) (ks : nat) : Prop :=
    forall k, (ks <= k)%nat -> exists j pj nf q live cps,
      replay_result rp (oo_cmp_name o) (firstn k (map fst mrecs)) = SpecOk j pj nf q live cps.

  Definition selected (j pj : Z) (js : list jdesc) : list jdesc :=
    filter (fun jd => SW.jsel (Z.to_N j) (Z.to_N pj) (jd_num jd)) js.

  Local Notation openb := (open_bytes jcrc jp rp kp bhl mp tp tcrc compress snappy fgen blockSize ri c).

  (* Open, read-only, on a crash image *)
  Theorem open_ro_written o hts img m mrecs ks js :
    oo_strict_man o = false -> oo_strict_j o = false -> oo_ro o = true -> oo_err_exist o = false ->
    heights_okl mp hts -> image_ok o img m mrecs ks js -> manifest_ok o mrecs ks ->
    exists k j pj nf q live cps lv bss r d,
      (ks <= k)%nat /\
      replay_result rp (oo_cmp_name o) (firstn k (map fst mrecs)) = SpecOk j pj nf q live cps /\
      kept_prefixes (selected j pj js) bss /\
      openb o hts img = OOk r /\
      os_seq r = snd (accepted (concat bss) q) /\
      os_kept r = map jb_pair (fst (accepted (concat bss) q)) /\
      os_bs r = mkBS (Some d) None (levels_of (si_files img) (sort_levels lv)) /\
      (forall l : nat, nth l lv [] = live_at (Z.of_nat l) live) /\
      mem_ok c kp mp d /\
      (forall x, In x (mem_entries mp (Some d)) <-> In x (flat_map jb_entries (fst (accepted (concat bss) q)))) /\
      os_image r = img /\ os_removed r = [] /\ os_journal r = None.
  Proof.
    intros Hsm Hsj Hro Hee Hh (Hmeta & (dm & Edm & Hcb) & Hrecs & Hlist & Hjs) Hman.
    destruct (session_recover_written o m mrecs ks dm Hsm Hrecs Hcb Hman)
      as (k & j & pj & nf & q & live & cps & s & lv & Hk & Espec & Es & Enf & Ej & Epj & Eq & Emf & Ehm & Elv & Hlv).
    destruct new_mem_ok as (d0 & Enew & Hm0 & Hent0).
    set (cs := mkC (si_files img) (Some m) s [] []).
    set (st0 := mkRJ cs SR.sr_empty (s_seq (c_sess cs)) d0 hts []).
    assert (Hinv0 : minv st0).
    { unfold OpenJournalProofs.mem_inv, st0. cbn [r_mdb r_hts r_seq]. split; [exact Hm0|]. split; [exact Hh|].
      intros x Hx. rewrite Hent0 in Hx. destruct Hx. }
    assert (Esel : jsel_list (c_sess cs) (c_files cs) = map jd_num (selected j pj js)).
    { unfold jsel_list, SW.rj_select, cs, selected. cbn [c_files c_sess]. rewrite Hlist, Ej, Epj. apply filter_map_comm. }
    assert (Hsel : Forall (jfile_ok (oo_jck o) (c_files (r_c st0))) (selected j pj js)).
    { unfold st0, cs, selected. cbn [r_c c_files]. apply Forall_forall. intros x Hx. apply filter_In in Hx as [Hx _].
      rewrite Forall_forall in Hjs. exact (Hjs x Hx). }
    destruct (loop_ro_written o (selected j pj js) Hsj st0 Hsel Hinv0)
      as (bss & st' & Hp & El & Ec & Hinv' & Es' & Ek' & Hin').
    exists k, j, pj, nf, q, live, cps, lv, bss. eexists. exists (r_mdb st').
    split; [exact Hk|]. split; [exact Espec|]. split; [exact Hp|]. split.
    - unfold open_bytes, manifest_of. rewrite Hmeta, Edm. cbn [option_map obind]. rewrite Es. cbn [obind].
      rewrite Hee, Hro. unfold open_ro. rewrite Enew. cbn [of_mres obind]. fold cs. rewrite Esel.
      fold st0. rewrite El. cbn [obind]. reflexivity.
    - cbn [os_seq os_kept os_bs os_image os_removed os_journal]. unfold cs. cbn [c_files c_meta c_sess].
      unfold st0, cs in Es', Ek', Hin'. cbn [r_seq r_kept r_mdb app c_sess] in Es', Ek', Hin'. rewrite Eq in Es', Ek', Hin'.
      split; [exact Es'|]. split; [exact Ek'|]. split; [rewrite Elv; reflexivity|]. split; [exact Hlv|].
      split; [exact (proj1 Hinv')|]. split.
      + intros x. rewrite Hin', Hent0. cbn [In]. tauto.
      + split; [destruct img as [mt fs]; cbn [si_meta si_files] in *; rewrite Hmeta; reflexivity|]. split; reflexivity.
  Qed.
End OpenProofs.
