(* Store/OpenPathProofs.v — Open as a whole (Store/OpenPath.v open_bytes) on byte-level crash images.
   Proof file.  Composes, without re-proving anything of theirs:
     Store/CrashBytesProofs.v   what the tolerant journal reader yields on a crash image of a journal-format file
                                (crash_bytes_prefix: a prefix of the written records that contains the synced ones)
     Store/ManifestReplayProofs.v  session.recover on records that decode (manifest_replay, manifest_replay_abs)
     Store/OpenJournalProofs.v  the replay of written journal records into the buffer
     Store/CrashProofs.v        crash_safe of the record-level model
     Lsm/BatchWriteProofs.v     the byte-level read after a replayed group (write_wf, get_after_write)            *)
From Coq Require Import List NArith ZArith Bool Lia.
From GL Require Import Base.Bytes Base.Order Codec.IKey Codec.Journal Codec.JournalSpec Codec.JournalProofs
  Codec.Batch Codec.BatchProofs Codec.BatchGroupProofs Codec.SessionRecordSpec Codec.SessionRecordProofs
  Lsm.Lsm Lsm.History Lsm.HistoryProofs Lsm.ReadPath Lsm.ReadPathMem Lsm.BatchWriteProofs
  Store.Crash Store.CrashProofs Store.CrashBytes Store.CrashBytesProofs Store.ManifestReplayProofs
  Store.OpenPath Store.OpenJournalProofs.
From GL Require Mem.MemDB Mem.MemOps Mem.MemInv Store.Sweep Store.FileStorageProofs Store.FileStorageCrashProofs.
Import ListNotations.
Open Scope N_scope.

(* ---------------------------------------------------------------- raw records of a journal-format file *)
Definition raw_id (x : bytes) : bytes := x.
Definition raw_some (x : bytes) : option bytes := Some x.

Lemma keep_decoded_raw l : keep_decoded bytes raw_some l = l.
Proof. induction l as [|x l IH]; [reflexivity|]. cbn [keep_decoded flat_map raw_some app]. f_equal. exact IH. Qed.

Lemma dec_ok_raw l : dec_ok bytes raw_id raw_some l.
Proof. apply Forall_forall. intros x _. reflexivity. Qed.

(* d is what a crash can leave of a journal-format file into which the records raws were written, the first k of
   them synced (Store/CrashBytes.v is_crash_bytes with the records as they are) *)
Definition is_crash_file (crc : bytes -> N) (p : jparams) (ck : bool) (raws : list bytes) (k : nat) (d : bytes) : Prop :=
  is_crash_bytes crc p raw_id ck raws k d.

(* the tolerant reader on such a file: clean outcomes whose records are a prefix containing the synced ones *)
Lemma crash_file_records crc p (pok : jparams_ok p) ck raws k d : is_crash_file crc p ck raws k d ->
  exists k', (k <= k')%nat /\ recs_of (jread crc p false ck d) = firstn k' raws.
Proof.
  intros H. destruct (crash_bytes_prefix crc p pok bytes raw_id raw_some ck raws k d (dec_ok_raw raws) H) as (k' & Hk & E).
  exists k'. split; [exact Hk|]. unfold recover_bytes, recover_records in E. rewrite keep_decoded_raw in E. exact E.
Qed.

Lemma upto_err_clean l : Forall clean_outcome l -> exists l', upto_err l = (l', None) /\ recs_of l' = recs_of l.
Proof.
  induction 1 as [|x l Hx Hl (l' & E & R)]; [exists []; split; reflexivity|].
  destruct x; try contradiction; cbn [upto_err]; rewrite ?E.
  - exists (Rec b :: l'). split; [reflexivity|]. cbn [recs_of flat_map app]. f_equal. exact R.
  - exists (Skipped :: l'). split; [reflexivity|]. exact R.
  - exists l'. split; [reflexivity|exact R].
Qed.

Definition olist {A} (o : option A) : list A := match o with Some a => [a] | None => [] end.

Section OpenProofs.
  Variable jcrc : bytes -> N.
  Variable jp : jparams.
  Hypothesis jpok : jparams_ok jp.
  Variable rp : SR.rparams.
  Hypothesis rpok : rparams_ok rp.
  Variable kp : kparams.
  Hypothesis kpok : kparams_ok kp.
  Hypothesis seek_val : keyTypeSeek kp <= keyTypeVal kp.
  Variable mp : MemDB.mparams.
  Hypothesis mpok : MemDB.mparams_ok mp.
  Variable tp : Table.tparams.
  Variable tcrc : bytes -> N.
  Variable compress : bytes -> bytes.
  Variable snappy : bool.
  Variable fgen : option (bytes * (list (N * list bytes) -> bytes)).
  Variable blockSize ri : N.
  Variable c : comparer.
  Hypothesis cok : comparer_ok c.

  Local Notation bhl := 12.
  Local Notation srecover := (OpenPath.session_recover jcrc jp rp c).

  (* ---------------------------------------------------------------- the manifest *)
  (* a manifest record as written: the record and its bytes, which decode to it *)
  Definition mrec_ok (x : SR.srec * bytes) : Prop := SR.decode rp SR.sr_empty (snd x) = SR.DOk (fst x).

  Lemma mrecs_forall2 (l : list (SR.srec * bytes)) : Forall mrec_ok l ->
    Forall2 (fun b r => SR.decode rp SR.sr_empty b = SR.DOk r) (map snd l) (map fst l).
  Proof. induction 1 as [|x l Hx Hl IH]; cbn [map]; constructor; assumption. Qed.

  Definition sort_levels (lv : list (list SR.atrec)) : list (list SR.atrec) :=
    map (fun lt => sort_level c (fst lt) (snd lt)) (combine (seq 0 (length lv)) lv).

  (* session.recover on a crash image of the manifest: it reads a prefix of the records that contains the synced
     ones and installs what replay_result says of that prefix *)
  Lemma session_recover_written o m mrecs ks d :
    oo_strict_man o = false -> Forall mrec_ok mrecs -> is_crash_file jcrc jp true (map snd mrecs) ks d ->
    (forall k, (ks <= k)%nat -> exists j pj nf q live cps,
       replay_result rp (oo_cmp_name o) (firstn k (map fst mrecs)) = SpecOk j pj nf q live cps) ->
    exists k j pj nf q live cps s lv,
      (ks <= k)%nat /\
      replay_result rp (oo_cmp_name o) (firstn k (map fst mrecs)) = SpecOk j pj nf q live cps /\
      srecover o m d = OOk s /\
      s_next s = nf /\ s_jnum s = j /\ s_prev s = pj /\ s_seq s = q /\ s_manfd s = Z.of_N m /\ s_hasman s = false /\
      s_levels s = sort_levels lv /\ (forall l : nat, nth l lv [] = live_at (Z.of_nat l) live).
  Proof.
    intros Hns Hrecs Hcb Hman.
    destruct (crash_file_records jcrc jp jpok true _ _ _ Hcb) as (k & Hk & Erecs).
    destruct (Hman k Hk) as (j & pj & nf & q & live & cps & Espec).
    destruct (upto_err_clean _ (jread_tolerant_clean jcrc jp jpok true d)) as (l' & Eup & Erl).
    assert (F2 : Forall2 (fun b r => SR.decode rp SR.sr_empty b = SR.DOk r)
                         (recs_of l') (firstn k (map fst mrecs))).
    { rewrite Erl, Erecs, !firstn_map. apply mrecs_forall2.
      apply Forall_forall. intros x Hx. rewrite Forall_forall in Hrecs. apply Hrecs. eapply in_firstn; exact Hx. }
    pose proof (manifest_replay rp rpok false (oo_cmp_name o) _ _ F2) as Hag.
    rewrite Espec in Hag. unfold agrees in Hag.
    destruct (SR.session_recover rp false (oo_cmp_name o) (recs_of l')) as [st|f] eqn:Esr; [|contradiction].
    destruct Hag as (Ej & Epj & Enf & Eq & Hlv & _).
    exists k, j, pj, nf, q, live, cps. eexists. exists (SR.ss_levels st).
    split; [exact Hk|]. split; [exact Espec|]. split.
    - unfold OpenPath.session_recover. rewrite Hns, Eup, Esr. reflexivity.
    - cbn [s_next s_jnum s_prev s_seq s_manfd s_hasman s_levels].
      repeat split; try assumption; reflexivity.
  Qed.

  (* ---------------------------------------------------------------- the journals *)
  Local Notation jbatch := OpenJournalProofs.jbatch.
  Local Notation jb_ok := (OpenJournalProofs.jb_ok kp).
  Local Notation jb_enc := (OpenJournalProofs.jb_enc kp).
  Local Notation jb_entries := (OpenJournalProofs.jb_entries kp).
  Local Notation minv := (OpenJournalProofs.mem_inv kp mp c).
  Local Notation loop_ro := (rj_loop_ro jcrc jp rp kp bhl mp tp tcrc compress snappy fgen blockSize ri c).

  (* a journal file: its number, the batches written to it, how many of them were synced *)
  Record jdesc := mkJD { jd_num : N; jd_bs : list jbatch; jd_synced : nat }.

  Definition jfile_ok (ck : bool) (fs : files) (jd : jdesc) : Prop :=
    Forall jb_ok (jd_bs jd) /\
    exists d, f_lookup fs (SW.FJournal, jd_num jd) = Some d /\
              is_crash_file jcrc jp ck (map jb_enc (jd_bs jd)) (jd_synced jd) d.

  (* what a crash kept of the journals sel: per journal a prefix of its batches that contains the synced ones *)
  Definition kept_prefixes (sel : list jdesc) (bss : list (list jbatch)) : Prop :=
    Forall2 (fun jd bs => exists k, (jd_synced jd <= k)%nat /\ bs = firstn k (jd_bs jd)) sel bss.

  Lemma loop_ro_written o sel : oo_strict_j o = false -> forall st,
    Forall (jfile_ok (oo_jck o) (c_files (r_c st))) sel -> minv st ->
    exists bss st', kept_prefixes sel bss /\
      loop_ro o (map jd_num sel) st = OOk st' /\ r_c st' = r_c st /\ minv st' /\
      r_seq st' = snd (accepted (concat bss) (r_seq st)) /\
      r_kept st' = r_kept st ++ map jb_pair (fst (accepted (concat bss) (r_seq st))) /\
      (forall x, In x (mem_entries mp (Some (r_mdb st'))) <->
                 In x (mem_entries mp (Some (r_mdb st))) \/
                 In x (flat_map jb_entries (fst (accepted (concat bss) (r_seq st))))).
  Proof.
    intros Hns. induction sel as [|jd sel IH]; intros st Hsel Hinv.
    - exists [], st. split; [constructor|]. cbn [map rj_loop_ro concat accepted fst snd flat_map]. rewrite app_nil_r.
      split; [reflexivity|]. split; [reflexivity|]. split; [exact Hinv|]. split; [reflexivity|]. split; [reflexivity|].
      intros x. split; [intros H; left; exact H|intros [H|[]]; exact H].
    - inversion Hsel as [|? ? (Hbs & d & Ed & Hcb) Hrest]; subst.
      destruct (crash_file_records jcrc jp jpok (oo_jck o) _ _ _ Hcb) as (k & Hk & Erecs).
      cbn [map rj_loop_ro]. unfold journal_bytes. rewrite Ed, Hns.
      rewrite (replay_outcomes_recs rp kp mp tp tcrc compress snappy fgen blockSize ri c o false (jd_num jd) _
                 (jread_tolerant_clean jcrc jp jpok (oo_jck o) d) st).
      rewrite Erecs, firstn_map.
      assert (Hbk : Forall jb_ok (firstn k (jd_bs jd))).
      { apply Forall_forall. intros x Hx. rewrite Forall_forall in Hbs. apply Hbs. eapply in_firstn; exact Hx. }
      destruct (replay_recs_written rp kp kpok seek_val mp mpok tp tcrc compress snappy fgen blockSize ri c cok
                  o (jd_num jd) _ Hns Hbk st Hinv) as (st1 & E1 & Ec1 & _ & Hinv1 & Es1 & Ek1 & Hin1).
      rewrite E1. cbn [obind].
      assert (Hsel1 : Forall (jfile_ok (oo_jck o) (c_files (r_c st1))) sel) by (rewrite Ec1; exact Hrest).
      destruct (IH st1 Hsel1 Hinv1) as (bss & st' & Hp & E' & Ec' & Hinv' & Es' & Ek' & Hin').
      exists (firstn k (jd_bs jd) :: bss), st'. split.
      { constructor; [exists k; split; [exact Hk|reflexivity]|exact Hp]. }
      split; [exact E'|]. split; [congruence|]. split; [exact Hinv'|].
      cbn [concat]. rewrite accepted_app. cbn [fst snd]. rewrite <- Es1.
      split; [exact Es'|]. split.
      + rewrite Ek', Ek1, map_app, app_assoc. reflexivity.
      + intros x. rewrite Hin', Hin1, flat_map_app, in_app_iff. tauto.
  Qed.

  (* ---------------------------------------------------------------- a fresh buffer *)
  Lemma new_mem_ok : exists d, MemDB.mdb_new mp = MemDB.Ok d /\ mem_ok c kp mp d /\ mem_entries mp (Some d) = [].
  Proof.
    destruct (MemOps.new_ok (ibc c) mp mpok) as (d & E & (I & Eabs & _)).
    exists d. split; [exact E|].
    assert (Ep : mem_pairs mp d = []).
    { rewrite (mem_pairs_abs c kp seek_val mp mpok d [] [] I). exact Eabs. }
    split.
    - split; [exists [], []; exact I|]. unfold mem_keys_okb. rewrite Ep. reflexivity.
    - cbn [mem_entries]. rewrite Ep. reflexivity.
  Qed.

  Lemma filter_map_comm {A B} (f : A -> B) (P : B -> bool) l :
    filter P (map f l) = map f (filter (fun x => P (f x)) l).
  Proof. induction l as [|x l IH]; [reflexivity|]. cbn [map filter]. destruct (P (f x)); cbn [map]; now rewrite IH. Qed.

  (* ---------------------------------------------------------------- the image *)
  (* img is a crash image of: the manifest m holding the records mrecs (ks of them synced) to which the meta
     pointer points, and the journal files js (ascending), each a crash image of its batches *)
  Definition image_ok (o : oopts) (img : simage) (m : N) (mrecs : list (SR.srec * bytes)) (ks : nat)
      (js : list jdesc) : Prop :=
    si_meta img = Some m /\
    (exists d, f_lookup (si_files img) (SW.FManifest, m) = Some d /\
               is_crash_file jcrc jp true (map snd mrecs) ks d) /\
    Forall mrec_ok mrecs /\
    SW.nsort (SW.journals_of (f_list (si_files img))) = map jd_num js /\
    Forall (jfile_ok (oo_jck o) (si_files img)) js.

  (* every admissible prefix of the manifest passes session.recover's checks *)
  Definition manifest_ok (o : oopts) (mrecs : list (SR.srec * bytes)) (ks : nat) : Prop :=
    forall k, (ks <= k)%nat -> exists j pj nf q live cps,
      replay_result rp (oo_cmp_name o) (firstn k (map fst mrecs)) = SpecOk j pj nf q live cps.

  Definition selected (j pj : Z) (js : list jdesc) : list jdesc :=
    filter (fun jd => SW.jsel (Z.to_N j) (Z.to_N pj) (jd_num jd)) js.

  Local Notation openb := (open_bytes jcrc jp rp kp bhl mp tp tcrc compress snappy fgen blockSize ri c).

  (* Open, read-only, on a crash image *)
  Theorem open_ro_written o hts img m mrecs ks js :
    oo_strict_man o = false -> oo_strict_j o = false -> oo_ro o = true -> oo_err_exist o = false ->
    heights_okl mp hts -> image_ok o img m mrecs ks js -> manifest_ok o mrecs ks ->
    exists k j pj nf q live cps lv bss r d,
      (ks <= k)%nat /\
      replay_result rp (oo_cmp_name o) (firstn k (map fst mrecs)) = SpecOk j pj nf q live cps /\
      kept_prefixes (selected j pj js) bss /\
      openb o hts img = OOk r /\
      os_seq r = snd (accepted (concat bss) q) /\
      os_kept r = map jb_pair (fst (accepted (concat bss) q)) /\
      os_bs r = mkBS (Some d) None (levels_of (si_files img) (sort_levels lv)) /\
      (forall l : nat, nth l lv [] = live_at (Z.of_nat l) live) /\
      mem_ok c kp mp d /\
      (forall x, In x (mem_entries mp (Some d)) <-> In x (flat_map jb_entries (fst (accepted (concat bss) q)))) /\
      os_image r = img /\ os_removed r = [] /\ os_journal r = None.
  Proof.
    intros Hsm Hsj Hro Hee Hh (Hmeta & (dm & Edm & Hcb) & Hrecs & Hlist & Hjs) Hman.
    destruct (session_recover_written o m mrecs ks dm Hsm Hrecs Hcb Hman)
      as (k & j & pj & nf & q & live & cps & s & lv & Hk & Espec & Es & Enf & Ej & Epj & Eq & Emf & Ehm & Elv & Hlv).
    destruct new_mem_ok as (d0 & Enew & Hm0 & Hent0).
    set (cs := mkC (si_files img) (Some m) s [] []).
    set (st0 := mkRJ cs SR.sr_empty (s_seq (c_sess cs)) d0 hts []).
    assert (Hinv0 : minv st0).
    { unfold OpenJournalProofs.mem_inv, st0. cbn [r_mdb r_hts r_seq]. split; [exact Hm0|]. split; [exact Hh|].
      intros x Hx. rewrite Hent0 in Hx. destruct Hx. }
    assert (Esel : jsel_list (c_sess cs) (c_files cs) = map jd_num (selected j pj js)).
    { unfold jsel_list, SW.rj_select, cs, selected. cbn [c_files c_sess]. rewrite Hlist, Ej, Epj. apply filter_map_comm. }
    assert (Hsel : Forall (jfile_ok (oo_jck o) (c_files (r_c st0))) (selected j pj js)).
    { unfold st0, cs, selected. cbn [r_c c_files]. apply Forall_forall. intros x Hx. apply filter_In in Hx as [Hx _].
      rewrite Forall_forall in Hjs. exact (Hjs x Hx). }
    destruct (loop_ro_written o (selected j pj js) Hsj st0 Hsel Hinv0)
      as (bss & st' & Hp & El & Ec & Hinv' & Es' & Ek' & Hin').
    exists k, j, pj, nf, q, live, cps, lv, bss. eexists. exists (r_mdb st').
    split; [exact Hk|]. split; [exact Espec|]. split; [exact Hp|]. split.
    - unfold open_bytes, manifest_of. rewrite Hmeta, Edm. cbn [option_map obind]. rewrite Es. cbn [obind].
      rewrite Hee, Hro. unfold open_ro. rewrite Enew. cbn [of_mres obind]. fold cs. rewrite Esel.
      fold st0. rewrite El. cbn [obind]. reflexivity.
    - cbn [os_seq os_kept os_bs os_image os_removed os_journal]. unfold cs. cbn [c_files c_meta c_sess].
      unfold st0, cs in Es', Ek', Hin'. cbn [r_seq r_kept r_mdb app c_sess] in Es', Ek', Hin'. rewrite Eq in Es', Ek', Hin'.
      split; [exact Es'|]. split; [exact Ek'|]. split; [rewrite Elv; reflexivity|]. split; [exact Hlv|].
      split; [exact (proj1 Hinv')|]. split.
      + intros x. rewrite Hin', Hent0. cbn [In]. tauto.
      + split; [destruct img as [mt fs]; cbn [si_meta si_files] in *; rewrite Hmeta; reflexivity|]. split; reflexivity.
  Qed.

  (* ---------------------------------------------------------------- read-write Open: what it keeps *)
  Local Notation same_journals := OpenJournalProofs.same_journals.
  Local Notation newman := (new_manifest jcrc jp rp).
  Local Notation flushman := (flush_manifest jcrc jp rp).
  Local Notation commitm := (OpenPath.commit jcrc jp rp c).
  Local Notation commitrj := (commit_rj jcrc jp rp c).
  Local Notation flushm := (flush_memdb rp kp mp tp tcrc compress snappy fgen blockSize ri c).
  Local Notation loop_rw := (rj_loop jcrc jp rp kp bhl mp tp tcrc compress snappy fgen blockSize ri c).

  Lemma new_manifest_files name rec v st st' rec' : newman name rec v st = OOk (st', rec') ->
    same_journals None (c_files st) (c_files st').
  Proof.
    unfold new_manifest. destruct (SR.encode rp _) as [b|]; [|discriminate].
    destruct (record_commited rp _ _) as [s2|e]; cbn [obind]; [|discriminate].
    set (fs1 := f_set (c_files st) _ _).
    assert (J1 : same_journals None (c_files st) fs1) by apply same_journals_set_manifest.
    clearbody fs1.
    destruct (s_hasman (c_sess st) || negb (s_manfd (c_sess st) <? 0)%Z); intros E; injection E as <- _; cbn [c_files].
    - eapply same_journals_trans; [exact J1|apply same_journals_del_manifest].
    - exact J1.
  Qed.

  Lemma flush_manifest_files name rec st st' rec' : flushman name rec st = OOk (st', rec') ->
    same_journals None (c_files st) (c_files st').
  Proof.
    unfold flush_manifest. destruct (SR.encode rp _) as [b|]; [|discriminate].
    destruct (record_commited rp _ _) as [s2|e]; cbn [obind]; [|discriminate].
    set (fs1 := f_set (c_files st) _ _).
    assert (J1 : same_journals None (c_files st) fs1) by apply same_journals_set_manifest.
    clearbody fs1.
    intros E; injection E as <- _; cbn [c_files]. exact J1.
  Qed.

  Lemma commit_files o rec st st' rec' : commitm o rec st = OOk (st', rec') ->
    same_journals None (c_files st) (c_files st').
  Proof.
    unfold OpenPath.commit. destruct (spawn c _ _) as [nv|e]; cbn [obind]; [|discriminate].
    destruct (negb (s_hasman (c_sess st))).
    - destruct (newman _ rec nv st) as [[st1 rec1]|e] eqn:E1; cbn [obind]; [|discriminate].
      intros E; injection E as <- _. cbn [c_files]. exact (new_manifest_files _ _ _ _ _ _ E1).
    - destruct (oo_maxman o <=? _)%Z.
      + destruct (newman _ _ nv st) as [[st1 rec1]|e] eqn:E1; cbn [obind]; [|discriminate].
        intros E; injection E as <- _. cbn [c_files fst]. exact (new_manifest_files _ _ _ _ _ _ E1).
      + destruct (flushman _ rec st) as [[st1 rec1]|e] eqn:E1; cbn [obind]; [|discriminate].
        intros E; injection E as <- _. cbn [c_files]. exact (flush_manifest_files _ _ _ _ _ E1).
  Qed.

  Lemma commit_rj_facts o j a b : commitrj o j a = OOk b ->
    r_seq b = r_seq a /\ r_mdb b = r_mdb a /\ r_hts b = r_hts a /\ r_kept b = r_kept a /\
    same_journals None (c_files (r_c a)) (c_files (r_c b)).
  Proof.
    unfold commit_rj. destruct (commitm o _ (r_c a)) as [[cs rec]|e] eqn:E1; cbn [obind]; [|discriminate].
    intros E; injection E as <-. cbn [r_seq r_mdb r_hts r_kept r_c fst]. repeat split; try reflexivity.
    exact (commit_files _ _ _ _ _ E1).
  Qed.

  Lemma jfile_ok_same ck fs fs' jd e : jfile_ok ck fs jd -> same_journals e fs fs' -> e <> Some (jd_num jd) ->
    jfile_ok ck fs' jd.
  Proof.
    intros (Hb & d & Ed & Hc) J Hne. split; [exact Hb|]. exists d. split; [|exact Hc]. rewrite (J _ Hne). exact Ed.
  Qed.

  (* the loop of recoverJournal over written journals: whenever it gets through, it kept what the sequence rule
     accepts of the prefixes a crash left *)
  Lemma loop_rw_written o sel : oo_strict_j o = false -> forall ofd st st' ofd',
    Forall (jfile_ok (oo_jck o) (c_files (r_c st))) sel -> NoDup (olist ofd ++ map jd_num sel) -> minv st ->
    loop_rw o (map jd_num sel) ofd st = OOk (st', ofd') ->
    exists bss, kept_prefixes sel bss /\ minv st' /\
      r_seq st' = snd (accepted (concat bss) (r_seq st)) /\
      r_kept st' = r_kept st ++ map jb_pair (fst (accepted (concat bss) (r_seq st))).
  Proof.
    intros Hns. induction sel as [|jd sel IH]; intros ofd st st' ofd' Hsel Hnd Hinv.
    - cbn [map rj_loop]. intros E. injection E as <- _. exists []. split; [constructor|].
      cbn [concat accepted fst snd map]. rewrite app_nil_r. split; [exact Hinv|]. split; reflexivity.
    - inversion Hsel as [|? ? Hjd Hrest]; subst. destruct Hjd as (Hbs & d & Ed & Hcb).
      destruct (crash_file_records jcrc jp jpok (oo_jck o) _ _ _ Hcb) as (k & Hk & Erecs).
      cbn [map rj_loop]. unfold journal_bytes at 1. rewrite Ed.
      (* the step before the replay: flush, commit, removal of the previous journal *)
      set (pre := match ofd with None => OOk st | Some old => _ end).
      destruct pre as [st1|e] eqn:Epre; cbn [obind]; [|discriminate].
      assert (P1 : minv st1 /\ r_seq st1 = r_seq st /\ r_kept st1 = r_kept st /\
                   same_journals ofd (c_files (r_c st)) (c_files (r_c st1))).
      { unfold pre in Epre. destruct ofd as [old|].
        - destruct (0 <? MemDB.mdb_len (r_mdb st))%Z.
          + destruct (flushm st) as [a|e] eqn:Ea; cbn [obind] in Epre; [|discriminate].
            destruct (flush_memdb_facts rp kp mp tp tcrc compress snappy fgen blockSize ri c _ _ Ea) as (A1 & A2 & A3 & A4 & A5).
            destruct (commitrj o (jd_num jd) a) as [b|e] eqn:Eb; cbn [obind] in Epre; [|discriminate].
            destruct (commit_rj_facts _ _ _ _ Eb) as (B1 & B2 & B3 & B4 & B5).
            injection Epre as <-. unfold remove_file, set_rec. cbn [r_c r_rec r_seq r_mdb r_hts r_kept c_files].
            split; [|split; [congruence|split; [congruence|]]].
            * unfold OpenJournalProofs.mem_inv in *. cbn [r_seq r_mdb r_hts]. rewrite B1, B2, B3, A1, A2, A3. exact Hinv.
            * eapply OpenJournalProofs.same_journals_trans; [exact (OpenJournalProofs.same_journals_trans None _ _ _ A5 B5)|].
              apply OpenJournalProofs.same_journals_del_journal.
          + cbn [obind] in Epre.
            destruct (commitrj o (jd_num jd) st) as [b|e] eqn:Eb; cbn [obind] in Epre; [|discriminate].
            destruct (commit_rj_facts _ _ _ _ Eb) as (B1 & B2 & B3 & B4 & B5).
            injection Epre as <-. unfold remove_file, set_rec. cbn [r_c r_rec r_seq r_mdb r_hts r_kept c_files].
            split; [|split; [congruence|split; [congruence|]]].
            * unfold OpenJournalProofs.mem_inv in *. cbn [r_seq r_mdb r_hts]. rewrite B1, B2, B3. exact Hinv.
            * eapply OpenJournalProofs.same_journals_trans; [exact B5|]. apply OpenJournalProofs.same_journals_del_journal.
        - injection Epre as <-. split; [exact Hinv|]. split; [reflexivity|]. split; [reflexivity|].
          apply OpenJournalProofs.same_journals_refl. }
      destruct P1 as (Hinv1 & Es1 & Ek1 & J1).
      destruct (OpenJournalProofs.reset_mem_ok kp seek_val mp mpok c (r_mdb st1) (proj1 Hinv1)) as (d0 & Er & Hm0 & He0).
      rewrite Er. cbn [of_mres obind]. rewrite Hns.
      rewrite (replay_outcomes_recs rp kp mp tp tcrc compress snappy fgen blockSize ri c o true (jd_num jd) _
                 (jread_tolerant_clean jcrc jp jpok (oo_jck o) d)).
      rewrite Erecs, firstn_map.
      destruct (replay_recs rp kp mp tp tcrc compress snappy fgen blockSize ri c o true (jd_num jd) _ (set_mdb st1 d0))
        as [st2|e] eqn:E2; cbn [obind]; [|discriminate].
      intros Eloop.
      assert (Hbk : Forall jb_ok (firstn k (jd_bs jd))).
      { apply Forall_forall. intros x Hx. rewrite Forall_forall in Hbs. apply Hbs. eapply in_firstn; exact Hx. }
      assert (Hinv1' : minv (set_mdb st1 d0)).
      { unfold OpenJournalProofs.mem_inv, set_mdb. cbn [r_mdb r_hts r_seq]. split; [exact Hm0|].
        split; [exact (proj1 (proj2 Hinv1))|]. intros x Hx. rewrite He0 in Hx. destruct Hx. }
      destruct (replay_recs_written_rw rp kp kpok seek_val mp mpok tp tcrc compress snappy fgen blockSize ri c cok
                  o (jd_num jd) _ Hns Hbk _ _ Hinv1' E2) as (Hinv2 & J2 & Es2 & Ek2).
      unfold set_mdb in Es2, Ek2, J2. cbn [r_seq r_kept r_c] in Es2, Ek2, J2.
      assert (Hnd' : NoDup (olist (Some (jd_num jd)) ++ map jd_num sel)).
      { clear - Hnd. destruct ofd; cbn [olist app map] in Hnd |- *; [inversion Hnd; assumption|exact Hnd]. }
      assert (Hsel2 : Forall (jfile_ok (oo_jck o) (c_files (r_c st2))) sel).
      { apply Forall_forall. intros x Hx. rewrite Forall_forall in Hrest.
        apply (jfile_ok_same (oo_jck o) (c_files (r_c st1)) _ x None); [|exact J2|discriminate].
        apply (jfile_ok_same (oo_jck o) (c_files (r_c st)) _ x ofd); [exact (Hrest x Hx)|exact J1|].
        intros E. subst ofd. cbn [olist app map] in Hnd. inversion Hnd as [|? ? Hni _]; subst.
        apply Hni. right. apply in_map. exact Hx. }
      destruct (IH _ _ _ _ Hsel2 Hnd' Hinv2 Eloop) as (bss & Hp & Hinv' & Es' & Ek').
      exists (firstn k (jd_bs jd) :: bss). split.
      { constructor; [exists k; split; [exact Hk|reflexivity]|exact Hp]. }
      split; [exact Hinv'|]. cbn [concat]. rewrite accepted_app. cbn [fst snd].
      rewrite <- Es1, <- Es2. split; [exact Es'|].
      rewrite Ek', Ek2, Ek1, map_app, app_assoc. reflexivity.
  Qed.

  Lemma remove_all_facts rem : forall st,
    r_seq (remove_all rem st) = r_seq st /\ r_kept (remove_all rem st) = r_kept st /\
    r_mdb (remove_all rem st) = r_mdb st /\ c_sess (r_c (remove_all rem st)) = c_sess (r_c st).
  Proof.
    induction rem as [|x rem IH]; intros st; cbn [remove_all]; [repeat split; reflexivity|].
    destruct (IH (remove_file x st)) as (A & B & C & D). rewrite A, B, C, D. repeat split; reflexivity.
  Qed.

  (* Open, read-write, on a crash image: WHENEVER it returns a DB, that DB's sequence number and the batches it
     kept are what the sequence rule accepts of the journal prefixes the crash left, and its buffer is empty
     (everything kept sits in tables).  That it does return a DB is not proved here: see Props/C04.v. *)
  Theorem open_rw_written o hts img m mrecs ks js r :
    oo_strict_man o = false -> oo_strict_j o = false -> oo_ro o = false -> oo_err_exist o = false ->
    heights_okl mp hts -> image_ok o img m mrecs ks js -> manifest_ok o mrecs ks -> NoDup (map jd_num js) ->
    openb o hts img = OOk r ->
    exists k j pj nf q live cps bss d,
      (ks <= k)%nat /\
      replay_result rp (oo_cmp_name o) (firstn k (map fst mrecs)) = SpecOk j pj nf q live cps /\
      kept_prefixes (selected j pj js) bss /\
      os_seq r = snd (accepted (concat bss) q) /\
      os_kept r = map jb_pair (fst (accepted (concat bss) q)) /\
      bs_mem (os_bs r) = Some d /\ mem_entries mp (Some d) = [] /\ bs_frozen (os_bs r) = None.
  Proof.
    intros Hsm Hsj Hro Hee Hh (Hmeta & (dm & Edm & Hcb) & Hrecs & Hlist & Hjs) Hman Hnd.
    destruct (session_recover_written o m mrecs ks dm Hsm Hrecs Hcb Hman)
      as (k & j & pj & nf & q & live & cps & s & lv & Hk & Espec & Es & Enf & Ej & Epj & Eq & Emf & Ehm & Elv & Hlv).
    destruct new_mem_ok as (d0 & Enew & Hm0 & Hent0).
    unfold open_bytes, manifest_of. rewrite Hmeta, Edm. cbn [option_map obind]. rewrite Es. cbn [obind].
    rewrite Hee, Hro. unfold open_rw. cbn [c_sess c_files c_meta c_removed c_commits]. rewrite Enew. cbn [of_mres obind].
    cbn [c_sess c_files c_meta c_removed c_commits].
    assert (Esel : jsel_list s (si_files img) = map jd_num (selected j pj js)).
    { unfold jsel_list, SW.rj_select, selected. rewrite Hlist, Ej, Epj. apply filter_map_comm. }
    rewrite Esel.
    set (cs1 := match map jd_num (selected j pj js) with [] => _ | _ :: _ => _ end).
    assert (Ecs1 : c_files cs1 = si_files img) by (unfold cs1; destruct (map jd_num (selected j pj js)); reflexivity).
    set (st0 := mkRJ cs1 SR.sr_empty (s_seq s) d0 hts []).
    assert (Hinv0 : minv st0).
    { unfold OpenJournalProofs.mem_inv, st0. cbn [r_mdb r_hts r_seq]. split; [exact Hm0|]. split; [exact Hh|].
      intros x Hx. rewrite Hent0 in Hx. destruct Hx. }
    assert (Hsel : Forall (jfile_ok (oo_jck o) (c_files (r_c st0))) (selected j pj js)).
    { unfold st0. cbn [r_c]. rewrite Ecs1. apply Forall_forall. intros x Hx. apply filter_In in Hx as [Hx _].
      rewrite Forall_forall in Hjs. exact (Hjs x Hx). }
    assert (Hnd0 : NoDup (olist None ++ map jd_num (selected j pj js))).
    { cbn [olist app]. unfold selected. clear - Hnd. induction js as [|x l IH]; [constructor|].
      cbn [map] in Hnd. inversion Hnd as [|? ? Hni Hnd']; subst. cbn [filter].
      destruct (SW.jsel _ _ _); [|exact (IH Hnd')]. cbn [map]. constructor; [|exact (IH Hnd')].
      intros Hin. apply Hni. apply in_map_iff in Hin as (y & Ey & Hy). apply filter_In in Hy as [Hy _].
      rewrite <- Ey. apply in_map. exact Hy. }
    destruct (loop_rw o (map jd_num (selected j pj js)) None st0) as [[st1 ofd]|e] eqn:El; cbn [obind]; [|discriminate].
    destruct (loop_rw_written o _ Hsj None st0 st1 ofd Hsel Hnd0 Hinv0 El) as (bss & Hp & Hinv1 & Es1 & Ek1).
    unfold st0 in Es1, Ek1. cbn [r_seq r_kept app] in Es1, Ek1. rewrite Eq in Es1, Ek1.
    (* flush of the last buffer *)
    set (fl := match map jd_num (selected j pj js) with [] => OOk st1 | _ :: _ => _ end).
    destruct fl as [st2|e] eqn:Efl; cbn [obind]; [|discriminate].
    assert (F2 : r_seq st2 = r_seq st1 /\ r_kept st2 = r_kept st1).
    { unfold fl in Efl. destruct (map jd_num (selected j pj js)); [injection Efl as <-; split; reflexivity|].
      destruct (0 <? MemDB.mdb_len (r_mdb st1))%Z; [|injection Efl as <-; split; reflexivity].
      destruct (flush_memdb_facts rp kp mp tp tcrc compress snappy fgen blockSize ri c _ _ Efl) as (A1 & _ & _ & A4 & _).
      split; assumption. }
    destruct F2 as (Fs2 & Fk2).
    destruct (commitrj o _ _) as [st4|e] eqn:Ec; cbn [obind]; [|discriminate].
    destruct (commit_rj_facts _ _ _ _ Ec) as (C1 & _ & _ & C4 & _). cbn [r_seq r_kept] in C1, C4.
    set (st5 := match ofd with Some old => remove_file _ st4 | None => st4 end).
    assert (F5 : r_seq st5 = r_seq st4 /\ r_kept st5 = r_kept st4) by (unfold st5; destruct ofd; split; reflexivity).
    destruct F5 as (Fs5 & Fk5).
    destruct (SW.janitor _ _) as [ts|rem]; [discriminate|].
    intros E. injection E as <-. cbn [os_seq os_kept os_bs bs_mem bs_frozen].
    destruct (remove_all_facts rem st5) as (R1 & R2 & _ & _).
    exists k, j, pj, nf, q, live, cps, bss, d0.
    split; [exact Hk|]. split; [exact Espec|]. split; [exact Hp|].
    split; [rewrite R1, Fs5, C1, Fs2; exact Es1|]. split; [rewrite R2, Fk5, C4, Fk2; exact Ek1|].
    split; [reflexivity|]. split; [exact Hent0|reflexivity].
  Qed.

  (* ---------------------------------------------------------------- read-only Open writes nothing *)
  Theorem open_ro_leaves_image o hts img r : oo_ro o = true -> openb o hts img = OOk r ->
    os_image r = img /\ os_removed r = [] /\ os_commits r = [] /\ os_journal r = None.
  Proof.
    intros Hro. unfold open_bytes. rewrite Hro.
    destruct (manifest_of img) as [[m d]|].
    - destruct (OpenPath.session_recover jcrc jp rp c o m d) as [s|e]; cbn [obind]; [|discriminate].
      destruct (oo_err_exist o); cbn [obind]; [discriminate|].
      unfold open_ro. cbn [c_sess c_files c_meta].
      destruct (of_mres (MemDB.mdb_new mp)) as [d0|e]; cbn [obind]; [|discriminate].
      destruct (loop_ro o _ _) as [st|e]; cbn [obind]; [|discriminate].
      intros E. injection E as <-. cbn [os_image os_removed os_commits os_journal].
      destruct img; repeat split; reflexivity.
    - destruct (si_files img); [|discriminate]. rewrite orb_true_r. cbn [obind]. discriminate.
  Qed.

  (* hence opening what a read-only Open left is opening the same image again *)
  Corollary open_ro_idempotent o hts img r : oo_ro o = true -> openb o hts img = OOk r ->
    openb o hts (os_image r) = OOk r.
  Proof. intros Hro E. destruct (open_ro_leaves_image o hts img r Hro E) as (-> & _). exact E. Qed.
End OpenProofs.

(* ---------------------------------------------------------------- the real file storage *)
(* GetMeta's answer does not depend on the mode (only its repair does), so a directory is seen by Open as the
   abstract image whose meta pointer is get_meta_result — the function C04_setmeta_crash_atomic and the other
   theorems of Props/C04FS.v are about. *)
Lemma get_meta_fst ro v : fst (FS.get_meta ro v) = FS.get_meta_result v.
Proof.
  unfold FS.get_meta, FS.get_meta_result, FS.get_meta_ops.
  destruct (FS.g_chosen (FS.get_meta_choice v)) as [[name x]|]; reflexivity.
Qed.

Lemma dir_image_of_meta ro v x : FS.get_meta_result v = FS.GOk x ->
  dir_image ro v = DImage (mkSI (Some (Z.to_N (FS.fd_num x))) (dir_files v)).
Proof. intros E. unfold dir_image. rewrite get_meta_fst, E. reflexivity. Qed.

(* hence, while setMeta(B) is in progress on a directory settled on A, every crash image opens as the files of
   the directory under the meta pointer A or under the meta pointer B — never a third pointer, never "corrupted" *)
Theorem open_dir_setmeta_crash jcrc jp rp kp bhl mp tp tcrc compress snappy fgen blockSize ri c o hts
    s A B K i0 k v :
  FileStorageCrashProofs.clean s A A K i0 -> In (FS.gen_name A) K -> In (FS.gen_name B) K ->
  (FS.fd_num A < FS.fd_num B)%Z -> FS.int64_ok (FS.fd_num A) = true -> FS.int64_ok (FS.fd_num B) = true ->
  FS.crash_image (FS.fapply_all s (firstn k (FS.set_meta_ops (FS.vol_view s) B))) v ->
  let ob := open_bytes jcrc jp rp kp bhl mp tp tcrc compress snappy fgen blockSize ri c o hts in
  open_dir jcrc jp rp kp bhl mp tp tcrc compress snappy fgen blockSize ri c o hts v =
    ob (mkSI (Some (Z.to_N (FS.fd_num A))) (dir_files v)) \/
  open_dir jcrc jp rp kp bhl mp tp tcrc compress snappy fgen blockSize ri c o hts v =
    ob (mkSI (Some (Z.to_N (FS.fd_num B))) (dir_files v)).
Proof.
  intros Hc HA HB Hlt IA IB Hcr ob.
  destruct (FileStorageCrashProofs.set_meta_crash_atomic s A B K i0 Hc HA HB Hlt IA IB) as (H & _).
  unfold open_dir. destruct (H k v Hcr) as [E|E]; [left|right]; rewrite (dir_image_of_meta _ _ _ E); reflexivity.
Qed.

