(* Store/Repair.v — L1 model of leveldb.Recover (leveldb/db.go): recoverTable (scan every table file with
   the non-strict table iterator, count good / corrupted keys and corrupted blocks, drop or rebuild, register
   every surviving table at level 0, sequence number := largest seen, fresh manifest) followed by the
   journal replay of openDB / recoverJournal.  Entries, tables and states are those of Lsm/Lsm.v; a table's
   recorded key range (imin/imax) is its first/last entry there, which is exactly what recoverTable
   recomputes from the keys it could read.  Model file: definitions only. *)
From GL Require Export Lsm.Lsm Lsm.Compact.

(* A table file as found on storage: its data blocks in file order.  A block is "damaged" when the table
   reader reports it as corrupted (checksum mismatch, undecodable contents); the non-strict iterator used by
   recoverTable (StrictReader masked out) skips exactly those blocks and calls the error callback once each. *)
Record fblock := { fb_damaged : bool; fb_entries : list entry }.
Record tfile := { tf_num : N; tf_blocks : list fblock }.

(* One journal record: a write batch with its first sequence number (record i gets jb_seq + i). *)
Record jbatch := { jb_seq : N; jb_recs : list entry }.

Inductive rresult := RError | ROk (st : lstate) (seq : N).

(* sort.Sort with a "less" on distinct numbers *)
Fixpoint ins_by {A} (le : A -> A -> bool) (x : A) (l : list A) : list A :=
  match l with
  | [] => [x]
  | y :: l' => if le x y then x :: l else y :: ins_by le x l'
  end.
Definition sort_by {A} (le : A -> A -> bool) (l : list A) : list A := fold_right (ins_by le) [] l.

Section WithComparer.
  Variable c : comparer.
  Variable p : kparams.

  (* ---- the scan of one table file ---- *)
  (* what the iterator yields: the entries of the undamaged blocks, in order *)
  Definition readable (f : tfile) : list entry :=
    concat (map fb_entries (filter (fun b => negb (fb_damaged b)) (tf_blocks f))).
  (* tcorruptedBlock: one callback per damaged block *)
  Definition cblocks (f : tfile) : N := N.of_nat (length (filter fb_damaged (tf_blocks f))).
  (* parseInternalKey accepts the key (kind <= keyTypeVal); the others count as tcorruptedKey and are skipped,
     by the scan (continue) and by the rebuild (validInternalKey) alike *)
  Definition valid (e : entry) : bool := e_kind e <=? keyTypeVal p.
  Definition good (f : tfile) : list entry := filter valid (readable f).
  Definition ckeys (f : tfile) : N := N.of_nat (length (readable f)) - N.of_nat (length (good f)).
  (* tSeq: "if seq > tSeq { tSeq = seq }" over the good keys *)
  Definition tseq (l : list entry) : N := fold_left (fun m e => if m <? e_seq e then e_seq e else m) l 0.

  Record rstate := {
    r_added : list table;      (* rec.addTable(0, ...) in call order *)
    r_maxseq : N;
    r_goodkeys : N; r_ckeys : N; r_cblocks : N; r_dropped : N
  }.
  Definition r_init : rstate :=
    {| r_added := []; r_maxseq := 0; r_goodkeys := 0; r_ckeys := 0; r_cblocks := 0; r_dropped := 0 |}.

  (* the entries registered for one file: none if it is dropped (strict recovery and any corruption, or
     no good key at all); otherwise the good keys — the file itself when nothing is corrupted, the rebuilt
     file (same keys copied through buildTable, renamed over the original) when something is *)
  Definition kept (strict : bool) (f : tfile) : list entry :=
    if strict && ((0 <? ckeys f) || (0 <? cblocks f)) then [] else good f.

  Definition recover_one (strict : bool) (r : rstate) (f : tfile) : rstate :=
    let g := good f in
    let r1 := {| r_added := r_added r; r_maxseq := r_maxseq r;
                 r_goodkeys := r_goodkeys r + N.of_nat (length g); r_ckeys := r_ckeys r + ckeys f;
                 r_cblocks := r_cblocks r + cblocks f; r_dropped := r_dropped r |} in
    if strict && ((0 <? ckeys f) || (0 <? cblocks f)) then
      {| r_added := r_added r1; r_maxseq := r_maxseq r1; r_goodkeys := r_goodkeys r1; r_ckeys := r_ckeys r1;
         r_cblocks := r_cblocks r1; r_dropped := r_dropped r1 + 1 |}
    else match g with
         | [] => {| r_added := r_added r1; r_maxseq := r_maxseq r1; r_goodkeys := r_goodkeys r1;
                    r_ckeys := r_ckeys r1; r_cblocks := r_cblocks r1; r_dropped := r_dropped r1 + 1 |}
         | _ => {| r_added := r_added r1 ++ [{| t_num := tf_num f; t_entries := g |}];
                   r_maxseq := if r_maxseq r1 <? tseq g then tseq g else r_maxseq r1;
                   r_goodkeys := r_goodkeys r1; r_ckeys := r_ckeys r1; r_cblocks := r_cblocks r1;
                   r_dropped := r_dropped r1 |}
         end.

  (* sortFds: ascending by file number; then one recoverTable call per file *)
  Definition sort_fds (fs : list tfile) : list tfile := sort_by (fun a b => tf_num a <=? tf_num b) fs.
  Definition recover_tables (strict : bool) (fs : list tfile) : rstate :=
    fold_left (recover_one strict) (sort_fds fs) r_init.

  (* the version built from the record: everything at level 0, which the version builder keeps sorted by
     file number, newest (largest) first *)
  Definition sort_l0 (ts : list table) : list table := sort_by (fun a b => t_num b <=? t_num a) ts.

  (* ---- journal replay (recoverJournal, decodeBatchToMem) ---- *)
  Fixpoint stamp (s : N) (l : list entry) : list entry :=
    match l with
    | [] => []
    | e :: l' => {| e_uk := e_uk e; e_seq := s; e_kind := e_kind e; e_val := e_val e |} :: stamp (s + 1) l'
    end.

  (* memdb.Put of every record: the buffer stays sorted by the internal order *)
  Definition mem_put (mem : list entry) (l : list entry) : list entry := fold_left (fun m e => ins c e m) l mem.

  (* a batch whose sequence number is below the expected one is "corrupted": an error under StrictJournal,
     skipped otherwise; db.seq := batchSeq + batchLen *)
  Fixpoint replay (sj : bool) (seq : N) (mem : list entry) (js : list jbatch) : option (N * list entry) :=
    match js with
    | [] => Some (seq, mem)
    | b :: js' =>
        if jb_seq b <? seq then (if sj then None else replay sj seq mem js')
        else replay sj (jb_seq b + N.of_nat (length (jb_recs b))) (mem_put mem (stamp (jb_seq b) (jb_recs b))) js'
    end.

  (* all stamped records of a journal *)
  Definition jentries (js : list jbatch) : list entry :=
    concat (map (fun b => stamp (jb_seq b) (jb_recs b)) js).

  (* ---- Recover ---- *)
  (* strict = StrictRecovery, sj = StrictJournal, next = the file number the flushed journal table gets.
     (The buffer is flushed once, at the end: the model has no sizes; a journal larger than the write buffer
     is flushed in several tables, all at level 0, which reads cannot tell apart.) *)
  Definition recover (strict sj : bool) (fs : list tfile) (js : list jbatch) (next : N) : rresult :=
    let r := recover_tables strict fs in
    let l0 := sort_l0 (r_added r) in
    match replay sj (r_maxseq r) [] js with
    | None => RError
    | Some (seq, mem) =>
        let l0' := match mem with
                   | [] => l0
                   | _ => sort_l0 ({| t_num := next; t_entries := mem |} :: l0)
                   end in
        ROk {| st_mem := []; st_frozen := []; st_aux := []; st_levels := [l0'] |} seq
    end.

  (* every table of every level moved to level 0 (what Recover does to the layout of a settled DB) *)
  Definition flatten (st : lstate) : lstate :=
    {| st_mem := st_mem st; st_frozen := st_frozen st; st_aux := st_aux st;
       st_levels := [concat (st_levels st)] |}.

  (* the file image of a table whose blocks are all readable: one block *)
  Definition file_of (t : table) : tfile :=
    {| tf_num := t_num t; tf_blocks := [{| fb_damaged := false; fb_entries := t_entries t |}] |}.
  (* every entry a file held before any damage *)
  Definition file_entries (f : tfile) : list entry := concat (map fb_entries (tf_blocks f)).
End WithComparer.
