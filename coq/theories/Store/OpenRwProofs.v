(* Store/OpenRwProofs.v — pieces towards the totality of read-write Open (Store/OpenPath.v open_rw).  Proof file.
   Proved here: the table writer model accepts the pairs of every buffer that satisfies C14's invariant, so
   session.flushMemdb never fails with "keys are not in increasing order" (OEFlush is unreachable from such a
   buffer).  The interface lemma about Codec/Table.v's writer (Append fails only on a key that is not above the
   previous one; every successful Append leaves its key as the previous one) is stated here because C13's files do
   not export it. *)
From Coq Require Import List NArith ZArith Bool Lia.
From GL Require Import Base.Bytes Base.Order Base.Cursor Codec.IKey Codec.Block Codec.Table Lsm.ReadPath Lsm.ReadPathMem
  Store.OpenPath Store.OpenJournalProofs.
From GL Require Mem.MemDB.
Import ListNotations.
Open Scope N_scope.

Section WriterTotal.
  Variable tp : tparams.
  Variable crc : bytes -> N.
  Variable compress : bytes -> bytes.
  Variable c : comparer.
  Variable blockSize ri : N.
  Variable snappy : bool.
  Variable fgen : option (bytes * (list (N * list bytes) -> bytes)).

  Local Notation app1 := (tw_append tp crc compress c blockSize ri snappy).
  Local Notation appall := (tw_append_all tp crc compress c blockSize ri snappy).

  Lemma tw_append_prev w k v w' : app1 w k v = Some w' -> bw_prev (tw_data w') = k /\ tw_n w' = tw_n w + 1.
  Proof.
    unfold tw_append. destruct ((0 <? tw_n w) && _); [discriminate|].
    intros E. injection E as <-. cbn [tw_data tw_n].
    destruct (blockSize <=? _); cbn [tw_data tw_n tw_finish_block]; unfold tw_flush_pending;
      destruct (bh_len (tw_pending w) =? 0); cbn [tw_data tw_n bw_append bw_prev bw_reset];
      try (destruct (write_block _ _ _ _ _ _)); cbn [tw_data tw_n bw_reset bw_prev]; split; reflexivity.
  Qed.

  Lemma tw_append_ok w k v : tw_n w = 0 \/ cmp c (bw_prev (tw_data w)) k = Lt -> exists w', app1 w k v = Some w'.
  Proof.
    intros H. unfold tw_append.
    assert (E : (0 <? tw_n w) && negb (match cmp c (bw_prev (tw_data w)) k with Lt => true | _ => false end) = false).
    { destruct H as [H|H]; [rewrite H; reflexivity|rewrite H; apply andb_false_r]. }
    rewrite E. eexists. reflexivity.
  Qed.

  Lemma tw_append_all_total kvs : forall w,
    match kvs with [] => True | kv :: _ => tw_n w = 0 \/ cmp c (bw_prev (tw_data w)) (fst kv) = Lt end ->
    sorted c kvs -> exists w', appall w kvs = Some w'.
  Proof.
    induction kvs as [|[k v] r IH]; intros w H Hs; [exists w; reflexivity|].
    cbn [tw_append_all fst] in *. destruct (tw_append_ok w k v H) as (w1 & E1). rewrite E1.
    destruct (tw_append_prev w k v w1 E1) as (Ep & En).
    apply IH.
    - destruct r as [|[k' v'] r']; [exact I|]. right. cbn [fst]. rewrite Ep. cbn [sorted sorted_from] in Hs. exact (proj1 Hs).
    - destruct r as [|[k' v'] r']; [exact I|]. cbn [sorted sorted_from] in Hs |- *. exact (proj2 Hs).
  Qed.

  Theorem twrite_total kvs : sorted c kvs -> exists file, twrite tp crc compress c blockSize ri snappy fgen kvs = Some file.
  Proof.
    intros Hs. unfold twrite.
    destruct (tw_append_all_total kvs (tw_empty) (match kvs with [] => I | _ :: _ => or_introl eq_refl end) Hs) as (w & E).
    rewrite E. eexists. reflexivity.
  Qed.
End WriterTotal.

Lemma sorted_from_ext {V} (c1 c2 : comparer) : (forall a b, cmp c1 a b = cmp c2 a b) ->
  forall (l : list (bytes * V)) k, sorted_from c1 k l -> sorted_from c2 k l.
Proof.
  intros H. induction l as [|[k' v] r IH]; intros k; cbn [sorted_from]; [exact (fun x => x)|].
  intros (A & B). split; [rewrite <- H; exact A|exact (IH k' B)].
Qed.

Lemma sorted_ext {V} (c1 c2 : comparer) (l : list (bytes * V)) : (forall a b, cmp c1 a b = cmp c2 a b) ->
  sorted c1 l -> sorted c2 l.
Proof. intros H. destruct l as [|[k v] r]; [exact (fun x => x)|]. cbn [sorted]. apply sorted_from_ext. exact H. Qed.

Section FlushTotal.
  Variable rp : SR.rparams.
  Variable kp : kparams.
  Hypothesis seek_val : keyTypeSeek kp <= keyTypeVal kp.
  Variable mp : MemDB.mparams.
  Hypothesis mpok : MemDB.mparams_ok mp.
  Variable tp : tparams.
  Variable tcrc : bytes -> N.
  Variable compress : bytes -> bytes.
  Variable snappy : bool.
  Variable fgen : option (bytes * (list (N * list bytes) -> bytes)).
  Variable blockSize ri : N.
  Variable c : comparer.

  (* session.flushMemdb on a buffer that satisfies C14's invariant always produces a table *)
  Theorem flush_memdb_total st : mem_ok c kp mp (r_mdb st) ->
    exists st', flush_memdb rp kp mp tp tcrc compress snappy fgen blockSize ri c st = OOk st'.
  Proof.
    intros [(A & L & I) _]. unfold flush_memdb.
    pose proof (mem_pairs_sorted c kp seek_val mp mpok (r_mdb st) A L I) as Hs.
    apply (sorted_ext (ibc c) (iwc kp c)) in Hs; [|intros a b; reflexivity].
    destruct (twrite_total tp tcrc compress (iwc kp c) blockSize ri snappy fgen (mem_pairs mp (r_mdb st)) Hs) as (file & E).
    rewrite E. eexists. reflexivity.
  Qed.
End FlushTotal.
