(* Store/FileStorageSeqProofs.v — the sequential file storage (Store/FileStorageSeq.v) refines the storage contract on
   every call that is not in [dev_fs] (SetMeta / GetMeta are outside this theorem); the invariant of such runs. *)
From Coq Require Import List NArith ZArith Bool Lia Arith PeanoNat.
From GL Require Import Base.Bytes Base.BytesProofs Base.NIdx Base.NIdxProofs Base.UBufferProofs
  Store.FileStorage Store.FileStorageProofs Store.StorContract Store.MemStorage Store.MemStorageProofs Store.FileStorageSeq.
Import ListNotations.

Local Arguments N.add : simpl never.
Local Arguments N.sub : simpl never.

(* ================================================================ last_qwriter *)

Lemma lqw_from_app hs : forall x j i acc,
  last_qwriter_from (hs ++ [x]) j i acc =
  match x with
  | QW j' _ _ => if Nat.eqb j' j then Some (i + length hs)%nat else last_qwriter_from hs j i acc
  | QR _ _ _ => last_qwriter_from hs j i acc
  end.
Proof.
  induction hs as [|h hs IH]; intros x j i acc.
  - cbn [app last_qwriter_from length]. rewrite Nat.add_0_r. destruct x; reflexivity.
  - cbn [app last_qwriter_from length]. destruct h as [j0 p0 c0|j0 s0 c0]; rewrite IH;
      destruct x as [j' p c|j' s c]; try reflexivity;
      (destruct (Nat.eqb j' j); [f_equal; lia|reflexivity]).
Qed.

Lemma lqw_app_writer hs j p c j' :
  last_qwriter (hs ++ [QW j p c]) j' = if Nat.eqb j j' then Some (length hs) else last_qwriter hs j'.
Proof. unfold last_qwriter. rewrite lqw_from_app. reflexivity. Qed.

Lemma lqw_app_reader hs j s c j' : last_qwriter (hs ++ [QR j s c]) j' = last_qwriter hs j'.
Proof. unfold last_qwriter. rewrite lqw_from_app. reflexivity. Qed.

Lemma lqw_from_sound hs : forall j i acc k,
  last_qwriter_from hs j i acc = Some k ->
  acc = Some k \/ (i <= k /\ exists p c, nth_error hs (k - i) = Some (QW j p c))%nat.
Proof.
  induction hs as [|h hs IH]; intros j i acc k; cbn [last_qwriter_from]; [auto|].
  destruct h as [j0 p0 c0|j0 s0 c0]; intros H; apply IH in H.
  - destruct H as [H|(Hle & p & c & Hn)].
    + destruct (Nat.eqb_spec j0 j) as [->|N]; [|auto]. injection H as <-. right. split; [lia|].
      exists p0, c0. rewrite Nat.sub_diag. reflexivity.
    + right. split; [lia|]. exists p, c. replace (k - i)%nat with (S (k - S i)) by lia. exact Hn.
  - destruct H as [H|(Hle & p & c & Hn)]; [auto|]. right. split; [lia|]. exists p, c.
    replace (k - i)%nat with (S (k - S i)) by lia. exact Hn.
Qed.

Lemma lqw_sound hs j k : last_qwriter hs j = Some k -> exists p c, nth_error hs k = Some (QW j p c).
Proof.
  unfold last_qwriter. intros H. apply lqw_from_sound in H. destruct H as [H|(_ & p & c & Hn)]; [discriminate|].
  rewrite Nat.sub_0_r in Hn. eauto.
Qed.

Definition same_ino (a b : qhandle) : Prop :=
  match a, b with
  | QW j _ _, QW j' _ _ => j = j'
  | QR _ _ _, QR _ _ _ => True
  | _, _ => False
  end.

Lemma lqw_from_set hs : forall i x j k acc,
  (forall y, nth_error hs i = Some y -> same_ino y x) ->
  last_qwriter_from (set_nth hs i x) j k acc = last_qwriter_from hs j k acc.
Proof.
  induction hs as [|h hs IH]; intros i x j k acc H; [destruct i; reflexivity|].
  destruct i as [|i]; cbn [set_nth last_qwriter_from].
  - specialize (H h eq_refl). destruct h, x; cbn in H; try contradiction; subst; reflexivity.
  - destruct h; apply IH; exact H.
Qed.

Lemma lqw_set hs i x j :
  (forall y, nth_error hs i = Some y -> same_ino y x) -> last_qwriter (set_nth hs i x) j = last_qwriter hs j.
Proof. apply lqw_from_set. Qed.

(* ================================================================ small facts *)

Lemma write_at_end c d : write_at c (lenN c) d = c ++ d.
Proof.
  unfold write_at. rewrite N.ltb_irrefl.
  rewrite takeN_all by lia. rewrite dropN_all by lia. now rewrite app_nil_r.
Qed.

Lemma set_nth_same {A} (l : list A) : forall i x, nth_error l i = Some x -> set_nth l i x = l.
Proof.
  induction l as [|y l IH]; intros [|i] x; cbn [nth_error set_nth]; try discriminate.
  - intros [= ->]. reflexivity.
  - intros H. now rewrite IH.
Qed.

Lemma ino_after_set s i x j :
  nth j (set_nth (q_inos s) i x) [] = if Nat.eqb i j && Nat.ltb i (length (q_inos s)) then x else q_ino s j.
Proof. apply nth_set_nth. Qed.

Lemma ino_busy_false s i h hd :
  ino_busy s i = false -> nth_error (q_hs s) h = Some hd -> qh_closed hd = false -> qh_ino hd <> i.
Proof.
  unfold ino_busy. intros Hb Hn Hc E.
  assert (Ht : existsb (fun h0 => negb (qh_closed h0) && Nat.eqb (qh_ino h0) i) (q_hs s) = true).
  { apply existsb_exists. exists hd. split; [eapply nth_error_In; eauto|]. rewrite Hc, E, Nat.eqb_refl. reflexivity. }
  congruence.
Qed.

(* ================================================================ the invariant *)

Definition key_ok (k : xfd) : Prop := xfd_ok k = true /\ int64_ok (x_num k) = true.

Record qinv (s : qst) : Prop := QI {
  qi_keys : NoDup (dkeys (q_dir s));
  qi_inos : NoDup (map snd (q_dir s));
  qi_range : forall e, In e (q_dir s) -> (snd e < length (q_inos s))%nat;
  qi_writer : forall h i pos, nth_error (q_hs s) h = Some (QW i pos false) ->
                              pos = lenN (q_ino s i) /\ last_qwriter (q_hs s) i = Some h;
  qi_hrange : forall h hd, nth_error (q_hs s) h = Some hd -> (qh_ino hd < length (q_inos s))%nat;
  qi_keyok : forall e, In e (q_dir s) -> key_ok (fst e);
  qi_cur : forall n, In n (map fst (q_cur s)) -> is_cur_name n = true }.

Lemma qinv_empty : qinv q_empty.
Proof.
  constructor; cbn [q_empty q_dir q_inos q_hs q_cur dkeys map].
  - constructor.
  - constructor.
  - intros e [].
  - intros h0 i0 p0 H. destruct h0; discriminate.
  - intros h0 hd H. destruct h0; discriminate.
  - intros e [].
  - intros n [].
Qed.

(* descriptors a Go caller can pass: the number is an int64 *)
Definition op_int64 (o : sop) : Prop :=
  match o with
  | SSetMeta f | SOpen f | SCreate f | SRemove f => int64_ok (x_num f) = true
  | SRename a b => int64_ok (x_num a) = true /\ int64_ok (x_num b) = true
  | _ => True
  end.

Definition absqval (s : qst) (j : nat) : cfile := (q_ino s j, last_qwriter (q_hs s) j).

Lemma abs_qentry_key s e : fst (abs_qentry s e) = fst e.
Proof. reflexivity. Qed.

Lemma absq_dir_ext s s' d :
  (forall e, In e d -> absqval s' (snd e) = absqval s (snd e)) -> map (abs_qentry s') d = map (abs_qentry s) d.
Proof.
  intros H. apply map_ext_in. intros e He. unfold abs_qentry. specialize (H e He). unfold absqval in H.
  injection H as -> ->. reflexivity.
Qed.

Lemma absq_lookup s f :
  dlookup f (c_dir (q_abs s)) = match dlookup f (q_dir s) with Some j => Some (absqval s j) | None => None end.
Proof. unfold q_abs. cbn [c_dir]. rewrite (dlookup_map (abs_qentry s) (abs_qentry_key s)). reflexivity. Qed.

Definition qrefines (s : qst) (o : sop) : Prop :=
  let '(s', r) := qstep s o in qinv s' /\ cstep (q_abs s) o = (q_abs s', r).

(* the guards agree with the contract's order of tests *)
Lemma qguard_open s ok : qguard s (MOpen ok) = if negb ok then Some EInvalid else if q_closed s then Some EClosed else None.
Proof. unfold qguard, guard. cbn. destruct ok, (q_closed s); reflexivity. Qed.
Lemma qguard_create s ok : qguard s (MCreate ok) = if negb ok then Some EInvalid else if q_closed s then Some EClosed else None.
Proof. unfold qguard, guard. cbn. destruct ok, (q_closed s); reflexivity. Qed.
Lemma qguard_remove s ok : qguard s (MRemove ok) = if negb ok then Some EInvalid else if q_closed s then Some EClosed else None.
Proof. unfold qguard, guard. cbn. destruct ok, (q_closed s); reflexivity. Qed.
Lemma qguard_rename s ok same :
  qguard s (MRename ok same) = if negb ok then Some EInvalid else if same then None else if q_closed s then Some EClosed else None.
Proof. unfold qguard, guard. cbn. destruct ok, same, (q_closed s); reflexivity. Qed.
Lemma qguard_list s : qguard s MList = if q_closed s then Some EClosed else None.
Proof. unfold qguard, guard. cbn. destruct (q_closed s); reflexivity. Qed.

Lemma qinv_same s s' :
  q_dir s' = q_dir s -> q_inos s' = q_inos s -> q_hs s' = q_hs s -> q_cur s' = q_cur s -> qinv s -> qinv s'.
Proof.
  intros Ed Ei Eh Ec [K F R W HR O C]. unfold q_ino in *.
  constructor; unfold q_ino; rewrite ?Ed, ?Ei, ?Eh, ?Ec; auto.
Qed.

(* ---- Lock, Unlock, Close, Sync, ReadAll *)
Lemma qref_lock s : qinv s -> qrefines s SLock.
Proof.
  intros I. unfold qrefines. cbn [qstep cstep q_abs c_closed c_lock c_dir c_hs c_nlock c_meta].
  destruct (q_closed s); [split; [exact I|reflexivity]|].
  destruct (q_lock s); (split; [|reflexivity]); [exact I|]. apply (qinv_same s); auto.
Qed.

Lemma qref_unlock s k : qinv s -> qrefines s (SUnlock k).
Proof.
  intros I. unfold qrefines. cbn [qstep cstep q_abs c_closed c_lock c_dir c_hs c_nlock c_meta].
  destruct (q_lock s) as [k'|]; [destruct (Nat.eqb k k')|]; (split; [|reflexivity]); try exact I.
  apply (qinv_same s); auto.
Qed.

Lemma qref_close s : qinv s -> qrefines s SClose.
Proof.
  intros I. unfold qrefines. cbn [qstep cstep q_abs c_closed c_lock c_dir c_hs c_nlock c_meta].
  destruct (q_closed s); (split; [|reflexivity]); [exact I|]. apply (qinv_same s); auto.
Qed.

Lemma qref_sync s h : qinv s -> dev_fs s (HSync h) = false -> qrefines s (HSync h).
Proof.
  intros I D. unfold qrefines. cbn [qstep cstep q_abs c_hs]. cbn [dev_fs] in D.
  rewrite nth_error_map_some. destruct (nth_error (q_hs s) h) as [[j p c|j sn c]|]; cbn [option_map abs_qhandle];
    try (split; [exact I|reflexivity]).
  cbn [qh_closed] in D. subst c. split; [exact I|reflexivity].
Qed.

Lemma qref_readall s h : qinv s -> dev_fs s (HReadAll h) = false -> qrefines s (HReadAll h).
Proof.
  intros I D. unfold qrefines. cbn [qstep cstep q_abs c_hs]. cbn [dev_fs] in D.
  rewrite nth_error_map_some. destruct (nth_error (q_hs s) h) as [[j p c|j sn c]|]; cbn [option_map abs_qhandle].
  - destruct c; split; try exact I; reflexivity.
  - apply orb_false_elim in D. destruct D as (-> & D2). apply negb_false_iff in D2. apply beq_eq in D2. subst sn.
    split; [exact I|reflexivity].
  - split; [exact I|reflexivity].
Qed.

(* ---- pushing a handle *)
Lemma qinv_push s inos' x :
  qinv s -> length inos' = length (q_inos s) ->
  (forall h i pos, nth_error (q_hs s) h = Some (QW i pos false) -> nth i inos' [] = q_ino s i /\ (forall p c, x = QW i p c -> False)) ->
  (forall i p, x = QW i p false -> p = lenN (nth i inos' [])) ->
  (qh_ino x < length (q_inos s))%nat ->
  qinv (q_with s (q_dir s) (q_other s) inos' (q_hs s ++ [x])).
Proof.
  intros [K F R W HR O C] Hlen Hold Hnew Hxr. unfold q_with. unfold q_ino, bytes in *.
  constructor; cbn [q_dir q_inos q_hs q_cur]; auto.
  - intros e He. specialize (R e He). unfold bytes in *. lia.
  - intros h i pos Hn. cbn [q_inos].
    destruct (Nat.lt_ge_cases h (length (q_hs s))) as [Hlt|Hge].
    + rewrite nth_error_app1 in Hn by assumption. destruct (W _ _ _ Hn) as (W1 & W2).
      destruct (Hold _ _ _ Hn) as (E & Hx). unfold q_ino. cbn [q_inos]. unfold bytes. rewrite E. split; [exact W1|].
      destruct x as [jx px cx|jx sx cx].
      * rewrite lqw_app_writer. destruct (Nat.eqb_spec jx i) as [->|]; [exfalso; eapply Hx; reflexivity|exact W2].
      * rewrite lqw_app_reader. exact W2.
    + rewrite nth_error_app2 in Hn by assumption.
      destruct (h - length (q_hs s))%nat as [|k0] eqn:E; cbn in Hn; [|destruct k0; discriminate].
      injection Hn as ->. unfold q_ino. cbn [q_inos]. unfold bytes. split; [apply Hnew; reflexivity|]. rewrite lqw_app_writer, Nat.eqb_refl. f_equal. lia.
  - intros h hd Hn. destruct (Nat.lt_ge_cases h (length (q_hs s))) as [Hlt|Hge].
    + rewrite nth_error_app1 in Hn by assumption. specialize (HR _ _ Hn). unfold bytes in *. lia.
    + rewrite nth_error_app2 in Hn by assumption.
      destruct (h - length (q_hs s))%nat as [|k0] eqn:E; cbn in Hn; [|destruct k0; discriminate].
      injection Hn as <-. unfold bytes in *. lia.
Qed.

Lemma qref_open s f : qinv s -> dev_fs s (SOpen f) = false -> qrefines s (SOpen f).
Proof.
  intros I D. unfold qrefines. cbn [qstep dev_fs] in *. rewrite qguard_open. unfold cstep.
  change (c_closed (q_abs s)) with (q_closed s). change (c_hs (q_abs s)) with (map abs_qhandle (q_hs s)).
  destruct (xfd_ok f) eqn:Hok; cbn [negb]; [|split; [exact I|reflexivity]].
  destruct (q_closed s) eqn:Hc; [split; [exact I|reflexivity]|]. cbn [andb negb] in D.
  rewrite absq_lookup.
  destruct (dlookup f (q_dir s)) as [i|] eqn:Hl.
  - cbn [absqval]. split.
    + apply qinv_push; [exact I|reflexivity|intros h0 i0 p0 Hn; split; [reflexivity|discriminate]|discriminate|].
      cbn [qh_ino]. apply (qi_range s I (f, i)). apply dlookup_In. exact Hl.
    + rewrite map_length. f_equal. unfold q_abs, with_hs, q_with.
      cbn [c_dir c_hs c_lock c_nlock c_meta c_closed q_dir q_hs q_lock q_nlock q_closed q_cur]. rewrite Hc.
      rewrite map_app. cbn [map abs_qhandle]. f_equal.
      symmetry. apply absq_dir_ext. intros e He. unfold absqval, q_ino. cbn [q_inos q_hs]. now rewrite lqw_app_reader.
  - replace (if has_old_name (fd_of f) then lookup (q_other s) (gen_old_name (fd_of f)) else None) with (@None nat).
    + split; [exact I|reflexivity].
    + destruct (has_old_name (fd_of f)); [|reflexivity]. cbn [andb] in D. unfold has in D.
      destruct (lookup (q_other s) (gen_old_name (fd_of f))); [discriminate|reflexivity].
Qed.

Lemma qref_create s f : qinv s -> op_int64 (SCreate f) -> dev_fs s (SCreate f) = false -> qrefines s (SCreate f).
Proof.
  intros I Hi D. unfold qrefines. cbn [qstep dev_fs op_int64] in *. rewrite qguard_create. unfold cstep.
  change (c_closed (q_abs s)) with (q_closed s). change (c_hs (q_abs s)) with (map abs_qhandle (q_hs s)).
  destruct (xfd_ok f) eqn:Hok; cbn [negb]; [|split; [exact I|reflexivity]].
  destruct (q_closed s) eqn:Hc; [split; [exact I|reflexivity]|]. cbn [andb negb] in D.
  destruct (dlookup f (q_dir s)) as [i|] eqn:Hl.
  - assert (Hr : (i < length (q_inos s))%nat) by (apply (qi_range s I (f, i)); apply dlookup_In; exact Hl).
    split.
    + apply qinv_push; [exact I|apply set_nth_length| | |exact Hr].
      * intros h0 i0 p0 Hn. pose proof (ino_busy_false s i h0 _ D Hn eq_refl) as Hne. cbn [qh_ino] in Hne. split.
        -- rewrite ino_after_set. destruct (Nat.eqb_spec i i0); [congruence|reflexivity].
        -- intros p c [= -> _ _]. congruence.
      * intros i0 p [= <- <-]. rewrite ino_after_set, Nat.eqb_refl. apply Nat.ltb_lt in Hr. rewrite Hr. reflexivity.
    + rewrite map_length. f_equal. unfold q_abs, q_with.
      cbn [c_dir c_hs c_lock c_nlock c_meta c_closed q_dir q_hs q_lock q_nlock q_closed q_cur]. rewrite Hc.
      rewrite map_app. cbn [map abs_qhandle]. f_equal.
      set (s' := QS (q_dir s) (q_other s) (set_nth (q_inos s) i []) (q_hs s ++ [QW i 0 false]) (q_cur s) false (q_lock s) (q_nlock s)).
      assert (Ej : absqval s' i = ([], Some (length (q_hs s)))).
      { unfold absqval, s', q_ino. cbn [q_inos q_hs]. rewrite ino_after_set, Nat.eqb_refl.
        apply Nat.ltb_lt in Hr. rewrite Hr. cbn [andb]. rewrite lqw_app_writer, Nat.eqb_refl. reflexivity. }
      rewrite <- (dset_same f i (q_dir s) Hl) at 2.
      rewrite <- (dset_map (abs_qentry s') (abs_qentry_key s')). cbn [abs_qentry snd fst]. fold (absqval s' i). rewrite Ej.
      apply dset_map_ext; [apply abs_qentry_key|apply abs_qentry_key|apply (qi_keys s I)|].
      intros e He Hne. unfold abs_qentry. f_equal.
      assert (Hsj : snd e <> i).
      { intros E. apply Hne.
        assert (e = (f, i)) by (apply (NoDup_map_inj_in snd (q_dir s)); [apply (qi_inos s I)|exact He|apply dlookup_In; exact Hl|exact E]).
        subst e. reflexivity. }
      unfold s', q_ino. cbn [q_inos q_hs]. rewrite ino_after_set.
      destruct (Nat.eqb_spec i (snd e)); [congruence|]. cbn [andb]. rewrite lqw_app_writer.
      destruct (Nat.eqb_spec i (snd e)); [congruence|]. reflexivity.
  - set (i := length (q_inos s)).
    destruct I as [K F R W HR O C].
    split.
    + unfold q_with. constructor; cbn [q_dir q_inos q_hs q_cur]; auto.
      * apply dkeys_dset. exact K.
      * rewrite dset_absent by exact Hl. rewrite map_app. cbn [map snd]. apply NoDup_app_end; [exact F|].
        intros Hin. apply in_map_iff in Hin. destruct Hin as (e & E1 & E2). specialize (R e E2). subst i. lia.
      * intros e He. rewrite dset_absent in He by exact Hl. rewrite app_length. cbn [length].
        apply in_app_or in He. destruct He as [He|[<-|[]]]; [specialize (R e He); lia|cbn; subst i; lia].
      * intros h0 i0 p0 Hn. unfold q_ino. cbn [q_inos].
        destruct (Nat.lt_ge_cases h0 (length (q_hs s))) as [Hlt|Hge].
        -- rewrite nth_error_app1 in Hn by assumption. destruct (W _ _ _ Hn) as (W1 & W2).
           assert (Hlt0 : (i0 < i)%nat) by (apply (HR _ _ Hn)).
           rewrite app_nth1 by exact Hlt0. split; [exact W1|].
           rewrite lqw_app_writer. destruct (Nat.eqb_spec i i0); [lia|exact W2].
        -- rewrite nth_error_app2 in Hn by assumption.
           destruct (h0 - length (q_hs s))%nat as [|k0] eqn:E; cbn in Hn; [|destruct k0; discriminate].
           injection Hn as <- <-. split.
           ++ rewrite app_nth2 by (subst i; lia). subst i. rewrite Nat.sub_diag. reflexivity.
           ++ rewrite lqw_app_writer, Nat.eqb_refl. f_equal. lia.
      * intros h0 hd Hn. rewrite app_length. cbn [length].
        destruct (Nat.lt_ge_cases h0 (length (q_hs s))) as [Hlt|Hge].
        -- rewrite nth_error_app1 in Hn by assumption. specialize (HR _ _ Hn). lia.
        -- rewrite nth_error_app2 in Hn by assumption.
           destruct (h0 - length (q_hs s))%nat as [|k0] eqn:E; cbn in Hn; [|destruct k0; discriminate].
           injection Hn as <-. cbn [qh_ino]. subst i. lia.
      * intros e He. rewrite dset_absent in He by exact Hl. apply in_app_or in He.
        destruct He as [He|[<-|[]]]; [auto|]. cbn [fst]. split; assumption.
    + rewrite map_length. f_equal. unfold q_abs, q_with.
      cbn [c_dir c_hs c_lock c_nlock c_meta c_closed q_dir q_hs q_lock q_nlock q_closed q_cur]. rewrite Hc.
      rewrite map_app. cbn [map abs_qhandle]. f_equal.
      set (s' := QS (dset f i (q_dir s)) (q_other s) (q_inos s ++ [[]]) (q_hs s ++ [QW i 0 false]) (q_cur s) false (q_lock s) (q_nlock s)).
      assert (Ej : absqval s' i = ([], Some (length (q_hs s)))).
      { unfold absqval, s', q_ino. cbn [q_inos q_hs]. rewrite app_nth2 by (subst i; lia). subst i. rewrite Nat.sub_diag.
        cbn [nth]. rewrite lqw_app_writer, Nat.eqb_refl. reflexivity. }
      rewrite <- (dset_map (abs_qentry s') (abs_qentry_key s')). cbn [abs_qentry snd fst]. fold (absqval s' i). rewrite Ej.
      f_equal. symmetry. apply absq_dir_ext. intros e He. pose proof (R e He) as Hr.
      unfold absqval, s', q_ino. cbn [q_inos q_hs]. rewrite app_nth1 by exact Hr. rewrite lqw_app_writer.
      destruct (Nat.eqb_spec i (snd e)); [subst i; lia|]. reflexivity.
Qed.

(* ---- Remove / Rename *)
Lemma qinv_dir s d :
  qinv s -> NoDup (dkeys d) -> NoDup (map snd d) -> (forall e, In e d -> (snd e < length (q_inos s))%nat) ->
  (forall e, In e d -> key_ok (fst e)) ->
  qinv (q_with s d (q_other s) (q_inos s) (q_hs s)).
Proof. intros [K F R W HR O C] K' F' R' O'. unfold q_with. constructor; cbn [q_dir q_inos q_hs q_cur]; auto. Qed.

Lemma absq_dir_only s d :
  q_abs (q_with s d (q_other s) (q_inos s) (q_hs s)) = with_dir (q_abs s) (map (abs_qentry s) d).
Proof. reflexivity. Qed.

Lemma qref_remove s f : qinv s -> dev_fs s (SRemove f) = false -> qrefines s (SRemove f).
Proof.
  intros I D. unfold qrefines. cbn [qstep dev_fs] in *. rewrite qguard_remove. unfold cstep.
  change (c_closed (q_abs s)) with (q_closed s).
  destruct (xfd_ok f) eqn:Hok; cbn [negb]; [|split; [exact I|reflexivity]].
  destruct (q_closed s) eqn:Hc; [split; [exact I|reflexivity]|]. cbn [andb negb] in D.
  rewrite absq_lookup.
  destruct (dlookup f (q_dir s)) as [i|] eqn:Hl.
  - split.
    + apply qinv_dir; [exact I|apply dkeys_dremove, (qi_keys s I)|apply snd_dremove_nodup, (qi_inos s I)| |].
      * intros e He. apply In_dremove in He. apply (qi_range s I). apply He.
      * intros e He. apply In_dremove in He. apply (qi_keyok s I). apply He.
    + rewrite absq_dir_only. f_equal. unfold with_dir. f_equal.
      change (c_dir (q_abs s)) with (map (abs_qentry s) (q_dir s)).
      apply (dremove_map (abs_qentry s) (abs_qentry_key s)).
  - rewrite D. split; [exact I|reflexivity].
Qed.

Lemma qref_rename s a b : qinv s -> op_int64 (SRename a b) -> qrefines s (SRename a b).
Proof.
  intros I (Ia & Ib). unfold qrefines. cbn [qstep]. rewrite qguard_rename. unfold cstep.
  change (c_closed (q_abs s)) with (q_closed s).
  destruct (xfd_ok a) eqn:Ha; cbn [negb orb andb]; [|split; [exact I|reflexivity]].
  destruct (xfd_ok b) eqn:Hb; cbn [negb orb andb]; [|split; [exact I|reflexivity]].
  destruct (xfd_eqb_spec a b) as [->|Nab]; [split; [exact I|reflexivity]|].
  destruct (q_closed s) eqn:Hc; [split; [exact I|reflexivity]|].
  rewrite absq_lookup.
  destruct (dlookup a (q_dir s)) as [ia|] eqn:Hla; [|split; [exact I|reflexivity]].
  pose proof (dkeys_dremove a (q_dir s) (qi_keys s I)) as (K1 & K2).
  split.
  - apply qinv_dir; [exact I|apply dkeys_dset; exact K1| | |].
    + apply snd_dset_nodup; [apply snd_dremove_nodup, (qi_inos s I)|].
      intros Hin. apply in_map_iff in Hin. destruct Hin as (e & E1 & E2). apply In_dremove in E2. destruct E2 as (E2 & E3).
      apply E3. assert (e = (a, ia)) by (apply (NoDup_map_inj_in snd (q_dir s)); [apply (qi_inos s I)|exact E2|apply dlookup_In; exact Hla|exact E1]).
      subst e. reflexivity.
    + intros e He. apply (In_dset_nodup b ia _ e K1) in He. destruct He as [->|(He & _)].
      * apply (qi_range s I (a, ia)). apply dlookup_In. exact Hla.
      * apply In_dremove in He. apply (qi_range s I). apply He.
    + intros e He. apply (In_dset_nodup b ia _ e K1) in He. destruct He as [->|(He & _)].
      * cbn [fst]. split; assumption.
      * apply In_dremove in He. apply (qi_keyok s I). apply He.
  - rewrite absq_dir_only. f_equal. unfold with_dir. f_equal.
    change (c_dir (q_abs s)) with (map (abs_qentry s) (q_dir s)).
    rewrite (dremove_map (abs_qentry s) (abs_qentry_key s)).
    apply (dset_map (abs_qentry s) (abs_qentry_key s) b ia).
Qed.

(* ---- List: the names that parse are exactly the descriptors of q_dir *)
Lemma filter_parse_app a b : filter_parse (a ++ b) = filter_parse a ++ filter_parse b.
Proof.
  induction a as [|n a IH]; [reflexivity|]. cbn [app filter_parse]. destruct (parse_name n); [cbn [app]; now rewrite IH|exact IH].
Qed.

Lemma cur_name_no_parse n : is_cur_name n = true -> parse_name n = None.
Proof.
  unfold is_cur_name, is_prefix. destruct n as [|c r]; [discriminate|]. unfold s_CURRENT. cbn [strip_prefix].
  destruct (N.eqb_spec 67 c) as [<-|]; [intros _; apply parse_name_C|discriminate].
Qed.

Lemma filter_parse_cur (l : list bytes) : (forall n, In n l -> is_cur_name n = true) -> filter_parse l = [].
Proof.
  induction l as [|n l IH]; intros H; [reflexivity|]. cbn [filter_parse].
  rewrite (cur_name_no_parse n) by (apply H; left; reflexivity). apply IH. intros m Hm. apply H. right. exact Hm.
Qed.

Lemma xfd_of_fd_of k : xfd_ok k = true -> xfd_of (fd_of k) = k.
Proof.
  destruct k as [t n]. unfold xfd_ok, xfd_of, fd_of, ftype_of, ftype_of_code. cbn [x_ty x_num fd_type fd_num].
  intros H. apply andb_prop in H. destruct H as (H & _).
  destruct (N.eqb_spec t 1) as [->|]; [reflexivity|].
  destruct (N.eqb_spec t 2) as [->|]; [reflexivity|].
  destruct (N.eqb_spec t 4) as [->|]; [reflexivity|].
  destruct (N.eqb_spec t 8) as [->|]; [reflexivity|]. discriminate.
Qed.

Lemma filter_parse_gen (d : list (xfd * nat)) :
  (forall e, In e d -> key_ok (fst e)) ->
  filter_parse (map (fun e => gen_name (fd_of (fst e))) d) = map fst d.
Proof.
  induction d as [|e d IH]; intros H; [reflexivity|]. cbn [map filter_parse].
  destruct (H e (or_introl eq_refl)) as (H1 & H2).
  rewrite parse_gen_name by exact H2. rewrite xfd_of_fd_of by exact H1. f_equal. apply IH. intros e' He'. apply H. right. exact He'.
Qed.

Lemma qref_list s mask : qinv s -> dev_fs s (SList mask) = false -> qrefines s (SList mask).
Proof.
  intros I D. unfold qrefines. cbn [qstep dev_fs] in *. rewrite qguard_list. unfold cstep.
  change (c_closed (q_abs s)) with (q_closed s).
  destruct (q_closed s) eqn:Hc; [split; [exact I|reflexivity]|]. cbn [andb negb] in D.
  split; [exact I|]. f_equal. f_equal. f_equal.
  unfold q_abs. cbn [c_dir]. rewrite map_map. cbn [abs_qentry fst].
  unfold q_view. rewrite !map_app, !filter_parse_app, !map_map. cbn [fst].
  rewrite (filter_parse_cur (map fst (q_cur s))) by (apply (qi_cur s I)).
  rewrite (filter_parse_gen (q_dir s)) by (apply (qi_keyok s I)).
  apply negb_false_iff in D.
  change (map (fun x : bytes * nat => fst x) (q_other s)) with (map fst (q_other s)).
  destruct (filter_parse (map fst (q_other s))); [now rewrite app_nil_r|discriminate].
Qed.

(* ---- Write through a writer *)
Lemma qref_write s h d : qinv s -> dev_fs s (HWrite h d) = false -> qrefines s (HWrite h d).
Proof.
  intros I D. unfold qrefines. cbn [qstep dev_fs] in *. unfold cstep.
  change (c_hs (q_abs s)) with (map abs_qhandle (q_hs s)). rewrite nth_error_map_some.
  destruct (nth_error (q_hs s) h) as [[i pos c|i sn c]|] eqn:Hn; cbn [option_map abs_qhandle qh_closed] in *;
    [|destruct c; split; try exact I; reflexivity|split; [exact I|reflexivity]].
  subst c. destruct I as [K F R W HR O C].
  destruct (W _ _ _ Hn) as (Hpos & Hlast). subst pos. rewrite write_at_end.
  assert (Hir : (i < length (q_inos s))%nat) by (apply (HR _ _ Hn)).
  assert (Hsame : forall y, nth_error (q_hs s) h = Some y -> same_ino y (QW i (lenN (q_ino s i) + lenN d) false))
    by (intros y Hy; rewrite Hn in Hy; injection Hy as <-; reflexivity).
  split.
  - unfold q_with. constructor; cbn [q_dir q_inos q_hs q_cur]; auto.
    + intros e He. rewrite set_nth_length. auto.
    + intros h0 i0 p0 Hn0. rewrite nth_error_set_nth in Hn0. rewrite lqw_set by exact Hsame.
      unfold q_ino. cbn [q_inos]. rewrite nth_set_nth.
      destruct (Nat.eqb_spec h h0) as [<-|Nh].
      * apply Nat.ltb_lt in Hir. destruct (Nat.ltb h (length (q_hs s))); [|discriminate].
        injection Hn0 as <- <-. rewrite Nat.eqb_refl, Hir. cbn [andb]. split; [now rewrite lenN_app|exact Hlast].
      * destruct (W _ _ _ Hn0) as (W1 & W2). destruct (Nat.eqb_spec i i0) as [<-|Ni].
        -- exfalso. apply Nh. congruence.
        -- cbn [andb]. auto.
    + intros h0 hd Hn0. rewrite set_nth_length. rewrite nth_error_set_nth in Hn0.
      destruct (Nat.eqb_spec h h0) as [<-|Nh]; [|eauto].
      destruct (Nat.ltb h (length (q_hs s))); [|discriminate]. injection Hn0 as <-. exact Hir.
  - f_equal. unfold q_abs, q_with, with_dir.
    cbn [c_dir c_hs c_lock c_nlock c_meta c_closed q_dir q_hs q_lock q_nlock q_closed q_cur]. f_equal.
    + rewrite map_map. apply map_ext_in. intros [k j'] He. unfold abs_qentry, cappend. cbn [fst snd q_hs].
      rewrite lqw_set by exact Hsame. unfold q_ino. cbn [q_inos]. rewrite nth_set_nth.
      specialize (R _ He). cbn [snd] in R.
      destruct (Nat.eqb_spec i j') as [<-|N].
      * apply Nat.ltb_lt in Hir. rewrite Hir. cbn [andb]. rewrite Hlast, Nat.eqb_refl. reflexivity.
      * cbn [andb]. destruct (last_qwriter (q_hs s) j') as [h'|] eqn:Hl; [|reflexivity].
        destruct (Nat.eqb_spec h' h) as [->|]; [|reflexivity].
        apply lqw_sound in Hl. destruct Hl as (p1 & c1 & Hl). rewrite Hn in Hl. congruence.
    + rewrite map_set_nth. cbn [abs_qhandle]. symmetry. apply set_nth_same.
      rewrite nth_error_map_some, Hn. reflexivity.
Qed.

(* ---- Close of a handle *)
Lemma qref_hclose s h : qinv s -> qrefines s (HClose h).
Proof.
  intros I. unfold qrefines. cbn [qstep]. unfold cstep.
  change (c_hs (q_abs s)) with (map abs_qhandle (q_hs s)). rewrite nth_error_map_some.
  destruct (nth_error (q_hs s) h) as [hd|] eqn:Hn; cbn [option_map]; [|split; [exact I|reflexivity]].
  assert (Hgen : forall x, abs_qhandle x = abs_qhandle x) by reflexivity.
  destruct hd as [i pos [|]|i sn [|]]; cbn [abs_qhandle]; try (split; [exact I|reflexivity]).
  - pose proof I as [K F R W HR O C].
    assert (Hsame : forall y, nth_error (q_hs s) h = Some y -> same_ino y (QW i pos true))
      by (intros y Hy; rewrite Hn in Hy; injection Hy as <-; reflexivity).
    split.
    + unfold q_with. constructor; cbn [q_dir q_inos q_hs q_cur]; auto.
      * intros h0 i0 p0 Hn0. rewrite nth_error_set_nth in Hn0. rewrite lqw_set by exact Hsame.
        destruct (Nat.eqb_spec h h0) as [<-|Nh]; [destruct (Nat.ltb _ _); discriminate|]. apply (W _ _ _ Hn0).
      * intros h0 hd Hn0. rewrite nth_error_set_nth in Hn0.
        destruct (Nat.eqb_spec h h0) as [<-|Nh]; [|eauto].
        destruct (Nat.ltb h (length (q_hs s))); [|discriminate]. injection Hn0 as <-. apply (HR _ _ Hn).
    + f_equal. unfold q_abs, q_with, with_hs.
      cbn [c_dir c_hs c_lock c_nlock c_meta c_closed q_dir q_hs q_lock q_nlock q_closed q_cur]. f_equal.
      * symmetry. apply absq_dir_ext. intros e0 He. unfold absqval, q_ino. cbn [q_inos q_hs].
        f_equal. apply lqw_set. exact Hsame.
      * rewrite map_set_nth. reflexivity.
  - pose proof I as [K F R W HR O C].
    assert (Hsame : forall y, nth_error (q_hs s) h = Some y -> same_ino y (QR i sn true))
      by (intros y Hy; rewrite Hn in Hy; injection Hy as <-; exact Logic.I).
    split.
    + unfold q_with. constructor; cbn [q_dir q_inos q_hs q_cur]; auto.
      * intros h0 i0 p0 Hn0. rewrite nth_error_set_nth in Hn0. rewrite lqw_set by exact Hsame.
        destruct (Nat.eqb_spec h h0) as [<-|Nh]; [destruct (Nat.ltb _ _); discriminate|]. apply (W _ _ _ Hn0).
      * intros h0 hd Hn0. rewrite nth_error_set_nth in Hn0.
        destruct (Nat.eqb_spec h h0) as [<-|Nh]; [|eauto].
        destruct (Nat.ltb h (length (q_hs s))); [|discriminate]. injection Hn0 as <-. apply (HR _ _ Hn).
    + f_equal. unfold q_abs, q_with, with_hs.
      cbn [c_dir c_hs c_lock c_nlock c_meta c_closed q_dir q_hs q_lock q_nlock q_closed q_cur]. f_equal.
      * symmetry. apply absq_dir_ext. intros e0 He. unfold absqval, q_ino. cbn [q_inos q_hs].
        f_equal. apply lqw_set. exact Hsame.
      * rewrite map_set_nth. reflexivity.
Qed.

(* ================================================================ every call, every run *)

Theorem fs_step_refines s o : qinv s -> op_int64 o -> dev_fs s o = false -> qrefines s o.
Proof.
  intros I Hi D. destruct o.
  - apply qref_lock; auto.
  - apply qref_unlock; auto.
  - discriminate D.
  - discriminate D.
  - apply qref_list; auto.
  - apply qref_open; auto.
  - apply qref_create; auto.
  - apply qref_remove; auto.
  - apply qref_rename; auto.
  - apply qref_close; auto.
  - apply qref_write; auto.
  - apply qref_sync; auto.
  - apply qref_readall; auto.
  - apply qref_hclose; auto.
Qed.

Theorem fs_run_refines : forall ops s,
  qinv s -> Forall op_int64 ops -> fs_dev_free s ops = true ->
  let '(s', rs) := qrun s ops in qinv s' /\ crun (q_abs s) ops = (q_abs s', rs).
Proof.
  induction ops as [|o ops IH]; intros s I Hi D; cbn [qrun crun].
  - auto.
  - cbn [fs_dev_free] in D. apply andb_prop in D. destruct D as (D1 & D2). apply negb_true_iff in D1.
    inversion Hi as [|? ? Ho Hops]; subst.
    pose proof (fs_step_refines s o I Ho D1) as R. unfold qrefines in R.
    destruct (qstep s o) as [s1 r] eqn:Hs. cbn [fst] in D2. destruct R as (I1 & R1).
    specialize (IH s1 I1 Hops D2). destruct (qrun s1 ops) as [s2 rs]. destruct IH as (I2 & R2).
    split; [exact I2|]. rewrite R1, R2. reflexivity.
Qed.

Corollary filestorage_contract_from_empty ops :
  Forall op_int64 ops -> fs_dev_free q_empty ops = true -> snd (crun c_empty ops) = snd (qrun q_empty ops).
Proof.
  intros Hi D. pose proof (fs_run_refines ops q_empty qinv_empty Hi D) as R.
  destruct (qrun q_empty ops) as [s' rs]. destruct R as (_ & R).
  change (q_abs q_empty) with c_empty in R. rewrite R. reflexivity.
Qed.
