(* Props/C05.v — property C05: concurrent use is linearizable; readers see consistent cuts.
   Property theorems only; each is closed by [exact lemma] and followed by Print Assumptions.
   All statements quantify over EVERY finite sequence of actions of the LTS Conc/ReadCut.v from `init`
   (any number of writers, transactions, flushes, compactions, readers; any interleaving of their atomic steps). *)
From GL Require Import Base.Order Codec.IKey Codec.BytesCmp Codec.BytesCmpProofs Lsm.Lsm Conc.ReadCut Conc.ReadCutProofs
  Gen.ConstsOk.

(* 1. read_cut.  Every answered read (a reader that fixed s, captured the buffers, then the version — with
      arbitrary other actions in between — and looked up k in buffers-then-version order) returned exactly the
      newest entry of k with seq <= s of the history: the state of the database at sequence number s.  That state
      is the same whether judged on the history now or on the history h0 at the reader's own ARSeq: everything
      written since is above s. *)
Theorem C05_read_cut : forall c, comparer_ok c -> forall p tr st,
  run c p init tr = Some st ->
  forall r s h0 k a, In (r, s, h0, k, a) (d_rlog st) ->
    a = spec c p (d_hist st) k s /\ a = spec c p h0 k s /\ (s <= d_seq st)%N /\
    exists tl, d_hist st = h0 ++ tl /\ forall e, In e tl -> (s < e_seq e)%N.
Proof. exact read_cut. Qed.
Print Assumptions C05_read_cut.

(* ... and (s, h0) are db.seq and the history at a single instant between the reader's call and return: the
   state in which its ARSeq was taken. *)
Theorem C05_read_instant : forall c, comparer_ok c -> forall p tr st,
  run c p init tr = Some st ->
  forall r s h0 k a, In (r, s, h0, k, a) (d_rlog st) ->
  exists tr1 tr2 st1, tr = tr1 ++ ARSeq r s :: tr2 /\ run c p init tr1 = Some st1 /\ d_seq st1 = s /\ d_hist st1 = h0.
Proof. exact read_instant. Qed.
Print Assumptions C05_read_instant.

(* The invariant behind read_cut, for readers still in flight (rinv): once a reader has the buffers, the
   captured buffers followed by the CURRENT version answer every key as the history does at s (flush installs
   before it drops; rewrites respect registered s; half-inserted groups and uncommitted transaction tables
   are above db.seq >= s); once it has the version too, the captured triple does. *)
Theorem C05_read_cut_inflight : forall c, comparer_ok c -> forall p tr st,
  run c p init tr = Some st -> forall r, rinv c p st r (d_rd st r).
Proof. exact read_cut_inflight. Qed.
Print Assumptions C05_read_cut_inflight.

(* The executable violation test (used by order_matters below) can never fire on the LTS of the code. *)
Theorem C05_no_violation : forall c, comparer_ok c -> forall p tr st,
  run c p init tr = Some st -> violation c p st = false.
Proof. exact no_violation. Qed.
Print Assumptions C05_no_violation.

(* The precondition of AInstallRewrite, as evaluated on observed compactions, means: minSeq is not above
   db.seq nor any registered sequence number, nothing is invented, and EVERY lookup at EVERY sequence number
   >= minSeq answers as before (what C03_compaction_preserves proves of the code's merge + drop rule). *)
Theorem C05_rewrite_check_sound : forall c, comparer_ok c -> forall p st m v',
  rewrite_okb c p st m v' = true -> rewrite_ok c p st m v'.
Proof. exact rewrite_okb_sound. Qed.
Print Assumptions C05_rewrite_check_sound.

(* 2. writes_linearize.  The publications (APublish = addSeq, ASetSeq = setSeq) are the linearisation points:
      (1) published groups tile (0, db.seq]; every entry written is in the group in progress or in exactly the
          group whose range holds its sequence number;
      (2) batch atomicity: every reader in flight and every answered read sees each group entirely or not at
          all, and nothing of the group in progress;
      (3) whoever sees any entry of a group sees every group published before it (a client's later write is
          never visible without its earlier ones);
      (4) real time: a reader whose ARSeq comes after a publication sees that whole group;
      (5) db.seq only grows. *)
Theorem C05_writes_linearize : forall c, comparer_ok c -> forall p tr st,
  run c p init tr = Some st ->
  (glchain (d_seq st) (d_glog st) /\
   (forall g e, In g (d_glog st) -> In e (g_es g) -> In e (d_hist st) /\ (g_lo g < e_seq e <= g_hi g)%N) /\
   (forall e, In e (d_pend st) -> In e (d_hist st) /\ (d_seq st < e_seq e)%N) /\
   (forall e, In e (d_hist st) -> In e (d_pend st) \/ exists g, In g (d_glog st) /\ In e (g_es g))) /\
  (forall r, r_ph (d_rd st r) <> PIdle ->
     (forall g, In g (d_glog st) -> all_vis (r_s (d_rd st r)) (g_es g) \/ none_vis (r_s (d_rd st r)) (g_es g)) /\
     none_vis (r_s (d_rd st r)) (d_pend st)) /\
  (forall r s h0 k a, In (r, s, h0, k, a) (d_rlog st) ->
     (forall g, In g (d_glog st) -> all_vis s (g_es g) \/ none_vis s (g_es g)) /\ none_vis s (d_pend st)) /\
  (forall gl1 g2 gl2 g1 s, d_glog st = gl1 ++ g2 :: gl2 -> In g1 gl2 ->
     (exists e, In e (g_es g2) /\ (e_seq e <= s)%N) -> all_vis s (g_es g1)) /\
  (forall r s st', step c p st (ARSeq r s) = Some st' ->
     s = d_seq st /\ forall g, In g (d_glog st) -> all_vis s (g_es g)) /\
  (forall tr' st', run c p st tr' = Some st' -> (d_seq st <= d_seq st')%N).
Proof. exact writes_linearize. Qed.
Print Assumptions C05_writes_linearize.

(* successive reads (of one client or of different ones) never go back in time *)
Theorem C05_reads_monotone : forall c, comparer_ok c -> forall p tr1 r1 s1 tr2 r2 s2 tr3 st,
  run c p init (tr1 ++ ARSeq r1 s1 :: tr2 ++ ARSeq r2 s2 :: tr3) = Some st -> (s1 <= s2)%N.
Proof. exact reads_monotone. Qed.
Print Assumptions C05_reads_monotone.

(* 3. order_matters.  The same LTS with ONE of the four publication orders reversed (stepv differs from step
      only in the two actions of the reversed pair: C05_alt_is_same_system) reaches a state in which an
      answered read differs from the state of the database at its sequence number. *)
Theorem C05_order_matters :
  (exists tr st, runv bytewise kp VReaderVersionFirst init tr = Some st /\ violation bytewise kp st = true) /\
  (exists tr st, runv bytewise kp VDropBeforeInstall init tr = Some st /\ violation bytewise kp st = true) /\
  (exists tr st, runv bytewise kp VPublishBeforeInsert init tr = Some st /\ violation bytewise kp st = true) /\
  (exists tr st, runv bytewise kp VSetSeqBeforeInstall init tr = Some st /\ violation bytewise kp st = true).
Proof. exact order_matters. Qed.
Print Assumptions C05_order_matters.

Theorem C05_alt_is_same_system : forall c p v st a,
  match v, a with
  | VReaderVersionFirst, (ARVersion _ | ARMems _) => True
  | VDropBeforeInstall, (ADropFrozen | AInstallTable _) => True
  | VPublishBeforeInsert, (APublish _ _ | AIns _ _) => True
  | VSetSeqBeforeInstall, (ASetSeq _ _ | ATxnInstall _ _) => True
  | _, _ => stepv c p v st a = step c p st a
  end.
Proof. exact stepv_agrees. Qed.
Print Assumptions C05_alt_is_same_system.

(* Non-vacuity.  Three executions in which the reader's steps are separated by a rotation, the flush's install,
   the drop, a concurrent group, a transaction commit and a compaction are accepted by the LTS with the right
   answers; the four wrong-order executions are refused by it (this is what trace inclusion detects) and violate
   read_cut in the alternative LTS.  comparer_ok is satisfiable (bytewise). *)
Example C05_nonvacuous :
  comparer_ok bytewise /\
  accepts bytewise kp tr_good1 = true /\ accepts bytewise kp tr_good2 = true /\ accepts bytewise kp tr_good3 = true /\
  violates VReaderVersionFirst tr_reader_swapped = true /\ accepts bytewise kp tr_reader_swapped = false /\
  violates VDropBeforeInstall tr_drop_first = true /\ accepts bytewise kp tr_drop_first = false /\
  violates VPublishBeforeInsert tr_publish_first = true /\ accepts bytewise kp tr_publish_first = false /\
  violates VSetSeqBeforeInstall tr_setseq_first = true /\ accepts bytewise kp tr_setseq_first = false.
Proof.
  split; [exact bytewise_ok|].
  destruct good_traces_accepted as [G1 [G2 G3]].
  destruct order_matters_witnesses as [A [B [C [D [A' [B' [C' D']]]]]]].
  repeat split; assumption.
Qed.
