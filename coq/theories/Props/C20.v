(* Props/C20.v — property C20: the DB neither keeps nor exposes shared buffers across the API boundary.
   Property theorems only; each is closed by [exact lemma] and followed by Print Assumptions.

   Status: partial — an ownership model obtained by reading which calls copy and which slice
   (Alias/AliasModel.v); Go's garbage collector and slice-capacity aliasing through reallocating appends are
   outside the model except where the harness observes addresses.  Within the model the statements are at
   full strength: every program (API calls, background work and client scribbles interleaved at will),
   every configuration (buffer pool on/off, block cache on/off with eviction at any time, compression
   on/off, any block size), every data location (write buffer, frozen buffer, level 0, deeper level,
   transaction buffer and tables). *)
From GL Require Import Alias.Heap Alias.AliasModel Alias.AliasProofs.

(* 1. Separation: in every reachable state every buffer the client may overwrite (arguments it passed,
      values it received) is client-owned, and no location reachable from a DB-side structure (write
      buffer arenas, cached blocks, pooled buffers, the pooled batch, iterator buffers and their pinned
      sources) is. *)
Theorem C20_separation : forall c p, separated (final fixed_modes c p).
Proof. exact separation. Qed.
Print Assumptions C20_separation.

Theorem C20_separation_disjoint : forall c p r,
  In r (cvis (final fixed_modes c p)) -> ~ In (rloc r) (db_reach (final fixed_modes c p)).
Proof. exact separation_disjoint. Qed.
Print Assumptions C20_separation_disjoint.

(* 2. Noninterference: the outputs of any program with arbitrary client scribbles (over the full capacity
      of any buffer the client holds) and arbitrary background work interleaved are the outputs of the
      plain map, which never sees a scribble ... *)
Theorem C20_noninterference : forall c p, outputs fixed_modes c p = spec_outputs p.
Proof. exact noninterference. Qed.
Print Assumptions C20_noninterference.

(* ... hence equal the outputs of the same program without the scribbles, in any configuration, wherever
   the data lives. *)
Theorem C20_scribbles_do_not_matter : forall c p, outputs fixed_modes c p = outputs fixed_modes c (no_scribbles p).
Proof. exact scribbles_do_not_matter. Qed.
Print Assumptions C20_scribbles_do_not_matter.

Theorem C20_configuration_does_not_matter : forall c1 c2 p, outputs fixed_modes c1 p = outputs fixed_modes c2 p.
Proof. exact configuration_does_not_matter. Qed.
Print Assumptions C20_configuration_does_not_matter.

Theorem C20_data_location_does_not_matter : forall c p, outputs fixed_modes c p = outputs fixed_modes c (no_env p).
Proof. exact data_location_does_not_matter. Qed.
Print Assumptions C20_data_location_does_not_matter.

(* 3. What an existing iterator exposes stays intact until that iterator is moved or released. *)
Theorem C20_iterator_buffers_stable : forall c pre mid i,
  (forall o, In o mid -> moves i o = false) ->
  nth_error (iters (final fixed_modes c pre)) i <> None ->
  snd (step fixed_modes c (final fixed_modes c (pre ++ mid)) (OIterRead i)) =
  snd (step fixed_modes c (final fixed_modes c pre) (OIterRead i)).
Proof. exact iterator_buffers_stable. Qed.
Print Assumptions C20_iterator_buffers_stable.

(* 4. The table path before the fix (find sliced the block whenever the buffer pool was off) violates both:
      D1, DisableBufferPool with the block cache on. *)
Theorem C20_get_alias_refuted :
  exists c p, outputs unfixed_modes c p <> spec_outputs p /\
              outputs unfixed_modes c p <> outputs unfixed_modes c (no_scribbles p).
Proof. exact get_alias_refuted. Qed.
Print Assumptions C20_get_alias_refuted.

Theorem C20_separation_refuted : exists c p, ~ separated (final unfixed_modes c p).
Proof. exact separation_refuted. Qed.
Print Assumptions C20_separation_refuted.

(* Non-vacuity: a program whose second Get is answered from a cached table block after the client
   overwrote the first result; an iterator that exists and is read across other work. *)
Example C20_nonvacuous_cached_get :
  outputs fixed_modes d1_config d1_program = [OVal (Some [1; 2; 3]%N); OVal (Some [1; 2; 3]%N)]
  /\ cache (final fixed_modes d1_config d1_program) <> [].
Proof. split; vm_compute; [reflexivity|discriminate]. Qed.

Example C20_nonvacuous_iterator :
  let pre := [OPut [1]%N [10]%N; OIterNew; OIterNext 0] in
  let mid := [OPut [1]%N [11]%N; ERotate; EFlush; ECompact; OGet [1]%N; CScribble 0 0 [9]%N] in
  (forall o, In o mid -> moves 0 o = false) /\
  nth_error (iters (final fixed_modes cfg_plain pre)) 0 <> None /\
  snd (step fixed_modes cfg_plain (final fixed_modes cfg_plain (pre ++ mid)) (OIterRead 0)) = Some (OPair (Some ([1]%N, [10]%N))).
Proof.
  cbv zeta. split; [|split].
  - intros o H. simpl in H. repeat (destruct H as [<-|H]; [reflexivity|]). contradiction.
  - vm_compute. discriminate.
  - vm_compute. reflexivity.
Qed.

(* The copy/slice table is tight: replacing any one of these copies by a slice breaks the property. *)
Example C20_copy_needed_get_mem :
  outputs (flip PGetMem) cfg_plain [OPut [1]%N [10; 11]%N; OGet [1]%N; CScribble 0 0 [9; 9]%N; OGet [1]%N]
  <> spec_outputs [OPut [1]%N [10; 11]%N; OGet [1]%N; CScribble 0 0 [9; 9]%N; OGet [1]%N].
Proof. exact copy_needed_get_mem. Qed.

(* ============================================================================================================
   Second pass (C20x): the paths the first pass left out.  Models: Alias/MergeModel.v (the callers' memory laid over
   the C10 transition system of the write-merge protocol), Alias/XModel.v (iterators in both directions, Snapshot and
   Transaction reads, reads in two phases, block buffers between util.BufferPool of Base/UBuffer.v, the block cache
   with handles, the iterators' children and the reading calls), Alias/ApiModes.v (promised / delivered per method).
   Outside: the Go scheduler (one action of one goroutine at a time; the write-merge protocol with any number of
   writers and reads in flight are interleavings of such actions), the garbage collector, reallocation by append.
   ============================================================================================================ *)
From GL Require Conc.WriteMerge Conc.WriteMergeProofs.
From GL Require Import Alias.MergeModel Alias.MergeProofs.
From GL Require Import Alias.XModel Alias.XPoolProofs Alias.XInvProofs Alias.XIterProofs Alias.ApiModes Alias.ApiProofs.

(* ---- (a) the write-merge path ---- *)

(* 5. A caller's memory (its Batch, or the key/value slices of Put/Delete wrapped in writeMerge{...}) is read — by its
      own goroutine or by the leader it was merged into — only while its call is in progress: for every reachable
      state of the protocol with any number of writers and every enabled action. *)
Theorem C20_merge_reads_only_during_call : forall mp n s a s' i,
  WriteMergeProofs.reachable mp n s -> WriteMerge.step mp s a = Some s' -> In i (mreads s a) -> in_call (wpc_of s i) = true.
Proof. exact reads_in_call. Qed.
Print Assumptions C20_merge_reads_only_during_call.

(* ... in particular never after its acknowledgement has been SENT (the rendezvous on db.writeAckC), whatever happens
   afterwards (tr: any continuation), ... *)
Theorem C20_merge_no_read_after_ack : forall mp n s0 l i s1 tr s2 a s3,
  WriteMergeProofs.reachable mp n s0 -> WriteMerge.step mp s0 (WriteMerge.AAck l i) = Some s1 ->
  WriteMerge.run mp s1 tr = Some s2 -> WriteMerge.step mp s2 a = Some s3 -> ~ In i (mreads s2 a).
Proof. exact no_read_after_ack. Qed.
Print Assumptions C20_merge_no_read_after_ack.

(* ... nor, for a leader, after its call returned. *)
Theorem C20_merge_no_read_after_return : forall mp n s0 i s1 tr s2 a s3,
  WriteMergeProofs.reachable mp n s0 -> WriteMerge.step mp s0 (WriteMerge.AReturn i) = Some s1 ->
  WriteMerge.run mp s1 tr = Some s2 -> WriteMerge.step mp s2 a = Some s3 -> ~ In i (mreads s2 a).
Proof. exact no_read_after_return. Qed.
Print Assumptions C20_merge_no_read_after_return.

(* 6. Hence, with the clients overwriting their memory at will once their calls returned, every copy the DB made —
      journal record, write buffer, the pooled batch of Put/Delete — holds what its caller passed. *)
Theorem C20_merge_copies_are_the_arguments : forall mp n s,
  mreachable mp code_variant n s -> copies_are_args s.
Proof. exact copies_are_args_inv. Qed.
Print Assumptions C20_merge_copies_are_the_arguments.

(* 7. The db.batchPool-ed Batch a leader uses for Put/Delete (its own record and the merged ones) is in the pool or
      belongs to one writeLocked frame. *)
Theorem C20_merge_pooled_batch_single_owner : forall mp n s,
  mreachable mp code_variant n s -> pooled_batches_single_owner s.
Proof. exact pooled_single_owner. Qed.
Print Assumptions C20_merge_pooled_batch_single_owner.

(* 8. The realistic re-orderings are refuted: merged writers acknowledged before putMem (mutation M6), and a leader
      that copies the merged batches into its journal record only after the acknowledgements. *)
Theorem C20_merge_ack_before_putmem_refuted :
  exists n tr s, mrun mp_code m6_variant (minit n) tr = Some s /\ ~ copies_are_args s.
Proof. exact ack_before_putmem_refuted. Qed.
Print Assumptions C20_merge_ack_before_putmem_refuted.

Theorem C20_merge_lazy_journal_refuted :
  exists n tr s, mrun mp_code lazy_journal_variant (minit n) tr = Some s /\ ~ copies_are_args s.
Proof. exact lazy_journal_refuted. Qed.
Print Assumptions C20_merge_lazy_journal_refuted.

(* Non-vacuity: in the run used for the refutations the code does read the merged writer's batch while that writer
   waits for its acknowledgement, and both copies hold its argument although it scribbled after its return; for
   Put/Delete callers the walks read no caller memory at all and the pooled batch returns to the pool. *)
Example C20_merge_nonvacuous :
  logs_of code_variant m6_trace = Some ([(0%nat, [1%N]); (1%nat, [2%N])], [(0%nat, [1%N]); (1%nat, [2%N])], [[1%N]; [2%N]])
  /\ match mrun mp_code code_variant (minit 2) (firstn 9 m6_trace) with
     | Some s => mreads (mb s) (WriteMerge.AJournalOk 0) = [0%nat; 1%nat] /\ wpc_of (mb s) 1 = WriteMerge.WWaitAck
     | None => False
     end.
Proof. split; [exact m6_trace_code|exact m6_trace_reads]. Qed.

Example C20_merge_put_nonvacuous :
  match mrun mp_code code_variant (minit 2) put_trace with
  | Some s => mjournal s = [(0%nat, [1%N]); (1%nat, [2%N])] /\ mmem s = [(0%nat, [1%N]); (1%nat, [2%N])] /\ mpool s = [0%nat] /\ mheld s = [None; None]
  | None => False
  end
  /\ match mrun mp_code code_variant (minit 2) (firstn 9 put_trace) with
     | Some s => mreads (mb s) (WriteMerge.AJournalOk 0) = [] /\ mheld s = [Some 0%nat; None] /\ mpb s = [[(0%nat, [1%N]); (1%nat, [2%N])]]
     | None => False
     end.
Proof. exact put_trace_code. Qed.

(* ---- (d) pooled buffers ---- *)

(* 9. C20_pool_single_owner: in every reachable state of the extended model — every program of puts, reads in two
      phases through DB / Snapshot / Transaction, iterators moved in both directions, flushes, evictions, the pool
      forgetting slices, table writers, client scribbles; every configuration; every choice sync.Pool makes — a block
      buffer has exactly one owner among {the buffer pool, a cache node, an iterator's child, a reading call}, and
      whoever reads a cached block through a handle reads a block the cache still has.  (The cache's own reference
      counting is property C17; the model takes "a handle is left" from the holders' records.) *)
Theorem C20_pool_single_owner : forall c pbase p, single_owner (xfinal xfixed c pbase p).
Proof. intros c pbase p. exact (XInv_single_owner c _ (XInv_final c pbase p)). Qed.
Print Assumptions C20_pool_single_owner.

(* ... and it is preserved by every single step, from any state that satisfies the invariant. *)
Theorem C20_pool_single_owner_step : forall md c s o, get_modes_fixed md -> XInv c s ->
  XInv c (fst (xstep md c s o)) /\ single_owner (fst (xstep md c s o)).
Proof. intros md c s o Mg X. pose proof (XInv_step md c s o Mg X) as X1. split; [exact X1|exact (XInv_single_owner c _ X1)]. Qed.
Print Assumptions C20_pool_single_owner_step.

(* 10. Separation for the extended model: what the client may write is client-owned; pooled, cached and privately held
       block buffers and the iterators' buffers are not. *)
Theorem C20_x_separation : forall c pbase p, xseparated (xfinal xfixed c pbase p).
Proof. intros c pbase p. exact (XInv_separated c _ (XInv_final c pbase p)). Qed.
Print Assumptions C20_x_separation.

(* 11. What breaks it: a second Put of the same slice (defect 239f7b9, table.Writer.Close run twice): nothing in the
       pool notices, the census has a duplicate and two Gets hand the same array out. *)
Theorem C20_pool_double_put_refuted :
  let c := cfg_pool_only in
  let b0 := xbm (xinit 16) in
  let '(b1, l) := bpool_get c b0 8 None in
  let b2 := bpool_put c (bpool_put c b1 l) l in
  let '(b3, l1) := bpool_get c b2 5 (Some 0%nat) in
  let '(b4, l2) := bpool_get c b3 5 (Some 0%nat) in
  BInv b1 /\ ~ NoDup (pool_ids (bpl b2)) /\ ~ BInv b2 /\ UBuffer.bp_count (bpl b2) l = 2%nat /\ l1 = l /\ l2 = l.
Proof. exact pool_double_put_breaks_single_owner. Qed.
Print Assumptions C20_pool_double_put_refuted.

(* ---- (b) iterators in both directions ---- *)

(* 12. C20_iterator_buffers_stable for ALL movement sequences: however iterator i got where it is (First, Last, Seek,
       Next, Prev in any order and direction, of a DB, Snapshot or Transaction iterator), what Key()/Value() expose is
       unchanged by any operations that neither move nor release it. *)
Theorem C20_iterator_buffers_stable_all_moves : forall c pbase pre mid i,
  (forall o, In o mid -> xmoves i o = false) ->
  get_iter (xfinal xfixed c pbase pre) i <> None ->
  xiter_read (xfinal xfixed c pbase (pre ++ mid)) i = xiter_read (xfinal xfixed c pbase pre) i.
Proof. intros c pbase pre mid i. exact (iterator_stable_all_moves xfixed c pbase pre mid i xfixed_get_modes xfixed_iter_copy). Qed.
Print Assumptions C20_iterator_buffers_stable_all_moves.

(* 13. C20_iterator_release_returns_buffers: Release is not a seeks method.  The code drops the iterator's two
       buffers for the garbage collector and never pools them: the slices the caller kept keep their contents for
       ever, and their array is never among the buffers of the pool, the cache or any holder — only the block buffers
       of the children, of which the caller never had a slice, go back. *)
Theorem C20_iterator_release_returns_buffers : forall c pbase pre post i it,
  get_iter (xfinal xfixed c pbase pre) i = Some it ->
  let s0 := xfinal xfixed c pbase pre in
  let s1 := xfinal xfixed c pbase (pre ++ XIterRelease i :: post) in
  (exists it', get_iter s1 i = Some it' /\ xi_live it' = false /\ xi_exk it' = xi_exk it /\ xi_exv it' = xi_exv it) /\
  deref (xhp s1) (xi_exk it) = deref (xhp s0) (xi_exk it) /\ deref (xhp s1) (xi_exv it) = deref (xhp s0) (xi_exv it) /\
  ~ In (rloc (xi_exk it)) (census s1) /\ ~ In (rloc (xi_exv it)) (census s1).
Proof. intros c pbase pre post i it. exact (iterator_release_keeps_slices xfixed c pbase pre post i it xfixed_get_modes xfixed_iter_copy). Qed.
Print Assumptions C20_iterator_release_returns_buffers.

(* 14. The mutants: dbIter.prev without the copy of the value (the merged iterator rests on the entry before, its
       block may be gone), and the same at Release (the exposed block buffer goes to the pool and the next read
       overwrites the caller's slice). *)
Theorem C20_prev_value_slice_refuted :
  exists md c pbase pre mid i, get_modes_fixed md /\ (forall o, In o mid -> xmoves i o = false) /\
    get_iter (xfinal md c pbase pre) i <> None /\
    xiter_read (xfinal md c pbase (pre ++ mid)) i <> xiter_read (xfinal md c pbase pre) i.
Proof. exact prev_value_slice_refuted. Qed.
Print Assumptions C20_prev_value_slice_refuted.

Theorem C20_release_pools_exposed_buffer_refuted :
  exists md c pbase pre post i it, get_modes_fixed md /\ get_iter (xfinal md c pbase pre) i = Some it /\
    In (rloc (xi_exv it)) (census (xfinal md c pbase (pre ++ [XIterRelease i]))) /\
    deref (xhp (xfinal md c pbase (pre ++ XIterRelease i :: post))) (xi_exv it) <> deref (xhp (xfinal md c pbase pre)) (xi_exv it).
Proof. exact release_pools_exposed_buffer_refuted. Qed.
Print Assumptions C20_release_pools_exposed_buffer_refuted.

Example C20_iterator_nonvacuous :
  let pre := [XPut [1%N] [10%N]; XPut [2%N] [20%N]; XPut [3%N] [30%N]; EXFlush None; XSnapNew; XPut [2%N] [21%N];
              XIterNew (AccSnap 0); XIterMove 0 MLast [] pk0 [(0%nat, Some 1%nat, pk0)]; XIterMove 0 MPrev [] pk0 [(0%nat, Some 2%nat, pk0)]] in
  let mid := [XIterNew AccDB; XIterMove 1 (MSeek [2%N]) [] pk0 []; XGetBegin AccDB [3%N] [] pk0; EXFlush (Some 0%nat); EXEvict 0;
              XIterMove 1 MPrev [] pk0 []; XGetEnd 0; XScribble 0 0 [7%N]; EXTableWrite 8 (Some 0%nat) [5%N; 5%N; 5%N]; XIterRelease 1] in
  (forall o, In o mid -> xmoves 0 o = false) /\
  xiter_read (xfinal xfixed cfg_both 16 pre) 0 = Some (XPair (Some ([2%N], [20%N]))) /\
  xiter_read (xfinal xfixed cfg_both 16 (pre ++ mid)) 0 = Some (XPair (Some ([2%N], [20%N]))) /\
  xoutputs xfixed cfg_both 16 (pre ++ mid) = [XBool true; XBool true; XBool true; XBool true; XVal (Some [30%N])].
Proof. exact stable_nonvacuous. Qed.

(* ---- (c) per method: promised and delivered ---- *)

(* 15. For every method, configuration and data location the code delivers at least what the doc comment promises;
       Snapshot.Get (comment: "should not modify") delivers what DB.Get does ("its own copy"). *)
Theorem C20_delivered_honours_promised : forall a c p, honours (delivered fixed_modes xfixed a c p) (promised a) = true.
Proof. exact delivered_honours_promised. Qed.
Print Assumptions C20_delivered_honours_promised.

Theorem C20_snapshot_get_as_db_get : forall c p,
  delivered fixed_modes xfixed (ApiGet KSnap) c p = delivered fixed_modes xfixed (ApiGet KDB) c p
  /\ stronger_than_promised (delivered fixed_modes xfixed (ApiGet KSnap) c p) (promised (ApiGet KSnap)) = true.
Proof. exact snapshot_get_as_db_get. Qed.
Print Assumptions C20_snapshot_get_as_db_get.

(* 16. Snapshot.Get handing out the write buffer's slice: a client scribble changes what the DB returns and separation
       fails; with the code's table the same program is scribble-independent.
       PARTIAL for the extended model: the general statement  outputs (p) = outputs (p without scribbles)  for EVERY
       program of Alias/XModel.v is not proved here (the first pass proves it for its machine: C20_noninterference);
       what is proved for every program is separation (10), single ownership (9) and the stability of exposures (12, 13). *)
Theorem C20_snapshot_get_slice_refuted :
  xoutputs md_snap_get_slice cfg_both 16 snap_prog <> xoutputs md_snap_get_slice cfg_both 16 (x_no_scribbles snap_prog)
  /\ ~ xseparated (xfinal md_snap_get_slice cfg_both 16 snap_prog)
  /\ xoutputs xfixed cfg_both 16 snap_prog = xoutputs xfixed cfg_both 16 (x_no_scribbles snap_prog).
Proof. exact snapshot_get_slice_refuted. Qed.
Print Assumptions C20_snapshot_get_slice_refuted.

(* 17. C20_x_scribbles_do_not_matter_partial.  The full statement for the extended machine would be
         forall c pbase p, xoutputs xfixed c pbase p = xoutputs xfixed c pbase (x_no_scribbles p).
       Proved here is its write side, for every program: a client scribble changes client-owned cells only (no arena, no
       cached, pooled or held block buffer, no iterator buffer; no record).  Missing: the read side as a theorem (that no
       step reads a client-owned cell other than through the arguments it is given) — it is what separation (10),
       single ownership (9) and exposure stability (12, 13) are the ingredients of, and what the refutation (16) shows to
       fail for the mutant. *)
Theorem C20_x_scribbles_do_not_matter_partial : forall c pbase p i pos g,
  let s := xfinal xfixed c pbase p in
  let s' := xscribble s i pos g in
  (forall l, hown (xhp s) l <> Some Client -> hget (xhp s') l = hget (xhp s) l) /\
  (forall l, hown (xhp s') l = hown (xhp s) l) /\
  xset_hp s' (xhp s) = s.
Proof. exact scribble_hits_client_memory_only. Qed.
Print Assumptions C20_x_scribbles_do_not_matter_partial.
