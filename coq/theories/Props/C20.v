(* Props/C20.v — property C20: the DB neither keeps nor exposes shared buffers across the API boundary.
   Property theorems only; each is closed by [exact lemma] and followed by Print Assumptions.

   Status: partial — an ownership model obtained by reading which calls copy and which slice
   (Alias/AliasModel.v); Go's garbage collector and slice-capacity aliasing through reallocating appends are
   outside the model except where the harness observes addresses.  Within the model the statements are at
   full strength: every program (API calls, background work and client scribbles interleaved at will),
   every configuration (buffer pool on/off, block cache on/off with eviction at any time, compression
   on/off, any block size), every data location (write buffer, frozen buffer, level 0, deeper level,
   transaction buffer and tables). *)
From GL Require Import Alias.Heap Alias.AliasModel Alias.AliasProofs.

(* 1. Separation: in every reachable state every buffer the client may overwrite (arguments it passed,
      values it received) is client-owned, and no location reachable from a DB-side structure (write
      buffer arenas, cached blocks, pooled buffers, the pooled batch, iterator buffers and their pinned
      sources) is. *)
Theorem C20_separation : forall c p, separated (final fixed_modes c p).
Proof. exact separation. Qed.
Print Assumptions C20_separation.

Theorem C20_separation_disjoint : forall c p r,
  In r (cvis (final fixed_modes c p)) -> ~ In (rloc r) (db_reach (final fixed_modes c p)).
Proof. exact separation_disjoint. Qed.
Print Assumptions C20_separation_disjoint.

(* 2. Noninterference: the outputs of any program with arbitrary client scribbles (over the full capacity
      of any buffer the client holds) and arbitrary background work interleaved are the outputs of the
      plain map, which never sees a scribble ... *)
Theorem C20_noninterference : forall c p, outputs fixed_modes c p = spec_outputs p.
Proof. exact noninterference. Qed.
Print Assumptions C20_noninterference.

(* ... hence equal the outputs of the same program without the scribbles, in any configuration, wherever
   the data lives. *)
Theorem C20_scribbles_do_not_matter : forall c p, outputs fixed_modes c p = outputs fixed_modes c (no_scribbles p).
Proof. exact scribbles_do_not_matter. Qed.
Print Assumptions C20_scribbles_do_not_matter.

Theorem C20_configuration_does_not_matter : forall c1 c2 p, outputs fixed_modes c1 p = outputs fixed_modes c2 p.
Proof. exact configuration_does_not_matter. Qed.
Print Assumptions C20_configuration_does_not_matter.

Theorem C20_data_location_does_not_matter : forall c p, outputs fixed_modes c p = outputs fixed_modes c (no_env p).
Proof. exact data_location_does_not_matter. Qed.
Print Assumptions C20_data_location_does_not_matter.

(* 3. What an existing iterator exposes stays intact until that iterator is moved or released. *)
Theorem C20_iterator_buffers_stable : forall c pre mid i,
  (forall o, In o mid -> moves i o = false) ->
  nth_error (iters (final fixed_modes c pre)) i <> None ->
  snd (step fixed_modes c (final fixed_modes c (pre ++ mid)) (OIterRead i)) =
  snd (step fixed_modes c (final fixed_modes c pre) (OIterRead i)).
Proof. exact iterator_buffers_stable. Qed.
Print Assumptions C20_iterator_buffers_stable.

(* 4. The table path before the fix (find sliced the block whenever the buffer pool was off) violates both:
      D1, DisableBufferPool with the block cache on. *)
Theorem C20_get_alias_refuted :
  exists c p, outputs unfixed_modes c p <> spec_outputs p /\
              outputs unfixed_modes c p <> outputs unfixed_modes c (no_scribbles p).
Proof. exact get_alias_refuted. Qed.
Print Assumptions C20_get_alias_refuted.

Theorem C20_separation_refuted : exists c p, ~ separated (final unfixed_modes c p).
Proof. exact separation_refuted. Qed.
Print Assumptions C20_separation_refuted.

(* Non-vacuity: a program whose second Get is answered from a cached table block after the client
   overwrote the first result; an iterator that exists and is read across other work. *)
Example C20_nonvacuous_cached_get :
  outputs fixed_modes d1_config d1_program = [OVal (Some [1; 2; 3]%N); OVal (Some [1; 2; 3]%N)]
  /\ cache (final fixed_modes d1_config d1_program) <> [].
Proof. split; vm_compute; [reflexivity|discriminate]. Qed.

Example C20_nonvacuous_iterator :
  let pre := [OPut [1]%N [10]%N; OIterNew; OIterNext 0] in
  let mid := [OPut [1]%N [11]%N; ERotate; EFlush; ECompact; OGet [1]%N; CScribble 0 0 [9]%N] in
  (forall o, In o mid -> moves 0 o = false) /\
  nth_error (iters (final fixed_modes cfg_plain pre)) 0 <> None /\
  snd (step fixed_modes cfg_plain (final fixed_modes cfg_plain (pre ++ mid)) (OIterRead 0)) = Some (OPair (Some ([1]%N, [10]%N))).
Proof.
  cbv zeta. split; [|split].
  - intros o H. simpl in H. repeat (destruct H as [<-|H]; [reflexivity|]). contradiction.
  - vm_compute. discriminate.
  - vm_compute. reflexivity.
Qed.

(* The copy/slice table is tight: replacing any one of these copies by a slice breaks the property. *)
Example C20_copy_needed_get_mem :
  outputs (flip PGetMem) cfg_plain [OPut [1]%N [10; 11]%N; OGet [1]%N; CScribble 0 0 [9; 9]%N; OGet [1]%N]
  <> spec_outputs [OPut [1]%N [10; 11]%N; OGet [1]%N; CScribble 0 0 [9; 9]%N; OGet [1]%N].
Proof. exact copy_needed_get_mem. Qed.
