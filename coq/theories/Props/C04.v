(* Props/C04.v — property C04: crash at any instant — synced writes survive, batches stay atomic, the DB
   reopens.  Property theorems only.  The model (Store/Crash.v) is at record granularity: a crash leaves, per
   file, any prefix of its records that contains the synced prefix (cuts inside a record, zero or garbage
   tails are reduced to this by C12's truncation/damage theorems), never-synced files may vanish, and
   namespace operations are atomic and ordered. *)
From GL Require Import Store.Crash Store.CrashProofs.
From GL Require Import Base.Bytes Codec.Crc Codec.Journal Codec.JournalSpec Store.CrashBytes Store.CrashBytesProofs
  Gen.Consts Gen.InstJournal Gen.InstJournalOk.

(* For every history of writes (with or without sync), failed journal writes, journal syncs, buffer rotations,
   flushes (table, edit, manifest sync, journal removal — each a separate crash point), transaction commits,
   compaction edits, AND crashes followed by recovery (PRestart leaves any admissible image and replays it into
   memory; the flushes recovery then performs are ordinary steps, hence crash points again — nested crashes),
   and for every admissible crash image of the state reached: recovery contains every batch acknowledged as
   durable, only batches that were issued, each at most once and in issue order — so the recovered contents
   are those of a subset of the issued batches applied in their original order, every batch entirely present
   or entirely absent. *)
Theorem C04_crash_safe : forall ops img, is_image (prun ops) img ->
  (forall b, In b (p_acked (prun ops)) -> In b (recover img)) /\
  (forall b, In b (recover img) -> In b (p_issued (prun ops))) /\
  sorted_b (recover img).
Proof. exact crash_safe. Qed.
Print Assumptions C04_crash_safe.

(* the invariant behind it holds in every reachable state (so recovery can be followed by more history) *)
Theorem C04_invariant_reachable : forall ops, pinv (prun ops).
Proof. exact pinv_run. Qed.
Print Assumptions C04_invariant_reachable.

(* Non-vacuity and necessity of the ordering obligations, by computation. *)
Definition ex_ops : list pop :=
  [PWrite 2 true; PWrite 1 false; PRotate; PWrite 3 true; PFlushEdit; PManSync; PDropFrozen; PTxnCommit 0;
   PWrite 1 true; PCompactEdit].

(* a crash in the middle of that history, recovery, more writes, and a second crash inside the second
   recovery's flush: the batches acknowledged with sync before each crash are still there *)
Definition ex_ops_nested : list pop :=
  [PWrite 2 true; PWrite 1 false; PRotate; PWrite 3 true; PFlushEdit;
   PRestart 0 0 0;                      (* crash: unsynced manifest tail and journal tails lost *)
   PFlushEdit; PManSync; PDropFrozen; PRotate; PFlushEdit;   (* recovery flushes both journals ... *)
   PRestart 0 0 0;                      (* ... and is itself interrupted *)
   PRotate; PFlushEdit; PManSync; PDropFrozen; PWrite 1 true].
Example C04_nonvacuous_nested :
  let s := prun ex_ops_nested in
  recover (mk_image s 0 0 0) = [{| b_seq := 1; b_n := 2 |}; {| b_seq := 4; b_n := 3 |}; {| b_seq := 8; b_n := 1 |}] /\
  p_acked s = [{| b_seq := 1; b_n := 2 |}; {| b_seq := 4; b_n := 3 |}; {| b_seq := 8; b_n := 1 |}].
Proof. split; vm_compute; reflexivity. Qed.

(* the weakest image (nothing unsynced survives) still recovers the three synced batches *)
Example C04_nonvacuous :
  let s := prun ex_ops in
  recover (mk_image s 0 0 0) =
    [{| b_seq := 1; b_n := 2 |}; {| b_seq := 3; b_n := 1 |}; {| b_seq := 4; b_n := 3 |}; {| b_seq := 7; b_n := 1 |}] /\
  p_acked s = [{| b_seq := 1; b_n := 2 |}; {| b_seq := 4; b_n := 3 |}; {| b_seq := 7; b_n := 1 |}].
Proof. split; vm_compute; reflexivity. Qed.

(* obligation (Rm)/(Mf): if the frozen journal were removed before the edit that supersedes it is durable, a
   crash that loses the unsynced manifest tail loses an acknowledged batch *)
Definition bad_drop (s : pstate) : pstate :=
  {| p_live := p_live s; p_frozen := None; p_fedit := false; p_fseq := p_fseq s; p_man := p_man s; p_msynced := p_msynced s;
     p_seq := p_seq s; p_issued := p_issued s; p_acked := p_acked s |}.
Example C04_obligation_remove_after_durable_needed :
  let s := bad_drop (prun [PWrite 2 true; PRotate; PFlushEdit]) in
  p_acked s = [{| b_seq := 1; b_n := 2 |}] /\ recover (mk_image s 0 0 0) = [].
Proof. split; vm_compute; reflexivity. Qed.

(* obligation (S): if a flush edit recorded a sequence number beyond the frozen buffer's last one (as a
   transaction committed ahead of a pending flush would), recovery skips the journal's batches *)
Example C04_obligation_seq_not_ahead_needed :
  recover {| i_live := {| j_num := 2; j_recs := [{| b_seq := 3; b_n := 1 |}]; j_synced := 1 |};
             i_frozen := Some {| j_num := 1; j_recs := [{| b_seq := 1; b_n := 2 |}]; j_synced := 1 |};
             i_man := [{| m_jnum := Some 1; m_seq := Some 0; m_tab := [] |};
                       {| m_jnum := None; m_seq := Some 9; m_tab := [{| b_seq := 4; b_n := 6 |}] |}] |}
  = [{| b_seq := 4; b_n := 6 |}].
Proof. vm_compute. reflexivity. Qed.

(* ------------------------------------------------------------------------------------------------------------
   Byte level.  The theorems above quantify over record-level images.  What a crash really leaves of a journal
   or manifest file is a byte string: the bytes that were synced (a Sync happens after whole records: Next,
   Write, Flush, Sync in writeJournal / flushManifest), any further prefix of the bytes written since — cut at
   an arbitrary byte — and possibly zeros or garbage behind the cut.  Recovery reads it with journal.Reader in
   tolerant mode (Store/CrashBytes.v: recover_bytes = C12's reader model jread false ck, driven like
   recoverJournal, then the record's own decoder; records that do not decode are skipped).  Composed with C12
   (Codec/JournalProofs.v: truncation, truncation_complete, reader_factor, jwrite_layout and the block-parser
   lemmas), for every checksum function crc and every constant record with jparams_ok:                      *)

(* Cut at any byte offset n, nothing behind the cut — unconditional.  Recovery keeps exactly firstn m recs where
   m is the number of records whose stream lies wholly within the first n bytes: the m-th record does, and
   every k whose stream does is <= m — in particular every synced record is kept (k <= m for a sync point
   after k records) — and m <= length recs: one of the images the record-level model quantifies over. *)
Theorem C04_byte_cut_is_record_image : forall crc p, jparams_ok p ->
  forall (A : Type) (enc : A -> bytes) (dec : bytes -> option A) ck fl recs n,
  dec_ok A enc dec recs ->
  exists m, (m <= length recs)%nat /\
    recover_bytes crc p A dec ck (crash_bytes crc p A enc fl recs n []) = firstn m recs /\
    (synced_len crc p A enc fl recs m <= n)%nat /\
    forall k, (synced_len crc p A enc fl recs k <= n)%nat -> (Nat.min k (length recs) <= m)%nat.
Proof. exact byte_cut_is_record_image. Qed.
Print Assumptions C04_byte_cut_is_record_image.

(* Cut at any byte offset n followed by ANY bytes (zeros, garbage, stale blocks), under the computable
   hypothesis no_forgery_tail: the block parser accepts, anywhere in the image, only a leading run of the
   chunks that were written, and nothing after the first region it rejects.  (A cut inside a chunk's payload
   followed by zeros is a chunk with an intact header and a changed payload: that its 32-bit checksum does not
   match cannot be proved for an arbitrary checksum function, so zeros need the hypothesis too.) *)
Theorem C04_byte_image_is_record_image : forall crc p, jparams_ok p ->
  forall (A : Type) (enc : A -> bytes) (dec : bytes -> option A) ck fl recs n tail,
  dec_ok A enc dec recs ->
  no_forgery_tail crc p ck (map enc recs) (crash_bytes crc p A enc fl recs n tail) = true ->
  exists m, (m <= length recs)%nat /\
    recover_bytes crc p A dec ck (crash_bytes crc p A enc fl recs n tail) = firstn m recs /\
    forall k, (synced_len crc p A enc fl recs k <= n)%nat -> (Nat.min k (length recs) <= m)%nat.
Proof. exact byte_image_is_record_image. Qed.
Print Assumptions C04_byte_image_is_record_image.

(* Where a Sync can happen: when the writer model has written k records and flushed after the k-th (fl[k-1];
   writeJournal / flushManifest call Sync right after Flush), the bytes that have reached the file are exactly
   the stream of the first k records — the synced_len used above — and the remaining records are written from
   that state on. *)
Theorem C04_sync_point_bytes : forall crc p, jparams_ok p -> forall fl (rs : list bytes) k,
  (1 <= k <= length rs)%nat -> nth (k - 1) fl false = true ->
  exists s, wRecords crc p (w_init p) fl (firstn k rs) = WOk s /\
            w_out s = jwrite crc p fl (firstn k rs) /\
            wRecords crc p (w_init p) fl rs = wRecords crc p s (skipn k fl) (skipn k rs).
Proof. exact sync_point_bytes. Qed.
Print Assumptions C04_sync_point_bytes.

(* the hypothesis is a theorem for pure cuts *)
Theorem C04_no_forgery_tail_cut : forall crc p, jparams_ok p -> forall ck fl rs n,
  no_forgery_tail crc p ck rs (firstn n (jwrite crc p fl rs) ++ []) = true.
Proof. exact no_forgery_tail_cut. Qed.
Print Assumptions C04_no_forgery_tail_cut.

(* Hence every byte-level image of a reachable state (live journal, frozen journal — which may have vanished
   if never synced — and manifest, each cut anywhere behind its synced bytes with anything behind the cut) is,
   once read, a record-level image ... *)
Theorem C04_byte_image_is_image : forall crc p, jparams_ok p ->
  forall enc_batch dec_batch enc_edit dec_edit ck s b,
  pinv s -> codecs_ok enc_batch dec_batch enc_edit dec_edit s ->
  is_byte_image crc p enc_batch enc_edit ck s b ->
  is_image s (abs_image crc p dec_batch dec_edit ck s b).
Proof. exact byte_image_is_image. Qed.
Print Assumptions C04_byte_image_is_image.

(* ... and crash_safe holds with the files given as bytes.
   ASSUMED about the manifest: its records are applied whole or not at all, as recover_bytes does (read the
   record completely, then decode).  session.recover did not do that on the pinned tree: it decoded a record
   while streaming its chunks into the one sessionRecord it reuses, so when a record was split over a 32 KiB
   block boundary and the crash kept the first chunk only, the journal / next-file / sequence numbers decoded
   from that chunk stayed in effect although the record was "skipped" — acknowledged synced writes were lost
   (found while writing this theorem; repaired in the repo by "fix: session.recover must read a manifest
   record completely before decoding it"; the directed scenario harness/cmd/c04/mantorn.go is the oracle).
   With the repair the assumption is what the code does for every torn record. *)
Theorem C04_crash_safe_bytes : forall crc p, jparams_ok p ->
  forall enc_batch dec_batch enc_edit dec_edit ck ops b,
  codecs_ok enc_batch dec_batch enc_edit dec_edit (prun ops) ->
  is_byte_image crc p enc_batch enc_edit ck (prun ops) b ->
  let r := recover_image_bytes crc p dec_batch dec_edit ck (prun ops) b in
  (forall x, In x (p_acked (prun ops)) -> In x r) /\
  (forall x, In x r -> In x (p_issued (prun ops))) /\
  sorted_b r.
Proof. exact crash_safe_bytes. Qed.
Print Assumptions C04_crash_safe_bytes.

(* Non-vacuity, by computation with the real CRC-32C, the real header size and chunk type codes and 32-byte
   blocks: three batches whose streams end at bytes 23, 96 and 117 (the second one spans three blocks), the
   first one synced.  Cut at byte 45 (inside the middle chunk of the second batch): the first batch is kept;
   the same cut followed by zeros, and by garbage: the hypothesis holds and the result is the same; cut at
   116: two batches; at 117: all three. *)
Definition ex_batches : list batch := [{| b_seq := 1; b_n := 2 |}; {| b_seq := 3; b_n := 20 |}; {| b_seq := 23; b_n := 1 |}].
Definition ex_dec := dec_batch_go ldb_batchHeaderLen.
Example C04_bytes_nonvacuous :
  jparams_ok jp_small /\ dec_ok batch enc_batch_dels ex_dec ex_batches /\
  synced_len jcrc jp_small batch enc_batch_dels [] ex_batches 1 = 23%nat /\
  length (jbytes jcrc jp_small batch enc_batch_dels [] ex_batches) = 117%nat /\
  recover_bytes jcrc jp_small batch ex_dec true (crash_bytes jcrc jp_small batch enc_batch_dels [] ex_batches 45 []) = firstn 1 ex_batches /\
  (let d := crash_bytes jcrc jp_small batch enc_batch_dels [] ex_batches 45 (repeat 0 80) in
   no_forgery_tail jcrc jp_small true (map enc_batch_dels ex_batches) d = true /\
   recover_bytes jcrc jp_small batch ex_dec true d = firstn 1 ex_batches) /\
  (let d := crash_bytes jcrc jp_small batch enc_batch_dels [] ex_batches 45 [7; 200; 13; 0; 9; 1; 2; 77; 78; 79; 80; 81; 1; 0; 0; 0; 0; 3; 0; 2] in
   no_forgery_tail jcrc jp_small true (map enc_batch_dels ex_batches) d = true /\
   recover_bytes jcrc jp_small batch ex_dec true d = firstn 1 ex_batches) /\
  recover_bytes jcrc jp_small batch ex_dec true (crash_bytes jcrc jp_small batch enc_batch_dels [] ex_batches 116 []) = firstn 2 ex_batches /\
  recover_bytes jcrc jp_small batch ex_dec true (crash_bytes jcrc jp_small batch enc_batch_dels [] ex_batches 117 []) = ex_batches /\
  (* a cut 3 bytes behind a block boundary, inside the header of a continuation chunk *)
  recover_bytes jcrc jp_small batch ex_dec true (crash_bytes jcrc jp_small batch enc_batch_dels [] ex_batches 35 []) = firstn 1 ex_batches.
Proof.
  split; [exact jp_small_ok|]. split; [repeat constructor|].
  vm_compute. repeat split; reflexivity.
Qed.

(* Non-vacuity of C04_crash_safe_bytes: a reachable state (one synced batch, one unsynced batch; the initial
   manifest edit), a toy edit codec, and a byte-level image of it — the live journal cut 10 bytes into the
   unsynced batch's chunk and followed by zeros, the manifest whole.  All hypotheses hold by computation;
   recovery keeps the synced batch. *)
Fixpoint ex_pairs (l : bytes) : list batch :=
  match l with
  | a :: b :: r => {| b_seq := a; b_n := b |} :: ex_pairs r
  | _ => []
  end.
Definition ex_enc_edit (e : medit) : bytes :=
  [match m_jnum e with Some j => j + 1 | None => 0 end; match m_seq e with Some q => q + 1 | None => 0 end]
  ++ flat_map (fun b => [b_seq b; b_n b]) (m_tab e).
Definition ex_dec_edit (r : bytes) : option medit :=
  match r with
  | j :: q :: t => Some {| m_jnum := if j =? 0 then None else Some (j - 1);
                           m_seq := if q =? 0 then None else Some (q - 1); m_tab := ex_pairs t |}
  | _ => None
  end.
Definition ex_state : pstate := prun [PWrite 2 true; PWrite 1 false].
Definition ex_bimage : bimage :=
  {| bi_live := crash_bytes jcrc jp_small batch enc_batch_dels [] (j_recs (p_live ex_state)) 33 (repeat 0 12);
     bi_frozen := None;
     bi_man := crash_bytes jcrc jp_small medit ex_enc_edit [] (p_man ex_state) 9 [] |}.
Example C04_crash_safe_bytes_nonvacuous :
  codecs_ok enc_batch_dels ex_dec ex_enc_edit ex_dec_edit ex_state /\
  is_byte_image jcrc jp_small enc_batch_dels ex_enc_edit true ex_state ex_bimage /\
  p_acked ex_state = [{| b_seq := 1; b_n := 2 |}] /\
  recover_image_bytes jcrc jp_small ex_dec ex_dec_edit true ex_state ex_bimage = [{| b_seq := 1; b_n := 2 |}].
Proof.
  split; [|split; [|split; vm_compute; reflexivity]].
  - split; intros x Hx; vm_compute in Hx; repeat (destruct Hx as [<-|Hx]; [vm_compute; reflexivity|]); contradiction.
  - unfold is_byte_image. split; [|split].
    + exists [], 33%nat, (repeat 0 12). split; [vm_compute; repeat constructor|]. split; [reflexivity|]. vm_compute. reflexivity.
    + vm_compute. exact I.
    + exists [], 9%nat, []. split; [vm_compute; repeat constructor|]. split; [reflexivity|]. vm_compute. reflexivity.
Qed.

(* ------------------------------------------------------------------------------------------------------------
   The manifest record codec.  Codec/SessionRecord.v models leveldb/session_record.go (sessionRecord, its
   setters and resets, encode, decode with binary.ReadUvarint byte for byte) and the replay half of
   session.recover (leveldb/session.go) with versionStaging (leveldb/version.go).  The tag numbers are the
   generated constants (Gen/InstRecord.v: rp, side condition rp_ok re-proved on every run); the theorems hold
   for every tag assignment with rparams_ok.  Go int / int64 are 64 bits.  The decoder is the REPAIRED one
   (repo commit "fix: sessionRecord.decode must validate lengths and levels read from the manifest"); the pinned
   one is decode_old, kept for C04_record_decode_total_refuted.                                                *)
From GL Require Import Codec.SessionRecord Codec.SessionRecordSpec Codec.SessionRecordProofs
  Codec.SessionRecordCutProofs Codec.SessionRecordBuildProofs Store.ManifestReplayProofs Gen.InstRecordOk.

(* decode . encode = id.  For EVERY record whose written fields are in range — comparer name and keys any byte
   strings (a Go length: below 2^64), journal / next-file numbers, table numbers and sizes int64s in [0, 2^63)
   (encode panics below 0: putVarint), levels ints in [0, 2^63), the sequence number any uint64 — whatever its
   hasRec bits and its other fields are: encode does not panic, and decoding its bytes into ANY record state r0
   (session.recover reuses one record) stores exactly the written fields into r0, in encode's order: comparer,
   journal-num, next-file-num, seq-num when their bits are set, every compaction pointer, every deleted table,
   every added table.  The previous journal number is never written (encode has no case for it): a record with
   that bit set does not read back with it. *)
Theorem C04_record_roundtrip : forall p, rparams_ok p -> forall r, rec_ok p r ->
  exists b, encode p r = Some b /\ forall r0, decode p r0 b = DOk (apply_items p r0 (items_of p r)).
Proof. exact record_roundtrip. Qed.
Print Assumptions C04_record_roundtrip.

(* the same for the records the setters build from field values (every combination of the four written scalar
   fields, any three lists): the decoded record IS the encoded one *)
Theorem C04_record_roundtrip_built : forall p, rparams_ok p -> forall f, fields_ok f ->
  exists b, encode p (build p f) = Some b /\ decode p sr_empty b = DOk (build p f).
Proof. exact build_roundtrip. Qed.
Print Assumptions C04_record_roundtrip_built.

(* On ARBITRARY bytes, from any record state: decode returns a record or an ErrCorrupted naming a field and
   one of "short read" / varint overflow / "invalid negative value" / "invalid level".  It never panics, never
   returns a bare io.EOF, and len+1 rounds of its loop always suffice (every round consumes a byte). *)
Theorem C04_record_decode_total : forall p r b,
  match decode p r b with
  | DOk _ => True
  | DErr e _ => exists f why, e = ECorrupt f why
  | DPanic | DFuel => False
  end.
Proof. exact decode_total. Qed.
Print Assumptions C04_record_decode_total.

(* ... and nothing is taken from an unchecked length: a byte string a reader returns (the only allocation,
   make([]byte, n)) together with what is left is never longer than what the reader was given; a level it
   returns is a non-negative int (it is used as a slice index by versionStaging and setCompPtr), a number a
   non-negative int64. *)
Theorem C04_record_readers_bounded :
  (forall f buf x rest, read_bytes f buf = ROk x rest -> (length x + length rest <= length buf)%nat) /\
  (forall f buf l rest, read_level f buf = ROk l rest -> (0 <= l)%Z) /\
  (forall f buf z rest, read_varint f buf = ROk z rest -> (0 <= z)%Z).
Proof. exact (conj read_bytes_bounded (conj read_level_range read_varint_range)). Qed.
Print Assumptions C04_record_readers_bounded.

(* The statement is FALSE for the pinned decoder (readBytes: make([]byte, n) before looking at what is left,
   io.EOF of io.ReadFull not converted; readLevel: int(x) unchecked).  Witnesses, each reproduced on the real
   code through leveldb.Open on a storage holding a MANIFEST with this record (harness/cmd/c04/krecord.go keeps
   them as directed cases for the repaired tree):
   - 01 ff ff ff ff ff ff ff ff 7f   comparer length 2^63-1: panic "makeslice: len out of range";
   - 01 05                           a length followed by nothing: the bare io.EOF, not an ErrCorrupted — Open
                                     fails with "EOF" even without StrictManifest;
   - 06 80..80 01 07                 deleted table at level 2^63: decodes to level -2^63, versionStaging.commit
                                     panics "index out of range [-9223372036854775808]";
   - 05 ff..ff 01 00                 compaction pointer at level 2^64-1: decodes to level -1, setCompPtr panics.
   The repaired decoder reports all four as corrupted. *)
Definition ex_huge_len : bytes := [1; 255; 255; 255; 255; 255; 255; 255; 255; 127].
Definition ex_len_then_eof : bytes := [1; 5].
Definition ex_del_level_2_63 : bytes := [6; 128; 128; 128; 128; 128; 128; 128; 128; 128; 1; 7].
Definition ex_cp_level_minus1 : bytes := [5; 255; 255; 255; 255; 255; 255; 255; 255; 255; 1; 0].
Theorem C04_record_decode_total_refuted :
  decode_old rp go_max_alloc sr_empty ex_huge_len = DPanic /\
  decode_old rp go_max_alloc sr_empty ex_len_then_eof = DErr EEOF sr_empty /\
  (exists r, decode_old rp go_max_alloc sr_empty ex_del_level_2_63 = DOk r /\ commit [] [] r = PPanic) /\
  (exists r, decode_old rp go_max_alloc sr_empty ex_cp_level_minus1 = DOk r /\ pfold set_comp_ptr (sr_cps r) [] = PPanic) /\
  decode rp sr_empty ex_huge_len = DErr (ECorrupt FComparer RShort) sr_empty /\
  decode rp sr_empty ex_len_then_eof = DErr (ECorrupt FComparer RShort) sr_empty /\
  decode rp sr_empty ex_del_level_2_63 = DErr (ECorrupt FDelLevel RLevel) sr_empty /\
  decode rp sr_empty ex_cp_level_minus1 = DErr (ECorrupt FCpLevel RLevel) sr_empty.
Proof.
  split; [vm_compute; reflexivity|]. split; [vm_compute; reflexivity|].
  split; [eexists; split; vm_compute; reflexivity|]. split; [eexists; split; vm_compute; reflexivity|].
  repeat split; vm_compute; reflexivity.
Qed.
Print Assumptions C04_record_decode_total_refuted.

(* A strict prefix of a valid encoding (what a torn record is when it is handed to decode).  With the fields of
   the record as encode writes them (items_of), cut_items says which of them lie wholly within the first n
   bytes and whether the cut falls exactly between two fields: then decode SUCCEEDS with those fields — a
   shorter record, not an error, because the encoding carries no field count or end mark — and otherwise it is
   a corrupted "short read" (never overflow / negative / level) at a field of the cut item, the fields before it
   already stored in the record.  In both cases the stored fields are a prefix of the record's.  (On the pinned
   decoder a cut right after a key length was the bare io.EOF: C04_record_decode_total_refuted.)  This is why
   session.recover must not decode a torn record at all: a clean cut behind journal-num / seq-num and before the
   added table would be applied as a valid edit — the repair 061d458 reads the record completely first and
   skips it when the journal reader reports it torn. *)
Theorem C04_record_prefix : forall p, rparams_ok p -> forall r b, rec_ok p r -> encode p r = Some b ->
  forall r0 n,
  match cut_items p (items_of p r) n with
  | (a, true) => decode p r0 (firstn n b) = DOk (apply_items p r0 a)
  | (a, false) => exists fld, decode p r0 (firstn n b) = DErr (ECorrupt fld RShort) (apply_items p r0 a)
  end.
Proof. exact record_prefix. Qed.
Print Assumptions C04_record_prefix.

(* Decoding into the record session.recover reuses = decoding into a fresh record and laying the result over
   the reused one (carry: bits or-ed, a scalar field replaced when its bit is set in the fresh record, the lists
   appended); an error is the same error at the same field.  For arbitrary bytes. *)
Theorem C04_record_decode_reused : forall p, rparams_ok p -> forall r0 b,
  match decode p sr_empty b with
  | DOk r => decode p r0 b = DOk (carry p r0 r)
  | DErr e r => decode p r0 b = DErr e (carry p r0 r)
  | _ => True
  end.
Proof. exact decode_carry. Qed.
Print Assumptions C04_record_decode_reused.

(* Replaying a manifest.  For EVERY list of records each of which decodes (on its own, to rs), strict or not,
   the model of session.recover — one reused record whose lists are reset after every record, per-level scratch
   maps (getScratch / commit: deletions of a record before its additions), setCompPtr, then the checks
   "comparer missing / mismatch, next-file-num / journal-file-num / seq-num missing" in that order — agrees
   with replay_result: the same failure, or the journal / previous-journal / next-file / sequence numbers set
   LAST by any record, for every level exactly the tables of live_of rs at that level (a deletion removes
   (level, number), an addition replaces (level, number)), for every level the compaction pointer set last.
   The order of the tables inside a level (sortByNum / sortByKey) is C06's finish_level, not modelled here. *)
Theorem C04_manifest_replay : forall p, rparams_ok p -> forall strict cmp recs rs,
  Forall2 (fun b r => decode p sr_empty b = DOk r) recs rs ->
  agrees (session_recover p strict cmp recs) (replay_result p cmp rs).
Proof. exact manifest_replay. Qed.
Print Assumptions C04_manifest_replay.

(* ... and the numbers are those of the record-level model: when the replay succeeds, Store/Crash.v's replay_man
   over the edits the records denote (medit_of: journal number, sequence number, and for every added table the
   batches it newly makes durable — newb is that ghost labelling) yields the same journal and sequence numbers,
   and the batches of all tables ever added, in order. *)
Theorem C04_manifest_replay_is_replay_man : forall p newb cmp rs j pj nf q live cps,
  replay_result p cmp rs = SpecOk j pj nf q live cps ->
  replay_man (map (medit_of p newb) rs) 0 0 [] = (Z.to_N j, q, flat_map newb (flat_map sr_adds rs)).
Proof. exact manifest_replay_abs. Qed.
Print Assumptions C04_manifest_replay_is_replay_man.

(* What is NOT excluded (known finding manifest-huge-level): a level up to 2^63-1 is accepted, and
   versionStaging.getScratch then holds level+1 scratch slots (make([]tablesScratch, level+1)) — a damaged level
   of 2^40 asks for 16 TiB. *)
Theorem C04_replay_allocates_by_level : forall levels level lv,
  grow_levels levels level = POk lv -> (Z.to_nat level < length lv)%nat.
Proof.
  intros levels level lv H. unfold grow_levels in H. destruct (level <? 0)%Z; [discriminate|].
  injection H as <-. apply grown_length.
Qed.
Print Assumptions C04_replay_allocates_by_level.

(* The abstract edit codec of C04_crash_safe_bytes, instantiated.  enc_medit writes an edit of Store/Crash.v as
   the manifest record the setters build for it (journal number and sequence number when the edit sets them,
   one added level-0 table per batch, named by the batch: file number = first sequence number, size = record
   count) with sessionRecord.encode; dec_medit is sessionRecord.decode into a fresh record followed by the
   abstraction medit_of.  The contract dec (enc e) = Some e holds for every edit whose numbers fit the Go
   types: *)
Theorem C04_edit_codec_roundtrip : forall p, rparams_ok p -> forall e, medit_ok e ->
  dec_medit p (enc_medit p e) = Some e.
Proof. exact medit_roundtrip. Qed.
Print Assumptions C04_edit_codec_roundtrip.

Theorem C04_edit_codec_ok : forall p, rparams_ok p -> forall enc_batch dec_batch s,
  (forall b, In b (p_issued s) -> dec_batch (enc_batch b) = Some b) ->
  Forall medit_ok (p_man s) ->
  codecs_ok enc_batch dec_batch (enc_medit p) (dec_medit p) s.
Proof. exact codecs_ok_medit. Qed.
Print Assumptions C04_edit_codec_ok.

(* C04_crash_safe_bytes with the manifest given as the bytes of real manifest records: no abstract pair for the
   edits any more (the batch codec stays a pair with its contract: Codec/Batch.v is C01's). *)
Theorem C04_crash_safe_bytes_concrete : forall crc jp, jparams_ok jp ->
  forall enc_batch dec_batch ck ops b,
  (forall x, In x (p_issued (prun ops)) -> dec_batch (enc_batch x) = Some x) ->
  Forall medit_ok (p_man (prun ops)) ->
  is_byte_image crc jp enc_batch (enc_medit rp) ck (prun ops) b ->
  let r := recover_image_bytes crc jp dec_batch (dec_medit rp) ck (prun ops) b in
  (forall x, In x (p_acked (prun ops)) -> In x r) /\
  (forall x, In x r -> In x (p_issued (prun ops))) /\
  sorted_b r.
Proof. exact (crash_safe_bytes_concrete rp rp_ok). Qed.
Print Assumptions C04_crash_safe_bytes_concrete.

From Coq Require Import Lia.
(* ---- non-vacuity, by computation with the generated tag numbers ---- *)
(* a record with every written field, boundary numbers and an empty key *)
Definition ex_fields : rfields :=
  mkrf (Some [108; 101; 118]) (Some 9223372036854775807%Z) (Some 128%Z) (Some 18446744073709551615)
       [mkcp 1%Z [1; 2; 3; 4; 5; 6; 7; 8; 9]]
       [mkdt 0%Z 127%Z; mkdt 9223372036854775807%Z 4294967296%Z]
       [mkat 2%Z 2147483648%Z 0%Z [] [97; 1; 0; 0; 0; 0; 0; 0; 0]].
Example C04_record_nonvacuous :
  rparams_ok rp /\ fields_ok ex_fields /\
  (exists b, encode rp (build rp ex_fields) = Some b /\ length b = 78%nat /\
             decode rp sr_empty b = DOk (build rp ex_fields) /\
             (* cut between two fields: a shorter record; cut inside the added table: short read *)
             decode rp sr_empty (firstn 5 b) = DOk (build rp (mkrf (Some [108; 101; 118]) None None None [] [] [])) /\
             decode rp sr_empty (firstn 77 b) =
               DErr (ECorrupt FAddImax RShort)
                    (build rp (mkrf (f_comparer ex_fields) (f_journal ex_fields) (f_nextfile ex_fields) (f_seq ex_fields)
                                    (f_cps ex_fields) (f_dels ex_fields) []))) /\
  (* a negative number makes encode panic *)
  encode rp (build rp (mkrf None (Some (-1)%Z) None None [] [] [])) = None /\
  (* an unknown tag is skipped: 08 03 05 reads as next-file-num 5 *)
  decode rp sr_empty [8; 3; 5] = DOk (build rp (mkrf None None (Some 5%Z) None [] [] [])).
Proof.
  split; [exact rp_ok|]. split.
  - unfold fields_ok, items_of_fields, ex_fields.
    cbn [oitem map app f_comparer f_journal f_nextfile f_seq f_cps f_dels f_adds].
    repeat (constructor; [cbn [item_ok cp_level cp_ikey dt_level dt_num at_level at_num at_size at_imin at_imax];
                          unfold z_in63, len_ok, sr_two63, sr_two64, lenN; cbn [length]; repeat split; lia|]).
    constructor.
  - split; [|split; vm_compute; reflexivity].
    eexists. split; [vm_compute; reflexivity|]. repeat split; vm_compute; reflexivity.
Qed.

(* three manifest records as goleveldb writes them: the snapshot record of a new manifest, a flush (journal,
   sequence number, one level-0 table), a compaction (two tables deleted, one added, a compaction pointer) *)
Definition ex_man : list bytes :=
  [ [1; 1; 99; 2; 2; 3; 5; 4; 0];
    [2; 6; 3; 7; 4; 20; 7; 0; 5; 100; 1; 97; 1; 98; 7; 0; 4; 90; 1; 99; 1; 100];
    [3; 9; 5; 0; 2; 65; 66; 6; 0; 5; 6; 0; 4; 7; 1; 8; 150; 1; 1; 97; 1; 100] ].
Example C04_manifest_replay_nonvacuous :
  (exists rs, Forall2 (fun b r => decode rp sr_empty b = DOk r) ex_man rs /\
              replay_result rp [99] rs =
                SpecOk 6 0 9 20 [mkat 1 8 150 [97] [100]] [mkcp 0 [65; 66]]) /\
  session_recover rp true [99] ex_man =
    RecOk (mkss 6 0 9 20 [Some [65; 66]] [[]; [mkat 1 8 150 [97] [100]]]) /\
  (* the comparer check *)
  session_recover rp true [100] ex_man = RecFail RFComparerMismatch /\
  (* a manifest whose records never set next-file-num *)
  session_recover rp true [99] [[1; 1; 99; 2; 2; 4; 0]] = RecFail RFNoNextFile /\
  (* a record that is damaged behind its journal number: refused when strict; skipped otherwise — but its journal
     number stays in effect (observation: same class as the torn records of 061d458, for damage that passes the
     journal checksum) *)
  session_recover rp true [99] [[1; 1; 99; 2; 2; 3; 5; 4; 0]; [2; 9; 7]] = RecFail (RFDecode (ECorrupt FAddLevel RShort)) /\
  session_recover rp false [99] [[1; 1; 99; 2; 2; 3; 5; 4; 0]; [2; 9; 7]] = RecOk (mkss 9 0 5 0 [] []).
Proof.
  split.
  - eexists. split; [repeat constructor; vm_compute; reflexivity|]. vm_compute. reflexivity.
  - repeat split; vm_compute; reflexivity.
Qed.

(* the concrete edit codec on a reachable state: flush edit, transaction edit, compaction edit; all hypotheses of
   C04_crash_safe_bytes_concrete about the manifest hold, and the manifest, written with the real CRC-32C in
   32-byte blocks and cut inside its last record, recovers to the edits before the cut *)
Definition ex_ops_man : list pop :=
  [PWrite 2 true; PRotate; PWrite 3 true; PFlushEdit; PManSync; PDropFrozen; PCompactEdit; PRotate; PFlushEdit;
   PManSync; PDropFrozen; PTxnCommit 4].
Example C04_edit_codec_nonvacuous :
  let s := prun ex_ops_man in
  length (p_man s) = 5%nat /\ forallb (fun e => match dec_medit rp (enc_medit rp e) with Some e' => true | None => false end) (p_man s) = true /\
  map (dec_medit rp) (map (enc_medit rp) (p_man s)) = map Some (p_man s) /\
  recover_bytes jcrc jp_small medit (dec_medit rp) true
    (crash_bytes jcrc jp_small medit (enc_medit rp) [] (p_man s)
       (length (jbytes jcrc jp_small medit (enc_medit rp) [] (p_man s)) - 3) []) = firstn 4 (p_man s).
Proof. vm_compute. repeat split; reflexivity. Qed.
Example C04_edit_codec_hyp_nonvacuous : Forall medit_ok (p_man (prun ex_ops_man)).
Proof.
  assert (E : p_man (prun ex_ops_man) =
              [{| m_jnum := Some 1; m_seq := Some 0; m_tab := [] |};
               {| m_jnum := Some 2; m_seq := Some 2; m_tab := [{| b_seq := 1; b_n := 2 |}] |};
               {| m_jnum := None; m_seq := None; m_tab := [] |};
               {| m_jnum := Some 3; m_seq := Some 5; m_tab := [{| b_seq := 3; b_n := 3 |}] |};
               {| m_jnum := None; m_seq := Some 9; m_tab := [{| b_seq := 6; b_n := 4 |}] |}]) by (vm_compute; reflexivity).
  rewrite E. unfold medit_ok, sr_two63, sr_two64.
  repeat (constructor; [cbn [m_jnum m_seq m_tab b_seq b_n]; repeat split; intros;
                        repeat match goal with H : Some _ = Some _ |- _ => injection H as <- | H : None = Some _ |- _ => discriminate end;
                        try lia; repeat (constructor; [cbn [b_seq b_n]; lia|]); try constructor|]).
  constructor.
Qed.

(* ------------------------------------------------------------------------------------------------------------
   Open as a whole.  Store/OpenPath.v open_bytes is leveldb.Open (db.go openDB / recoverJournal / recoverJournalRO,
   session.go recover / commit, session_util.go newManifest / flushManifest / fillRecord, db_util.go
   checkAndCleanFiles) as ONE function on a storage image given as bytes — the meta pointer and every manifest,
   journal and table file — built by calling the models of the layers: the journal reader (C12), the manifest
   record codec and session.recover's replay (above), recoverJournal's choice and the janitor (C07, Store/Sweep.v),
   decodeBatchToMem (C01, Codec/Batch.v), the memdb (C14), the table writer (C13) for the flushes of the recovery,
   the byte-level DB state of Lsm/ReadPath.v as the result.  Errors are explicit where the Go code returns them
   (strict / non-strict flags are options).  Tied to the code on every run by the KOpenBytes correspondence: real
   crash images, every file as bytes, through the real Open.

   Vocabulary of the statements below (Store/OpenPathProofs.v, Store/OpenCrashProofs.v):
     image_ok o img m mrecs ks js     img is a byte-level crash image: the meta pointer names manifest m, whose file is
                                      what a crash can leave (is_crash_bytes: cut anywhere behind the synced bytes,
                                      anything behind the cut under no_forgery_tail) of the journal framing of the
                                      records mrecs, ks of them synced, each given with bytes that decode to it; the
                                      journal files are js (ascending), each what a crash can leave of the framing of
                                      its batches' records (Codec/Batch.v group_record), with its synced count;
     manifest_ok                      every admissible prefix of the manifest passes session.recover's checks
                                      (true of what goleveldb writes: a manifest starts with a snapshot record);
     denotes newb f s mrecs ks jfz jl the described storage is a storage of the state s of the record-level model
                                      Store/Crash.v: its live / frozen journals hold the batches of jl / jfz, its
                                      manifest the edits the records denote (medit_of with the ghost labelling newb
                                      of tables by the batches they newly make durable), under an order embedding f
                                      of the real file numbers into the model's 1, 2, 3, …;
     accepted bs cur                  what the sequence rule of decodeBatchToMem accepts of bs from the running number cur.
   Proved for images of every state with pinv (every reachable state: C04_invariant_reachable), non-strict flags
   (StrictManifest / StrictJournal make Open fail on a torn tail by design).                                     *)
From GL Require Import Codec.IKey Codec.Table Codec.Batch Lsm.Lsm Lsm.History Lsm.ReadPath Lsm.ReadPathMem
  Lsm.ReadPathProofs Lsm.BatchWriteProofs Store.OpenPath Store.OpenJournalProofs Store.OpenPathProofs
  Store.OpenEndProofs Store.OpenCrashProofs Store.OpenExample.
From GL Require Import Codec.BytesCmp Codec.TblCrc Gen.Inst Gen.InstTbl Gen.InstMem.
From GL Require Mem.MemDB Store.Sweep.

(* READ-ONLY Open (recoverJournalRO) — full.  On every byte-level image of a state s of the record-level model,
   Open succeeds; the record-level image rimg it read is an image of s; recover of rimg is exactly: the batches the
   manifest's tables make durable, then the batches Open kept from the journals, in order, each with its first
   sequence number and count; db.seq is the model's running number; hence every acknowledged batch is kept, only
   issued batches are, in issue order (crash_safe).  The live buffer satisfies C14's invariant and holds exactly the
   stamped records of the kept batches; the version is the manifest prefix's live table set, level by level;
   nothing was written to the storage. *)
Theorem C04_open_ro_refines_recover :
  forall jcrc jp, jparams_ok jp -> forall rp, rparams_ok rp -> forall kp, kparams_ok kp ->
  (keyTypeSeek kp <= keyTypeVal kp)%N -> forall mp, MemDB.mparams_ok mp ->
  forall tp tcrc compress snappy fgen blockSize ri c, comparer_ok c ->
  forall o hts img m mrecs ks jfz jl newb f s,
  oo_strict_man o = false -> oo_strict_j o = false -> oo_ro o = true -> oo_err_exist o = false ->
  heights_okl mp hts ->
  image_ok jcrc jp rp kp o img m mrecs ks (olist jfz ++ [jl]) -> manifest_ok rp o mrecs ks -> no_prev rp mrecs ->
  jnums_ok jfz jl -> order_embedding f -> f 0 = 0 -> pinv s -> denotes rp newb f s mrecs ks jfz jl ->
  exists r rimg k j nf q live cps lv bss d,
    open_bytes jcrc jp rp kp 12 mp tp tcrc compress snappy fgen blockSize ri c o hts img = OOk r /\
    is_image s (image_map f rimg) /\ (ks <= k)%nat /\
    replay_result rp (oo_cmp_name o) (firstn k (map fst mrecs)) = SpecOk j 0%Z nf q live cps /\
    recover_full rimg = (os_seq r, flat_map newb (flat_map SessionRecord.sr_adds (firstn k (map fst mrecs))) ++ map pair_batch (os_kept r)) /\
    recover (image_map f rimg) = recover rimg /\
    (forall b, In b (p_acked s) -> In b (recover rimg)) /\
    (forall b, In b (recover rimg) -> In b (p_issued s)) /\
    sorted_b (recover rimg) /\
    os_seq r = snd (accepted (concat bss) q) /\
    os_kept r = map jb_pair (fst (accepted (concat bss) q)) /\
    (forall b, In b (concat bss) -> In b (jd_bs jl) \/ exists jf, jfz = Some jf /\ In b (jd_bs jf)) /\
    os_bs r = mkBS (Some d) None (levels_of (si_files img) (sort_levels c lv)) /\
    (forall l : nat, nth l lv [] = live_at (Z.of_nat l) live) /\
    mem_ok c kp mp d /\
    (forall x, In x (mem_entries mp (Some d)) <-> In x (flat_map (jb_entries kp) (fst (accepted (concat bss) q)))) /\
    os_image r = img /\ os_removed r = [].
Proof. exact open_ro_refines_recover. Qed.
Print Assumptions C04_open_ro_refines_recover.

(* ... and what that DB ANSWERS.  tables_answer is the statement of C01 / C06 / C13 about the tables the manifest
   prefix names: a well-formed byte-level layout (wf_bstate) that answers like the plain map of the batches those
   tables make durable (flushes and compactions keep that: C01_get_is_map_bytes), read at a sequence number s0 that
   nothing in the tables exceeds and below which every journal batch the sequence rule accepts starts (s0 = the
   recorded number after a flush at run time; one less when a recovery wrote the manifest, which records last + 1).
   Then the state Open returns is well-formed and DB.Get computed on its BYTES (db_get_bytes) at db.seq returns,
   for every key, what the plain map driven by L returns — L a list of batches with acked ⊆ L ⊆ issued, in issue
   order, every batch whole (cmap applies all records of a batch). *)
Theorem C04_open_ro_end_to_end :
  forall jcrc jp, jparams_ok jp -> forall rp, rparams_ok rp -> forall kp, kparams_ok kp ->
  (keyTypeSeek kp <= keyTypeVal kp)%N -> forall mp, MemDB.mparams_ok mp ->
  forall tp tcrc compress snappy fgen blockSize ri c, comparer_ok c ->
  forall decompress fname ufc verify o hts img m mrecs ks jfz jl newb cont f s,
  oo_strict_man o = false -> oo_strict_j o = false -> oo_ro o = true -> oo_err_exist o = false ->
  heights_okl mp hts ->
  image_ok jcrc jp rp kp o img m mrecs ks (olist jfz ++ [jl]) -> manifest_ok rp o mrecs ks -> no_prev rp mrecs ->
  jnums_ok jfz jl -> order_embedding f -> f 0 = 0 -> pinv s -> denotes rp newb f s mrecs ks jfz jl ->
  journal_batches_ok kp cont jfz jl ->
  tables_answer rp kp mp tp tcrc ri c decompress fname ufc verify o img mrecs ks newb cont jfz jl ->
  exists r L,
    open_bytes jcrc jp rp kp 12 mp tp tcrc compress snappy fgen blockSize ri c o hts img = OOk r /\
    wf_bstate c kp mp tp tcrc decompress fname ufc verify ri (os_bs r) /\
    (forall b, In b (p_acked s) -> In b L) /\ (forall b, In b L -> In b (p_issued s)) /\ sorted_b L /\
    os_image r = img /\
    forall key, wf_bytes key ->
      bapi (db_get_bytes c kp mp tp tcrc decompress fname ufc verify (os_bs r) key (os_seq r)) =
      Some (a_get c key (cmap kp c cont [] L)).
Proof. exact open_ro_end_to_end. Qed.
Print Assumptions C04_open_ro_end_to_end.

(* READ-WRITE Open (recoverJournal: flush when the buffer fills, one commit per replayed journal, a new journal and
   a last commit, the janitor) — PARTIAL: the partial-correctness half.  WHENEVER open_bytes returns a DB on such
   an image, the record-level image it read is an image of s and recover of it is: the batches of the manifest's
   tables, then the batches kept (now all flushed into tables: the buffer is empty), with db.seq the model's running
   number; hence acked ⊆ kept ⊆ issued in order.  NOT proved (exercised on every run by KOpenBytes, which compares
   the flushed tables and the new manifest byte for byte with the real ones): that it does return — the table writer
   model accepts the buffer's keys, sessionRecord.encode meets no negative number, the janitor finds every table —
   and the contents of the flushed tables (C13's writer/reader round trip for iComparer + C06_flush_step at byte
   level), hence no read-write counterpart of C04_open_ro_end_to_end. *)
Theorem C04_open_rw_refines_recover_partial :
  forall jcrc jp, jparams_ok jp -> forall rp, rparams_ok rp -> forall kp, kparams_ok kp ->
  (keyTypeSeek kp <= keyTypeVal kp)%N -> forall mp, MemDB.mparams_ok mp ->
  forall tp tcrc compress snappy fgen blockSize ri c, comparer_ok c ->
  forall o hts img m mrecs ks jfz jl newb f s r,
  oo_strict_man o = false -> oo_strict_j o = false -> oo_ro o = false -> oo_err_exist o = false ->
  heights_okl mp hts ->
  image_ok jcrc jp rp kp o img m mrecs ks (olist jfz ++ [jl]) -> manifest_ok rp o mrecs ks -> no_prev rp mrecs ->
  jnums_ok jfz jl -> order_embedding f -> f 0 = 0 -> pinv s -> denotes rp newb f s mrecs ks jfz jl ->
  open_bytes jcrc jp rp kp 12 mp tp tcrc compress snappy fgen blockSize ri c o hts img = OOk r ->
  exists rimg k j nf q live cps d,
    is_image s (image_map f rimg) /\ (ks <= k)%nat /\
    replay_result rp (oo_cmp_name o) (firstn k (map fst mrecs)) = SpecOk j 0%Z nf q live cps /\
    recover_full rimg = (os_seq r, flat_map newb (flat_map SessionRecord.sr_adds (firstn k (map fst mrecs))) ++ map pair_batch (os_kept r)) /\
    (forall b, In b (p_acked s) -> In b (recover rimg)) /\
    (forall b, In b (recover rimg) -> In b (p_issued s)) /\
    sorted_b (recover rimg) /\
    bs_mem (os_bs r) = Some d /\ mem_entries mp (Some d) = [] /\ bs_frozen (os_bs r) = None.
Proof. exact open_rw_refines_recover_partial. Qed.
Print Assumptions C04_open_rw_refines_recover_partial.

(* Idempotence.  Read-only Open writes nothing — on ANY storage image and with any options: the storage afterwards
   is the image, no Remove, no commit — so opening what it left is opening the same image (full).  For read-write
   Open the statement "opening the image a successful Open leaves (new manifest, new journal, flushed tables, the
   janitor's removals) yields the same abstraction" is evaluated on the example below, compared with the real code
   by KOpenBytes on images that are themselves left by recoveries, and checked on the implementation by the
   harness' second-Open oracle on every case; it is not proved in general. *)
Theorem C04_open_ro_leaves_image :
  forall jcrc jp rp kp mp tp tcrc compress snappy fgen blockSize ri c o hts img r,
  oo_ro o = true ->
  open_bytes jcrc jp rp kp 12 mp tp tcrc compress snappy fgen blockSize ri c o hts img = OOk r ->
  os_image r = img /\ os_removed r = [] /\ os_commits r = [] /\ os_journal r = None.
Proof. exact open_ro_leaves_image. Qed.
Print Assumptions C04_open_ro_leaves_image.

Theorem C04_open_ro_idempotent :
  forall jcrc jp rp kp mp tp tcrc compress snappy fgen blockSize ri c o hts img r,
  oo_ro o = true ->
  open_bytes jcrc jp rp kp 12 mp tp tcrc compress snappy fgen blockSize ri c o hts img = OOk r ->
  open_bytes jcrc jp rp kp 12 mp tp tcrc compress snappy fgen blockSize ri c o hts (os_image r) = OOk r.
Proof. exact open_ro_idempotent. Qed.
Print Assumptions C04_open_ro_idempotent.

(* Non-vacuity (Store/OpenExample.v): a storage image built with the model's own writers — real CRC-32C, generated
   constants, 32 KiB blocks — for the state of C04_crash_safe_bytes_nonvacuous (a synced batch Put a, Delete b; an
   unsynced batch Put c): MANIFEST-0 with its snapshot record, journal 1 cut 13 bytes into the second record and
   followed by zeros, no tables.  Every hypothesis of C04_open_ro_end_to_end holds of it (image_ok with
   no_forgery_tail by computation, manifest_ok, denotes under f = identity, tables_answer for the empty version), so
   the theorem applies: *)
Example C04_open_ro_end_to_end_nonvacuous :
  exists r L,
    ox_open (ox_opts true) [] ox_img = OOk r /\
    wf_bstate bytewise kp mp tblp tbl_crc (fun _ => None) None (fun _ _ _ => true) true 16 (os_bs r) /\
    (forall b, In b (p_acked ox_state) -> In b L) /\ (forall b, In b L -> In b (p_issued ox_state)) /\ sorted_b L /\
    os_image r = ox_img /\
    forall key, wf_bytes key ->
      bapi (db_get_bytes bytewise kp mp tblp tbl_crc (fun _ => None) None (fun _ _ _ => true) true (os_bs r) key (os_seq r)) =
      Some (a_get bytewise key (cmap kp bytewise ox_cont [] L)).
Proof. exact ox_end_to_end. Qed.

(* ... read-write Open of the same image, evaluated: db.seq 3, the synced batch (first number 1, two records) kept,
   flushed into table 2, new journal 3, new manifest 4, the old manifest and journal removed; and opening what it
   left: the same sequence number and table, nothing replayed, manifest 4 and journal 3 replaced by 6 and 5, the SAME
   abstraction (Lsm/ReadPath.v abs: buffers and tables as entry lists), which holds the batch's two entries *)
Example C04_open_rw_nonvacuous :
  ox_rw_summary (ox_open (ox_opts false) [] ox_img) =
    Some (3, [(1, 2)], [[2]], Some 3, Some 4, [(Sweep.FManifest, 0); (Sweep.FJournal, 1)]) /\
  image_ok jcrc jp rp kp (ox_opts false) ox_img 0 ox_mrecs 1 (olist None ++ [ox_jl]) /\
  ox_rw_summary ox_r2 = Some (3, [], [[2]], Some 5, Some 6, [(Sweep.FManifest, 4); (Sweep.FJournal, 3)]) /\
  ox_abs ox_r2 = ox_abs ox_r1 /\
  option_map (fun st => length (all_entries st)) (ox_abs ox_r1) = Some 2%nat.
Proof. exact (conj ox_rw_opens (conj ox_image_ok_rw ox_rw_idempotent)). Qed.

(* The real file storage.  open_dir is Open on a directory (name -> content) of leveldb/storage's file storage: the
   meta pointer is what GetMeta answers (Store/FileStorage.v get_meta, the model behind C04_setmeta_crash_atomic in
   Props/C04FS.v), the files are those whose names parse.  Composition with that theorem: while setMeta(B) is in
   progress on a directory settled on A — any prefix of its file-system operations, any loss of unsynced directory
   effects — Open sees the directory's files under the pointer A or under the pointer B, never anything else, so the
   theorems above apply to one of those two abstract images.  (The CURRENT protocol itself, the name codec and the
   locks are C18 / C04FS; the files other than CURRENT* are taken here as the abstract storage's files.) *)
From GL Require Store.FileStorage Store.FileStorageCrashProofs.
Theorem C04_open_dir_setmeta_crash :
  forall jcrc jp rp kp bhl mp tp tcrc compress snappy fgen blockSize ri c o hts s A B K i0 k v,
  FileStorageCrashProofs.clean s A A K i0 -> In (FileStorage.gen_name A) K -> In (FileStorage.gen_name B) K ->
  (FileStorage.fd_num A < FileStorage.fd_num B)%Z ->
  FileStorage.int64_ok (FileStorage.fd_num A) = true -> FileStorage.int64_ok (FileStorage.fd_num B) = true ->
  FileStorage.crash_image (FileStorage.fapply_all s (firstn k (FileStorage.set_meta_ops (FileStorage.vol_view s) B))) v ->
  let ob := open_bytes jcrc jp rp kp bhl mp tp tcrc compress snappy fgen blockSize ri c o hts in
  open_dir jcrc jp rp kp bhl mp tp tcrc compress snappy fgen blockSize ri c o hts v =
    ob (mkSI (Some (Z.to_N (FileStorage.fd_num A))) (dir_files v)) \/
  open_dir jcrc jp rp kp bhl mp tp tcrc compress snappy fgen blockSize ri c o hts v =
    ob (mkSI (Some (Z.to_N (FileStorage.fd_num B))) (dir_files v)).
Proof. exact open_dir_setmeta_crash. Qed.
Print Assumptions C04_open_dir_setmeta_crash.

(* One of the three gaps of C04_open_rw_refines_recover_partial, closed: the recovery's flushes cannot fail.  The
   table writer model's Append refuses a key only when it is not above the previous one, and a buffer that
   satisfies C14's invariant lists its keys in strictly increasing iComparer order — so session.flushMemdb always
   produces a table (open_bytes never returns OEFlush from such a buffer).  Left: sessionRecord.encode (no negative
   number) and the janitor (every named table is found). *)
From GL Require Import Store.OpenRwProofs.
Theorem C04_open_flush_total :
  forall rp kp, (keyTypeSeek kp <= keyTypeVal kp)%N -> forall mp, MemDB.mparams_ok mp ->
  forall tp tcrc compress snappy fgen blockSize ri c st,
  mem_ok c kp mp (r_mdb st) ->
  exists st', flush_memdb rp kp mp tp tcrc compress snappy fgen blockSize ri c st = OOk st'.
Proof. exact flush_memdb_total. Qed.
Print Assumptions C04_open_flush_total.

(* READ-WRITE Open: TOTALITY (Store/OpenTotalProofs.v).  The three gaps "that it does return" of
   C04_open_rw_refines_recover_partial, closed by one invariant carried through recoverJournal (every flush, every
   commit with its newManifest / flushManifest branch incl. the MaxManifestFileSize rotation, every journal removal,
   newMem, the last commit) down to checkAndCleanFiles.  The side conditions are stated ON THE IMAGE (image_tabs_ok):
     - the storage lists a file name once;
     - for every admissible manifest prefix: the journal number and the next file number it leaves are not negative
       (they are Go int64 read back from varints), and every live table has a non-negative number and size and a file
       in the image (tables are synced before the edit that names them: the assumption of C04_crash_safe, here needed
       as existence only — the CONTENT of those files plays no role in totality).
   From these: sessionRecord.encode never meets a negative number (what the recovery adds are counter values above
   the recorded ones and lengths), versionStaging / setCompPtr never index a negative level (the recovery adds at
   level 0 only; the snapshot record is filled with the version's own level positions), the table writer accepts
   every buffer (C04_open_flush_total), memdb.Reset / New succeed, and the janitor finds every table the final
   version names (nothing in Open removes a table file before the janitor).  No error result of the model —
   OEFlush, OEEncode, OEMissing, OEPanic, OEFuel, the journal / manifest read errors — is reachable. *)
From GL Require Import Store.OpenTotalProofs.
Theorem C04_open_rw_total :
  forall jcrc jp, jparams_ok jp -> forall rp, rparams_ok rp -> forall kp, kparams_ok kp ->
  (keyTypeSeek kp <= keyTypeVal kp)%N -> forall mp, MemDB.mparams_ok mp ->
  forall tp tcrc compress snappy fgen blockSize ri c, comparer_ok c ->
  forall o hts img m mrecs ks jfz jl,
  oo_strict_man o = false -> oo_strict_j o = false -> oo_ro o = false -> oo_err_exist o = false ->
  heights_okl mp hts ->
  image_ok jcrc jp rp kp o img m mrecs ks (olist jfz ++ [jl]) -> manifest_ok rp o mrecs ks -> jnums_ok jfz jl ->
  image_tabs_ok rp o img mrecs ks ->
  exists r, open_bytes jcrc jp rp kp 12 mp tp tcrc compress snappy fgen blockSize ri c o hts img = OOk r.
Proof. exact open_rw_total_pinv. Qed.
Print Assumptions C04_open_rw_total.

(* ... composed with the partial-correctness half: TOTAL correctness of what read-write Open keeps.  On every byte
   image of a pinv state, Open returns r, and r's kept batches / db.seq are the record-level recover of the
   record-level image the bytes denote (acked ⊆ kept ⊆ issued, in order), the buffer is empty.
   Still named _partial, because the full statement also asks for (and this does NOT prove):
     (a) wf_bstate (os_bs r) and the CONTENTS of the level-0 tables the recovery flushes — table_check of each
         flushed file = the stamped records of the batches replayed since the previous flush.  The pieces exist
         (C01_writer_output_ok, C01_flush_step_bytes, C01_memdb_iterator_yields_pairs) but are stated for
         Lsm/WritePath.v's table_bytes / b_flush on a bstate with a frozen buffer, under write_sizes_ok and
         table_filter_ok; recoverJournal flushes db-less (session.flushMemdb straight from the replay buffer, the
         table entering a pending record, not the version, until the journal's commit) through Codec/Table.v twrite,
         so a bridge lemma twrite = table_bytes and a "pending adds" view of the version are needed;
     (b) hence C04_open_rw_end_to_end (db_get_bytes at db.seq = plain map of L) and
     (c) C04_open_rw_idempotent in general (needs (a) plus: the manifest the recovery writes, read back by
         session_recover, yields the same levels — encode/decode round trip C04_record_roundtrip applied to
         new_manifest's snapshot record — and the new journal is empty, so nothing is replayed).
   Both remain evaluated on C04_open_rw_nonvacuous and compared byte for byte with the real Open by KOpenBytes. *)
Theorem C04_open_rw_refines_recover_total_partial :
  forall jcrc jp, jparams_ok jp -> forall rp, rparams_ok rp -> forall kp, kparams_ok kp ->
  (keyTypeSeek kp <= keyTypeVal kp)%N -> forall mp, MemDB.mparams_ok mp ->
  forall tp tcrc compress snappy fgen blockSize ri c, comparer_ok c ->
  forall o hts img m mrecs ks jfz jl newb f s,
  oo_strict_man o = false -> oo_strict_j o = false -> oo_ro o = false -> oo_err_exist o = false ->
  heights_okl mp hts ->
  image_ok jcrc jp rp kp o img m mrecs ks (olist jfz ++ [jl]) -> manifest_ok rp o mrecs ks -> no_prev rp mrecs ->
  jnums_ok jfz jl -> order_embedding f -> f 0 = 0 -> pinv s -> denotes rp newb f s mrecs ks jfz jl ->
  image_tabs_ok rp o img mrecs ks ->
  exists r rimg k j nf q live cps d,
    open_bytes jcrc jp rp kp 12 mp tp tcrc compress snappy fgen blockSize ri c o hts img = OOk r /\
    is_image s (image_map f rimg) /\ (ks <= k)%nat /\
    replay_result rp (oo_cmp_name o) (firstn k (map fst mrecs)) = SpecOk j 0%Z nf q live cps /\
    recover_full rimg = (os_seq r, flat_map newb (flat_map SessionRecord.sr_adds (firstn k (map fst mrecs))) ++ map pair_batch (os_kept r)) /\
    (forall b, In b (p_acked s) -> In b (recover rimg)) /\
    (forall b, In b (recover rimg) -> In b (p_issued s)) /\
    sorted_b (recover rimg) /\
    bs_mem (os_bs r) = Some d /\ mem_entries mp (Some d) = [] /\ bs_frozen (os_bs r) = None.
Proof. exact open_rw_refines_recover_total. Qed.
Print Assumptions C04_open_rw_refines_recover_total_partial.

(* Non-vacuity: the example image of C04_open_rw_nonvacuous satisfies every hypothesis of C04_open_rw_total (image_ok
   there; manifest_ok and image_tabs_ok here), so the theorem applies to it — and the evaluation there shows the DB
   it returns. *)
Example C04_open_rw_total_nonvacuous :
  image_tabs_ok rp (ox_opts false) ox_img ox_mrecs 1 /\ manifest_ok rp (ox_opts false) ox_mrecs 1 /\
  jnums_ok None ox_jl /\
  exists r, ox_open (ox_opts false) [] ox_img = OOk r.
Proof. exact ox_rw_total. Qed.

(* ------------------------------------------------------------------------------------------------------------
   Towards (a): the tables the recovery flushes (Store/OpenFlushProofs.v).

   (a1) THE BRIDGE — full.  session.flushMemdb's writer call in the model of Open (Codec/Table.v twrite with
   Store/OpenPath.v's iComparer — Codec/IKey.v isep_bytes / isucc_bytes — and the filter generator handed to Open) IS
   Lsm/WritePath.v's table_bytes (the writer of C01_writer_output_ok / C01_flush_step_bytes, options record wo_of) on
   every list of decodable internal keys, for a user comparer whose Separator / Successor return byte strings
   (cmp_wf).  The hypothesis is what the proof revealed: the two models of iComparer.Separator differ on a user
   comparer that answers with something that is no []byte (an element above 255) — Lsm/WritePath.v's refuses the
   answer (enc_short), Codec/IKey.v's does not look; in Go a []byte always is one; goleveldb's default comparer
   satisfies it (C04_open_rw_flush_table_ok_nonvacuous). *)
From GL Require Import Store.OpenFlushProofs.
From GL Require Lsm.WritePath Lsm.WritePathTable Codec.TableCheck Base.Cursor.
Theorem C04_open_flush_is_table_bytes :
  forall c kp, cmp_wf c -> forall tp crc compress blockSize ri snappy fgen kvs,
  Forall (fun kv => exists x, ik_dec (fst kv) = Some x) kvs ->
  twrite tp crc compress (OpenPath.iwc kp c) blockSize ri snappy fgen kvs =
  WritePath.table_bytes c kp tp crc compress (wo_of blockSize ri snappy fgen) kvs.
Proof. exact twrite_table_bytes. Qed.
Print Assumptions C04_open_flush_is_table_bytes.

(* (a2), per flush — full for ONE flush of the recovery.  Whenever session.flushMemdb (flush_memdb: from the replay
   buffer straight into the pending session record) runs on a non-empty buffer that satisfies C14's invariant, under
   the side conditions of C01_writer_output_ok for that buffer (flush_side_ok: C13's computable size condition; with
   a filter policy, C16's no-false-negative condition on the file written): the file it stores under the next file
   number is table_bytes of the buffer's pairs; the record it appends to the pending adds is level 0, that number,
   the file's length, first and last key; the table file so recorded (tfile_of, what levels_of builds once the
   journal's commit moves the pending add into the version) passes tfile_okb with those bounds and table_check's to
   EXACTLY the buffer's pairs, which are strictly increasing under iComparer and are the buffer's entries. *)
Theorem C04_open_rw_flush_table_ok :
  forall rp kp, kparams_ok kp -> (keyTypeSeek kp <= keyTypeVal kp)%N -> forall mp, MemDB.mparams_ok mp ->
  forall tp, tparams_ok tp -> forall tcrc, (forall b, tcrc b < 2 ^ 32)%N ->
  forall compress decompress, (forall x, decompress (compress x) = Some x) -> (forall x, compress x <> []) ->
  forall snappy fgen blockSize ri, (1 <= ri)%N -> forall c, comparer_ok c -> cmp_wf c ->
  forall fname ufc verify st st',
  mem_ok c kp mp (r_mdb st) -> mem_pairs mp (r_mdb st) <> [] ->
  flush_side_ok kp tp tcrc compress decompress snappy fgen blockSize ri c fname ufc verify
    (Z.to_N (s_next (c_sess (r_c st)))) (mem_pairs mp (r_mdb st)) ->
  flush_memdb rp kp mp tp tcrc compress snappy fgen blockSize ri c st = OOk st' ->
  let kvs := mem_pairs mp (r_mdb st) in
  let num := s_next (c_sess (r_c st)) in
  exists file,
    WritePath.table_bytes c kp tp tcrc compress (wo_of blockSize ri snappy fgen) kvs = Some file /\
    c_files (r_c st') = f_set (c_files (r_c st)) (Sweep.FTable, Z.to_N num) file /\
    s_next (c_sess (r_c st')) = (num + 1)%Z /\ s_levels (c_sess (r_c st')) = s_levels (c_sess (r_c st)) /\
    r_mdb st' = r_mdb st /\
    let t := SessionRecord.mkat 0%Z num (Z.of_N (Varint.lenN file)) (WritePath.key_first kvs) (WritePath.key_last kvs) in
    SessionRecord.sr_adds (r_rec st') = SessionRecord.sr_adds (r_rec st) ++ [t] /\
    let f := tfile_of (c_files (r_c st')) t in
    f = mkTF (Z.to_N num) (WritePath.key_first kvs) (WritePath.key_last kvs) file /\
    tfile_okb c kp tp tcrc decompress fname ufc verify ri f = true /\
    TableCheck.table_check (ibc c) (tf_reader c tp tcrc decompress fname ufc verify f) ri = Some kvs /\
    Cursor.sorted (ibc c) kvs /\ map entry_of kvs = mem_entries mp (Some (r_mdb st)).
Proof. exact flush_memdb_table_ok. Qed.
Print Assumptions C04_open_rw_flush_table_ok.

(* ... and WHICH records that buffer holds.  One journal record replayed in read-write mode is the read-only step —
   after which the buffer holds what it held plus, when the sequence rule accepts the batch, its stamped records
   (jb_entries) — followed, when the buffer has reached the write buffer size, by flush_memdb of exactly that buffer
   and a Reset that leaves it empty.  The recovery also resets the buffer at the start of every journal; so the buffer
   a flush writes out holds the stamped records of the batches accepted since the previous flush of that journal (or
   its start), and the theorem above says the table holds exactly those, in internal-key order. *)
Theorem C04_open_rw_replay_flush :
  forall rp kp, kparams_ok kp -> (keyTypeSeek kp <= keyTypeVal kp)%N -> forall mp, MemDB.mparams_ok mp ->
  forall tp tcrc compress snappy fgen blockSize ri c, comparer_ok c ->
  forall o j b st st',
  oo_strict_j o = false -> jb_ok kp b -> mem_inv kp mp c st ->
  replay_record rp kp 12 mp tp tcrc compress snappy fgen blockSize ri c o true j (jb_enc kp b) st = OOk st' ->
  exists st1,
    replay_record rp kp 12 mp tp tcrc compress snappy fgen blockSize ri c o false j (jb_enc kp b) st = OOk st1 /\
    mem_inv kp mp c st1 /\ r_c st1 = r_c st /\ r_rec st1 = r_rec st /\
    (if (fst b <? r_seq st)%N then r_mdb st1 = r_mdb st
     else forall x, In x (mem_entries mp (Some (r_mdb st1))) <->
                    In x (mem_entries mp (Some (r_mdb st))) \/ In x (jb_entries kp b)) /\
    (st' = st1 \/
     exists st2, flush_memdb rp kp mp tp tcrc compress snappy fgen blockSize ri c st1 = OOk st2 /\
                 r_c st' = r_c st2 /\ r_rec st' = r_rec st2 /\ mem_entries mp (Some (r_mdb st')) = [] /\
                 mem_inv kp mp c st').
Proof. exact replay_record_rw_decompose. Qed.
Print Assumptions C04_open_rw_replay_flush.

(* Non-vacuity: the hypotheses of C04_open_rw_flush_table_ok hold together — goleveldb's default comparer returns byte
   strings, the CRC instance stays below 2^32, and the replay buffer after the synced batch of the example image
   (Put a, Delete b at sequence numbers 1, 2), flushed as table 0 with the generated constants, the real CRC-32C, 4 KiB
   blocks, restart interval 16, no compression, no filter, satisfies C14's invariant, has two pairs and passes the
   side conditions; flush_memdb returns. *)
Example C04_open_rw_flush_table_ok_nonvacuous :
  cmp_wf bytewise /\ (forall b, tbl_crc b < 2 ^ 32)%N /\
  exists st st',
    mem_ok bytewise kp mp (r_mdb st) /\ length (mem_pairs mp (r_mdb st)) = 2%nat /\
    flush_side_ok kp tblp tbl_crc (fun x => 0%N :: x) (fun x => Some (tl x)) false None 4096 16 bytewise None (fun _ _ _ => true) true
      (Z.to_N (s_next (c_sess (r_c st)))) (mem_pairs mp (r_mdb st)) /\
    flush_memdb rp kp mp tblp tbl_crc (fun x => 0%N :: x) false None 4096 16 bytewise st = OOk st'.
Proof. exact fx_flush_hyps. Qed.

(* STILL OPEN after this (the _partial name of C04_open_rw_refines_recover_total_partial stays):
     (a2/a3) the lifting of the per-flush theorem through rj_loop / open_rw to open_bytes: an invariant "every table of
         the version and every pending add passes tfile_okb, its number is below the next file number" carried through
         every flush (the theorem above; fresh number, so no named table file is overwritten), every commit (the new
         levels hold old tables and pending adds only: Store/OpenTotalProofs.v finish_go_in / pfold_add_total; the
         manifest writes touch no table file), the journal removals and the janitor (which removes no named table);
         it needs (i) a hypothesis on the image that the manifest's tables have numbers below its next-file number
         and pass tfile_okb (tables_answer gives the latter), and (ii) a formulation of flush_side_ok for ALL the
         buffers the recovery flushes that is a hypothesis on the IMAGE (a bound on the journals' sizes implies C13's
         size condition, but that implication is not proved) — then wb_tables of wf_bstate; wb_abs (the L1 layout is
         well-formed: level-0 additions) needs C06's flush step on the "version plus pending adds" view;
     (b) C04_open_rw_end_to_end;  (c) C04_open_rw_idempotent (plus the snapshot record's round trip through
         session_recover). *)
