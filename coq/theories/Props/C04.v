(* Props/C04.v — property C04: crash at any instant — synced writes survive, batches stay atomic, the DB
   reopens.  Property theorems only.  The model (Store/Crash.v) is at record granularity: a crash leaves, per
   file, any prefix of its records that contains the synced prefix (cuts inside a record, zero or garbage
   tails are reduced to this by C12's truncation/damage theorems), never-synced files may vanish, and
   namespace operations are atomic and ordered. *)
From GL Require Import Store.Crash Store.CrashProofs.

(* For every history of writes (with or without sync), failed journal writes, journal syncs, buffer rotations,
   flushes (table, edit, manifest sync, journal removal — each a separate crash point), transaction commits,
   compaction edits, AND crashes followed by recovery (PRestart leaves any admissible image and replays it into
   memory; the flushes recovery then performs are ordinary steps, hence crash points again — nested crashes),
   and for every admissible crash image of the state reached: recovery contains every batch acknowledged as
   durable, only batches that were issued, each at most once and in issue order — so the recovered contents
   are those of a subset of the issued batches applied in their original order, every batch entirely present
   or entirely absent. *)
Theorem C04_crash_safe : forall ops img, is_image (prun ops) img ->
  (forall b, In b (p_acked (prun ops)) -> In b (recover img)) /\
  (forall b, In b (recover img) -> In b (p_issued (prun ops))) /\
  sorted_b (recover img).
Proof. exact crash_safe. Qed.
Print Assumptions C04_crash_safe.

(* the invariant behind it holds in every reachable state (so recovery can be followed by more history) *)
Theorem C04_invariant_reachable : forall ops, pinv (prun ops).
Proof. exact pinv_run. Qed.
Print Assumptions C04_invariant_reachable.

(* Non-vacuity and necessity of the ordering obligations, by computation. *)
Definition ex_ops : list pop :=
  [PWrite 2 true; PWrite 1 false; PRotate; PWrite 3 true; PFlushEdit; PManSync; PDropFrozen; PTxnCommit 0;
   PWrite 1 true; PCompactEdit].

(* a crash in the middle of that history, recovery, more writes, and a second crash inside the second
   recovery's flush: the batches acknowledged with sync before each crash are still there *)
Definition ex_ops_nested : list pop :=
  [PWrite 2 true; PWrite 1 false; PRotate; PWrite 3 true; PFlushEdit;
   PRestart 0 0 0;                      (* crash: unsynced manifest tail and journal tails lost *)
   PFlushEdit; PManSync; PDropFrozen; PRotate; PFlushEdit;   (* recovery flushes both journals ... *)
   PRestart 0 0 0;                      (* ... and is itself interrupted *)
   PRotate; PFlushEdit; PManSync; PDropFrozen; PWrite 1 true].
Example C04_nonvacuous_nested :
  let s := prun ex_ops_nested in
  recover (mk_image s 0 0 0) = [{| b_seq := 1; b_n := 2 |}; {| b_seq := 4; b_n := 3 |}; {| b_seq := 8; b_n := 1 |}] /\
  p_acked s = [{| b_seq := 1; b_n := 2 |}; {| b_seq := 4; b_n := 3 |}; {| b_seq := 8; b_n := 1 |}].
Proof. split; vm_compute; reflexivity. Qed.

(* the weakest image (nothing unsynced survives) still recovers the three synced batches *)
Example C04_nonvacuous :
  let s := prun ex_ops in
  recover (mk_image s 0 0 0) =
    [{| b_seq := 1; b_n := 2 |}; {| b_seq := 3; b_n := 1 |}; {| b_seq := 4; b_n := 3 |}; {| b_seq := 7; b_n := 1 |}] /\
  p_acked s = [{| b_seq := 1; b_n := 2 |}; {| b_seq := 4; b_n := 3 |}; {| b_seq := 7; b_n := 1 |}].
Proof. split; vm_compute; reflexivity. Qed.

(* obligation (Rm)/(Mf): if the frozen journal were removed before the edit that supersedes it is durable, a
   crash that loses the unsynced manifest tail loses an acknowledged batch *)
Definition bad_drop (s : pstate) : pstate :=
  {| p_live := p_live s; p_frozen := None; p_fedit := false; p_fseq := p_fseq s; p_man := p_man s; p_msynced := p_msynced s;
     p_seq := p_seq s; p_issued := p_issued s; p_acked := p_acked s |}.
Example C04_obligation_remove_after_durable_needed :
  let s := bad_drop (prun [PWrite 2 true; PRotate; PFlushEdit]) in
  p_acked s = [{| b_seq := 1; b_n := 2 |}] /\ recover (mk_image s 0 0 0) = [].
Proof. split; vm_compute; reflexivity. Qed.

(* obligation (S): if a flush edit recorded a sequence number beyond the frozen buffer's last one (as a
   transaction committed ahead of a pending flush would), recovery skips the journal's batches *)
Example C04_obligation_seq_not_ahead_needed :
  recover {| i_live := {| j_num := 2; j_recs := [{| b_seq := 3; b_n := 1 |}]; j_synced := 1 |};
             i_frozen := Some {| j_num := 1; j_recs := [{| b_seq := 1; b_n := 2 |}]; j_synced := 1 |};
             i_man := [{| m_jnum := Some 1; m_seq := Some 0; m_tab := [] |};
                       {| m_jnum := None; m_seq := Some 9; m_tab := [{| b_seq := 4; b_n := 6 |}] |}] |}
  = [{| b_seq := 4; b_n := 6 |}].
Proof. vm_compute. reflexivity. Qed.
