(* Props/C04.v — property C04: crash at any instant — synced writes survive, batches stay atomic, the DB
   reopens.  Property theorems only.  The model (Store/Crash.v) is at record granularity: a crash leaves, per
   file, any prefix of its records that contains the synced prefix (cuts inside a record, zero or garbage
   tails are reduced to this by C12's truncation/damage theorems), never-synced files may vanish, and
   namespace operations are atomic and ordered. *)
From GL Require Import Store.Crash Store.CrashProofs.
From GL Require Import Base.Bytes Codec.Crc Codec.Journal Codec.JournalSpec Store.CrashBytes Store.CrashBytesProofs
  Gen.Consts Gen.InstJournal Gen.InstJournalOk.

(* For every history of writes (with or without sync), failed journal writes, journal syncs, buffer rotations,
   flushes (table, edit, manifest sync, journal removal — each a separate crash point), transaction commits,
   compaction edits, AND crashes followed by recovery (PRestart leaves any admissible image and replays it into
   memory; the flushes recovery then performs are ordinary steps, hence crash points again — nested crashes),
   and for every admissible crash image of the state reached: recovery contains every batch acknowledged as
   durable, only batches that were issued, each at most once and in issue order — so the recovered contents
   are those of a subset of the issued batches applied in their original order, every batch entirely present
   or entirely absent. *)
Theorem C04_crash_safe : forall ops img, is_image (prun ops) img ->
  (forall b, In b (p_acked (prun ops)) -> In b (recover img)) /\
  (forall b, In b (recover img) -> In b (p_issued (prun ops))) /\
  sorted_b (recover img).
Proof. exact crash_safe. Qed.
Print Assumptions C04_crash_safe.

(* the invariant behind it holds in every reachable state (so recovery can be followed by more history) *)
Theorem C04_invariant_reachable : forall ops, pinv (prun ops).
Proof. exact pinv_run. Qed.
Print Assumptions C04_invariant_reachable.

(* Non-vacuity and necessity of the ordering obligations, by computation. *)
Definition ex_ops : list pop :=
  [PWrite 2 true; PWrite 1 false; PRotate; PWrite 3 true; PFlushEdit; PManSync; PDropFrozen; PTxnCommit 0;
   PWrite 1 true; PCompactEdit].

(* a crash in the middle of that history, recovery, more writes, and a second crash inside the second
   recovery's flush: the batches acknowledged with sync before each crash are still there *)
Definition ex_ops_nested : list pop :=
  [PWrite 2 true; PWrite 1 false; PRotate; PWrite 3 true; PFlushEdit;
   PRestart 0 0 0;                      (* crash: unsynced manifest tail and journal tails lost *)
   PFlushEdit; PManSync; PDropFrozen; PRotate; PFlushEdit;   (* recovery flushes both journals ... *)
   PRestart 0 0 0;                      (* ... and is itself interrupted *)
   PRotate; PFlushEdit; PManSync; PDropFrozen; PWrite 1 true].
Example C04_nonvacuous_nested :
  let s := prun ex_ops_nested in
  recover (mk_image s 0 0 0) = [{| b_seq := 1; b_n := 2 |}; {| b_seq := 4; b_n := 3 |}; {| b_seq := 8; b_n := 1 |}] /\
  p_acked s = [{| b_seq := 1; b_n := 2 |}; {| b_seq := 4; b_n := 3 |}; {| b_seq := 8; b_n := 1 |}].
Proof. split; vm_compute; reflexivity. Qed.

(* the weakest image (nothing unsynced survives) still recovers the three synced batches *)
Example C04_nonvacuous :
  let s := prun ex_ops in
  recover (mk_image s 0 0 0) =
    [{| b_seq := 1; b_n := 2 |}; {| b_seq := 3; b_n := 1 |}; {| b_seq := 4; b_n := 3 |}; {| b_seq := 7; b_n := 1 |}] /\
  p_acked s = [{| b_seq := 1; b_n := 2 |}; {| b_seq := 4; b_n := 3 |}; {| b_seq := 7; b_n := 1 |}].
Proof. split; vm_compute; reflexivity. Qed.

(* obligation (Rm)/(Mf): if the frozen journal were removed before the edit that supersedes it is durable, a
   crash that loses the unsynced manifest tail loses an acknowledged batch *)
Definition bad_drop (s : pstate) : pstate :=
  {| p_live := p_live s; p_frozen := None; p_fedit := false; p_fseq := p_fseq s; p_man := p_man s; p_msynced := p_msynced s;
     p_seq := p_seq s; p_issued := p_issued s; p_acked := p_acked s |}.
Example C04_obligation_remove_after_durable_needed :
  let s := bad_drop (prun [PWrite 2 true; PRotate; PFlushEdit]) in
  p_acked s = [{| b_seq := 1; b_n := 2 |}] /\ recover (mk_image s 0 0 0) = [].
Proof. split; vm_compute; reflexivity. Qed.

(* obligation (S): if a flush edit recorded a sequence number beyond the frozen buffer's last one (as a
   transaction committed ahead of a pending flush would), recovery skips the journal's batches *)
Example C04_obligation_seq_not_ahead_needed :
  recover {| i_live := {| j_num := 2; j_recs := [{| b_seq := 3; b_n := 1 |}]; j_synced := 1 |};
             i_frozen := Some {| j_num := 1; j_recs := [{| b_seq := 1; b_n := 2 |}]; j_synced := 1 |};
             i_man := [{| m_jnum := Some 1; m_seq := Some 0; m_tab := [] |};
                       {| m_jnum := None; m_seq := Some 9; m_tab := [{| b_seq := 4; b_n := 6 |}] |}] |}
  = [{| b_seq := 4; b_n := 6 |}].
Proof. vm_compute. reflexivity. Qed.

(* ------------------------------------------------------------------------------------------------------------
   Byte level.  The theorems above quantify over record-level images.  What a crash really leaves of a journal
   or manifest file is a byte string: the bytes that were synced (a Sync happens after whole records: Next,
   Write, Flush, Sync in writeJournal / flushManifest), any further prefix of the bytes written since — cut at
   an arbitrary byte — and possibly zeros or garbage behind the cut.  Recovery reads it with journal.Reader in
   tolerant mode (Store/CrashBytes.v: recover_bytes = C12's reader model jread false ck, driven like
   recoverJournal, then the record's own decoder; records that do not decode are skipped).  Composed with C12
   (Codec/JournalProofs.v: truncation, truncation_complete, reader_factor, jwrite_layout and the block-parser
   lemmas), for every checksum function crc and every constant record with jparams_ok:                      *)

(* Cut at any byte offset n, nothing behind the cut — unconditional.  Recovery keeps exactly firstn m recs where
   m is the number of records whose stream lies wholly within the first n bytes: the m-th record does, and
   every k whose stream does is <= m — in particular every synced record is kept (k <= m for a sync point
   after k records) — and m <= length recs: one of the images the record-level model quantifies over. *)
Theorem C04_byte_cut_is_record_image : forall crc p, jparams_ok p ->
  forall (A : Type) (enc : A -> bytes) (dec : bytes -> option A) ck fl recs n,
  dec_ok A enc dec recs ->
  exists m, (m <= length recs)%nat /\
    recover_bytes crc p A dec ck (crash_bytes crc p A enc fl recs n []) = firstn m recs /\
    (synced_len crc p A enc fl recs m <= n)%nat /\
    forall k, (synced_len crc p A enc fl recs k <= n)%nat -> (Nat.min k (length recs) <= m)%nat.
Proof. exact byte_cut_is_record_image. Qed.
Print Assumptions C04_byte_cut_is_record_image.

(* Cut at any byte offset n followed by ANY bytes (zeros, garbage, stale blocks), under the computable
   hypothesis no_forgery_tail: the block parser accepts, anywhere in the image, only a leading run of the
   chunks that were written, and nothing after the first region it rejects.  (A cut inside a chunk's payload
   followed by zeros is a chunk with an intact header and a changed payload: that its 32-bit checksum does not
   match cannot be proved for an arbitrary checksum function, so zeros need the hypothesis too.) *)
Theorem C04_byte_image_is_record_image : forall crc p, jparams_ok p ->
  forall (A : Type) (enc : A -> bytes) (dec : bytes -> option A) ck fl recs n tail,
  dec_ok A enc dec recs ->
  no_forgery_tail crc p ck (map enc recs) (crash_bytes crc p A enc fl recs n tail) = true ->
  exists m, (m <= length recs)%nat /\
    recover_bytes crc p A dec ck (crash_bytes crc p A enc fl recs n tail) = firstn m recs /\
    forall k, (synced_len crc p A enc fl recs k <= n)%nat -> (Nat.min k (length recs) <= m)%nat.
Proof. exact byte_image_is_record_image. Qed.
Print Assumptions C04_byte_image_is_record_image.

(* Where a Sync can happen: when the writer model has written k records and flushed after the k-th (fl[k-1];
   writeJournal / flushManifest call Sync right after Flush), the bytes that have reached the file are exactly
   the stream of the first k records — the synced_len used above — and the remaining records are written from
   that state on. *)
Theorem C04_sync_point_bytes : forall crc p, jparams_ok p -> forall fl (rs : list bytes) k,
  (1 <= k <= length rs)%nat -> nth (k - 1) fl false = true ->
  exists s, wRecords crc p (w_init p) fl (firstn k rs) = WOk s /\
            w_out s = jwrite crc p fl (firstn k rs) /\
            wRecords crc p (w_init p) fl rs = wRecords crc p s (skipn k fl) (skipn k rs).
Proof. exact sync_point_bytes. Qed.
Print Assumptions C04_sync_point_bytes.

(* the hypothesis is a theorem for pure cuts *)
Theorem C04_no_forgery_tail_cut : forall crc p, jparams_ok p -> forall ck fl rs n,
  no_forgery_tail crc p ck rs (firstn n (jwrite crc p fl rs) ++ []) = true.
Proof. exact no_forgery_tail_cut. Qed.
Print Assumptions C04_no_forgery_tail_cut.

(* Hence every byte-level image of a reachable state (live journal, frozen journal — which may have vanished
   if never synced — and manifest, each cut anywhere behind its synced bytes with anything behind the cut) is,
   once read, a record-level image ... *)
Theorem C04_byte_image_is_image : forall crc p, jparams_ok p ->
  forall enc_batch dec_batch enc_edit dec_edit ck s b,
  pinv s -> codecs_ok enc_batch dec_batch enc_edit dec_edit s ->
  is_byte_image crc p enc_batch enc_edit ck s b ->
  is_image s (abs_image crc p dec_batch dec_edit ck s b).
Proof. exact byte_image_is_image. Qed.
Print Assumptions C04_byte_image_is_image.

(* ... and crash_safe holds with the files given as bytes.
   ASSUMED about the manifest: its records are applied whole or not at all, as recover_bytes does (read the
   record completely, then decode).  session.recover did not do that on the pinned tree: it decoded a record
   while streaming its chunks into the one sessionRecord it reuses, so when a record was split over a 32 KiB
   block boundary and the crash kept the first chunk only, the journal / next-file / sequence numbers decoded
   from that chunk stayed in effect although the record was "skipped" — acknowledged synced writes were lost
   (found while writing this theorem; repaired in the repo by "fix: session.recover must read a manifest
   record completely before decoding it"; the directed scenario harness/cmd/c04/mantorn.go is the oracle).
   With the repair the assumption is what the code does for every torn record. *)
Theorem C04_crash_safe_bytes : forall crc p, jparams_ok p ->
  forall enc_batch dec_batch enc_edit dec_edit ck ops b,
  codecs_ok enc_batch dec_batch enc_edit dec_edit (prun ops) ->
  is_byte_image crc p enc_batch enc_edit ck (prun ops) b ->
  let r := recover_image_bytes crc p dec_batch dec_edit ck (prun ops) b in
  (forall x, In x (p_acked (prun ops)) -> In x r) /\
  (forall x, In x r -> In x (p_issued (prun ops))) /\
  sorted_b r.
Proof. exact crash_safe_bytes. Qed.
Print Assumptions C04_crash_safe_bytes.

(* Non-vacuity, by computation with the real CRC-32C, the real header size and chunk type codes and 32-byte
   blocks: three batches whose streams end at bytes 23, 96 and 117 (the second one spans three blocks), the
   first one synced.  Cut at byte 45 (inside the middle chunk of the second batch): the first batch is kept;
   the same cut followed by zeros, and by garbage: the hypothesis holds and the result is the same; cut at
   116: two batches; at 117: all three. *)
Definition ex_batches : list batch := [{| b_seq := 1; b_n := 2 |}; {| b_seq := 3; b_n := 20 |}; {| b_seq := 23; b_n := 1 |}].
Definition ex_dec := dec_batch_go ldb_batchHeaderLen.
Example C04_bytes_nonvacuous :
  jparams_ok jp_small /\ dec_ok batch enc_batch_dels ex_dec ex_batches /\
  synced_len jcrc jp_small batch enc_batch_dels [] ex_batches 1 = 23%nat /\
  length (jbytes jcrc jp_small batch enc_batch_dels [] ex_batches) = 117%nat /\
  recover_bytes jcrc jp_small batch ex_dec true (crash_bytes jcrc jp_small batch enc_batch_dels [] ex_batches 45 []) = firstn 1 ex_batches /\
  (let d := crash_bytes jcrc jp_small batch enc_batch_dels [] ex_batches 45 (repeat 0 80) in
   no_forgery_tail jcrc jp_small true (map enc_batch_dels ex_batches) d = true /\
   recover_bytes jcrc jp_small batch ex_dec true d = firstn 1 ex_batches) /\
  (let d := crash_bytes jcrc jp_small batch enc_batch_dels [] ex_batches 45 [7; 200; 13; 0; 9; 1; 2; 77; 78; 79; 80; 81; 1; 0; 0; 0; 0; 3; 0; 2] in
   no_forgery_tail jcrc jp_small true (map enc_batch_dels ex_batches) d = true /\
   recover_bytes jcrc jp_small batch ex_dec true d = firstn 1 ex_batches) /\
  recover_bytes jcrc jp_small batch ex_dec true (crash_bytes jcrc jp_small batch enc_batch_dels [] ex_batches 116 []) = firstn 2 ex_batches /\
  recover_bytes jcrc jp_small batch ex_dec true (crash_bytes jcrc jp_small batch enc_batch_dels [] ex_batches 117 []) = ex_batches /\
  (* a cut 3 bytes behind a block boundary, inside the header of a continuation chunk *)
  recover_bytes jcrc jp_small batch ex_dec true (crash_bytes jcrc jp_small batch enc_batch_dels [] ex_batches 35 []) = firstn 1 ex_batches.
Proof.
  split; [exact jp_small_ok|]. split; [repeat constructor|].
  vm_compute. repeat split; reflexivity.
Qed.

(* Non-vacuity of C04_crash_safe_bytes: a reachable state (one synced batch, one unsynced batch; the initial
   manifest edit), a toy edit codec, and a byte-level image of it — the live journal cut 10 bytes into the
   unsynced batch's chunk and followed by zeros, the manifest whole.  All hypotheses hold by computation;
   recovery keeps the synced batch. *)
Fixpoint ex_pairs (l : bytes) : list batch :=
  match l with
  | a :: b :: r => {| b_seq := a; b_n := b |} :: ex_pairs r
  | _ => []
  end.
Definition ex_enc_edit (e : medit) : bytes :=
  [match m_jnum e with Some j => j + 1 | None => 0 end; match m_seq e with Some q => q + 1 | None => 0 end]
  ++ flat_map (fun b => [b_seq b; b_n b]) (m_tab e).
Definition ex_dec_edit (r : bytes) : option medit :=
  match r with
  | j :: q :: t => Some {| m_jnum := if j =? 0 then None else Some (j - 1);
                           m_seq := if q =? 0 then None else Some (q - 1); m_tab := ex_pairs t |}
  | _ => None
  end.
Definition ex_state : pstate := prun [PWrite 2 true; PWrite 1 false].
Definition ex_bimage : bimage :=
  {| bi_live := crash_bytes jcrc jp_small batch enc_batch_dels [] (j_recs (p_live ex_state)) 33 (repeat 0 12);
     bi_frozen := None;
     bi_man := crash_bytes jcrc jp_small medit ex_enc_edit [] (p_man ex_state) 9 [] |}.
Example C04_crash_safe_bytes_nonvacuous :
  codecs_ok enc_batch_dels ex_dec ex_enc_edit ex_dec_edit ex_state /\
  is_byte_image jcrc jp_small enc_batch_dels ex_enc_edit true ex_state ex_bimage /\
  p_acked ex_state = [{| b_seq := 1; b_n := 2 |}] /\
  recover_image_bytes jcrc jp_small ex_dec ex_dec_edit true ex_state ex_bimage = [{| b_seq := 1; b_n := 2 |}].
Proof.
  split; [|split; [|split; vm_compute; reflexivity]].
  - split; intros x Hx; vm_compute in Hx; repeat (destruct Hx as [<-|Hx]; [vm_compute; reflexivity|]); contradiction.
  - unfold is_byte_image. split; [|split].
    + exists [], 33%nat, (repeat 0 12). split; [vm_compute; repeat constructor|]. split; [reflexivity|]. vm_compute. reflexivity.
    + vm_compute. exact I.
    + exists [], 9%nat, []. split; [vm_compute; repeat constructor|]. split; [reflexivity|]. vm_compute. reflexivity.
Qed.
