(* Props/C15.v — property C15: internal key order and index-key shortening obey their laws.
   Property theorems only; each is closed by [exact lemma] and followed by Print Assumptions. *)
From GL Require Import Base.Order Base.BytesProofs Base.OrderProofs Codec.BytesCmp Codec.BytesCmpProofs
  Codec.IKey Codec.IKeyProofs Gen.ConstsOk.

(* 1. The internal order is a strict total order for every valid comparer; Eq iff identical. *)
Theorem C15_icmp_eq : forall c, comparer_ok c -> forall a b, icmp c a b = Eq <-> a = b.
Proof. exact icmp_eq. Qed.
Print Assumptions C15_icmp_eq.

Theorem C15_icmp_antisym : forall c, comparer_ok c -> forall a b, icmp c b a = CompOpp (icmp c a b).
Proof. exact icmp_opp. Qed.
Print Assumptions C15_icmp_antisym.

Theorem C15_icmp_trans : forall c, comparer_ok c -> forall a b d,
  icmp c a b = Lt -> icmp c b d = Lt -> icmp c a d = Lt.
Proof. exact icmp_trans. Qed.
Print Assumptions C15_icmp_trans.

Theorem C15_icmp_total : forall c, comparer_ok c -> forall a b,
  icmp c a b = Lt \/ a = b \/ icmp c b a = Lt.
Proof. exact icmp_total. Qed.
Print Assumptions C15_icmp_total.

(* 2. User key ascending, and for equal user keys newest (larger packed number) first. *)
Theorem C15_ukey_ascending : forall c, comparer_ok c -> forall a b,
  cmp c (uk a) (uk b) = Lt -> icmp c a b = Lt.
Proof. intros c _. exact (icmp_ukey_lt c). Qed.
Print Assumptions C15_ukey_ascending.

Theorem C15_newest_first : forall c, comparer_ok c -> forall u m n,
  icmp c {| uk := u; num := m |} {| uk := u; num := n |} = Lt <-> (n < m)%N.
Proof. exact icmp_same_ukey. Qed.
Print Assumptions C15_newest_first.

(* 3. Probe placement: (k, s, Seek) sorts after every entry of k newer than s, not after any
      entry of k with seq <= s, and by user key alone against other keys — for the constants
      of the current source (kp, Gen/ConstsOk.v). *)
Theorem C15_probe_after_newer : forall c, comparer_ok c -> forall k s s' t,
  (t <= keyTypeSeek kp)%N ->
  icmp c {| uk := k; num := pack s' t |} (probe kp k s) = Lt <-> (s < s')%N.
Proof. intros c ok. exact (probe_after_newer c ok kp kp_ok). Qed.
Print Assumptions C15_probe_after_newer.

Theorem C15_probe_not_after_older : forall c, comparer_ok c -> forall k s s' t,
  (t <= keyTypeSeek kp)%N -> (s' <= s)%N ->
  icmp c (probe kp k s) {| uk := k; num := pack s' t |} <> Gt.
Proof. intros c ok. exact (probe_not_after_older c ok kp). Qed.
Print Assumptions C15_probe_not_after_older.

(* 4. Shortened index keys: a < isep a b < b, b < isucc b, for every valid comparer, including
      ones whose Separator/Successor return nil (None) or an unshortened string. *)
Theorem C15_isep_law : forall c, comparer_ok c -> forall p a b x,
  isep c p a b = Some x -> icmp c a x = Lt /\ icmp c x b = Lt.
Proof. intros c ok p. exact (isep_law c ok p). Qed.
Print Assumptions C15_isep_law.

Theorem C15_isucc_law : forall c, comparer_ok c -> forall p b x,
  isucc c p b = Some x -> icmp c b x = Lt.
Proof. intros c _ p. exact (isucc_law c p). Qed.
Print Assumptions C15_isucc_law.

(* 5. The built-in comparer (model of bytes_comparer.go) and the harness's custom comparers
      satisfy the contract. *)
Theorem C15_bytewise_ok : comparer_ok bytewise.
Proof. exact bytewise_ok. Qed.
Print Assumptions C15_bytewise_ok.

Theorem C15_shortlex_ok : comparer_ok shortlex.
Proof. exact shortlex_ok. Qed.
Print Assumptions C15_shortlex_ok.

Theorem C15_xorcmp_ok : forall m, comparer_ok (xorcmp m).
Proof. exact xorcmp_ok. Qed.
Print Assumptions C15_xorcmp_ok.

(* 6. Byte-level encoding of internal keys round-trips. *)
Theorem C15_split_encode : forall k, (num k < 2 ^ 64)%N -> split_ikey (encode_ikey k) = Some k.
Proof. exact split_encode. Qed.
Print Assumptions C15_split_encode.

Theorem C15_encode_split : forall b k, wf_bytes b -> split_ikey b = Some k -> encode_ikey k = b.
Proof. exact encode_split. Qed.
Print Assumptions C15_encode_split.

Theorem C15_make_ikey_bound : forall u s t k, make_ikey kp u s t = MkOk k ->
  (num k < 2 ^ 64)%N /\ uk k = u /\ num k = pack s t.
Proof. intros u s t k. exact (make_ikey_bound kp u s t k kp_ok). Qed.
Print Assumptions C15_make_ikey_bound.

(* Non-vacuity: concrete keys meeting the hypotheses. *)
Example C15_nonvacuous :
  comparer_ok bytewise /\
  isep bytewise kp {| uk := [1;2;3]%N; num := pack 5 1 |} {| uk := [1;9]%N; num := pack 7 1 |}
    = Some {| uk := [1;3]%N; num := keyMaxNum kp |} /\
  icmp bytewise {| uk := [1]%N; num := pack 9 1 |} (probe kp [1]%N 5) = Lt.
Proof. split; [exact bytewise_ok|]. split; vm_compute; reflexivity. Qed.
