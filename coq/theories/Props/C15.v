(* Props/C15.v — property C15: internal key order and index-key shortening obey their laws.
   Property theorems only; each is closed by [exact lemma] and followed by Print Assumptions. *)
From GL Require Import Base.Order Base.BytesProofs Base.OrderProofs Codec.BytesCmp Codec.BytesCmpProofs
  Codec.IKey Codec.IKeyProofs Codec.IKeyProbeProofs Gen.ConstsOk.
From GL Require Import Base.OrderPre Codec.IKeyPreProofs Codec.IKeyProbePreProofs Codec.CiCmp Codec.CiCmpProofs.

(* 1. The internal order is a strict total order for every valid comparer; Eq iff identical. *)
Theorem C15_icmp_eq : forall c, comparer_ok c -> forall a b, icmp c a b = Eq <-> a = b.
Proof. exact icmp_eq. Qed.
Print Assumptions C15_icmp_eq.

Theorem C15_icmp_antisym : forall c, comparer_ok c -> forall a b, icmp c b a = CompOpp (icmp c a b).
Proof. exact icmp_opp. Qed.
Print Assumptions C15_icmp_antisym.

Theorem C15_icmp_trans : forall c, comparer_ok c -> forall a b d,
  icmp c a b = Lt -> icmp c b d = Lt -> icmp c a d = Lt.
Proof. exact icmp_trans. Qed.
Print Assumptions C15_icmp_trans.

Theorem C15_icmp_total : forall c, comparer_ok c -> forall a b,
  icmp c a b = Lt \/ a = b \/ icmp c b a = Lt.
Proof. exact icmp_total. Qed.
Print Assumptions C15_icmp_total.

(* 2. User key ascending, and for equal user keys newest (larger packed number) first. *)
Theorem C15_ukey_ascending : forall c, comparer_ok c -> forall a b,
  cmp c (uk a) (uk b) = Lt -> icmp c a b = Lt.
Proof. intros c _. exact (icmp_ukey_lt c). Qed.
Print Assumptions C15_ukey_ascending.

Theorem C15_newest_first : forall c, comparer_ok c -> forall u m n,
  icmp c {| uk := u; num := m |} {| uk := u; num := n |} = Lt <-> (n < m)%N.
Proof. exact icmp_same_ukey. Qed.
Print Assumptions C15_newest_first.

(* 3. Probe placement: (k, s, Seek) sorts after every entry of k newer than s, not after any
      entry of k with seq <= s, and by user key alone against other keys — for the constants
      of the current source (kp, Gen/ConstsOk.v). *)
Theorem C15_probe_after_newer : forall c, comparer_ok c -> forall k s s' t,
  (t <= keyTypeSeek kp)%N ->
  icmp c {| uk := k; num := pack s' t |} (probe kp k s) = Lt <-> (s < s')%N.
Proof. intros c ok. exact (probe_after_newer c ok kp kp_ok). Qed.
Print Assumptions C15_probe_after_newer.

Theorem C15_probe_not_after_older : forall c, comparer_ok c -> forall k s s' t,
  (t <= keyTypeSeek kp)%N -> (s' <= s)%N ->
  icmp c (probe kp k s) {| uk := k; num := pack s' t |} <> Gt.
Proof. intros c ok. exact (probe_not_after_older c ok kp). Qed.
Print Assumptions C15_probe_not_after_older.

(* 3b. Probe placement, complete: over ALL entries (any user key), the entries sorting strictly
      before the probe (k, s, Seek) are exactly those with a smaller user key and those of k newer
      than s.  Lifted to any run sorted by the internal order and split at the probe: nothing
      before the split is an entry of k visible at s; the entry the seek lands on, if it carries
      k, is visible at s and no visible entry of k in the run is newer; if it carries another
      key, k has no visible entry in the run at all. *)
Theorem C15_probe_precedes_iff : forall c, comparer_ok c -> forall e s' t k s,
  num e = pack s' t -> (t <= keyTypeSeek kp)%N ->
  icmp c e (probe kp k s) = Lt <-> (cmp c (uk e) k = Lt \/ (uk e = k /\ (s < s')%N)).
Proof. intros c ok. exact (probe_precedes_iff c ok kp kp_ok). Qed.
Print Assumptions C15_probe_precedes_iff.

Theorem C15_probe_lands_on_newest_visible : forall c, comparer_ok c -> forall l1 e l2 k s,
  sorted c (l1 ++ e :: l2) ->
  (forall x, In x (l1 ++ e :: l2) -> trailer_ok kp x) ->
  (forall x, In x l1 -> icmp c x (probe kp k s) = Lt) ->
  icmp c e (probe kp k s) <> Lt ->
  (forall x, In x l1 -> ~ (uk x = k /\ (seq_of x <= s)%N)) /\
  (uk e = k -> (seq_of e <= s)%N /\
     forall x, In x (l1 ++ e :: l2) -> uk x = k -> (seq_of x <= s)%N -> (seq_of x <= seq_of e)%N) /\
  (uk e <> k -> forall x, In x (l1 ++ e :: l2) -> ~ (uk x = k /\ (seq_of x <= s)%N)).
Proof. intros c ok. exact (probe_lands_on_newest_visible c ok kp kp_ok). Qed.
Print Assumptions C15_probe_lands_on_newest_visible.

(* 4. Shortened index keys: a < isep a b < b, b < isucc b, for every valid comparer, including
      ones whose Separator/Successor return nil (None) or an unshortened string. *)
Theorem C15_isep_law : forall c, comparer_ok c -> forall p a b x,
  isep c p a b = Some x -> icmp c a x = Lt /\ icmp c x b = Lt.
Proof. intros c ok p. exact (isep_law c ok p). Qed.
Print Assumptions C15_isep_law.

Theorem C15_isucc_law : forall c, comparer_ok c -> forall p b x,
  isucc c p b = Some x -> icmp c b x = Lt.
Proof. intros c _ p. exact (isucc_law c p). Qed.
Print Assumptions C15_isucc_law.

(* 5. The built-in comparer (model of bytes_comparer.go) and the harness's custom comparers
      satisfy the contract. *)
Theorem C15_bytewise_ok : comparer_ok bytewise.
Proof. exact bytewise_ok. Qed.
Print Assumptions C15_bytewise_ok.

Theorem C15_shortlex_ok : comparer_ok shortlex.
Proof. exact shortlex_ok. Qed.
Print Assumptions C15_shortlex_ok.

Theorem C15_xorcmp_ok : forall m, comparer_ok (xorcmp m).
Proof. exact xorcmp_ok. Qed.
Print Assumptions C15_xorcmp_ok.

(* 6. Byte-level encoding of internal keys round-trips. *)
Theorem C15_split_encode : forall k, (num k < 2 ^ 64)%N -> split_ikey (encode_ikey k) = Some k.
Proof. exact split_encode. Qed.
Print Assumptions C15_split_encode.

Theorem C15_encode_split : forall b k, wf_bytes b -> split_ikey b = Some k -> encode_ikey k = b.
Proof. exact encode_split. Qed.
Print Assumptions C15_encode_split.

Theorem C15_make_ikey_bound : forall u s t k, make_ikey kp u s t = MkOk k ->
  (num k < 2 ^ 64)%N /\ uk k = u /\ num k = pack s t.
Proof. intros u s t k. exact (make_ikey_bound kp u s t k kp_ok). Qed.
Print Assumptions C15_make_ikey_bound.

(* Non-vacuity: concrete keys meeting the hypotheses. *)
Example C15_nonvacuous :
  comparer_ok bytewise /\
  isep bytewise kp {| uk := [1;2;3]%N; num := pack 5 1 |} {| uk := [1;9]%N; num := pack 7 1 |}
    = Some {| uk := [1;3]%N; num := keyMaxNum kp |} /\
  icmp bytewise {| uk := [1]%N; num := pack 9 1 |} (probe kp [1]%N 5) = Lt.
Proof. split; [exact bytewise_ok|]. split; vm_compute; reflexivity. Qed.

(* Non-vacuity of 3b: a sorted run [a@9; b@7 | b@4; b@2; c@1] split at the probe (b, 5). *)
Example C15_probe_run_nonvacuous :
  let a := [1]%N in let b := [2]%N in let d := [3]%N in
  let l1 := [ {| uk := a; num := pack 9 1 |}; {| uk := b; num := pack 7 1 |} ] in
  let e := {| uk := b; num := pack 4 0 |} in
  let l2 := [ {| uk := b; num := pack 2 1 |}; {| uk := d; num := pack 1 1 |} ] in
  sorted bytewise (l1 ++ e :: l2) /\
  (forall x, In x (l1 ++ e :: l2) -> trailer_ok kp x) /\
  (forall x, In x l1 -> icmp bytewise x (probe kp b 5) = Lt) /\
  icmp bytewise e (probe kp b 5) <> Lt /\ uk e = b /\ seq_of e = 4%N.
Proof.
  cbv zeta. split; [vm_compute; tauto|]. split.
  - intros x Hx. cbn in Hx.
    destruct Hx as [<-|[<-|[<-|[<-|[<-|[]]]]]];
      [exists 9%N, 1%N | exists 7%N, 1%N | exists 4%N, 0%N | exists 2%N, 1%N | exists 1%N, 1%N];
      (split; [vm_compute; reflexivity | vm_compute; discriminate]).
  - split; [intros x Hx; cbn in Hx; destruct Hx as [<-|[<-|[]]]; vm_compute; reflexivity|].
    split; [vm_compute; discriminate|]. split; vm_compute; reflexivity.
Qed.

(* 3c. The same two statements under the WEAKER comparer contract comparer_pre_ok (total preorder:
      keys comparing Eq are one user key, e.g. a case-insensitive order): "carries k" is keq. *)
Theorem C15_probe_precedes_iff_pre : forall c, comparer_pre_ok c -> forall e s' t k s,
  num e = pack s' t -> (t <= keyTypeSeek kp)%N ->
  icmp c e (probe kp k s) = Lt <-> (cmp c (uk e) k = Lt \/ (keq c (uk e) k /\ (s < s')%N)).
Proof. intros c ok. exact (pprobe_precedes_iff c kp kp_ok). Qed.
Print Assumptions C15_probe_precedes_iff_pre.

Theorem C15_probe_lands_on_newest_visible_pre : forall c, comparer_pre_ok c -> forall l1 e l2 k s,
  psorted c (l1 ++ e :: l2) ->
  (forall x, In x (l1 ++ e :: l2) -> ptrailer_ok kp x) ->
  (forall x, In x l1 -> icmp c x (probe kp k s) = Lt) ->
  icmp c e (probe kp k s) <> Lt ->
  (forall x, In x l1 -> ~ (keq c (uk x) k /\ (pseq_of x <= s)%N)) /\
  (keq c (uk e) k -> (pseq_of e <= s)%N /\
     forall x, In x (l1 ++ e :: l2) -> keq c (uk x) k -> (pseq_of x <= s)%N -> (pseq_of x <= pseq_of e)%N) /\
  (~ keq c (uk e) k -> forall x, In x (l1 ++ e :: l2) -> ~ (keq c (uk x) k /\ (pseq_of x <= s)%N)).
Proof. intros c ok. exact (pprobe_lands_on_newest_visible c ok kp kp_ok). Qed.
Print Assumptions C15_probe_lands_on_newest_visible_pre.

(* Non-vacuity of 3c on the non-injective comparer cicmp: run [KEY@7 | key@4; Key@2], probe ("Key", 5). *)
Example C15_probe_run_pre_nonvacuous :
  let l1 := [ {| uk := [75;69;89]%N; num := pack 7 1 |} ] in
  let e := {| uk := [107;101;121]%N; num := pack 4 1 |} in
  let l2 := [ {| uk := [75;101;121]%N; num := pack 2 0 |} ] in
  let k := [75;101;121]%N in
  comparer_pre_ok cicmp /\ psorted cicmp (l1 ++ e :: l2) /\
  (forall x, In x l1 -> icmp cicmp x (probe kp k 5) = Lt) /\
  icmp cicmp e (probe kp k 5) <> Lt /\ keq cicmp (uk e) k /\ uk e <> k.
Proof.
  cbv zeta. split; [exact cicmp_pre_ok|]. split; [vm_compute; tauto|].
  split; [intros x Hx; cbn in Hx; destruct Hx as [<-|[]]; vm_compute; reflexivity|].
  split; [vm_compute; discriminate|]. split; [vm_compute; reflexivity|discriminate].
Qed.

(* 4b. The shortened-index-key laws also under the preorder contract (non-injective comparers). *)
Theorem C15_isep_law_pre : forall c, comparer_pre_ok c -> forall p a b x,
  isep c p a b = Some x -> icmp c a x = Lt /\ icmp c x b = Lt.
Proof. intros c ok p. exact (pisep_law c ok p). Qed.
Print Assumptions C15_isep_law_pre.

Theorem C15_isucc_law_pre : forall c, comparer_pre_ok c -> forall p b x,
  isucc c p b = Some x -> icmp c b x = Lt.
Proof. intros c _ p. exact (pisucc_law c p). Qed.
Print Assumptions C15_isucc_law_pre.
