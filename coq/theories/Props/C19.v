(* Props/C19.v — property C19: Recover rebuilds the DB from its table and journal files.
   Property theorems only.  Model: Store/Repair.v (recoverTable + journal replay at the level of entries,
   tables and layouts of Lsm/Lsm.v).  Structure: (1) the placement of tables is irrelevant once every table
   sits at level 0; (2) after a clean, settled shutdown Recover yields a well-formed state answering every
   read as before, with a sequence number above every stored entry; (3) with damaged data blocks every entry
   that can still be read and is the newest of its key among ALL original entries is returned, and nothing
   is returned that was not stored; (4) "settled" is necessary. *)
From GL Require Import Base.Order Codec.IKey Codec.BytesCmp Codec.BytesCmpProofs Lsm.Lsm Lsm.Compact Lsm.LsmProofs
  Lsm.ReorgProofs Lsm.WfProofs Store.Repair Store.RepairProofs Gen.Inst Gen.ConstsOk.
From Coq Require Import Permutation.

(* (1) Level-0 lookup takes the entry with the largest sequence number among all covering tables, so a
   well-formed state whose stored (user key, sequence number) pairs are unique answers every read — at every
   sequence number — exactly as the state with all of its tables moved to level 0, which is again
   well-formed. *)
Theorem C19_all_at_level0_equiv : forall c, comparer_ok c -> forall p, kparams_ok p -> forall st,
  wf_state c p st ->
  NoDup (map keyseq (concat (map t_entries (concat (st_levels st))))) ->
  wf_state c p (flatten st) /\ forall k s, lsm_get c p (flatten st) k s = lsm_get c p st k s.
Proof. exact all_at_level0_equiv. Qed.
Print Assumptions C19_all_at_level0_equiv.

(* Reads depend on the stored entries only, not on where they are stored. *)
Theorem C19_get_same_entries : forall c, comparer_ok c -> forall p, kparams_ok p -> forall st1 st2,
  wf_state c p st1 -> wf_state c p st2 -> uniq_in (all_entries st1) ->
  same_elems (all_entries st1) (all_entries st2) ->
  forall k s, lsm_get c p st1 k s = lsm_get c p st2 k s.
Proof. exact get_same_entries. Qed.
Print Assumptions C19_get_same_entries.

(* (2) Settled shutdown: the storage holds exactly one undamaged file per live table (any level layout), the
   journal holds the write buffer's contents, numbered above every table entry; no frozen buffer, no open
   transaction.  Whatever happened to the manifest and the CURRENT pointer (Recover never reads them), for
   both settings of StrictRecovery and StrictJournal: Recover succeeds, the state it builds is well-formed,
   every read at every sequence number returns what it returned before, and the new sequence number is at
   or above every stored entry's. *)
Theorem C19_recover_settled : forall c, comparer_ok c -> forall p, kparams_ok p ->
  forall strict sj st fs js next,
  wf_state c p st ->
  NoDup (map keyseq (all_entries st)) ->
  (forall e, In e (all_entries st) -> valid p e = true) ->
  settled_image st fs js ->
  exists st' seq', recover c p strict sj fs js next = ROk st' seq' /\ wf_state c p st' /\
    (forall k s, lsm_get c p st' k s = lsm_get c p st k s) /\
    (forall e, In e (all_entries st) -> (e_seq e <= seq')%N).
Proof. exact recover_settled. Qed.
Print Assumptions C19_recover_settled.

(* (3) Damaged blocks (default options: StrictRecovery off).  fs are the table files with any set of blocks
   marked damaged; orig_entries = every entry of every block (damaged or not) plus the journal's.  If the
   original files were sorted tables with unique (user key, sequence number) pairs and the journal is
   numbered above them, Recover succeeds with a well-formed state such that
   - every entry that is still readable (journal, or undamaged block) and is the newest version of its key
     visible at s among ALL original entries is what a read at s returns (value, or "deleted");
   - every value a read returns belongs to an original entry of that key, not newer than s, not a deletion;
   - the new sequence number is at or above every readable entry's. *)
Theorem C19_recover_damaged : forall c, comparer_ok c -> forall p, kparams_ok p ->
  forall sj fs js next,
  files_ok c p fs ->
  kinds_ok p (jentries js) ->
  NoDup (map keyseq (orig_entries fs js)) ->
  (exists B, (forall e, In e (concat (map file_entries fs)) -> (e_seq e <= B)%N) /\ chain B js) ->
  exists st' seq', recover c p false sj fs js next = ROk st' seq' /\ wf_state c p st' /\
    (forall k s e, newest c k s (orig_entries fs js) None = Some e -> survives p fs js e ->
                   lsm_get c p st' k s = res_of p e) /\
    (forall k s v, lsm_get c p st' k s = GFound v ->
                   exists e, In e (orig_entries fs js) /\ e_uk e = k /\ (e_seq e <= s)%N /\
                             e_kind e <> keyTypeDel p /\ e_val e = v) /\
    (forall e, survives p fs js e -> (e_seq e <= seq')%N).
Proof. exact recover_damaged. Qed.
Print Assumptions C19_recover_damaged.

(* The general statement both follow from: the recovered state is well-formed and holds exactly the entries
   Recover kept (per file: nothing if the file is dropped, else the valid keys of its undamaged blocks) plus
   the journal's. *)
Theorem C19_recover_spec : forall c, comparer_ok c -> forall p, kparams_ok p ->
  forall strict sj fs js next,
  files_ok c p fs ->
  kinds_ok p (jentries js) ->
  NoDup (map keyseq (orig_entries fs js)) ->
  (exists B, (forall e, In e (concat (map file_entries fs)) -> (e_seq e <= B)%N) /\ chain B js) ->
  exists st' seq', recover c p strict sj fs js next = ROk st' seq' /\ wf_state c p st' /\
    Permutation (all_entries st') (surviving p strict fs js) /\
    (forall e, In e (surviving p strict fs js) -> (e_seq e <= seq')%N).
Proof. exact recover_spec. Qed.
Print Assumptions C19_recover_spec.

(* ---- examples ---- *)
Definition ex (k s kd v : N) : entry := {| e_uk := [k]; e_seq := s; e_kind := kd; e_val := [v] |}.
Definition ex_state (lvls : list (list table)) : lstate :=
  {| st_mem := []; st_frozen := []; st_aux := []; st_levels := lvls |}.

(* (4) Why "settled": key 1 was written (seq 5, table 4, level 1), deleted (seq 9, table 6, level 0) and the
   compaction of both tables at the base level dropped the deletion together with the value; its output,
   table 7, holds only key 2.  A read of key 1 finds nothing.  If the compaction input table 4 has not been
   swept from the storage yet (table 6 has), Recover registers it and key 1 is back. *)
Definition ex_t4 : table := {| t_num := 4; t_entries := [ex 1 5 1 30] |}.
Definition ex_t7 : table := {| t_num := 7; t_entries := [ex 2 7 1 31] |}.

Example C19_recover_unsettled_refuted :
  let st := ex_state [[]; [ex_t7]] in
  wf_versionb bytewise kp (st_levels st) = true /\
  api_of (lsm_get bytewise kp st [1]%N 20) = None /\
  (* settled: only the live table's file *)
  (exists st' seq', recover bytewise kp false false [file_of ex_t7] [] 9 = ROk st' seq' /\
     api_of (lsm_get bytewise kp st' [1]%N 20) = None /\ api_of (lsm_get bytewise kp st' [2]%N 20) = Some [31]%N) /\
  (* not settled: the un-swept input is still there *)
  (exists st' seq', recover bytewise kp false false [file_of ex_t7; file_of ex_t4] [] 9 = ROk st' seq' /\
     api_of (lsm_get bytewise kp st' [1]%N 20) = Some [30]%N).
Proof.
  cbv zeta. split; [vm_compute; reflexivity|]. split; [vm_compute; reflexivity|]. split.
  - eexists; eexists. split; [vm_compute; reflexivity|]. split; vm_compute; reflexivity.
  - eexists; eexists. split; [vm_compute; reflexivity|]. vm_compute; reflexivity.
Qed.

(* Non-vacuity of (3): two table files of two blocks each; the second block of file 5 (holding the newest
   version of key 3 and the only version of key 4) is damaged; the journal holds a newer version of key 1.
   The hypotheses hold; key 1 reads from the journal, key 2 reads as deleted (its deletion sits in an
   undamaged block), key 3 shows the older version of file 3, key 4 is gone, and nothing else appears. *)
Definition ex_files : list tfile :=
  [ {| tf_num := 5; tf_blocks := [ {| fb_damaged := false; fb_entries := [ex 1 8 1 50; ex 2 9 0 0] |};
                                    {| fb_damaged := true; fb_entries := [ex 3 10 1 51; ex 4 11 1 52] |} ] |};
    {| tf_num := 3; tf_blocks := [ {| fb_damaged := false; fb_entries := [ex 1 2 1 40; ex 2 3 1 41] |};
                                    {| fb_damaged := false; fb_entries := [ex 3 4 1 42] |} ] |} ].
Definition ex_journal : list jbatch := [ {| jb_seq := 12; jb_recs := [ex 1 0 1 60; ex 5 0 0 0] |} ].

Example C19_nonvacuous_damaged :
  files_ok bytewise kp ex_files /\ kinds_ok kp (jentries ex_journal) /\
  NoDup (map keyseq (orig_entries ex_files ex_journal)) /\
  (exists B, (forall e, In e (concat (map file_entries ex_files)) -> (e_seq e <= B)%N) /\ chain B ex_journal) /\
  exists st' seq', recover bytewise kp false false ex_files ex_journal 6 = ROk st' seq' /\ seq' = 14%N /\
    map t_num (hd [] (st_levels st')) = [6; 5; 3]%N /\
    map (fun k => api_of (lsm_get bytewise kp st' [k]%N seq')) [1; 2; 3; 4; 5; 6]%N =
      [Some [60]; None; Some [42]; None; None; None]%N.
Proof.
  split; [|split; [|split; [|split]]].
  - repeat constructor; vm_compute; congruence.
  - repeat constructor; vm_compute; congruence.
  - vm_compute. repeat constructor; cbn [In]; intuition congruence.
  - exists 11%N. split.
    + intros e He. vm_compute in He. repeat (destruct He as [<-|He]; [vm_compute; congruence|]). destruct He.
    + vm_compute. split; [congruence|exact I].
  - eexists; eexists. split; [vm_compute; reflexivity|]. split; [reflexivity|]. split; vm_compute; reflexivity.
Qed.

(* Non-vacuity of (2): a three-level layout with an overwritten and a deleted key, write buffer replayed from
   a journal of two batches; the recovered state answers as before. *)
Definition ex_levels : list (list table) :=
  [ [ {| t_num := 9; t_entries := [ex 1 12 1 50; ex 3 11 0 0] |} ];
    [ {| t_num := 5; t_entries := [ex 1 5 1 30; ex 2 6 0 0] |};
      {| t_num := 6; t_entries := [ex 3 4 1 31; ex 4 7 1 32] |} ];
    [ {| t_num := 2; t_entries := [ex 2 1 1 20; ex 3 2 1 21] |} ] ].
Definition ex_settled : lstate :=
  {| st_mem := [ex 2 14 1 61; ex 4 15 0 0]; st_frozen := []; st_aux := []; st_levels := ex_levels |}.
Definition ex_sfiles : list tfile := map file_of [ {| t_num := 6; t_entries := [ex 3 4 1 31; ex 4 7 1 32] |};
  {| t_num := 2; t_entries := [ex 2 1 1 20; ex 3 2 1 21] |}; {| t_num := 9; t_entries := [ex 1 12 1 50; ex 3 11 0 0] |};
  {| t_num := 5; t_entries := [ex 1 5 1 30; ex 2 6 0 0] |} ].
Definition ex_sjournal : list jbatch :=
  [ {| jb_seq := 14; jb_recs := [ex 2 0 1 61] |}; {| jb_seq := 15; jb_recs := [ex 4 0 0 0] |} ].

Example C19_nonvacuous_settled :
  settled_image ex_settled ex_sfiles ex_sjournal /\
  exists st' seq', recover bytewise kp false false ex_sfiles ex_sjournal 10 = ROk st' seq' /\
    map (fun k => api_of (lsm_get bytewise kp st' [k]%N seq')) [1; 2; 3; 4]%N =
    map (fun k => api_of (lsm_get bytewise kp ex_settled [k]%N seq')) [1; 2; 3; 4]%N /\
    map (fun k => api_of (lsm_get bytewise kp st' [k]%N 10)) [1; 2; 3; 4]%N =
    map (fun k => api_of (lsm_get bytewise kp ex_settled [k]%N 10)) [1; 2; 3; 4]%N.
Proof.
  split.
  - unfold settled_image. split; [reflexivity|]. split; [reflexivity|]. split; [repeat constructor|]. split.
    + vm_compute.
      apply perm_trans with (l' := [ {| t_num := 9; t_entries := [ex 1 12 1 50; ex 3 11 0 0] |};
        {| t_num := 6; t_entries := [ex 3 4 1 31; ex 4 7 1 32] |}; {| t_num := 2; t_entries := [ex 2 1 1 20; ex 3 2 1 21] |};
        {| t_num := 5; t_entries := [ex 1 5 1 30; ex 2 6 0 0] |} ]).
      * etransitivity; [apply perm_skip; apply perm_swap|]. apply perm_swap.
      * apply perm_skip. etransitivity; [apply perm_skip; apply perm_swap|]. apply perm_swap.
    + split; [vm_compute; apply Permutation_refl|].
      exists 12%N. split.
      * intros e He. vm_compute in He. repeat (destruct He as [<-|He]; [vm_compute; congruence|]). destruct He.
      * vm_compute. repeat split; congruence.
  - eexists; eexists. split; [vm_compute; reflexivity|]. split; vm_compute; reflexivity.
Qed.

(* ====================================================================================================
   BYTE LEVEL (Store/RepairBytes.v recover_bytes: leveldb.Recover as one function on a storage image given as
   bytes, composed from C13's table reader, C01's model table writer, C04's manifest record codec and open_rw;
   tied to the real Recover by the KRecoverB correspondence cases on real file bytes).

   Full statements aimed at (NOT all proved; what is missing is said at each item and in props/C19.json):
     C19_recover_bytes_refines        recover_bytes = Store/Repair.v recover on the block maps blocks_of derives
                                      (proved: the fold over the table files, C19_recover_tables_refines_partial at
                                      the end of this file, under a per-file hypothesis [denotes]; missing: the
                                      equation blocks_of = the blocks of table_wf that would discharge [denotes],
                                      sort_fds on the listing order, the journal half through open_rw, the
                                      abstraction of the returned state)
     C19_recover_keeps_readable       follows from the former + C19_recover_damaged + C01_read_path_refines (not done)
     C19_recover_seq_above_all        PROVED in full for the model (third part of this file)
     C19_recover_then_open_idempotent needs C04_open_rw_* applied to the image recover_bytes leaves (not done)
   Proved below: the per-table core of the refinement, the rebuilt table, the bookkeeping of one file, the
   sequence-number bound; then (third part) the whole-function sequence-number theorem and the table-loop
   simulation. *)
From Coq Require Import List NArith ZArith Bool.
Import ListNotations.
From GL Require Import Base.Bytes Base.Cursor Codec.Block Codec.Table Codec.TableCheck Codec.TableProofs Lsm.ReadPath
  Lsm.WritePath Lsm.WritePathTable Store.OpenPath Store.RepairBytes Store.RepairBytesProofs.

(* The scan of recoverTable on bytes: let the file's reader have the index block of a well-formed table (so footer,
   metaindex and index block are intact: exactly these must be readable) and let every data block either be fetched
   as in that table or be refused as corrupted ([bad]; C13's read_block_detects: every block whose stored CRC
   differs from the CRC of its bytes is refused).  Then the scan returns exactly the pairs of the blocks that are not
   bad, in the original order — the [readable] list of Store/Repair.v for the block map the bytes denote.  The side
   condition on the fuel is computable (more pairs than bytes needs a crafted index). *)
Theorem C19_scan_skips_damaged_partial :
  forall tp tcrc decompress fname ufc verify c rd0 blocks seps hs (bad : nat -> bool) data,
  comparer_ok (ibc c) -> table_wf (ibc c) rd0 blocks seps hs ->
  let rd := rt_reader tp tcrc decompress fname ufc verify c data in
  tr_index rd = tr_index rd0 ->
  (forall j, (j < length blocks)%nat ->
     tr_fetch rd (nth j hs bh0) = if bad j then Corrupt else tr_fetch rd0 (nth j hs bh0)) ->
  let kept := concat (map (fun j => if bad j then [] else nth j blocks []) (seq 0 (length blocks))) in
  (length kept < scan_fuel data)%nat ->
  scan tp tcrc decompress fname ufc verify c data = Some kept.
Proof. exact scan_skips_damaged. Qed.
Print Assumptions C19_scan_skips_damaged_partial.

(* The inner recoverTable on bytes: verdict, counters, sequence number, record, and — when the table is rebuilt —
   the model writer's output stored under the table's name with the temporary file gone. *)
Theorem C19_recover_one_spec :
  forall rp kp tp tcrc compress decompress fname ufc verify wo c strict st num all,
  let data := match f_lookup (c_files (rb_c st)) (SW.FTable, num) with Some d => d | None => [] end in
  scan tp tcrc decompress fname ufc verify c data = Some all ->
  let g := good_of kp all in
  let corrupted := (0 <? N.of_nat (length all) - N.of_nat (length g))%N || (0 <? cblocks_of tp tcrc decompress fname ufc verify c data)%N in
  let one := recover_one_bytes rp kp tp tcrc compress decompress fname ufc verify wo c in
  if (strict && corrupted) || match g with [] => true | _ => false end then
    exists s, one strict st num = OOk (mkRB (rb_c st) (rb_rec st) (rb_maxseq st) (rb_temp st) (rb_stats st ++ [s])) /\
              ts_verdict s = TDropped /\ ts_num s = num
  else if corrupted then
    match table_bytes c kp tp tcrc compress wo g with
    | None => one strict st num = OErr OEFlush
    | Some nd =>
        exists st', one strict st num = OOk st' /\
          f_lookup (c_files (rb_c st')) (SW.FTable, num) = Some nd /\
          f_lookup (c_files (rb_c st')) (SW.FTemp, rb_temp st) = None /\
          rb_temp st' = (rb_temp st + 1)%N /\
          (tseq_of kp g <= rb_maxseq st')%N /\ (rb_maxseq st <= rb_maxseq st')%N /\
          rb_rec st' = SR.add_table rp (rb_rec st)
                         (SR.mkat 0%Z (Z.of_N num) (Z.of_N (lenN nd)) (key_first g) (key_last g)) /\
          exists s, rb_stats st' = rb_stats st ++ [s] /\ ts_verdict s = TRebuilt /\ ts_good s = N.of_nat (length g)
    end
  else
    exists st', one strict st num = OOk st' /\ c_files (rb_c st') = c_files (rb_c st) /\
      (tseq_of kp g <= rb_maxseq st')%N /\ (rb_maxseq st <= rb_maxseq st')%N /\
      rb_rec st' = SR.add_table rp (rb_rec st)
                     (SR.mkat 0%Z (Z.of_N num) (Z.of_N (lenN data)) (key_first g) (key_last g)) /\
      exists s, rb_stats st' = rb_stats st ++ [s] /\ ts_verdict s = TKept /\ ts_good s = N.of_nat (length g).
Proof. intros. apply recover_one_spec. assumption. Qed.
Print Assumptions C19_recover_one_spec.

(* The sequence number recoverTable records for a table is at least that of every good key in it (and the running
   maximum never decreases: C19_recover_one_spec).  PARTIAL with respect to the aimed-at C19_recover_seq_above_all:
   the lift to db.seq of the state open_rw returns is not proved. *)
Theorem C19_recover_seq_above_all_partial :
  forall kp (l : list (bytes * bytes)) kv, In kv l -> (key_seq kp (fst kv) <= tseq_of kp l)%N.
Proof. exact tseq_above_all. Qed.
Print Assumptions C19_recover_seq_above_all_partial.

(* A rebuilt table passes the byte-level format check of the read path (tfile_okb) with the recorded bounds and
   decodes to exactly the good pairs in order (through C01_writer_output_ok). *)
Theorem C19_rebuilt_table_ok :
  forall c, comparer_ok c -> forall p, kparams_ok p -> forall tp, tparams_ok tp ->
  forall crc, (forall b, (crc b < 2 ^ 32)%N) ->
  forall compress decompress, (forall x, decompress (compress x) = Some x) -> (forall x, compress x <> []) ->
  forall fname ufc verify o, (1 <= wo_ri o)%N -> forall num all nd,
  let g := good_of p all in
  Cursor.sorted (ibc c) g -> g <> [] -> Forall (fun kv => key_okb p (fst kv) = true) g ->
  table_bytes c p tp crc compress o g = Some nd -> write_sizes_ok c p tp crc compress o g = true ->
  (wo_filter o = None \/
   filter_part c tp crc decompress fname ufc verify (mkTF num (key_first g) (key_last g) nd) = true) ->
  tfile_okb c p tp crc decompress fname ufc verify (wo_ri o) (mkTF num (key_first g) (key_last g) nd) = true /\
  tf_pairs c tp crc decompress fname ufc verify (wo_ri o) (mkTF num (key_first g) (key_last g) nd) = g.
Proof. exact rebuilt_table_ok. Qed.
Print Assumptions C19_rebuilt_table_ok.

(* Non-vacuity, by computation on a table the model writer writes (three entries, CRC-32C, generated constants): the
   scan returns the three pairs with largest sequence number 9; with one bit of the data block altered the block is
   refused, the scan returns nothing and one corrupted block is counted (the table would be dropped). *)
From GL Require Import Codec.TblCrc Gen.InstTbl.
Definition c19_ex_wo : wopts := mkWO 64 2 false None (fun _ => 0%N) (fun _ => 0%N) (fun _ => 0%N) 0 false.
Definition c19_ex_k (u s : N) : bytes := [u] ++ le64 (s * 256 + 1)%N.
Definition c19_ex_kvs : list (bytes * bytes) :=
  [(c19_ex_k 97 7, [1; 2; 3]%N); (c19_ex_k 98 9, [4%N]); (c19_ex_k 99 3, [])].
Definition c19_ex_data : bytes :=
  match table_bytes bytewise kp tblp tbl_crc (fun x => x) c19_ex_wo c19_ex_kvs with Some d => d | None => [] end.
Definition c19_ex_bad : bytes := match c19_ex_data with a :: b :: r => a :: N.lxor b 1 :: r | l => l end.
Example C19_nonvacuous_bytes :
  scan tblp tbl_crc (fun _ => None) None (fun _ _ _ => true) true bytewise c19_ex_data = Some c19_ex_kvs /\
  tseq_of kp c19_ex_kvs = 9%N /\
  scan tblp tbl_crc (fun _ => None) None (fun _ _ _ => true) true bytewise c19_ex_bad = Some [] /\
  cblocks_of tblp tbl_crc (fun _ => None) None (fun _ _ _ => true) true bytewise c19_ex_bad = 1%N.
Proof. vm_compute. repeat split; reflexivity. Qed.

(* ====================================================================================================
   WHOLE FUNCTION (Store/RepairSeqProofs.v): statements about recover_bytes itself, for every storage image with
   one binding per file name. *)
From GL Require Import Store.RepairSeqProofs.
From GL Require Codec.SessionRecord Mem.MemDB Codec.Journal.

(* C19_recover_seq_above_all (FULL for the model; supersedes C19_recover_seq_above_all_partial).  Whenever Recover
   succeeds (read-write or read-only, any options, any journal and manifest bytes):
   - there is exactly one log line per table file, in the order of the file numbers;
   - each line's counters, sequence number and verdict are the stated function of the file's ORIGINAL bytes
     (stat_of: the scan of that file, the good keys, corrupted keys, corrupted blocks, kept / rebuilt / dropped);
   - the sequence number recoverTable recorded is what the session holds after the commit, and db.seq of the
     returned DB is at or above it, hence at or above the sequence number of every good key of every table
     that was registered (kept or rebuilt);
   with no hypothesis about the journal's contents: since the fix "decodeBatchToMem must reject a header whose
   sequence numbers leave the key range" an applied batch has first seq + count <= keyMaxSeq, so recoverJournal's
   "db.seq = batchSeq + uint64(batchLen)" cannot wrap (the side condition kparams_ok on the key constants is
   re-proved for the generated constants on every run).  Before that fix the theorem needed "no applied batch has
   batchSeq + batchLen >= 2^64"; see Props/C01.v C01_replay_seq_wrap_refuted for what the old code accepted. *)
Theorem C19_recover_seq_above_all :
  forall jcrc jp rp kp, kparams_ok kp -> forall bhl mp tp tcrc compress decompress fname ufc verify wo fgen c o strict hts img r,
  NoDup (map fst (si_files img)) ->
  recover_bytes jcrc jp rp kp bhl mp tp tcrc compress decompress fname ufc verify wo fgen c o strict hts img = OOk r ->
  map ts_num (rr_stats r) = table_files (si_files img) /\
  (rr_maxseq r <= os_seq (rr_state r))%N /\
  forall s, In s (rr_stats r) ->
    exists all, scan tp tcrc decompress fname ufc verify c (img_file (si_files img) (ts_num s)) = Some all /\
      stat_of kp tp tcrc decompress fname ufc verify c strict (ts_num s) (img_file (si_files img) (ts_num s)) all s /\
      (stat_kept s = true -> (ts_seq s <= rr_maxseq r)%N /\
         forall kv, In kv (good_of kp all) -> (key_seq kp (fst kv) <= os_seq (rr_state r))%N).
Proof. exact recover_seq_above_all. Qed.
Print Assumptions C19_recover_seq_above_all.

(* The two halves it is made of: session.commit hands the record's sequence number to the session whichever way the
   manifest is written; openDB's db.seq starts there and does not decrease, and no applied batch wraps. *)
Theorem C19_commit_hands_seq :
  forall jcrc jp rp c n o rec st st' rec', seqset rp n rec ->
  commit jcrc jp rp c o rec st = OOk (st', rec') -> s_seq (c_sess st') = n.
Proof. exact commit_seq. Qed.
Print Assumptions C19_commit_hands_seq.

Theorem C19_open_rw_seq_monotone :
  forall jcrc jp rp kp, kparams_ok kp -> forall bhl mp tp tcrc compress snappy fgen blockSize ri c o hts cs r,
  open_rw jcrc jp rp kp bhl mp tp tcrc compress snappy fgen blockSize ri c o hts cs = OOk r ->
  (forall b, In b (os_kept r) -> (fst b + snd b < 2 ^ 64)%N) /\ (s_seq (c_sess cs) <= os_seq r)%N.
Proof. exact open_rw_seq. Qed.
Print Assumptions C19_open_rw_seq_monotone.

(* Non-vacuity: the image made of the model-written table of C19_nonvacuous_bytes (number 5) and its damaged copy
   (number 7) has one binding per name; Recover succeeds on it with the generated constants; no batch was applied
   (no journal); the log lines say "kept, 3 good keys, sequence number 9" and "dropped, one corrupted block";
   db.seq = 9. *)
From GL Require Import Gen.InstMem Gen.InstJournal Gen.InstRecord Gen.Consts.
Definition c19_ex_img : simage := mkSI None [((SW.FTable, 5%N), c19_ex_data); ((SW.FTable, 7%N), c19_ex_bad)].
Definition c19_ex_recover : ores rbres :=
  recover_bytes jcrc jp rp kp ldb_batchHeaderLen mp tblp tbl_crc (fun x => x) (fun _ => None) None (fun _ _ _ => true) true
    c19_ex_wo None bytewise (mkOO false false true 4194304%Z 67108864%Z false false false [117%N]) false [] c19_ex_img.
Example C19_nonvacuous_whole :
  NoDup (map fst (si_files c19_ex_img)) /\
  exists r, c19_ex_recover = OOk r /\ os_kept (rr_state r) = [] /\
    map (fun s => (ts_num s, ts_verdict s, ts_good s, ts_cblocks s, ts_seq s)) (rr_stats r) =
      [(5, TKept, 3, 0, 9); (7, TDropped, 0, 1, 0)]%N /\
    rr_maxseq r = 9%N /\ os_seq (rr_state r) = 9%N /\ layout_of (rr_state r) = [[5%N]].
Proof.
  split.
  - cbn. repeat constructor; cbn; intuition congruence.
  - eexists. split; [vm_compute; reflexivity|]. vm_compute. repeat split; reflexivity.
Qed.

(* C19_recover_tables_refines_partial — the table half of the aimed-at C19_recover_bytes_refines.  The loop of
   recoverTable on bytes, started on the files the storage lists (one binding per name), simulates the abstract loop
   of Store/Repair.v (recover_one folded over the abstract files in the same order) whenever every table file
   DENOTES its abstract file (denotes: the scan of the bytes yields pairs whose internal keys decode — at least 8
   bytes —, whose entries are the abstract file's readable entries in order, and the number of error callbacks is
   the number of damaged blocks; C19_scan_skips_damaged_partial establishes the first two for a table with intact
   footer / metaindex / index block).  Simulation: the same running maximum of the sequence number; the record's
   added tables are, in order, the abstract model's registered tables (level 0, same number, first / last key of
   the same good entries); one log line per file with the abstract counters (good keys, corrupted keys, corrupted
   blocks, sequence number); the same number of dropped files.
   PARTIAL with respect to C19_recover_bytes_refines: (a) [denotes] is a hypothesis per file — the equation
   "blocks_of data is the block map of table_wf" that would discharge it from the bytes alone is not proved (shown
   by computation on the example below); a key shorter than 8 bytes cannot be expressed in the abstract model at
   all; (b) the abstract files are taken in the storage's listing order, the equation with sort_fds is not proved;
   (c) the journal half (open_rw's replay on journal bytes = Store/Repair.v replay) is not proved; (d) that a
   REBUILT file again denotes the good entries needs C19_rebuilt_table_ok's hypotheses and is not composed here. *)
From GL Require Import Store.RepairRefineProofs.
Theorem C19_recover_tables_refines_partial :
  forall rp kp tp tcrc compress decompress fname ufc verify wo c strict fs0 nums (fl : list Repair.tfile) st st' r,
  NoDup nums ->
  recover_loop rp kp tp tcrc compress decompress fname ufc verify wo c strict nums st = OOk st' ->
  (forall n, In n nums -> f_lookup (c_files (rb_c st)) (SW.FTable, n) = f_lookup fs0 (SW.FTable, n)) ->
  Forall2 (fun n f => Repair.tf_num f = n /\
                      denotes tp tcrc decompress fname ufc verify c (img_file fs0 n) f) nums fl ->
  sim st r ->
  sim st' (fold_left (Repair.recover_one kp strict) fl r) /\
  exists ss, rb_stats st' = rb_stats st ++ ss /\
    Forall2 (fun s f => ts_num s = Repair.tf_num f /\ ts_good s = N.of_nat (length (Repair.good kp f)) /\
                        ts_ckeys s = Repair.ckeys kp f /\ ts_cblocks s = Repair.cblocks f /\
                        ts_seq s = Repair.tseq (Repair.good kp f)) ss fl /\
    Repair.r_dropped (fold_left (Repair.recover_one kp strict) fl r) =
      (Repair.r_dropped r + N.of_nat (length (filter (fun s => negb (stat_kept s)) ss)))%N.
Proof. exact loop_refines. Qed.
Print Assumptions C19_recover_tables_refines_partial.

(* Non-vacuity: both files of c19_ex_img denote the block maps the byte model itself derives from them (blocks_of):
   three readable entries in one undamaged block; one damaged block and nothing readable.  The starting states are
   related. *)
Example C19_nonvacuous_refines :
  denotes tblp tbl_crc (fun _ => None) None (fun _ _ _ => true) true bytewise (img_file (si_files c19_ex_img) 5)
    (file_of_bytes tblp tbl_crc (fun _ => None) None (fun _ _ _ => true) true bytewise 5 c19_ex_data) /\
  denotes tblp tbl_crc (fun _ => None) None (fun _ _ _ => true) true bytewise (img_file (si_files c19_ex_img) 7)
    (file_of_bytes tblp tbl_crc (fun _ => None) None (fun _ _ _ => true) true bytewise 7 c19_ex_bad) /\
  map (fun b => (Repair.fb_damaged b, length (Repair.fb_entries b)))
      (blocks_of tblp tbl_crc (fun _ => None) None (fun _ _ _ => true) true bytewise c19_ex_data) = [(false, 3%nat)] /\
  map (fun b => (Repair.fb_damaged b, length (Repair.fb_entries b)))
      (blocks_of tblp tbl_crc (fun _ => None) None (fun _ _ _ => true) true bytewise c19_ex_bad) = [(true, 0%nat)] /\
  sim (mkRB (mkC (si_files c19_ex_img) None sess_new [] []) SR.sr_empty 0 0 []) (Repair.r_init).
Proof.
  split; [|split; [|split; [|split]]].
  - eexists. split; [vm_compute; reflexivity|]. split; [repeat constructor|]. split; vm_compute; reflexivity.
  - eexists. split; [vm_compute; reflexivity|]. split; [repeat constructor|]. split; vm_compute; reflexivity.
  - vm_compute. reflexivity.
  - vm_compute. reflexivity.
  - split; [reflexivity | constructor].
Qed.
