(* Props/C07.v — property C07: files are deleted only when unneeded, and then they are deleted.
   The part of the property that is a theorem: the table-file reference tracker session.refLoop
   (model Conc/RefLoop.v, tied to the code by the exact correspondence check Corr/C07Run.v) under
   the event protocol env_ok of the version layer, for EVERY order in which references are taken
   and released, every number of versions queued behind a pinned one (also more than
   maxCachedNumber), abandoned ids, and every outcome of the loop's age test (theorems 1-3); that the
   version layer (model Conc/VersionLayer.v of version.go / session_util.go setVersion / session.go
   newSession, create, recover, commit; tied to the code by the KVL cases of Corr/C07Run.v) sends only
   such sequences, for every sequence of operations respecting the API discipline (theorem 4); and
   the two composed, quantified over version-layer operation sequences (theorems 5-6).
   The other half - the janitor checkAndCleanFiles and the deletions that do not go through the loop
   (recoverJournal, dropFrozenMem, revert / drop of failed flushes and compactions, Transaction.discard,
   manifest rotation, removal deferred by the file cache) - is theorems 7-12 over the model Store/Sweep.v
   (tied to the code by the KJan / KSel / KOpen cases of Corr/C07Run.v): the janitor is exact for every
   listing, no step ever removes a needed file, a quiescent listing is the exact set plus the named residue,
   and one Open makes it exact.
   Property theorems only; each is closed by [exact lemma] (11 by a three-line projection) and followed by
   Print Assumptions. *)
From GL Require Import Conc.RefLoop Conc.RefLoopProofs Conc.VersionLayer Conc.VersionLayerProofs
  Gen.Consts Gen.InstRefLoop.
From GL Require Store.Sweep Store.SweepProofs Store.SweepInv Store.SweepOpen Store.SweepFiles Store.Crash.
From Coq Require Import NArith List Bool Permutation.
Import ListNotations.
Open Scope N_scope.

(* 1. Safety.  After every prefix of a protocol-conforming event sequence, no table of a version
      that is referenced and not yet released has been removed (p: any queue bound; the expiry
      oracle carried by the inputs is arbitrary). *)
Theorem C07_refloop_safe : forall p ins, env_ok ins = true ->
  forall pre suf, ins = pre ++ suf ->
  exists e s rm, env_run pre = Some e /\ run p pre = Ok (s, rm) /\
    forall c f, In c (live e) -> In f (v_files c) -> ~ In f rm.
Proof. exact refloop_safe. Qed.
Print Assumptions C07_refloop_safe.

(* 2. Completeness.  Once every version but the current one is released and no setVersion is in
      flight, the queue is drained (no released version and no delta is waiting), only tables of the
      current version are counted, and the removed tables are exactly the tables that ever belonged to
      a version minus the current ones, each removed exactly once. *)
Theorem C07_refloop_complete : forall p ins e, env_run ins = Some e -> quiescent e = true ->
  exists s rm, run p ins = Ok (s, rm) /\
    NoDup rm /\
    (forall f, In f rm <-> In f (e_seen e) /\ ~ In f (cur_files e)) /\
    Permutation rm (ldiff (e_seen e) (cur_files e)) /\
    released s = [] /\ deltas s = [] /\
    (forall f, 1 <= cnt (fileRef s) f -> In f (cur_files e)).
Proof. exact refloop_complete. Qed.
Print Assumptions C07_refloop_complete.

(* 3. The panic branches ("negative ref", "duplicate reference request", "invalid release request")
      are unreachable, and the fuel of the two loops of processTasks suffices, on every prefix. *)
Theorem C07_refloop_no_negative : forall p ins, env_ok ins = true ->
  forall pre suf, ins = pre ++ suf -> exists s rm, run p pre = Ok (s, rm).
Proof. exact refloop_no_negative. Qed.
Print Assumptions C07_refloop_no_negative.

(* 4. The version layer only sends protocol-conforming sequences.  o: how the session was opened
      (created, or recovered from any manifest content); ops: any sequence of session.version(),
      version.release(), session.commit (any record, trivial flag, outcome: success / failure /
      failure after newManifest had already switched) that respects the API discipline
      vl_disciplined (every release gives back a reference taken earlier on that version; a record
      deletes tables of the current version at their level and adds new table numbers, or the same
      number it deletes - trivial move; until a recovered session has a manifest writer a record
      only adds tables and a failing commit ends the session; the recovered version lists no number
      twice).  Then no operation panics and the events sent - with timer ticks / counter queries
      interleaved ANYWHERE (also inside setVersion) and any outcome of the age test - satisfy
      env_ok. *)
Theorem C07_session_emits_env_ok : forall o ops, vl_disciplined o ops = true ->
  exists st evs, vl_run o ops = VOk (st, evs) /\
    forall ins, untick (map fst ins) = evs -> env_ok ins = true.
Proof. exact session_emits_env_ok. Qed.
Print Assumptions C07_session_emits_env_ok.

(* 5. Safety, end to end: no hypothesis about the events.  After any disciplined operations, and
      whatever part [pre] of the events sent so far the loop has consumed, the loop has not panicked
      and no table of a version that can still be read (the current one, or a replaced one some
      reader still holds: vl_live) has been removed. *)
Theorem C07_files_safe_end_to_end : forall p o ops, vl_disciplined o ops = true ->
  exists st evs, vl_run o ops = VOk (st, evs) /\
    forall ins, untick (map fst ins) = evs ->
    forall pre suf, ins = pre ++ suf ->
    exists s rm, run p pre = Ok (s, rm) /\
      forall v f, In v (vl_live st) -> In f (flat (vr_levels v)) -> ~ In f rm.
Proof. exact files_safe_end_to_end. Qed.
Print Assumptions C07_files_safe_end_to_end.

(* 6. Completeness, end to end: once no replaced version is referenced any more and the loop has
      consumed everything, it has removed exactly the tables that ever belonged to a version of the
      session (vl_seen) and are not in the current one, each once; its queues are empty; it counts
      only current tables. *)
Theorem C07_files_complete_end_to_end : forall p o ops, vl_disciplined o ops = true ->
  exists st evs, vl_run o ops = VOk (st, evs) /\
    (vs_olds st = [] ->
     forall ins, untick (map fst ins) = evs ->
     exists s rm, run p ins = Ok (s, rm) /\ NoDup rm /\
       (forall f, In f rm <-> In f (vl_seen o ops) /\ ~ In f (flat (vr_levels (vs_cur st)))) /\
       Permutation rm (ldiff (vl_seen o ops) (flat (vr_levels (vs_cur st)))) /\
       released s = [] /\ deltas s = [] /\
       (forall f, 1 <= cnt (fileRef s) f -> In f (flat (vr_levels (vs_cur st))))).
Proof. exact files_complete_end_to_end. Qed.
Print Assumptions C07_files_complete_end_to_end.

(* ================= the janitor and the deletions that do not go through the loop =================
   Model Store/Sweep.v (tied to the code by the KJan / KSel / KOpen cases of Corr/C07Run.v: every Open of the
   harness' sweep part is replayed on it).  fd = (type, number); a listing is a list of fds without repetition. *)

(* 7. checkAndCleanFiles, for EVERY listing the storage may return (stray files of any type and any number,
      below, between, at or above the live numbers, also at or above the next file number):
      - if a table of the version is not listed, the janitor reports exactly the missing ones and removes
        nothing;
      - otherwise its Remove calls are exactly the listed files outside jkeep, in listing order; whatever
        Remove calls fail (bad), only files outside jkeep are ever passed to Remove (safety: never a table of
        the version, never a journal numbered >= the live journal, never the current manifest), every kept
        file stays, the loop stops at the first failing call, and if none fails the listing left is EXACTLY
        the part of the old listing inside jkeep (completeness: every other file is gone);
      - jkeep is: tables = the version's tables, whatever their number (also >= the next file number);
        journals = number >= db.journalFd.Num (>= the frozen journal's, if there is one); manifests = the
        current one only (after the repair: a manifest numbered above it was kept before); temporary files:
        none. *)
Theorem C07_sweep_exact : forall s l, NoDup l ->
  match Sweep.janitor s l with
  | Sweep.JMissing ts =>
      ts <> [] /\ forall t, In t ts <-> In t (Sweep.js_tabs s) /\ ~ In (Sweep.FTable, t) l
  | Sweep.JRemove rem =>
      (forall t, In t (Sweep.js_tabs s) -> In (Sweep.FTable, t) l) /\
      rem = filter (fun f => negb (Sweep.jkeep s f)) l /\
      forall bad,
        let '(calls, l', ok) := Sweep.rm_seq l rem bad in
        (forall f, In f calls -> In f l /\ Sweep.jkeep s f = false) /\
        (forall f, In f l -> Sweep.jkeep s f = true -> In f l') /\
        (forall f, In f l' -> In f l) /\
        (ok = true -> forall f, In f l' <-> In f l /\ Sweep.jkeep s f = true) /\
        (ok = false -> exists pre f, calls = pre ++ [f] /\ In f bad)
  end.
Proof. exact SweepProofs.janitor_spec. Qed.
Print Assumptions C07_sweep_exact.

Theorem C07_sweep_keeps : forall s,
  (forall t, Sweep.jkeep s (Sweep.FTable, t) = true <-> In t (Sweep.js_tabs s)) /\
  (forall n, Sweep.jkeep s (Sweep.FJournal, n) = true <->
             match Sweep.js_frozen s with Some z => z <= n | None => Sweep.js_journal s <= n end) /\
  (forall m, Sweep.jkeep s (Sweep.FManifest, m) = true <-> m = Sweep.js_manifest s) /\
  (forall n, Sweep.jkeep s (Sweep.FTemp, n) = false).
Proof.
  intros s. split; [|split; [|split]].
  - exact (SweepProofs.jkeep_table s).
  - exact (SweepProofs.jkeep_journal s).
  - exact (SweepProofs.jkeep_manifest s).
  - exact (SweepProofs.jkeep_temp s).
Qed.
Print Assumptions C07_sweep_keeps.

(* 8. recoverJournal replays exactly the listed journals that its predicate selects (number >= stJournalNum or
      = stPrevJournalNum), in increasing order, each once. *)
Theorem C07_replay_choice : forall jn pj l, NoDup l ->
  (forall n, In n (Sweep.rj_select jn pj l) <-> In (Sweep.FJournal, n) l /\ Sweep.jsel jn pj n = true) /\
  SweepProofs.nsorted (Sweep.rj_select jn pj l) /\ NoDup (Sweep.rj_select jn pj l).
Proof. exact SweepProofs.rj_select_spec. Qed.
Print Assumptions C07_replay_choice.

(* 9. "Needed by recovery" is what recovery reads.  The L2 persistence model's recover (Store/Crash.v, the
      model of C04/C08) replays exactly the journals of a crash image that the predicate jsel selects under
      the journal number its manifest replay yields (no prev-journal field: the Go field reads 0), and a
      frozen journal the predicate does not select can be removed from the image without changing what
      recover returns.  (Journal files are never numbered 0: the first file number goes to the manifest.) *)
Theorem C07_needed_journals_are_what_recover_reads : forall img,
  (forall j, In j (SweepProofs.crash_journals img) -> Crash.j_num j <> 0) ->
  let '(jn, sq, tabs) := Crash.replay_man (Crash.i_man img) 0 0 [] in
  Crash.recover_full img =
    fold_left (fun st j => Crash.replay_journal (Crash.j_recs j) (fst st) (snd st))
      (filter (fun j => Sweep.jsel jn 0 (Crash.j_num j)) (SweepProofs.crash_journals img)) (sq, tabs).
Proof. exact SweepProofs.crash_recover_reads. Qed.
Print Assumptions C07_needed_journals_are_what_recover_reads.

Theorem C07_unselected_journal_irrelevant : forall live f man,
  Crash.j_num f <> 0 ->
  (let '(jn, _, _) := Crash.replay_man man 0 0 [] in Sweep.jsel jn 0 (Crash.j_num f) = false) ->
  Crash.recover_full {| Crash.i_live := live; Crash.i_frozen := Some f; Crash.i_man := man |} =
  Crash.recover_full {| Crash.i_live := live; Crash.i_frozen := None; Crash.i_man := man |}.
Proof. exact SweepProofs.crash_unselected_irrelevant. Qed.
Print Assumptions C07_unselected_journal_irrelevant.

(* 10. No step ever removes a needed file.  For EVERY listing l a closed DB may be found with (no repetition),
      every content v of its manifest that is well formed (the manifest's own number and its tables are below
      its next file number), and EVERY sequence of steps of the model - Open on whatever is there (session.recover
      under any of the possible views, recoverJournal with any number of tables flushed per journal,
      checkAndCleanFiles, any Remove call failing), readers pinning versions and opening / closing tables through
      the file cache in any order, journal rotation, flush and table compaction jobs (tOps.create, finish, drop,
      commit ok / failed with nothing written / failed with the record possibly written, with or without manifest
      rotation, the removal of the old manifest failing, revert with failing Removes, job abandoned while
      committing), dropFrozenMem, transactions (commit attempts, discard incl. the repaired path: fresh manifest
      first, tables kept if that fails), the loop's removals (enabled only for tables no reachable version holds:
      theorem 5), Close - every storage.Remove call (successful or failing) hits a file that is, at the moment of
      the call, NOT needed, where needed (Sweep.needed) means: a table of the current version, of a replaced
      version a reader still holds, of any manifest content a later session.recover may compute (two after a
      record whose write or sync failed), or held open by a reader through the file cache; a journal that
      recoverJournal would replay under such a content (jsel; an empty frozen journal excepted); the manifest
      such a content is read from.  The one exception is a journal FILE NUMBERED 0, which recoverJournal selects
      only because an absent prev-journal field reads as 0 (it replays and removes it at the next Open). *)
Theorem C07_never_remove_needed : forall l v ru ops s,
  NoDup l -> SweepInv.view_wf v -> Sweep.run (Sweep.boot l v ru) ops = Some s ->
  forall f b, In (f, b) (Sweep.trace s) -> b = false \/ f = (Sweep.FJournal, 0).
Proof. exact SweepOpen.never_remove_needed. Qed.
Print Assumptions C07_never_remove_needed.

(* the guard of the loop's removals in the model is what theorem 5 proves of the loop: a table the loop removes
   is in no version that can still be read *)
Theorem C07_loop_removals_guard : forall p o ops, vl_disciplined o ops = true ->
  exists st evs, vl_run o ops = VOk (st, evs) /\
    forall ins, untick (map fst ins) = evs ->
    forall pre suf, ins = pre ++ suf ->
    exists s rm, run p pre = Ok (s, rm) /\
      forall v f, In v (vl_live st) -> In f (flat (vr_levels v)) -> ~ In f rm.
Proof. exact files_safe_end_to_end. Qed.
Print Assumptions C07_loop_removals_guard.

(* 11. One Open makes the listing exact, for EVERY prior listing and every state a DB can be closed in.  After
      any step sequence that leaves the DB closed (also: never opened - an arbitrary listing), if the next Open
      succeeds (it fails only when a Remove fails or a table of the manifest is missing) then every file of the
      exact set - the tables of the version, the new journal, the new manifest - is on storage, and every file on
      storage belongs to the exact set, or is a journal numbered above the new one; the latter needs a manifest
      whose journal number is above its next file number. *)
Theorem C07_open_exact : forall l v0 ru ops s v fl mbad bad,
  NoDup l -> SweepInv.view_wf v0 -> Sweep.run (Sweep.boot l v0 ru) ops = Some s ->
  Sweep.opened s = false -> In v (Sweep.views s) ->
  let s' := Sweep.open_db v fl mbad bad s in
  Sweep.opened s' = true ->
  (forall f, In f (Sweep.exact_set s') -> In f (Sweep.files s')) /\
  (forall f, In f (Sweep.files s') ->
     In f (Sweep.exact_set s') \/
     exists n, f = (Sweep.FJournal, n) /\ Sweep.journal s' < n /\ Sweep.v_next v < Sweep.v_jnum v).
Proof.
  intros l v0 ru ops s v fl mbad bad Hl Hv Hr Ho Hin.
  pose proof (SweepOpen.run_Good ops _ _ (SweepOpen.boot_Good l v0 ru Hl Hv) Hr) as H.
  unfold SweepInv.Good in H. rewrite Ho in H.
  intros s' Ho'. destruct (proj2 (SweepOpen.open_db_spec v fl mbad bad s H Hin) Ho') as (E1&E2&_). split; assumption.
Qed.
Print Assumptions C07_open_exact.

(* 12. No residue.  For every listing, every well-formed manifest content and EVERY sequence of steps (flush ok /
      failed, compaction ok / failed / reverted / abandoned, transaction commit / discard / failed commit + discard,
      manifest rotation with a failing Remove, frozen-journal drop, readers pinning versions and tables, Close and
      Open in between, any Remove failing): at every quiescent point - the DB open, no job, no reader, nothing
      left for the loop, no frozen buffer - the listing is the exact set (tables of the version, the journal, the
      manifest) plus ONLY the files the ghost field [residue] names; each entry of the field carries its reason
      (its Remove failed; a revert stopped at an earlier failing Remove; discard kept it because the fresh manifest
      could not be written; its job ended while committing or the DB was closed before the loop got to it; a
      journal numbered above the new one found by Open).  Together with theorem 11 (the next Open leaves exactly
      the exact set): every file that is not needed is removed, at the latest by the next successful Open. *)
Theorem C07_no_residue : forall l v ru ops s,
  NoDup l -> SweepInv.view_wf v -> Sweep.run (Sweep.boot l v ru) ops = Some s -> Sweep.quiescent s = true ->
  forall f, In f (Sweep.files s) <-> In f (Sweep.exact_set s) \/ In f (map fst (Sweep.residue s)).
Proof. exact SweepFiles.no_residue. Qed.
Print Assumptions C07_no_residue.

(* Clauses of C07 that are NOT theorems here (full statements; they are evaluated by the property
   oracle of harness/cmd/c07 on the implementation over the checker-owned storage, see props/C07.json):
   - the API discipline vl_disciplined itself: that db.go / db_compaction.go / db_transaction.go /
     db_iter.go / db_snapshot.go only call the version layer in this way is read off the code and
     exercised by the DB-level oracle, not proved.
   - that the manifest never names a missing table (Open never reports ErrMissingFiles after a clean run):
     follows from theorem 10 for the tables the views name, given that they exist at the start; not stated.
   - that the step machine's program order is the code's (e.g. dropFrozenMem only after the flush commit):
     read off the code; the harness checks the order of the real calls in the op log (journal Remove only
     after a commit that sets a higher journal number).
   - space_reclaimed: after deleting every key and a full-range compaction with no snapshot live, all
     levels are empty and no table bytes remain.
   - deferred removal: the file cache is modelled by its contract only (a removal requested while readers
     hold the table runs when the last one lets go); the cache itself is property C17. *)

(* ---------- non-vacuity ---------- *)

(* a history with a failed commit (abandoned id 2), a trivial move (table 5 in both lists), a reader
   that keeps version 1 while versions 3 and 4 come and go, and a tick *)
Definition ex_small : list input :=
  map (fun e => (e, []))
    [ERef 0 []; ERef 1 [5; 6]; EDelta 0 [5; 6] []; ERel 0 [];
     EAbandon 2;
     ERef 3 [5; 7]; EDelta 1 [7] [6];                      (* version 1 stays referenced by a reader *)
     ERef 4 [5; 8]; EDelta 3 [5; 8] [5; 7]; ERel 3 [5; 7];
     ETick;
     ERel 1 [5; 6]].

Example C07_ex_small_ok : env_ok ex_small = true.
Proof. vm_compute. reflexivity. Qed.

Example C07_ex_small_run :
  match run rlp ex_small, env_run ex_small with
  | Ok (s, rm), Some e => leqb rm [6; 7] && quiescent e && leqb (cur_files e) [5; 8]
  | _, _ => false
  end = true.
Proof. vm_compute. reflexivity. Qed.

(* version 1 (table 1) stays pinned while more than maxCachedNumber later versions are installed and
   released: the loop converts it into full file references (the forced-conversion path) and goes
   on deleting the tables of the later versions; table 1 survives until version 1 is released *)
Fixpoint ex_chain (k : nat) (v : N) : list event :=
  match k with
  | O => []
  | S k' => [ERef (v + 1) [v + 1]; EDelta v [v + 1] [v]; ERel v [v]] ++ ex_chain k' (v + 1)
  end.

Definition ex_pinned_prefix : list input :=
  map (fun e => (e, []))
    ([ERef 0 []; ERef 1 [1]; EDelta 0 [1] []; ERel 0 []; ERef 2 [2]; EDelta 1 [2] [1]]
       ++ ex_chain (N.to_nat (maxCachedNumber rlp + 44)) 2).

Definition ex_pinned : list input := ex_pinned_prefix ++ [(ERel 1 [1], [])].

Example C07_ex_pinned_ok : env_ok ex_pinned = true.
Proof. vm_compute. reflexivity. Qed.

Example C07_ex_pinned_forced_conversion :
  match run rlp ex_pinned_prefix with
  | Ok (s, rm) =>
      smem (referenced s) 1                       (* version 1 was converted *)
      && negb (smem rm 1)                          (* its table is still there *)
      && (maxCachedNumber rlp <? N.of_nat (length rm))   (* while later tables were removed *)
      && (1 <? next s)
  | _ => false
  end = true.
Proof. vm_compute. reflexivity. Qed.

Example C07_ex_pinned_complete :
  match run rlp ex_pinned, env_run ex_pinned with
  | Ok (s, rm), Some e =>
      quiescent e && smem rm 1 && nodupb rm
      && (N.of_nat (length rm) =? maxCachedNumber rlp + 44 + 1)
      && leqb (map fst (fileRef s)) (cur_files e)
  | _, _ => false
  end = true.
Proof. vm_compute. reflexivity. Qed.

(* the shape of a reopened session: session.recover installs version 1 with a record that lists no
   tables (tables 3 and 4 are "late"); the first commit's delta lists them together with the table 9
   flushed by the journal replay *)
Definition ex_reopen : list input :=
  map (fun e => (e, []))
    [ERef 0 []; ERef 1 [3; 4]; EDelta 0 [] []; ERel 0 [];
     ERef 2 [3; 4; 9]; EDelta 1 [9; 3; 4] []; ERel 1 [3; 4];
     ERef 3 [10]; EDelta 2 [10] [3; 4; 9]; ERel 2 [3; 4; 9]].

Example C07_ex_reopen : env_ok ex_reopen = true /\
  match run rlp ex_reopen with Ok (s, rm) => leqb rm [3; 4; 9] | _ => false end = true.
Proof. split; vm_compute; reflexivity. Qed.

(* what the unpatched tree sent at the first commit after Open (the replay-flushed table 9 listed
   twice) is outside the protocol, and the model shows the consequence the check found on the
   implementation: table 9 is never removed *)
Definition ex_reopen_double : list input :=
  map (fun e => (e, []))
    [ERef 0 []; ERef 1 [3; 4]; EDelta 0 [] []; ERel 0 [];
     ERef 2 [3; 4; 9]; EDelta 1 [9; 3; 4; 9] []; ERel 1 [3; 4];
     ERef 3 [10]; EDelta 2 [10] [3; 4; 9]; ERel 2 [3; 4; 9]].

Example C07_ex_reopen_double_leaks : env_ok ex_reopen_double = false /\
  match run rlp ex_reopen_double with Ok (s, rm) => leqb rm [3; 4] && (cnt (fileRef s) 9 =? 1) | _ => false end = true.
Proof. split; vm_compute; reflexivity. Qed.

(* ---------- non-vacuity of theorems 4-6 ---------- *)

Definition tb (n a b : N) : tbl := {| t_num := n; t_min := a; t_max := b |}.
Definition rc (a : list (N * tbl)) (d : list (N * N)) : srec := {| r_added := a; r_deleted := d |}.

(* a recovered session (tables 4 at level 0, 3 at level 1), the first commit adds the table 9 flushed
   from the journal, a reader pins that version, a table compaction merges 4, 3, 9 into 10 and moves
   nothing, a commit fails (id abandoned), a trivial move of 10 from level 2 to level 3, a commit
   fails after the manifest had been switched, the reader lets go *)
Definition ex_vl_open : vopen := ORecover [rc [(0, tb 4 1 5); (1, tb 3 2 6)] []].
Definition ex_vl_ops : list vop :=
  [VCommit (rc [(0, tb 9 0 9)] []) false COk;
   VAcquire;
   VCommit (rc [(2, tb 10 0 9)] [(0, 4); (1, 3); (0, 9)]) true COk;
   VCommit (rc [(0, tb 11 0 3)] []) false CFail;
   VCommit (rc [(3, tb 10 0 9)] [(2, 10)]) true COk;
   VCommit (rc [(0, tb 12 0 3)] []) false CFailSwitched;
   VRelease 2].

Example C07_ex_vl_disciplined : vl_disciplined ex_vl_open ex_vl_ops = true.
Proof. vm_compute. reflexivity. Qed.

Example C07_ex_vl_events :
  match vl_run ex_vl_open ex_vl_ops with
  | VOk (st, evs) =>
      env_ok (map (fun e => (e, [])) evs)
      && match run rlp (map (fun e => (e, [])) evs) with
         | Ok (s, rm) => leqb rm [4; 3; 9] && leqb (map fst (fileRef s)) [10]
         | _ => false
         end
      && leqb (flat (vr_levels (vs_cur st))) [10] && (N.of_nat (length (vs_olds st)) =? 0)
  | VPanic _ => false
  end = true.
Proof. vm_compute. reflexivity. Qed.

(* the discipline is needed: a first commit after a recovery that deletes a recovered table is
   outside it, what the layer then sends is outside env_ok, and the loop panics ("negative ref") *)
Definition ex_vl_bad_ops : list vop := [VCommit (rc [(0, tb 9 0 9)] [(0, 4)]) false COk].

Example C07_ex_vl_undisciplined :
  vl_disciplined ex_vl_open ex_vl_bad_ops = false /\
  match vl_run ex_vl_open ex_vl_bad_ops with
  | VOk (_, evs) =>
      negb (env_ok (map (fun e => (e, [])) evs))
      && match run rlp (map (fun e => (e, [])) evs) with Panic (NegativeRef 4) => true | _ => false end
  | VPanic _ => false
  end = true.
Proof. split; vm_compute; reflexivity. Qed.

(* so is the clause about the outcome "failed after newManifest had switched" while a recovered
   session has no manifest writer yet (through the DB this ends the session: Open fails): continuing
   from it, the recovered tables are never counted and deleting one of them later makes the loop panic *)
Definition ex_vl_switched_ops : list vop :=
  [VCommit (rc [(0, tb 9 0 9)] []) false CFailSwitched;
   VCommit (rc [(0, tb 10 0 9)] []) false COk;
   VCommit (rc [] [(0, 4)]) false COk].

Example C07_ex_vl_failed_switched :
  vl_disciplined ex_vl_open ex_vl_switched_ops = false /\
  match vl_run ex_vl_open ex_vl_switched_ops with
  | VOk (_, evs) =>
      negb (env_ok (map (fun e => (e, [])) evs))
      && match run rlp (map (fun e => (e, [])) evs) with Panic (NegativeRef 4) => true | _ => false end
  | VPanic _ => false
  end = true.
Proof. split; vm_compute; reflexivity. Qed.

(* ---------- non-vacuity of theorems 7-11 ---------- *)

(* stray files of every type, numbered below, between, at and above the live numbers and the next file number
   (say 23): the janitor keeps tables 5 and 9 (9 and 40 are in the version, 40 is above the next file number),
   journal 21 and above, manifest 20 only *)
Definition ex_jan_state : Sweep.jstate :=
  {| Sweep.js_tabs := [5; 9; 40]; Sweep.js_manifest := 20; Sweep.js_journal := 21; Sweep.js_frozen := None |}.
Definition ex_jan_listing : list Sweep.fd :=
  [(Sweep.FManifest, 3); (Sweep.FManifest, 20); (Sweep.FManifest, 30);
   (Sweep.FJournal, 0); (Sweep.FJournal, 19); (Sweep.FJournal, 21); (Sweep.FJournal, 25);
   (Sweep.FTable, 5); (Sweep.FTable, 7); (Sweep.FTable, 9); (Sweep.FTable, 21); (Sweep.FTable, 40); (Sweep.FTable, 41);
   (Sweep.FTemp, 4); (Sweep.FTemp, 50)].

Example C07_ex_janitor :
  Sweep.janitor ex_jan_state ex_jan_listing =
  Sweep.JRemove [(Sweep.FManifest, 3); (Sweep.FManifest, 30); (Sweep.FJournal, 0); (Sweep.FJournal, 19);
                 (Sweep.FTable, 7); (Sweep.FTable, 21); (Sweep.FTable, 41); (Sweep.FTemp, 4); (Sweep.FTemp, 50)].
Proof. vm_compute. reflexivity. Qed.

Example C07_ex_janitor_missing :
  Sweep.janitor ex_jan_state (filter (fun f => negb (Sweep.fd_eqb f (Sweep.FTable, 9))) ex_jan_listing) = Sweep.JMissing [9].
Proof. vm_compute. reflexivity. Qed.

(* a failing Remove stops the loop: the files behind it stay for the next run *)
Example C07_ex_janitor_failing :
  match Sweep.janitor ex_jan_state ex_jan_listing with
  | Sweep.JRemove rem =>
      let '(calls, l', ok) := Sweep.rm_seq ex_jan_listing rem [(Sweep.FJournal, 19)] in
      negb ok && (N.of_nat (length calls) =? 4) && Sweep.fmem l' (Sweep.FTable, 7) && negb (Sweep.fmem l' (Sweep.FManifest, 30))
  | _ => false
  end = true.
Proof. vm_compute. reflexivity. Qed.

(* a life of a DB: created, opened; a flush; a reader pins a version and a table; a second flush whose commit
   rotates the manifest (the old manifest's Remove fails); a compaction whose first commit fails with the record
   possibly written and whose retry succeeds; the loop removes the inputs, one of them only after the reader
   lets go (its Remove fails); a transaction whose commit fails the same way and whose discard cannot write
   the fresh manifest: the table is kept.  Then the DB is quiescent, every Remove call hit an unneeded file,
   the listing is the exact set plus the five files the residue names, and the next Open - under either of the
   two possible manifest contents - leaves exactly the exact set. *)
Definition ex_life : list Sweep.op :=
  [Sweep.OOpen 0 [] false []; Sweep.ORotate true false; Sweep.OBegin Sweep.KFlush []; Sweep.OCreate Sweep.KFlush true;
   Sweep.OFinish Sweep.KFlush; Sweep.OCommit Sweep.KFlush false Sweep.COk true; Sweep.ODropFrozen false;
   Sweep.OAcquire; Sweep.OPin 4;
   Sweep.ORotate true false; Sweep.OBegin Sweep.KFlush []; Sweep.OCreate Sweep.KFlush true; Sweep.OFinish Sweep.KFlush;
   Sweep.OCommit Sweep.KFlush true Sweep.COk false; Sweep.ODropFrozen true;
   Sweep.OBegin Sweep.KComp [4; 6]; Sweep.OCreate Sweep.KComp true; Sweep.OFinish Sweep.KComp;
   Sweep.OCreate Sweep.KComp true; Sweep.ODrop Sweep.KComp true;
   Sweep.OCommit Sweep.KComp false Sweep.CFailDirty true; Sweep.OCommit Sweep.KComp false Sweep.COk true;
   Sweep.OLoopRemove 6 true; Sweep.ORelease 0; Sweep.OLoopRemove 4 true; Sweep.OUnpin 4 false;
   Sweep.OBegin Sweep.KTxn []; Sweep.OCreate Sweep.KTxn true; Sweep.OFinish Sweep.KTxn;
   Sweep.OCommit Sweep.KTxn false Sweep.CFailDirty true; Sweep.ODiscard Sweep.CFailClean false []].

Definition fds_sub (a b : list Sweep.fd) : bool := forallb (Sweep.fmem b) a.

Example C07_ex_life :
  match Sweep.run (Sweep.boot_new true) ex_life with
  | Some s =>
      Sweep.quiescent s
      && forallb (fun x => negb (snd x)) (Sweep.trace s)
      && (N.of_nat (length (Sweep.trace s)) =? 9)
      && fds_sub (Sweep.files s) (Sweep.exact_set s ++ map fst (Sweep.residue s))
      && fds_sub (Sweep.exact_set s ++ map fst (Sweep.residue s)) (Sweep.files s)
      && (N.of_nat (length (Sweep.residue s)) =? 5)
      && (N.of_nat (length (Sweep.views s)) =? 2)
  | None => false
  end = true.
Proof. vm_compute. reflexivity. Qed.

Example C07_ex_life_reopen :
  forallb (fun vi =>
    match Sweep.run (Sweep.boot_new true) (ex_life ++ [Sweep.OClose; Sweep.OOpen vi [] false []]) with
    | Some s =>
        Sweep.opened s && fds_sub (Sweep.files s) (Sweep.exact_set s) && fds_sub (Sweep.exact_set s) (Sweep.files s)
        && forallb (fun x => negb (snd x)) (Sweep.trace s)
    | None => false
    end) [0%nat; 1%nat] = true.
Proof. vm_compute. reflexivity. Qed.

(* the exception of theorem 10 is reachable: a manifest of another implementation carries a prev-journal
   number (7); a journal file numbered 0 is lying around; Open's first commit writes a manifest without the
   field, from then on recoverJournal would select journal 0 - and the janitor removes it *)
Example C07_ex_journal_zero :
  match Sweep.run (Sweep.boot [(Sweep.FManifest, 3); (Sweep.FJournal, 0); (Sweep.FJournal, 7); (Sweep.FJournal, 9)]
                     {| Sweep.v_tabs := []; Sweep.v_jnum := 9; Sweep.v_prev := Some 7; Sweep.v_next := 10; Sweep.v_man := 3 |} true)
          [Sweep.OOpen 0 [0; 0] false []] with
  | Some s => Sweep.opened s && existsb (fun x => Sweep.fd_eqb (fst x) (Sweep.FJournal, 0) && snd x) (Sweep.trace s)
              && forallb (fun x => Sweep.fd_eqb (fst x) (Sweep.FJournal, 0) || negb (snd x)) (Sweep.trace s)
  | None => false
  end = true.
Proof. vm_compute. reflexivity. Qed.

(* the stray-journal clause of theorem 11 is reachable only with a manifest whose journal number (50) is above
   its next file number (10): journal 30 is neither replayed nor removed *)
Example C07_ex_stray_journal_above :
  match Sweep.run (Sweep.boot [(Sweep.FManifest, 3); (Sweep.FJournal, 30)]
                     {| Sweep.v_tabs := []; Sweep.v_jnum := 50; Sweep.v_prev := None; Sweep.v_next := 10; Sweep.v_man := 3 |} true)
          [Sweep.OOpen 0 [] false []] with
  | Some s => Sweep.opened s && Sweep.fmem (Sweep.files s) (Sweep.FJournal, 30) && (Sweep.journal s =? 10)
  | None => false
  end = true.
Proof. vm_compute. reflexivity. Qed.

(* L2 link: the frozen journal 4 is selected while the manifest says journal number 4, and no longer once it
   says 5 *)
Example C07_ex_recover_reads :
  let live := {| Crash.j_num := 5; Crash.j_recs := [{| Crash.b_seq := 3; Crash.b_n := 1 |}]; Crash.j_synced := 1 |} in
  let fz := {| Crash.j_num := 4; Crash.j_recs := [{| Crash.b_seq := 1; Crash.b_n := 2 |}]; Crash.j_synced := 1 |} in
  let m4 := [{| Crash.m_jnum := Some 4; Crash.m_seq := Some 0; Crash.m_tab := [] |}] in
  let m5 := m4 ++ [{| Crash.m_jnum := Some 5; Crash.m_seq := Some 2; Crash.m_tab := [{| Crash.b_seq := 1; Crash.b_n := 2 |}] |}] in
  N.of_nat (length (Crash.recover {| Crash.i_live := live; Crash.i_frozen := Some fz; Crash.i_man := m4 |})) = 2 /\
  N.of_nat (length (Crash.recover {| Crash.i_live := live; Crash.i_frozen := None; Crash.i_man := m4 |})) = 1 /\
  Crash.recover {| Crash.i_live := live; Crash.i_frozen := Some fz; Crash.i_man := m5 |} =
  Crash.recover {| Crash.i_live := live; Crash.i_frozen := None; Crash.i_man := m5 |}.
Proof. vm_compute. repeat split; reflexivity. Qed.
