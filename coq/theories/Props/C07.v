(* Props/C07.v — property C07 (stub while the proofs are being built). *)
From GL Require Import Conc.RefLoop Gen.InstRefLoop.
From Coq Require Import NArith List.
Import ListNotations.
Open Scope N_scope.

Example C07_env_ok_example :
  env_ok [(ERef 0 [], []); (ERef 1 [5], []); (EDelta 0 [5] [], []); (ERel 0 [], [])] = true.
Proof. vm_compute. reflexivity. Qed.
Print Assumptions C07_env_ok_example.
