(* Props/C07.v — property C07: files are deleted only when unneeded, and then they are deleted.
   The part of the property that is a theorem: the table-file reference tracker session.refLoop
   (model Conc/RefLoop.v, tied to the code by the exact correspondence check Corr/C07Run.v) under
   the event protocol env_ok of the version layer, for EVERY order in which references are taken
   and released, every number of versions queued behind a pinned one (also more than
   maxCachedNumber), abandoned ids, and every outcome of the loop's age test (theorems 1-3); that the
   version layer (model Conc/VersionLayer.v of version.go / session_util.go setVersion / session.go
   newSession, create, recover, commit; tied to the code by the KVL cases of Corr/C07Run.v) sends only
   such sequences, for every sequence of operations respecting the API discipline (theorem 4); and
   the two composed, quantified over version-layer operation sequences (theorems 5-6).
   Property theorems only; each is closed by [exact lemma] and followed by Print Assumptions. *)
From GL Require Import Conc.RefLoop Conc.RefLoopProofs Conc.VersionLayer Conc.VersionLayerProofs
  Gen.Consts Gen.InstRefLoop.
From Coq Require Import NArith List Bool Permutation.
Import ListNotations.
Open Scope N_scope.

(* 1. Safety.  After every prefix of a protocol-conforming event sequence, no table of a version
      that is referenced and not yet released has been removed (p: any queue bound; the expiry
      oracle carried by the inputs is arbitrary). *)
Theorem C07_refloop_safe : forall p ins, env_ok ins = true ->
  forall pre suf, ins = pre ++ suf ->
  exists e s rm, env_run pre = Some e /\ run p pre = Ok (s, rm) /\
    forall c f, In c (live e) -> In f (v_files c) -> ~ In f rm.
Proof. exact refloop_safe. Qed.
Print Assumptions C07_refloop_safe.

(* 2. Completeness.  Once every version but the current one is released and no setVersion is in
      flight, the queue is drained (no released version and no delta is waiting), only tables of the
      current version are counted, and the removed tables are exactly the tables that ever belonged to
      a version minus the current ones, each removed exactly once. *)
Theorem C07_refloop_complete : forall p ins e, env_run ins = Some e -> quiescent e = true ->
  exists s rm, run p ins = Ok (s, rm) /\
    NoDup rm /\
    (forall f, In f rm <-> In f (e_seen e) /\ ~ In f (cur_files e)) /\
    Permutation rm (ldiff (e_seen e) (cur_files e)) /\
    released s = [] /\ deltas s = [] /\
    (forall f, 1 <= cnt (fileRef s) f -> In f (cur_files e)).
Proof. exact refloop_complete. Qed.
Print Assumptions C07_refloop_complete.

(* 3. The panic branches ("negative ref", "duplicate reference request", "invalid release request")
      are unreachable, and the fuel of the two loops of processTasks suffices, on every prefix. *)
Theorem C07_refloop_no_negative : forall p ins, env_ok ins = true ->
  forall pre suf, ins = pre ++ suf -> exists s rm, run p pre = Ok (s, rm).
Proof. exact refloop_no_negative. Qed.
Print Assumptions C07_refloop_no_negative.

(* 4. The version layer only sends protocol-conforming sequences.  o: how the session was opened
      (created, or recovered from any manifest content); ops: any sequence of session.version(),
      version.release(), session.commit (any record, trivial flag, outcome: success / failure /
      failure after newManifest had already switched) that respects the API discipline
      vl_disciplined (every release gives back a reference taken earlier on that version; a record
      deletes tables of the current version at their level and adds new table numbers, or the same
      number it deletes - trivial move; until a recovered session has a manifest writer a record
      only adds tables and a failing commit ends the session; the recovered version lists no number
      twice).  Then no operation panics and the events sent - with timer ticks / counter queries
      interleaved ANYWHERE (also inside setVersion) and any outcome of the age test - satisfy
      env_ok. *)
Theorem C07_session_emits_env_ok : forall o ops, vl_disciplined o ops = true ->
  exists st evs, vl_run o ops = VOk (st, evs) /\
    forall ins, untick (map fst ins) = evs -> env_ok ins = true.
Proof. exact session_emits_env_ok. Qed.
Print Assumptions C07_session_emits_env_ok.

(* 5. Safety, end to end: no hypothesis about the events.  After any disciplined operations, and
      whatever part [pre] of the events sent so far the loop has consumed, the loop has not panicked
      and no table of a version that can still be read (the current one, or a replaced one some
      reader still holds: vl_live) has been removed. *)
Theorem C07_files_safe_end_to_end : forall p o ops, vl_disciplined o ops = true ->
  exists st evs, vl_run o ops = VOk (st, evs) /\
    forall ins, untick (map fst ins) = evs ->
    forall pre suf, ins = pre ++ suf ->
    exists s rm, run p pre = Ok (s, rm) /\
      forall v f, In v (vl_live st) -> In f (flat (vr_levels v)) -> ~ In f rm.
Proof. exact files_safe_end_to_end. Qed.
Print Assumptions C07_files_safe_end_to_end.

(* 6. Completeness, end to end: once no replaced version is referenced any more and the loop has
      consumed everything, it has removed exactly the tables that ever belonged to a version of the
      session (vl_seen) and are not in the current one, each once; its queues are empty; it counts
      only current tables. *)
Theorem C07_files_complete_end_to_end : forall p o ops, vl_disciplined o ops = true ->
  exists st evs, vl_run o ops = VOk (st, evs) /\
    (vs_olds st = [] ->
     forall ins, untick (map fst ins) = evs ->
     exists s rm, run p ins = Ok (s, rm) /\ NoDup rm /\
       (forall f, In f rm <-> In f (vl_seen o ops) /\ ~ In f (flat (vr_levels (vs_cur st)))) /\
       Permutation rm (ldiff (vl_seen o ops) (flat (vr_levels (vs_cur st)))) /\
       released s = [] /\ deltas s = [] /\
       (forall f, 1 <= cnt (fileRef s) f -> In f (flat (vr_levels (vs_cur st))))).
Proof. exact files_complete_end_to_end. Qed.
Print Assumptions C07_files_complete_end_to_end.

(* Clauses of C07 that are NOT theorems here (full statements; they are evaluated by the property
   oracle of harness/cmd/c07 on the implementation over the checker-owned storage, see props/C07.json):
   - the API discipline vl_disciplined itself: that db.go / db_compaction.go / db_transaction.go /
     db_iter.go / db_snapshot.go only call the version layer in this way is read off the code and
     exercised by the DB-level oracle, not proved (theorem 4 replaces the former unproved clause
     session_emits_env_ok, which assumed the event protocol of the version layer).
   - sweep_exact: after Open (recover + checkAndCleanFiles) and once background work settled, the
     storage holds exactly the tables of the current version, the live journal, the manifest CURRENT
     names (and CURRENT); a missing live table is reported as corruption.
   - no_residue: a failed flush / compaction (also when the DB is closed meanwhile), a discarded
     transaction and Recover leave no table file that the current version does not hold.
   - space_reclaimed: after deleting every key and a full-range compaction with no snapshot live, all
     levels are empty and no table bytes remain.
   - deferred removal: a table file is removed only after the last open reader of it is closed
     (through the file cache, property C17): no read is served from a removed file. *)

(* ---------- non-vacuity ---------- *)

(* a history with a failed commit (abandoned id 2), a trivial move (table 5 in both lists), a reader
   that keeps version 1 while versions 3 and 4 come and go, and a tick *)
Definition ex_small : list input :=
  map (fun e => (e, []))
    [ERef 0 []; ERef 1 [5; 6]; EDelta 0 [5; 6] []; ERel 0 [];
     EAbandon 2;
     ERef 3 [5; 7]; EDelta 1 [7] [6];                      (* version 1 stays referenced by a reader *)
     ERef 4 [5; 8]; EDelta 3 [5; 8] [5; 7]; ERel 3 [5; 7];
     ETick;
     ERel 1 [5; 6]].

Example C07_ex_small_ok : env_ok ex_small = true.
Proof. vm_compute. reflexivity. Qed.

Example C07_ex_small_run :
  match run rlp ex_small, env_run ex_small with
  | Ok (s, rm), Some e => leqb rm [6; 7] && quiescent e && leqb (cur_files e) [5; 8]
  | _, _ => false
  end = true.
Proof. vm_compute. reflexivity. Qed.

(* version 1 (table 1) stays pinned while more than maxCachedNumber later versions are installed and
   released: the loop converts it into full file references (the forced-conversion path) and goes
   on deleting the tables of the later versions; table 1 survives until version 1 is released *)
Fixpoint ex_chain (k : nat) (v : N) : list event :=
  match k with
  | O => []
  | S k' => [ERef (v + 1) [v + 1]; EDelta v [v + 1] [v]; ERel v [v]] ++ ex_chain k' (v + 1)
  end.

Definition ex_pinned_prefix : list input :=
  map (fun e => (e, []))
    ([ERef 0 []; ERef 1 [1]; EDelta 0 [1] []; ERel 0 []; ERef 2 [2]; EDelta 1 [2] [1]]
       ++ ex_chain (N.to_nat (maxCachedNumber rlp + 44)) 2).

Definition ex_pinned : list input := ex_pinned_prefix ++ [(ERel 1 [1], [])].

Example C07_ex_pinned_ok : env_ok ex_pinned = true.
Proof. vm_compute. reflexivity. Qed.

Example C07_ex_pinned_forced_conversion :
  match run rlp ex_pinned_prefix with
  | Ok (s, rm) =>
      smem (referenced s) 1                       (* version 1 was converted *)
      && negb (smem rm 1)                          (* its table is still there *)
      && (maxCachedNumber rlp <? N.of_nat (length rm))   (* while later tables were removed *)
      && (1 <? next s)
  | _ => false
  end = true.
Proof. vm_compute. reflexivity. Qed.

Example C07_ex_pinned_complete :
  match run rlp ex_pinned, env_run ex_pinned with
  | Ok (s, rm), Some e =>
      quiescent e && smem rm 1 && nodupb rm
      && (N.of_nat (length rm) =? maxCachedNumber rlp + 44 + 1)
      && leqb (map fst (fileRef s)) (cur_files e)
  | _, _ => false
  end = true.
Proof. vm_compute. reflexivity. Qed.

(* the shape of a reopened session: session.recover installs version 1 with a record that lists no
   tables (tables 3 and 4 are "late"); the first commit's delta lists them together with the table 9
   flushed by the journal replay *)
Definition ex_reopen : list input :=
  map (fun e => (e, []))
    [ERef 0 []; ERef 1 [3; 4]; EDelta 0 [] []; ERel 0 [];
     ERef 2 [3; 4; 9]; EDelta 1 [9; 3; 4] []; ERel 1 [3; 4];
     ERef 3 [10]; EDelta 2 [10] [3; 4; 9]; ERel 2 [3; 4; 9]].

Example C07_ex_reopen : env_ok ex_reopen = true /\
  match run rlp ex_reopen with Ok (s, rm) => leqb rm [3; 4; 9] | _ => false end = true.
Proof. split; vm_compute; reflexivity. Qed.

(* what the unpatched tree sent at the first commit after Open (the replay-flushed table 9 listed
   twice) is outside the protocol, and the model shows the consequence the check found on the
   implementation: table 9 is never removed *)
Definition ex_reopen_double : list input :=
  map (fun e => (e, []))
    [ERef 0 []; ERef 1 [3; 4]; EDelta 0 [] []; ERel 0 [];
     ERef 2 [3; 4; 9]; EDelta 1 [9; 3; 4; 9] []; ERel 1 [3; 4];
     ERef 3 [10]; EDelta 2 [10] [3; 4; 9]; ERel 2 [3; 4; 9]].

Example C07_ex_reopen_double_leaks : env_ok ex_reopen_double = false /\
  match run rlp ex_reopen_double with Ok (s, rm) => leqb rm [3; 4] && (cnt (fileRef s) 9 =? 1) | _ => false end = true.
Proof. split; vm_compute; reflexivity. Qed.

(* ---------- non-vacuity of theorems 4-6 ---------- *)

Definition tb (n a b : N) : tbl := {| t_num := n; t_min := a; t_max := b |}.
Definition rc (a : list (N * tbl)) (d : list (N * N)) : srec := {| r_added := a; r_deleted := d |}.

(* a recovered session (tables 4 at level 0, 3 at level 1), the first commit adds the table 9 flushed
   from the journal, a reader pins that version, a table compaction merges 4, 3, 9 into 10 and moves
   nothing, a commit fails (id abandoned), a trivial move of 10 from level 2 to level 3, a commit
   fails after the manifest had been switched, the reader lets go *)
Definition ex_vl_open : vopen := ORecover [rc [(0, tb 4 1 5); (1, tb 3 2 6)] []].
Definition ex_vl_ops : list vop :=
  [VCommit (rc [(0, tb 9 0 9)] []) false COk;
   VAcquire;
   VCommit (rc [(2, tb 10 0 9)] [(0, 4); (1, 3); (0, 9)]) true COk;
   VCommit (rc [(0, tb 11 0 3)] []) false CFail;
   VCommit (rc [(3, tb 10 0 9)] [(2, 10)]) true COk;
   VCommit (rc [(0, tb 12 0 3)] []) false CFailSwitched;
   VRelease 2].

Example C07_ex_vl_disciplined : vl_disciplined ex_vl_open ex_vl_ops = true.
Proof. vm_compute. reflexivity. Qed.

Example C07_ex_vl_events :
  match vl_run ex_vl_open ex_vl_ops with
  | VOk (st, evs) =>
      env_ok (map (fun e => (e, [])) evs)
      && match run rlp (map (fun e => (e, [])) evs) with
         | Ok (s, rm) => leqb rm [4; 3; 9] && leqb (map fst (fileRef s)) [10]
         | _ => false
         end
      && leqb (flat (vr_levels (vs_cur st))) [10] && (N.of_nat (length (vs_olds st)) =? 0)
  | VPanic _ => false
  end = true.
Proof. vm_compute. reflexivity. Qed.

(* the discipline is needed: a first commit after a recovery that deletes a recovered table is
   outside it, what the layer then sends is outside env_ok, and the loop panics ("negative ref") *)
Definition ex_vl_bad_ops : list vop := [VCommit (rc [(0, tb 9 0 9)] [(0, 4)]) false COk].

Example C07_ex_vl_undisciplined :
  vl_disciplined ex_vl_open ex_vl_bad_ops = false /\
  match vl_run ex_vl_open ex_vl_bad_ops with
  | VOk (_, evs) =>
      negb (env_ok (map (fun e => (e, [])) evs))
      && match run rlp (map (fun e => (e, [])) evs) with Panic (NegativeRef 4) => true | _ => false end
  | VPanic _ => false
  end = true.
Proof. split; vm_compute; reflexivity. Qed.

(* so is the clause about the outcome "failed after newManifest had switched" while a recovered
   session has no manifest writer yet (through the DB this ends the session: Open fails): continuing
   from it, the recovered tables are never counted and deleting one of them later makes the loop panic *)
Definition ex_vl_switched_ops : list vop :=
  [VCommit (rc [(0, tb 9 0 9)] []) false CFailSwitched;
   VCommit (rc [(0, tb 10 0 9)] []) false COk;
   VCommit (rc [] [(0, 4)]) false COk].

Example C07_ex_vl_failed_switched :
  vl_disciplined ex_vl_open ex_vl_switched_ops = false /\
  match vl_run ex_vl_open ex_vl_switched_ops with
  | VOk (_, evs) =>
      negb (env_ok (map (fun e => (e, [])) evs))
      && match run rlp (map (fun e => (e, [])) evs) with Panic (NegativeRef 4) => true | _ => false end
  | VPanic _ => false
  end = true.
Proof. split; vm_compute; reflexivity. Qed.
