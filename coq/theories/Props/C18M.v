(* Props/C18M.v — the storages goleveldb runs on, against ONE storage contract (property C18).
   Models: Store/StorContract.v (the contract [cstep]; the checker's own storage [vstep]), Store/MemStorage.v
   (leveldb/storage/mem_storage.go, [mstep]), Store/FileStorageSeq.v (leveldb/storage/file_storage.go used sequentially
   without crashes, [qstep], built on Store/FileStorage.v).  Property theorems only.

   memstorage_contract: for every call sequence, as long as no call is a DEVIATION ([dev_mem] / [dev_fs] /
   [dev_vstor], decidable on the implementation's own state), every result equals the contract's and the states stay
   related by an abstraction FUNCTION; the deviations are listed exhaustively below, each with a witness and a note on
   whether goleveldb's DB layer can meet it (call sites read: session.go recover / newManifest, session_util.go, table.go
   tOps.create / open / remove, tWriter.drop, db.go recoverTable / recoverJournal, db_state.go newMem, db_util.go
   checkAndCleanFiles, db_compaction.go).

   memStorage (repaired code, fix "memStorage reader and writer Close must latch closed"):
     D1 Close does nothing; no method returns ErrClosed afterwards.        DB: never calls the storage after closing it
        (leveldb.OpenFile closes the storage it opened only when Open failed / in DB.Close via db.closer); not met.
     D2 GetMeta returns the descriptor set last although no file has that name (storage.go documents os.ErrNotExist).
        DB: session.recover goes on to Open(fd), gets os.ErrNotExist there, and takes the same "no database / corrupted
        entry point" path; outcome identical.
     D3 Open / Create / Rename are refused with errFileOpen while a handle of the file is open.   DB: obeys the rule - a
        table is opened through the table cache (one reader per file, closed before tOps.remove's callback runs),
        recoverTable closes its reader before Rename(tmp, fd), a manifest / journal is read only when nobody writes it,
        file numbers are fresh (reuseFileNum gives a number back only after the writer was closed and the file removed).
     D4 numbers >= 2^60 alias (packFile shifts the number left by 4 in a uint64).   DB: file numbers count up from 1; not
        met short of a forged manifest.  Recorded as known finding memstorage-packfile-wrap.
     D5 a closed writer still writes / syncs, a closed reader still reads.   DB: no use after Close found.
     D6 (pre-repair only) a reader's bytes are overwritten after the double Close below.
   file storage:
     F0 SetMeta / GetMeta are outside THIS theorem (hence "_partial"): they are the subject of C04_setmeta_crash_atomic
        and the other theorems of Props/C04FS.v, and (K) compares them with the contract on every generated run.  Known
        differences: GetMeta falls back to CURRENT.bak when CURRENT names a missing file (witness below).
     F1 a table is also looked for under its old ".sst" name by Open and Remove (not by Rename / Create), F2 and every
        directory entry that parses is listed (an ".sst" and an ".ldb" of one number are listed twice).   DB: only
        directories written by old versions hold ".sst" names; the DB never creates both.
     F3 Create on an existing name truncates the SAME inode: open readers lose the bytes, an older open writer goes
        on writing at its own offset into the new file.   DB: never creates a name that is bound (fresh numbers), see D3.
     F4 a closed handle answers os.ErrClosed ("file already closed") to Write / Sync / Read, storage.ErrClosed only to
        Close.   DB: does not compare these errors.
     F5 an open reader sees later writes.   DB: never reads a file that is being written.
   vstor (the checker's storage): V1 Close only logs (one storage serves many reopenings), V2 = D2.  Both deliberate. *)
From Coq Require Import List NArith ZArith Bool.
From GL Require Import Base.Bytes Store.FileStorage Store.StorContract Store.MemStorage Store.MemStorageProofs
  Store.FileStorageSeq Store.FileStorageSeqProofs.
Import ListNotations.
Open Scope N_scope.

(* ---------------------------------------------------------------------------------------------- memStorage *)

(* M1  memstorage_contract, one call: from every state satisfying the invariant of deviation-free runs, a call that is
   not a deviation returns what the contract returns and leads to the abstraction of the contract's next state. *)
Theorem C18M_memstorage_contract_step : forall m o,
  minv m -> dev_mem m o = false ->
  let '(m', r) := mstep true m o in minv m' /\ cstep (m_abs m) o = (m_abs m', r).
Proof. exact mem_step_refines. Qed.
Print Assumptions C18M_memstorage_contract_step.

(* M2  memstorage_contract: every call sequence without a deviation. *)
Theorem C18M_memstorage_contract : forall ops m,
  minv m -> mem_dev_free m ops = true ->
  let '(m', rs) := mrun true m ops in minv m' /\ crun (m_abs m) ops = (m_abs m', rs).
Proof. exact mem_run_refines. Qed.
Print Assumptions C18M_memstorage_contract.

Theorem C18M_memstorage_contract_from_empty : forall ops,
  mem_dev_free m_empty ops = true -> snd (crun c_empty ops) = snd (mrun true m_empty ops).
Proof. exact memstorage_contract_from_empty. Qed.
Print Assumptions C18M_memstorage_contract_from_empty.

Theorem C18M_new_memstorage_invariant : minv m_empty.
Proof. exact minv_empty. Qed.
Print Assumptions C18M_new_memstorage_invariant.

(* ---------------------------------------------------------------------------------------------- file storage *)

(* F   filestorage_contract_partial.  FULL statement wanted: the same for every call; proved: every call except SetMeta /
   GetMeta (F0), for descriptors whose number is an int64 (anything a Go caller can pass). *)
Theorem C18M_filestorage_contract_partial : forall ops s,
  qinv s -> Forall op_int64 ops -> fs_dev_free s ops = true ->
  let '(s', rs) := qrun s ops in qinv s' /\ crun (q_abs s) ops = (q_abs s', rs).
Proof. exact fs_run_refines. Qed.
Print Assumptions C18M_filestorage_contract_partial.

Theorem C18M_filestorage_contract_from_empty_partial : forall ops,
  Forall op_int64 ops -> fs_dev_free q_empty ops = true -> snd (crun c_empty ops) = snd (qrun q_empty ops).
Proof. exact filestorage_contract_from_empty. Qed.
Print Assumptions C18M_filestorage_contract_from_empty_partial.

(* ---------------------------------------------------------------------------------------------- the checker's storage *)

Theorem C18M_vstor_contract : forall ops c,
  c_closed c = false -> vstor_dev_free c ops = true -> vrun c ops = crun c ops.
Proof. exact vstor_run_refines. Qed.
Print Assumptions C18M_vstor_contract.

(* ---------------------------------------------------------------------------------------------- witnesses *)
Definition T (n : Z) : xfd := XFD 4 n.     (* a table *)
Definition M (n : Z) : xfd := XFD 1 n.     (* a manifest *)

(* non-vacuity: a run all three storages and the contract agree on, call by call *)
Definition ex_run : list sop :=
  [SLock; SLock; SCreate (T 1); HWrite 0 [1;2]; HSync 0; HClose 0; HClose 0; SOpen (T 1); SRemove (T 1); HReadAll 1;
   SCreate (T 2); HWrite 2 [7;8]; HClose 2; HClose 1; SRename (T 2) (T 3); SOpen (T 3); HReadAll 3;
   SList 15; SOpen (T 9); SRemove (T 9); SCreate (XFD 3 1); SRename (T 3) (T 3); SUnlock 0; SLock].
Example C18M_ex_agree :
  mem_dev_free m_empty ex_run = true /\ fs_dev_free q_empty ex_run = true /\ vstor_dev_free c_empty ex_run = true
  /\ snd (crun c_empty ex_run) =
     [RLockId 0; RErr ELocked; RHandle 0; ROk; ROk; ROk; RErr EClosed; RHandle 1; ROk; RData [1;2];
      RHandle 2; ROk; ROk; ROk; ROk; RHandle 3; RData [7;8];
      RList [T 3]; RErr ENotExist; RErr ENotExist; RErr EInvalid; ROk; ROk; RLockId 1]
  /\ snd (mrun true m_empty ex_run) = snd (crun c_empty ex_run)
  /\ snd (qrun q_empty ex_run) = snd (crun c_empty ex_run)
  /\ snd (vrun c_empty ex_run) = snd (crun c_empty ex_run).
Proof. vm_compute. repeat split; reflexivity. Qed.

(* the defect repaired in mem_storage.go: before, a second Close of a handle returned nil and cleared the open flag again,
   so Create succeeded under a reader opened in between (whose bytes the new writer then overwrote). *)
Definition ex_double_close : list sop :=
  [SCreate (T 1); HWrite 0 [1;2;3]; HClose 0; SOpen (T 1); HClose 0; SCreate (T 1); HReadAll 1].
Example C18M_memstorage_double_close_refuted :
  snd (mrun false m_empty ex_double_close) = [RHandle 0; ROk; ROk; RHandle 1; ROk; RHandle 2; RUnspec]
  /\ snd (mrun true m_empty ex_double_close) = [RHandle 0; ROk; ROk; RHandle 1; RErr EClosed; RErr EFileOpen; RData [1;2;3]].
Proof. vm_compute. split; reflexivity. Qed.

(* D1 *)
Example C18M_dev_mem_close :
  snd (crun c_empty [SClose; SLock; SClose]) = [ROk; RErr EClosed; RErr EClosed]
  /\ snd (mrun true m_empty [SClose; SLock; SClose]) = [ROk; RLockId 0; ROk]
  /\ dev_mem m_empty SClose = true.
Proof. vm_compute. repeat split; reflexivity. Qed.
(* D2 *)
Example C18M_dev_mem_getmeta :
  snd (crun c_empty [SSetMeta (M 1); SGetMeta]) = [ROk; RErr ENotExist]
  /\ snd (mrun true m_empty [SSetMeta (M 1); SGetMeta]) = [ROk; RFd (M 1)]
  /\ mem_dev_free m_empty [SSetMeta (M 1); SGetMeta] = false.
Proof. vm_compute. repeat split; reflexivity. Qed.
(* D3 *)
Example C18M_dev_mem_file_open :
  snd (crun c_empty [SCreate (T 1); SOpen (T 1); SCreate (T 1)]) = [RHandle 0; RHandle 1; RHandle 2]
  /\ snd (mrun true m_empty [SCreate (T 1); SOpen (T 1); SCreate (T 1)]) = [RHandle 0; RErr EFileOpen; RErr EFileOpen]
  /\ snd (mrun true m_empty [SCreate (T 1); SCreate (T 2); HClose 0; SRename (T 1) (T 2)]) = [RHandle 0; RHandle 1; ROk; RErr EFileOpen]
  /\ snd (crun c_empty [SCreate (T 1); SCreate (T 2); HClose 0; SRename (T 1) (T 2)]) = [RHandle 0; RHandle 1; ROk; ROk].
Proof. vm_compute. repeat split; reflexivity. Qed.
(* D4 *)
Example C18M_dev_mem_packfile_wrap :
  let big := T (5 + 1152921504606846976) in
  snd (crun c_empty [SCreate (T 5); HClose 0; SOpen big; SList 15]) = [RHandle 0; ROk; RErr ENotExist; RList [T 5]]
  /\ snd (mrun true m_empty [SCreate (T 5); HClose 0; SOpen big; SList 15]) = [RHandle 0; ROk; RHandle 1; RList [T 5]]
  /\ snd (mrun true m_empty [SCreate big; SList 15]) = [RHandle 0; RList [T 5]].
Proof. vm_compute. repeat split; reflexivity. Qed.
(* D5 *)
Example C18M_dev_mem_use_after_close :
  snd (crun c_empty [SCreate (T 1); HClose 0; HWrite 0 [1]; SOpen (T 1); HReadAll 1]) = [RHandle 0; ROk; RErr EClosed; RHandle 1; RData []]
  /\ snd (mrun true m_empty [SCreate (T 1); HClose 0; HWrite 0 [1]; SOpen (T 1); HReadAll 1]) = [RHandle 0; ROk; ROk; RHandle 1; RData [1]].
Proof. vm_compute. split; reflexivity. Qed.

(* F0: GetMeta falls back to CURRENT.bak *)
Definition ex_bak : list sop :=
  [SCreate (M 1); SCreate (M 2); SSetMeta (M 1); SSetMeta (M 2); SGetMeta; SRemove (M 2); SGetMeta].
Example C18M_dev_fs_getmeta_bak :
  snd (crun c_empty ex_bak) = [RHandle 0; RHandle 1; ROk; ROk; RFd (M 2); ROk; RErr ENotExist]
  /\ snd (qrun q_empty ex_bak) = [RHandle 0; RHandle 1; ROk; ROk; RFd (M 2); ROk; RFd (M 1)].
Proof. vm_compute. split; reflexivity. Qed.
(* F1 / F2: a directory holding 000005.sst *)
Definition q_sst : qst := QS [] [([48;48;48;48;48;53;46;115;115;116], 0%nat)] [[9]] [] [] false None 0.
Example C18M_dev_fs_old_names :
  snd (qrun q_sst [SOpen (T 5); HReadAll 0; SCreate (T 5); SList 4; HClose 1; SRemove (T 5); SOpen (T 5); SRename (T 5) (T 6)])
  = [RHandle 0; RData [9]; RHandle 1; RList [T 5; T 5]; ROk; ROk; RHandle 2; RErr ENotExist]
  /\ snd (crun (q_abs q_sst) [SOpen (T 5)]) = [RErr ENotExist]
  /\ dev_fs q_sst (SOpen (T 5)) = true /\ dev_fs q_sst (SList 4) = true.
Proof. vm_compute. repeat split; reflexivity. Qed.
(* F3 *)
Definition ex_trunc : list sop :=
  [SCreate (T 1); HWrite 0 [1;2;3]; SOpen (T 1); SCreate (T 1); HReadAll 1; HWrite 2 [9]; HWrite 0 [7]; SOpen (T 1); HReadAll 3].
Example C18M_dev_fs_create_truncates :
  snd (crun c_empty ex_trunc) = [RHandle 0; ROk; RHandle 1; RHandle 2; RData [1;2;3]; ROk; ROk; RHandle 3; RData [9]]
  /\ snd (qrun q_empty ex_trunc) = [RHandle 0; ROk; RHandle 1; RHandle 2; RData []; ROk; ROk; RHandle 3; RData [9;0;0;7]].
Proof. vm_compute. split; reflexivity. Qed.
(* F4 *)
Example C18M_dev_fs_closed_handle_error :
  snd (crun c_empty [SCreate (T 1); HClose 0; HWrite 0 [1]; HClose 0]) = [RHandle 0; ROk; RErr EClosed; RErr EClosed]
  /\ snd (qrun q_empty [SCreate (T 1); HClose 0; HWrite 0 [1]; HClose 0]) = [RHandle 0; ROk; RErr EOsClosed; RErr EClosed].
Proof. vm_compute. split; reflexivity. Qed.
(* F5 *)
Example C18M_dev_fs_live_reader :
  snd (crun c_empty [SCreate (T 1); HWrite 0 [1]; SOpen (T 1); HWrite 0 [2]; HReadAll 1]) = [RHandle 0; ROk; RHandle 1; ROk; RData [1]]
  /\ snd (qrun q_empty [SCreate (T 1); HWrite 0 [1]; SOpen (T 1); HWrite 0 [2]; HReadAll 1]) = [RHandle 0; ROk; RHandle 1; ROk; RData [1;2]].
Proof. vm_compute. split; reflexivity. Qed.
(* V1, V2 *)
Example C18M_dev_vstor :
  snd (vrun c_empty [SClose; SLock; SSetMeta (M 1); SGetMeta]) = [ROk; RLockId 0; ROk; RFd (M 1)]
  /\ snd (crun c_empty [SClose; SLock; SSetMeta (M 1); SGetMeta]) = [ROk; RErr EClosed; RErr EClosed; RErr EClosed]
  /\ snd (crun c_empty [SSetMeta (M 1); SGetMeta]) = [ROk; RErr ENotExist].
Proof. vm_compute. repeat split; reflexivity. Qed.
