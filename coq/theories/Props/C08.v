(* Props/C08.v — property C08: storage errors never cause wrong answers or loss of acknowledged writes.
   Property theorems only.  The fault model is Store/Faults.v: every persistence step of the L2 model
   (Store/Crash.v) together with its failing variants — a journal write that fails after a prefix of the
   record (torn, or whole), a journal Sync that fails, a journal Create that fails in a rotation, failures of
   table files, a manifest write or Sync that fails in a flush / compaction / transaction commit (the record
   is in the file or not; manifestFailed; the next commit writes a FRESH manifest), failures of that fresh
   manifest, failed removals, a transaction whose commit fails and is retried or discarded — each with the
   result the caller sees.  The state keeps what the FILES hold and what the running DB has COMMITTED IN
   MEMORY apart, exactly where a failed commit lets them differ.
   What the theorems cover: persistence (which batches any later crash image, or the clean-close image,
   recovers) and liveness of the write path after faults.  NOT covered by a theorem (checked by the
   fault-enumeration oracle on the implementation only, and by C12/C13 for damaged bytes): that every READ
   while faults are active answers correctly or reports an error. *)
From GL Require Import Store.Crash Store.CrashProofs Store.Faults Store.FaultsProofs.
From Coq Require Import Arith Lia.

(* C08_faults_safe.  For EVERY sequence of steps, failing or not (writes, journal-write / sync / create
   failures, rotations, flushes and compactions whose table or manifest operations fail, fresh manifests that
   fail, transactions whose commit fails and is retried or discarded, crashes with recovery, clean reopens),
   for every admissible crash image of the files reached — the clean-close image included, see
   C08_clean_close_is_image — and for every list L that a recovery may return, namely the model's recovery
   with any of the errored journal records left out (such a record was never applied to the buffer, so it
   is lost once its journal file is superseded):
     - every batch acknowledged to its caller is in L            (acked ⊆ L),
     - L holds only issued batches — acknowledged ones, and errored ones whose record reached a file: a
       write reported failed is wholly in or wholly out, batches being the atoms of the model  (L ⊆ issued),
     - L is strictly ordered by sequence number: no two kept batches share a sequence number (the defect D3)
       and the kept batches appear in the order of their numbers, which is their issue order. *)
Theorem C08_faults_safe : forall ops img L, is_image (f_p (frun ops)) img ->
  sublist L (recover img) -> (forall b, In b (recover img) -> ~ In b L -> In b (f_unknown (frun ops))) ->
  (forall b, In b (p_acked (f_p (frun ops))) -> In b L) /\
  (forall b, In b L -> In b (p_issued (f_p (frun ops)))) /\
  sorted_b L.
Proof. exact faults_safe. Qed.
Print Assumptions C08_faults_safe.

(* the invariant behind it — the L2 invariant for the file view AND for the memory view, equal
   acknowledgement lists, errored records numbered below the current sequence number and never acknowledged —
   holds after every step, failing or not: the guarantee above continues to hold whatever happens next *)
Theorem C08_invariant_reachable : forall ops, finv (frun ops).
Proof. exact finv_run. Qed.
Print Assumptions C08_invariant_reachable.

Theorem C08_failing_step_preserves_invariant : forall s o, finv s -> finv (fstep s o).
Proof. exact finv_step. Qed.
Print Assumptions C08_failing_step_preserves_invariant.

(* heal, close, reopen: the image that keeps every written byte is admissible *)
Theorem C08_clean_close_is_image : forall ops,
  let p := f_p (frun ops) in
  is_image p (mk_image p (length (j_recs (p_live p))) (match p_frozen p with Some f => length (j_recs f) | None => 0%nat end)
                         (length (p_man p))).
Proof. exact faults_clean_close_is_image. Qed.
Print Assumptions C08_clean_close_is_image.

(* reopening never fails because of an earlier fault: in no admissible image does the manifest name a table
   that a discard removed (the only way a fault makes Open fail in the model; damaged bytes are C12/C13) *)
Theorem C08_recovery_succeeds : forall ops img, is_image (f_p (frun ops)) img ->
  frecover (frun ops) img = Some (recover img).
Proof. exact recovery_succeeds. Qed.
Print Assumptions C08_recovery_succeeds.

(* what was acknowledged stays acknowledged (so C08_faults_safe at any later point covers it), and a synced
   write that the model lets succeed is acknowledged *)
Theorem C08_acked_never_forgotten : forall s ops, finv s -> incl (p_acked (f_p s)) (p_acked (f_p (frun_from s ops))).
Proof. exact acked_monotone_run. Qed.
Print Assumptions C08_acked_never_forgotten.

Theorem C08_sync_write_acked : forall s n, wr_ok s = true -> n <> 0 -> fres s (FOk (PWrite n true)) = ROk /\
  In {| b_seq := p_seq (f_p s) + 1; b_n := n |} (p_acked (f_p (fstep s (FOk (PWrite n true))))).
Proof. exact sync_write_acked. Qed.
Print Assumptions C08_sync_write_acked.

(* after the fault is removed the DB is usable: from ANY state, whatever failed before, discarding the open
   transaction, finishing the pending commit and flush and rotating the journal (what the repaired code does
   by itself once its storage works) lead to a state that accepts a synced write and acknowledges it *)
Theorem C08_usable_after_faults : forall s,
  let s' := frun_from s (removelast heal_ops) in
  fres s' (FOk (PWrite 1 true)) = ROk /\
  In {| b_seq := p_seq (f_p s') + 1; b_n := 1 |} (p_acked (f_p (fstep s' (FOk (PWrite 1 true))))).
Proof. exact usable_write_acked. Qed.
Print Assumptions C08_usable_after_faults.

(* ---- non-vacuity: a history with every kind of failure ---- *)
Definition b (s n : N) : batch := {| b_seq := s; b_n := n |}.

Definition ex_fault_ops : list fop :=
  [FOk (PWrite 2 true);                (* acknowledged *)
   FJWrite 1 true;                     (* the journal write fails although the whole record reached the file *)
   FOk (PWrite 1 true);                (* refused: the journal must be rotated first *)
   FOk PRotate; FOk (PWrite 1 true);   (* acknowledged *)
   FManFail PFlushEdit true;           (* the flush edit is written, its Sync fails *)
   FFreshFail;                         (* the fresh manifest fails too *)
   FOk PFlushEdit;                     (* now it succeeds: one record, snapshot + edit *)
   FOk PDropFrozen; FOk PRotate; FOk PFlushEdit; FOk PManSync; FOk PDropFrozen;
   FTxnBegin 2; FTxnCommitFail true;   (* the transaction record reaches the manifest, the commit fails *)
   FTxnCommitFail false;               (* so does the retry on a fresh manifest *)
   FTxnDiscard false;                  (* and the fresh manifest of the discard: the tables stay *)
   FOk (PWrite 1 true);                (* acknowledged, numbered past the transaction *)
   FJSync 3].                          (* written, Sync fails *)

Example C08_nonvacuous :
  let s := frun ex_fault_ops in
  p_acked (f_p s) = [b 1 2; b 4 1; b 7 1] /\
  f_unknown s = [b 3 1; b 8 3] /\
  (* the weakest image: unsynced tails lost — the errored first record happens to sit in a table by now *)
  recover (mk_image (f_p s) 0 0 0) = [b 1 2; b 3 1; b 4 1; b 7 1] /\
  (* the clean-close image: the failed transaction (its record and tables stayed) and the unsynced record are back *)
  recover (mk_image (f_p s) 9 9 9) = [b 1 2; b 3 1; b 4 1; b 5 2; b 7 1; b 8 3] /\
  map (fun k => fres (frun (firstn k ex_fault_ops)) (nth k ex_fault_ops FWriteEarly)) (seq 0 19) =
    [ROk; RErr; RErr; ROk; ROk; RErr; RErr; ROk; ROk; ROk; ROk; ROk; ROk; ROk; RErr; RErr; ROk; ROk; RErr].
Proof. repeat split; vm_compute; reflexivity. Qed.

(* the list L of the theorem may leave errored records out: e.g. the real recovery of the weakest image *)
Example C08_nonvacuous_dropped :
  let s := frun ex_fault_ops in
  let L := [b 1 2; b 4 1; b 7 1] in
  sublist L (recover (mk_image (f_p s) 0 0 0)) /\
  (forall x, In x (recover (mk_image (f_p s) 0 0 0)) -> ~ In x L -> In x (f_unknown s)).
Proof.
  cbn zeta. split.
  - vm_compute. apply sl_keep, sl_skip, sl_keep, sl_keep, sl_nil.
  - vm_compute. intros x [<-|[<-|[<-|[<-|[]]]]] Hn; auto; exfalso; apply Hn; auto.
Qed.

(* a transaction right after an errored write: the live buffer is empty, OpenTransaction does not rotate, the
   transaction commits; the errored record is numbered below it and is gone *)
Example C08_txn_after_errored_record :
  let s := frun [FJSync 2; FOk (PTxnCommit 3); FOk PRotate; FOk (PWrite 1 true); FOk PDropFrozen] in
  p_acked (f_p s) = [b 3 3; b 6 1] /\ recover (mk_image (f_p s) 0 0 0) = [b 3 3; b 6 1] /\
  recover (mk_image (f_p s) 9 9 9) = [b 3 3; b 6 1].
Proof. repeat split; vm_compute; reflexivity. Qed.

(* ---- refuted: the behaviours repaired since (see known_findings.txt), as witnesses by computation ---- *)

(* D3 (repaired 184f2b9): a failed journal Sync left the record in the journal without advancing the
   sequence number; the next acknowledged batch reused it and recovery skipped that batch. *)
Definition unfixed_sync_failure (s : pstate) (n : N) : pstate :=
  {| p_live := jappend (p_live s) {| b_seq := p_seq s + 1; b_n := n |} false; p_frozen := p_frozen s;
     p_fedit := p_fedit s; p_fseq := p_fseq s; p_man := p_man s; p_msynced := p_msynced s; p_seq := p_seq s;
     p_issued := p_issued s ++ [{| b_seq := p_seq s + 1; b_n := n |}]; p_acked := p_acked s |}.

Example C08_sync_failure_reuses_seq_refuted :
  let s := pstep (unfixed_sync_failure (pstep p_init (PWrite 1 true)) 2) (PWrite 1 true) in
  In (b 2 1) (p_acked s) /\ recover (mk_image s 9 9 9) = [b 1 1; b 2 2].
Proof. split; [vm_compute; right; left; reflexivity|vm_compute; reflexivity]. Qed.

Example C08_sync_failure_fixed :
  let s := frun [FOk (PWrite 1 true); FJSync 2; FOk PRotate; FOk (PWrite 1 true)] in
  recover (mk_image (f_p s) 9 9 9) = [b 1 1; b 2 2; b 4 1] /\ p_acked (f_p s) = [b 1 1; b 4 1].
Proof. split; vm_compute; reflexivity. Qed.

(* C11-K1 (repaired 253bc87): Discard after a failed commit removed the transaction's tables although its
   record sat in the manifest; the next Open found the manifest naming missing files. *)
Definition unfixed_discard (s : fstate) : fstate :=
  match f_txn s with
  | Some (n, _) =>
      {| f_p := f_p s; f_m := f_m s; f_jfail := f_jfail s; f_mfail := f_mfail s; f_pend := f_pend s; f_txn := None;
         f_unknown := f_unknown s; f_gone := f_gone s ++ [{| b_seq := p_seq (f_m s) + 1; b_n := n |}] |}
  | None => s
  end.

Example C08_txn_commit_failure_refuted :
  let s := unfixed_discard (frun [FOk (PWrite 1 true); FOk PRotate; FOk PFlushEdit; FOk PManSync; FOk PDropFrozen;
                                  FTxnBegin 2; FTxnCommitFail true]) in
  frecover s (mk_image (f_p s) 9 9 9) = None /\ p_acked (f_p s) = [b 1 1].
Proof. split; vm_compute; reflexivity. Qed.

(* with the repaired discard the same history recovers, with or without the transaction, never with a hole *)
Example C08_txn_commit_failure_fixed :
  let pre := [FOk (PWrite 1 true); FOk PRotate; FOk PFlushEdit; FOk PManSync; FOk PDropFrozen; FTxnBegin 2; FTxnCommitFail true] in
  let s1 := frun (pre ++ [FTxnDiscard true]) in
  let s2 := frun (pre ++ [FTxnDiscard false]) in
  frecover s1 (mk_image (f_p s1) 9 9 9) = Some [b 1 1] /\ f_gone s1 = [b 2 2] /\
  frecover s2 (mk_image (f_p s2) 9 9 9) = Some [b 1 1; b 2 2] /\ f_gone s2 = [].
Proof. repeat split; vm_compute; reflexivity. Qed.

(* F4 (repaired 062aaf9): a failed commit did not consume the transaction's sequence numbers; when its
   record stayed in the manifest (every fresh manifest failed, the tables were kept) a later acknowledged
   write reused them and journal recovery skipped it — after a CLEAN close. *)
Definition unfixed_txn_fail_kept (s : fstate) (n : N) : fstate :=
  let p := f_p s in
  let x := {| b_seq := p_seq p + 1; b_n := n |} in
  let p' := {| p_live := p_live p; p_frozen := p_frozen p; p_fedit := p_fedit p; p_fseq := p_fseq p;
               p_man := p_man p ++ [{| m_jnum := None; m_seq := Some (p_seq p + n); m_tab := [x] |}];
               p_msynced := p_msynced p; p_seq := p_seq p; p_issued := p_issued p ++ [x]; p_acked := p_acked p |} in
  {| f_p := p'; f_m := f_m s; f_jfail := f_jfail s; f_mfail := true; f_pend := true; f_txn := None;
     f_unknown := f_unknown s; f_gone := f_gone s |}.

Example C08_txn_commit_failure_reuses_seq_refuted :
  let s := fstep (unfixed_txn_fail_kept (frun [FOk (PWrite 1 true); FOk PRotate; FOk PFlushEdit; FOk PManSync; FOk PDropFrozen]) 2)
                 (FOk (PWrite 1 true)) in
  In (b 2 1) (p_acked (f_p s)) /\ recover (mk_image (f_p s) 9 9 9) = [b 1 1; b 2 2].
Proof. split; [vm_compute; right; left; reflexivity|vm_compute; reflexivity]. Qed.

Example C08_txn_commit_failure_consumes_seq_fixed :
  let s := frun [FOk (PWrite 1 true); FOk PRotate; FOk PFlushEdit; FOk PManSync; FOk PDropFrozen;
                 FTxnBegin 2; FTxnCommitFail true; FTxnDiscard false; FOk (PWrite 1 true)] in
  p_acked (f_p s) = [b 1 1; b 4 1] /\ recover (mk_image (f_p s) 9 9 9) = [b 1 1; b 2 2; b 4 1].
Proof. split; vm_compute; reflexivity. Qed.

(* F1 (repaired d202791): newMem returned on a failed finish of the old journal after journal.Reset had
   pointed the journal writer at the new file, leaving db.journalWriter and db.journalFd on the old one:
   later records went to the new file, Sync to the old; a write acknowledged with Sync was not durable. *)
Definition unfixed_rotate_switch (p : pstate) : pstate :=
  {| p_live := {| j_num := j_num (p_live p) + 1; j_recs := []; j_synced := 0 |}; p_frozen := Some (p_live p);
     p_fedit := false; p_fseq := p_seq p; p_man := p_man p; p_msynced := p_msynced p; p_seq := p_seq p;
     p_issued := p_issued p; p_acked := p_acked p |}.
Definition unfixed_split_write (p : pstate) (n : N) : pstate :=
  let x := {| b_seq := p_seq p + 1; b_n := n |} in
  {| p_live := jappend (p_live p) x false;                               (* written to the new file *)
     p_frozen := option_map all_synced (p_frozen p);                     (* the Sync reaches the old one *)
     p_fedit := p_fedit p; p_fseq := p_fseq p; p_man := p_man p; p_msynced := p_msynced p; p_seq := p_seq p + n;
     p_issued := p_issued p ++ [x]; p_acked := p_acked p ++ [x] |}.

Example C08_rotate_switch_failure_refuted :
  let s := unfixed_split_write (unfixed_rotate_switch (pstep p_init (PWrite 1 true))) 1 in
  p_acked s = [b 1 1; b 2 1] /\ recover (mk_image s 0 0 0) = [b 1 1].
Proof. split; vm_compute; reflexivity. Qed.

(* F3 (repaired 79a35be): after a failed journal write every later write failed (the journal writer's error
   is sticky and nothing rotated the journal).  In the model a write attempt in that state changes nothing
   and fails, however often it is repeated; only the rotation (which the repaired write path now performs
   itself) brings the DB back. *)
Example C08_failed_journal_write_needs_rotation :
  let s := frun [FOk (PWrite 1 true); FJWrite 1 false] in
  fres s (FOk (PWrite 1 true)) = RErr /\ fstep s (FOk (PWrite 1 true)) = s /\
  fres (fstep s (FOk PRotate)) (FOk (PWrite 1 true)) = ROk.
Proof. repeat split; vm_compute; reflexivity. Qed.
