(* Props/C08.v — property C08: storage errors never cause wrong answers or loss of acknowledged writes.
   Property theorems only.  At the persistence level a write that returned an error is, in the model of
   Store/Crash.v, either absent (the journal write itself failed; the journal writer's error is sticky, so no
   later record follows it in that journal) or an unsynced, unacknowledged record that consumed its sequence
   numbers (only the Sync failed — the behaviour after the "fix:" commit recorded in known_findings.txt), i.e.
   [PWrite n false]; failed flushes, compactions and manifest writes are retried and leave no committed
   edit.  Hence the crash-safety theorem covers every such history, with "clean close and reopen" being the
   strongest admissible image.  PARTIAL: in-memory visibility while running (the errored batch is not in the
   write buffer) and read-path errors are checked on the implementation only.  A journal write that failed
   altogether is the step [PSkipSeq n] (nothing durable, sequence numbers consumed). *)
From GL Require Import Store.Crash Store.CrashProofs.
From Coq Require Import Arith Lia.

(* Whatever mix of acknowledged and errored writes, rotations, flushes and commits happened, after any crash —
   in particular after a clean close, the image that keeps everything — reopening yields every acknowledged
   batch, only issued batches (errored ones included: their fate settles at reopen), each whole, at most once,
   in issue order. *)
Theorem C08_faults_safe_partial : forall ops img, is_image (prun ops) img ->
  (forall b, In b (p_acked (prun ops)) -> In b (recover img)) /\
  (forall b, In b (recover img) -> In b (p_issued (prun ops))) /\
  sorted_b (recover img).
Proof. exact crash_safe. Qed.
Print Assumptions C08_faults_safe_partial.

(* the clean-close image is admissible *)
Theorem C08_clean_close_is_image : forall s, pinv s ->
  is_image s (mk_image s (length (j_recs (p_live s)))
                         (match p_frozen s with Some f => length (j_recs f) | None => 0 end)
                         (length (p_man s))).
Proof. exact clean_close_is_image. Qed.
Print Assumptions C08_clean_close_is_image.

(* The behaviour of the unrepaired code is refuted by a witness: the failed Sync leaves record b in the journal
   without advancing the sequence number, the next (acknowledged) batch c reuses it, and recovery skips c. *)
Definition unfixed_sync_failure (s : pstate) (n : N) : pstate :=
  {| p_live := jappend (p_live s) {| b_seq := p_seq s + 1; b_n := n |} false; p_frozen := p_frozen s;
     p_fedit := p_fedit s; p_fseq := p_fseq s; p_man := p_man s; p_msynced := p_msynced s; p_seq := p_seq s;
     p_issued := p_issued s ++ [{| b_seq := p_seq s + 1; b_n := n |}]; p_acked := p_acked s |}.

Example C08_sync_failure_reuses_seq_refuted :
  let s := pstep (unfixed_sync_failure (pstep p_init (PWrite 1 true)) 2) (PWrite 1 true) in
  In {| b_seq := 2; b_n := 1 |} (p_acked s) /\
  recover (mk_image s 9 9 9) = [{| b_seq := 1; b_n := 1 |}; {| b_seq := 2; b_n := 2 |}].
Proof. split; [vm_compute; right; left; reflexivity|vm_compute; reflexivity]. Qed.

(* with the repaired behaviour the same scenario keeps the acknowledged batch *)
Example C08_sync_failure_fixed :
  let s := prun [PWrite 1 true; PWrite 2 false; PWrite 1 true] in
  recover (mk_image s 9 9 9) = [{| b_seq := 1; b_n := 1 |}; {| b_seq := 2; b_n := 2 |}; {| b_seq := 4; b_n := 1 |}] /\
  p_acked s = [{| b_seq := 1; b_n := 1 |}; {| b_seq := 4; b_n := 1 |}].
Proof. split; vm_compute; reflexivity. Qed.
