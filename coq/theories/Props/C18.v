(* Props/C18.v — property C18: ownership and lifecycle — one owner, read-only means read-only, closed is closed.
   Property theorems only; each is closed by [exact lemma] and followed by Print Assumptions.

   The machine (Store/Lifecycle.v): one storage (lock flag, abstract file set, mutation log = upper bound of the
   mutating storage operations a call may issue), any number of DB handles opened on it one after the other
   (modes RW / ROpened / RSwitched / Closed), per DB its snapshots, iterators (real or "empty" error iterators)
   and transactions; [step : state -> call -> state * outcome] for Open, for every exported method of *DB,
   *Snapshot, *Transaction and of iterator.Iterator (Inductive api_call; the correspondence run compares the
   enumeration with reflection on the Go types), and for "background work drains".
   All theorems hold for every state reachable from ANY initial storage by ANY call sequence.
   The first argument of step / run / run_out selects the code variant: [true] everywhere = the tree as it is (the
   compaction goroutines start no work once the DB is in its persistent-error state); [false] = the code before
   that repair, used only by the refutation witness of theorem 5. *)
From Coq Require Import List NArith Bool.
From GL Require Import Store.Lifecycle Store.LifecycleLocal Store.LifecycleProofs.
From GL Require Import Base.Bytes Store.FileStorage Store.FileStorageProofs.
From GL Require Store.ApiTotality Store.ApiTotalityProofs.
From Coq Require Import ZArith.
Import ListNotations.
Open Scope nat_scope.

(* 0. the enumeration is the whole inductive type *)
Theorem C18_api_enumeration_complete : forall m, In m all_api.
Proof. exact all_api_complete. Qed.
Print Assumptions C18_api_enumeration_complete.

(* 1. Single owner: while some DB is open on the storage every further Open fails with ErrLocked and changes
      nothing; at most one DB is open at any time; Close (of a DB in any open mode, whatever it holds) succeeds,
      releases the lock, and the next Open succeeds and yields a new DB. *)
Theorem C18_single_owner : forall s d db ro seek,
  reachable s -> nth_error (dbs s) d = Some db -> dmode db <> Closed ->
  step true s (COpen ro seek) = (s, ErrLocked).
Proof. exact single_owner_locked. Qed.
Print Assumptions C18_single_owner.

Theorem C18_at_most_one_open : forall s d1 d2 a b,
  reachable s -> nth_error (dbs s) d1 = Some a -> dmode a <> Closed ->
  nth_error (dbs s) d2 = Some b -> dmode b <> Closed -> d1 = d2.
Proof. exact single_owner_unique. Qed.
Print Assumptions C18_at_most_one_open.

Theorem C18_available_after_close : forall s d db h,
  reachable s -> nth_error (dbs s) d = Some db -> dmode db <> Closed ->
  let s' := fst (step true s (CApi d h DbClose)) in
  snd (step true s (CApi d h DbClose)) = Ok /\ locked (stor s') = false /\
  (exists db', nth_error (dbs s') d = Some db' /\ dmode db' = Closed) /\
  forall ro seek, snd (step true s' (COpen ro seek)) = Ok /\
                  List.length (dbs (fst (step true s' (COpen ro seek)))) = S (List.length (dbs s')).
Proof. exact close_releases. Qed.
Print Assumptions C18_available_after_close.

(* 2. Closed is closed: for EVERY api_call m, on every handle index, of a closed DB: the outcome is the closed
      class of that method (Lifecycle.closed_outcome: ErrClosed for every *DB method; the handle's own
      released / transaction-done error, else ErrClosed, for handles), the storage (lock, files, mutation log)
      is untouched, the DB stays closed with no background work, other DBs are untouched, and for *DB methods
      other than NewIterator (which returns a fresh error iterator) the whole state is unchanged. *)
Theorem C18_closed_is_closed : forall s d db h m,
  reachable s -> nth_error (dbs s) d = Some db -> dmode db = Closed ->
  let s' := fst (step true s (CApi d h m)) in
  snd (step true s (CApi d h m)) = closed_outcome db h m /\
  stor s' = stor s /\
  (exists db', nth_error (dbs s') d = Some db' /\ dmode db' = Closed /\ dbg db' = false) /\
  (forall d', d' <> d -> nth_error (dbs s') d' = nth_error (dbs s) d') /\
  (recv m = RDb -> m <> DbNewIterator -> s' = s).
Proof. exact closed_is_closed. Qed.
Print Assumptions C18_closed_is_closed.

Theorem C18_closed_db_methods_return_ErrClosed : forall db h m, recv m = RDb -> closed_outcome db h m = ErrClosed.
Proof. exact closed_db_methods_return_ErrClosed. Qed.
Print Assumptions C18_closed_db_methods_return_ErrClosed.

Theorem C18_double_close_harmless : forall s d db h,
  nth_error (dbs s) d = Some db -> dmode db = Closed -> step true s (CApi d h DbClose) = (s, ErrClosed).
Proof. exact double_close_harmless. Qed.
Print Assumptions C18_double_close_harmless.

(* 3. Read-only (opened or switched): every writer-path method of *DB (Put, Delete, Write of a non-empty batch,
      CompactRange, OpenTransaction, SetReadOnly) returns ErrReadOnly and changes nothing at all; every read
      method succeeds without touching the storage; no call other than Close and the Release of an iterator
      touches the storage (Close of a switched DB may abort in-flight work, releasing an iterator that pins an
      old version lets the files only it kept alive be removed); on a DB OPENED read-only no call whatsoever
      adds to the mutation log. *)
Theorem C18_ro_rejects_writes_serves_reads : forall s d db h m,
  reachable s -> nth_error (dbs s) d = Some db -> is_ro (dmode db) = true ->
  let s' := fst (step true s (CApi d h m)) in
  let o := snd (step true s (CApi d h m)) in
  (recv m = RDb -> takes_write_lock m = true -> o = ErrReadOnly /\ s' = s) /\
  (recv m = RDb -> db_read m = true -> o = Ok /\ stor s' = stor s) /\
  (m <> DbClose -> m <> ItRelease -> stor s' = stor s) /\
  (dmode db = ROpened -> mlog (stor s') = mlog (stor s)).
Proof. exact ro_rejects_writes_serves_reads. Qed.
Print Assumptions C18_ro_rejects_writes_serves_reads.

(* 4. Opening read-only is pure: from any reachable state whose storage is free, Open(ReadOnly) followed by ANY
      call sequence that does not re-open read-write (calls on the new DB, on its handles, on older closed DBs
      and their handles, Close, further read-only Opens, drains) leaves the mutation log unchanged. *)
Theorem C18_ro_open_pure : forall s seek l,
  reachable s -> locked (stor s) = false -> forallb no_rw_open l = true ->
  mlog (stor (run true s (COpen true seek :: l))) = mlog (stor s).
Proof. exact ro_open_pure. Qed.
Print Assumptions C18_ro_open_pure.

(* 5. A DB switched to read-only quiesces (FULL since the repair "a DB in the persistent-error state starts no flush
      and no table compaction": db_compaction.go mCompaction / tCompaction test compPerErrC before starting work and
      return): once the iterators obtained earlier have been released and the background work that was in flight
      at the switch has drained, no later call sequence (short of a read-write re-open) issues a mutation --
      whatever the seek-compaction option.  The job running at the switch may complete (it was started before
      SetReadOnly returned; the drain stands for it); a frozen memdb whose flush had not started stays in memory
      and in its journal.
      The code before the repair (machine variant parks = false) is refuted below: after SetReadOnly the
      compaction goroutines kept running and a plain Get scheduled a seek compaction
      (C18_ro_quiesces_refuted_before_repair); the same calls on the repaired machine leave the log alone. *)
Theorem C18_ro_quiesces : forall s d db l,
  reachable s -> nth_error (dbs s) d = Some db -> dmode db = RSwitched ->
  iters_released db = true ->
  forallb no_rw_open l = true ->
  let s1 := fst (step true s (CDrain d)) in
  mlog (stor (run true s1 l)) = mlog (stor s1).
Proof. exact ro_quiesces. Qed.
Print Assumptions C18_ro_quiesces.

Theorem C18_ro_quiesces_refuted_before_repair :
  exists s d db l,
    reachable_of false s /\ nth_error (dbs s) d = Some db /\ dmode db = RSwitched /\ iters_released db = true /\
    forallb no_rw_open l = true /\
    let s1 := fst (step false s (CDrain d)) in
    mlog (stor (run false s1 l)) <> mlog (stor s1).
Proof. exact ro_quiesces_refuted_before_repair. Qed.
Print Assumptions C18_ro_quiesces_refuted_before_repair.

Example C18_ro_quiesces_same_calls_repaired :
  let s := run true (init_state false [] 1%N) [COpen false true; CApi 0 0 DbPut; CApi 0 0 DbSetReadOnly] in
  let s1 := fst (step true s (CDrain 0)) in
  mlog (stor (run true s1 [CApi 0 0 DbGet; CDrain 0])) = mlog (stor s1).
Proof. exact ro_quiesces_same_calls_repaired. Qed.

(* 6. Released handles report their own errors, never touch the storage:
      released snapshot: Get / Has / NewIterator -> ErrSnapshotReleased (whatever the DB's mode, closed included);
      released iterator: the first movement reports ErrIterReleased and the error sticks (Error, Valid, Key,
      Value and every later movement), SetReleaser panics as util.ReleaseSetter documents;
      finished transaction: its transaction-done error (Commit tests the DB first: ErrClosed once closed);
      and every transaction of a DB that is not read-write is finished (Close discards the open one). *)
Theorem C18_released_snapshot_reports : forall s d db h m,
  nth_error (dbs s) d = Some db -> nth_error (dsnaps db) h = Some true ->
  m = SnGet \/ m = SnHas \/ m = SnNewIterator ->
  snd (step true s (CApi d h m)) = ErrSnapshotReleased /\ stor (fst (step true s (CApi d h m))) = stor s.
Proof. exact released_snapshot_reports. Qed.
Print Assumptions C18_released_snapshot_reports.

Theorem C18_released_iterator_reports : forall s d db h i m,
  nth_error (dbs s) d = Some db -> nth_error (diters db) h = Some i ->
  irel i = true -> ierr i = Ok -> it_move m = true ->
  let s' := fst (step true s (CApi d h m)) in
  snd (step true s (CApi d h m)) = ErrIterReleased /\ stor s' = stor s /\
  forall m', it_move m' = true \/ m' = ItValid \/ m' = ItError \/ m' = ItKey \/ m' = ItValue ->
    step true s' (CApi d h m') = (s', ErrIterReleased).
Proof. exact released_iterator_reports. Qed.
Print Assumptions C18_released_iterator_reports.

Theorem C18_released_iterator_setreleaser_panics : forall s d db h i b,
  nth_error (dbs s) d = Some db -> nth_error (diters db) h = Some i -> irel i = true ->
  step true s (CApi d h (ItSetReleaser b)) = (s, Panics).
Proof. exact released_iterator_setreleaser_panics. Qed.
Print Assumptions C18_released_iterator_setreleaser_panics.

Theorem C18_finished_transaction_reports : forall s d db h t m,
  nth_error (dbs s) d = Some db -> nth_error (dtxns db) h = Some t -> tdone t = true -> recv m = RTxn ->
  snd (step true s (CApi d h m)) =
    match m with
    | TrWrite true | TrDiscard => Ok
    | TrCommit => if is_closed (dmode db) then ErrClosed else ErrTransactionDone
    | _ => ErrTransactionDone
    end /\ stor (fst (step true s (CApi d h m))) = stor s.
Proof. exact finished_transaction_reports. Qed.
Print Assumptions C18_finished_transaction_reports.

Theorem C18_only_rw_db_has_open_transaction : forall s d db h t,
  reachable s -> nth_error (dbs s) d = Some db -> dmode db <> RW -> nth_error (dtxns db) h = Some t -> tdone t = true.
Proof. exact closed_db_transactions_done. Qed.
Print Assumptions C18_only_rw_db_has_open_transaction.

(* ---------------------------------------------------------------- non-vacuity *)

(* a history: create, write, snapshot, iterator, released snapshot, released iterator, open transaction with
   writes, Close (with all of them outstanding), then a read-only Open *)
Definition ex_calls : list call :=
  [COpen false true; CApi 0 0 DbPut; CApi 0 0 DbGetSnapshot; CApi 0 0 DbNewIterator; CApi 0 0 DbGetSnapshot;
   CApi 0 1 SnRelease; CApi 0 0 DbNewIterator; CApi 0 1 ItRelease; CApi 0 0 DbOpenTransaction; CApi 0 0 TrPut;
   CApi 0 0 DbClose; COpen true true].
Definition ex_state : state := run true (init_state false [] 1%N) ex_calls.

Example C18_nonvacuous :
  reachable ex_state /\
  (* DB 0 is closed with a live snapshot, a released one, an unreleased and a released iterator and a
     transaction that Close discarded; DB 1 is open read-only and holds the lock *)
  (exists db0 db1, nth_error (dbs ex_state) 0 = Some db0 /\ dmode db0 = Closed /\ dsnaps db0 = [false; true] /\
                   List.length (diters db0) = 2 /\ dtxns db0 = [mkTxn true true] /\
                   nth_error (dbs ex_state) 1 = Some db1 /\ dmode db1 = ROpened) /\
  locked (stor ex_state) = true /\
  (* the read-write history did mutate, the read-only open did not *)
  mlog (stor ex_state) <> [] /\
  mlog (stor ex_state) = mlog (stor (run true (init_state false [] 1%N) (removelast ex_calls))) /\
  (* outcomes on the closed DB / the read-only DB / the second Open *)
  run_out true ex_state
    [CApi 0 0 DbGet; CApi 0 0 DbPut; CApi 0 0 DbClose; CApi 0 0 SnGet; CApi 0 1 SnGet; CApi 0 0 TrPut; CApi 0 0 TrCommit;
     CApi 0 1 ItNext; CApi 0 1 ItError; CApi 0 1 (ItSetReleaser false); CApi 0 0 ItNext;
     CApi 1 0 DbGet; CApi 1 0 DbPut; CApi 1 0 DbSetReadOnly; COpen false true; CApi 1 0 DbClose; COpen false true]
  = [ErrClosed; ErrClosed; ErrClosed; ErrClosed; ErrSnapshotReleased; ErrTransactionDone; ErrClosed;
     ErrIterReleased; ErrIterReleased; Panics; Unspecified;
     Ok; ErrReadOnly; ErrReadOnly; ErrLocked; Ok; Ok].
Proof.
  split; [eexists _, _, _, _; reflexivity|].
  split; [eexists _, _; vm_compute; repeat split; reflexivity|].
  split; [vm_compute; reflexivity|].
  split; [vm_compute; discriminate|].
  split; vm_compute; reflexivity.
Qed.

(* the hypotheses of theorem 5 are satisfiable, with seek compaction ENABLED and work pending at the switch *)
Example C18_ro_quiesces_nonvacuous :
  let s := run true (init_state false [] 1%N) [COpen false true; CApi 0 0 DbPut; CApi 0 0 DbSetReadOnly] in
  reachable s /\ exists db, nth_error (dbs s) 0 = Some db /\ dmode db = RSwitched /\ dseek db = true /\ dbg db = true /\
                            iters_released db = true.
Proof. split; [eexists _, _, _, _; reflexivity|]. eexists; vm_compute; repeat split; reflexivity. Qed.

(* ================================================================ the real file storage (leveldb/storage/file_storage.go)

   Model: Store/FileStorage.v (names, SetMeta / GetMeta as sequences of file-system operations on a directory,
   the storage object with its flock and in-process lock).  The crash theorems are in Props/C04FS.v. *)

(* 7. File names.  fsParseName (fsGenName fd) = fd and fsParseName (fsGenOldName fd) = fd for EVERY descriptor
      whose number is an int64 (FileDescOk needs Num >= 0; the round trip also holds for negative numbers, which
      %06d prints with the sign inside the width); distinct descriptors have distinct names. *)
Theorem C18_name_roundtrip : forall fd, int64_ok (fd_num fd) = true ->
  parse_name (gen_name fd) = Some fd /\ parse_name (gen_old_name fd) = Some fd /\
  (forall fd', int64_ok (fd_num fd') = true -> gen_name fd' = gen_name fd -> fd' = fd).
Proof. exact name_roundtrip. Qed.
Print Assumptions C18_name_roundtrip.

(* Of the names the storage itself writes into its directory (descriptor names, old table names, CURRENT,
   CURRENT.bak, CURRENT.<n>, LOCK, LOG, LOG.old) fsParseName accepts exactly the descriptor names and returns the
   descriptor they were generated from: never a wrong descriptor. *)
Theorem C18_stored_names_never_wrong_fd : forall l fd,
  stored_name l -> parse_name l = Some fd -> l = gen_name fd \/ l = gen_old_name fd.
Proof. exact parse_stored_name. Qed.
Print Assumptions C18_stored_names_never_wrong_fd.

(* Whatever fsParseName accepts (any byte string: leading white space, a sign, a tail cut at white space, trailing
   garbage after it are all accepted by fmt.Sscanf) carries an int64, and generating the name of the result and
   parsing it again gives the same descriptor (so GetMeta's repair writes a CURRENT that reads back the same). *)
Theorem C18_parsed_names_regenerate : forall l fd,
  parse_name l = Some fd -> int64_ok (fd_num fd) = true /\ parse_name (gen_name fd) = Some fd.
Proof. intros l fd H. split; [exact (parse_name_int64 l fd H)|exact (parse_name_regen l fd H)]. Qed.
Print Assumptions C18_parsed_names_regenerate.

(* Numbers >= 2^63: a digit string whose value does not fit an int64 is not parsed in either form (List does not
   see such a file).  Longer digit strings / more leading zeros denote the SAME descriptor as the canonical
   name (List reports it, Open looks for the canonical name only). *)
Theorem C18_name_overflow_not_parsed : forall ds rest,
  digits_ok ds -> ds <> [] -> stops rest -> (two63 <= dval 0 ds)%N ->
  parse_name (ds ++ rest) = None /\ parse_name (s_MANIFEST ++ ds ++ rest) = None.
Proof. exact parse_overflow. Qed.
Print Assumptions C18_name_overflow_not_parsed.

Theorem C18_name_leading_zeros_alias : forall k z t,
  (0 <= z)%Z -> int64_ok z = true -> t <> TManifest ->
  parse_name (repeat 48%N k ++ gen_name (FD t z)) = Some (FD t z) /\
  parse_name (s_MANIFEST ++ repeat 48%N k ++ fmt_d06 z) = Some (FD TManifest z).
Proof. exact parse_leading_zeros. Qed.
Print Assumptions C18_name_leading_zeros_alias.

(* 8. GetMeta on a storage opened read-only issues NO file-system operation, in any directory state (this is the
      guard the seeded change seeded/C18 removes); the directory and the durable file system are unchanged; the
      answer is the one a read-write storage gives. *)
Theorem C18_getmeta_readonly_pure :
  (forall v, snd (get_meta_ops true v) = []) /\
  (forall v, snd (get_meta true v) = v) /\
  (forall s, snd (get_meta_fs true s) = s) /\
  (forall ro v, fst (get_meta_ops ro v) = get_meta_result v).
Proof. exact getmeta_readonly_pure. Qed.
Print Assumptions C18_getmeta_readonly_pure.

(* OpenFile read-only is pure only when the LOCK file exists — PARTIAL: newFileLock retries with O_CREATE, so a
   read-only OpenFile of a directory without LOCK creates it (and fails on a read-only medium). *)
Theorem C18_openfile_readonly_pure_partial : forall v, has v s_LOCK = true -> open_file_view true v = v.
Proof. exact open_file_ro_pure. Qed.
Print Assumptions C18_openfile_readonly_pure_partial.

Theorem C18_openfile_readonly_creates_lock_refuted : open_file_view true [] = [(s_LOCK, [])].
Proof. exact open_file_ro_creates_lock. Qed.
Print Assumptions C18_openfile_readonly_creates_lock_refuted.

(* 9. The read-write repair is a fixpoint, for EVERY directory: on the repaired directory GetMeta gives the same
      answer and its repair operations change nothing; there are none when every pending file has a name in the
      form %d prints. *)
Theorem C18_getmeta_repair_idempotent : forall v,
  let v' := vapply_all v (snd (get_meta_ops false v)) in
  fst (get_meta_ops false v') = fst (get_meta_ops false v) /\
  vapply_all v' (snd (get_meta_ops false v')) = v' /\
  (pend_names v' = [] -> snd (get_meta_ops false v') = []).
Proof. exact get_meta_repair_fixpoint. Qed.
Print Assumptions C18_getmeta_repair_idempotent.

(* "no further repair" is FALSE in general: with a file CURRENT.05 every GetMeta re-issues Remove(CURRENT.5),
   which fails and is logged, for ever; the file itself is never removed. *)
Theorem C18_getmeta_no_further_repair_refuted :
  let v' := vapply_all ex_noncanon_dir (snd (get_meta_ops false ex_noncanon_dir)) in
  v' = ex_noncanon_dir /\ snd (get_meta_ops false v') = [OUnlink (pend_name 5%Z)] /\
  fst (get_meta_ops false v') = GOk (FD TManifest 1%Z).
Proof. exact get_meta_repair_reissued. Qed.
Print Assumptions C18_getmeta_no_further_repair_refuted.

(* 10. One owner.  In every state reachable by OpenFile / Lock / Unlock / Close / method calls on one directory:
       while a read-write storage is open every OpenFile is refused (flock) and changes nothing; readers share
       the directory and exclude the writer; a second Lock returns ErrLocked; Unlock of a lock that is not the
       current one (released, or a newer one was granted) changes nothing; Close releases the flock, after it
       every call reports ErrClosed (ErrInvalidFile first where that guard comes first), a second Close too,
       and the directory can be opened again. *)
Theorem C18_lock_single_owner : forall p s st ro,
  freach p -> nth_error (p_stors p) s = Some st -> so_ro st = false -> so_closed st = false ->
  p_exists p = true -> fstep p (FOpenFile ro) = (p, SErrFlock, None).
Proof. exact fs_single_owner. Qed.
Print Assumptions C18_lock_single_owner.

Theorem C18_lock_readers_exclude_writer : forall p s st,
  freach p -> nth_error (p_stors p) s = Some st -> so_ro st = true -> so_closed st = false -> p_exists p = true ->
  snd (fst (fstep p (FOpenFile false))) = SErrFlock /\ snd (fst (fstep p (FOpenFile true))) = SOk.
Proof. exact fs_readers_exclude_writer. Qed.
Print Assumptions C18_lock_readers_exclude_writer.

Theorem C18_lock_second_lock : forall p s st id,
  nth_error (p_stors p) s = Some st -> so_closed st = false -> so_ro st = false -> so_slock st = Some id ->
  fstep p (FLock s) = (p, SErrLocked, None).
Proof. exact fs_second_lock. Qed.
Print Assumptions C18_lock_second_lock.

Theorem C18_lock_unlock_relock : forall p s st,
  nth_error (p_stors p) s = Some st -> so_closed st = false -> so_ro st = false -> so_slock st = None ->
  exists l p1, fstep p (FLock s) = (p1, SOk, Some l) /\
    snd (fst (fstep p1 (FLock s))) = SErrLocked /\
    snd (fst (fstep (fst (fst (fstep p1 (FUnlock l)))) (FLock s))) = SOk.
Proof. exact fs_lock_then_unlock. Qed.
Print Assumptions C18_lock_unlock_relock.

Theorem C18_lock_stale_unlock_harmless : forall p s st id,
  nth_error (p_stors p) s = Some st -> so_slock st <> Some id -> fstep p (FUnlock (LK s id)) = (p, SOk, None).
Proof. exact fs_stale_unlock_harmless. Qed.
Print Assumptions C18_lock_stale_unlock_harmless.

Theorem C18_storage_close : forall p s st,
  freach p -> nth_error (p_stors p) s = Some st -> so_closed st = false -> so_ro st = false -> p_exists p = true ->
  let p1 := fst (fst (fstep p (FClose s))) in
  snd (fst (fstep p (FClose s))) = SOk /\
  p_os p1 = OsFree /\
  fstep p1 (FClose s) = (p1, SErrClosed, None) /\
  fstep p1 (FLock s) = (p1, SErrClosed, None) /\
  (forall m, snd (fst (fstep p1 (FMeth s m))) =
             match m with
             | MSetMeta false | MOpen false | MCreate false | MRemove false | MRename false _ => SErrInvalidFile
             | MRename true true | MLog => SOk
             | _ => SErrClosed
             end) /\
  forall ro, snd (fst (fstep p1 (FOpenFile ro))) = SOk.
Proof. exact fs_close. Qed.
Print Assumptions C18_storage_close.

(* non-vacuity: a reachable state with an open read-write storage holding its lock; a read-only OpenFile of a
   missing directory fails without creating it *)
Example C18_file_storage_nonvacuous :
  freach ex_proc /\ p_os ex_proc = OsExcl /\ p_exists ex_proc = true /\
  nth_error (p_stors ex_proc) 0 = Some (ST false false (Some 0%N) 1%N) /\
  snd (fst (fstep (PR false OsFree []) (FOpenFile true))) = SErrNotExist.
Proof. exact ex_proc_reachable. Qed.

(* ---- 11. API totality (Store/ApiTotality.v): the finite table (exported entry point x argument class -> allowed outcome
   classes: 0 ok, 1 error, 2 panic, 3 hang, 4 huge allocation, 5 the process died) that the sweep of the whole public
   surface (harness/cmd/c18/api*.go) is evaluated against on every run ((K) cases KApi / KApiEnum).
   For EVERY entry point name and EVERY argument class name (listed or not, exercised or not):
   no outcome table allows a hang; an argument class that is not listed as an exception of its entry point must
   RETURN (exactly ok and error are allowed); the death of the process is tolerated in one place only (Open with an
   option that is a size in bytes set to 2^31 / MaxInt); an entry point without a row allows nothing, so that an
   exported function or method added to goleveldb is a mismatch until it is classified. *)
From Coq Require Import String.
Local Open Scope string_scope.
Local Open Scope N_scope.

Theorem C18_api_totality_table : forall (e c : String.string),
  ApiTotality.outcome_allowed e c ApiTotality.oc_hang = false /\
  (forall ex o, ApiTotality.lookup_row ApiTotality.api_totality_table e = Some ex -> ApiTotality.lookup_exc ex c = None ->
     (ApiTotality.outcome_allowed e c o = true <-> o = ApiTotality.oc_ok \/ o = ApiTotality.oc_error)).
Proof. exact (fun e c => conj (ApiTotalityProofs.api_never_hangs e c) (fun ex o => ApiTotalityProofs.api_default_returns e ex c o)). Qed.
Print Assumptions C18_api_totality_table.

Theorem C18_api_totality_died_only_option_sizes : forall (e c : String.string),
  ApiTotality.outcome_allowed e c ApiTotality.oc_died = true ->
  e = "leveldb.Open"%string /\ c = "option extreme (a size in bytes)"%string.
Proof. exact ApiTotalityProofs.api_died_only_option_sizes. Qed.
Print Assumptions C18_api_totality_died_only_option_sizes.

Theorem C18_api_totality_unknown_entry_rejected : forall (e c : String.string) o,
  ApiTotality.lookup_row ApiTotality.api_totality_table e = None -> ApiTotality.outcome_allowed e c o = false.
Proof. exact ApiTotalityProofs.api_unknown_entry_rejected. Qed.
Print Assumptions C18_api_totality_unknown_entry_rejected.

(* the bloom filter entry points since the repairs of leveldb/filter/bloom.go (C16_bloom_generate_total and
   C16_bloom_contains_total are unconditional): for EVERY argument class NewBloomFilter, Add and Contains must return
   without a huge allocation, and Generate must not panic for any bitsPerKey (only a nil Buffer is misuse; a huge
   bitsPerKey may allocate up to the documented ceiling of 512 MiB) *)
Theorem C18_api_bloom_must_return : forall c : String.string,
  ApiTotality.outcome_allowed "filter.NewBloomFilter" c ApiTotality.oc_panic = false /\
  ApiTotality.outcome_allowed "filter.NewBloomFilter" c ApiTotality.oc_alloc = false /\
  ApiTotality.outcome_allowed "filter.Filter.Contains" c ApiTotality.oc_panic = false /\
  ApiTotality.outcome_allowed "filter.Filter.Contains" c ApiTotality.oc_alloc = false /\
  ApiTotality.outcome_allowed "filter.FilterGenerator.Add" c ApiTotality.oc_panic = false /\
  (c <> "required argument nil" -> ApiTotality.outcome_allowed "filter.FilterGenerator.Generate" c ApiTotality.oc_panic = false) /\
  (c <> "required argument nil" -> c <> "n huge" ->
     ApiTotality.outcome_allowed "filter.FilterGenerator.Generate" c ApiTotality.oc_alloc = false).
Proof. exact ApiTotalityProofs.api_bloom_must_return. Qed.
Print Assumptions C18_api_bloom_must_return.

(* non-vacuity: the repaired GetProperty class must return (a panic there is a mismatch); a documented panic is allowed;
   an out-of-order Append must be an error; rows are distinct and masks sane *)
Example C18_api_totality_nonvacuous :
  ApiTotality.outcome_allowed "leveldb.DB.GetProperty" "name level out of range" ApiTotality.oc_panic = false /\
  ApiTotality.outcome_allowed "leveldb.DB.GetProperty" "name level out of range" ApiTotality.oc_ok = true /\
  ApiTotality.outcome_allowed "leveldb.Batch.Load" "bytes arbitrary" ApiTotality.oc_hang = false /\
  ApiTotality.outcome_allowed "util.Buffer.Truncate" "n out of range" ApiTotality.oc_panic = true /\
  ApiTotality.outcome_allowed "table.Writer.Append" "keys out of order" ApiTotality.oc_ok = false /\
  ApiTotality.outcome_allowed "table.Writer.Append" "keys out of order" ApiTotality.oc_error = true /\
  ApiTotality.outcome_allowed "leveldb.NoSuchFunction" "-" ApiTotality.oc_ok = false /\
  ApiTotality.table_rows_distinct = true /\ ApiTotality.table_masks_sane = true /\
  List.length ApiTotality.api_totality_table = 245%nat.
Proof. vm_compute. repeat split; reflexivity. Qed.
