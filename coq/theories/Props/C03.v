(* Props/C03.v — property C03: snapshots (and, through them, iterators) are frozen views, immune to later
   activity.  Property theorems only. *)
From GL Require Import Base.Order Codec.IKey Codec.BytesCmp Codec.BytesCmpProofs Lsm.Lsm Lsm.Compact Lsm.LsmProofs
  Lsm.CompactProofs Lsm.History Lsm.HistoryProofs Lsm.ReorgProofs Lsm.CertProofs Gen.ConstsOk.

(* A snapshot taken after ops1 keeps returning, for every key, what the plain map held at that instant —
   whatever writes, deletes, flushes, compactions, other snapshots and releases (ops2) follow, as long as it
   has not been released itself.  Releasing other snapshots is just one more kind of later activity. *)
Theorem C03_snapshot_stable : forall c, comparer_ok c -> forall p ops1 ops2 k,
  hops_ok c p h_init (ops1 ++ ops2) ->
  In (h_seq (hrun ops1)) (h_snaps (hrun (ops1 ++ ops2))) ->
  store_get c p (hrun (ops1 ++ ops2)) k (h_seq (hrun ops1)) = a_get c k (map_of c p ops1).
Proof. exact snapshot_stable. Qed.
Print Assumptions C03_snapshot_stable.

(* The drop rule of the compaction builder, per user key: for every sequence number s >= minSeq (every
   reader that can still exist), the kept entries answer a lookup exactly as the inputs did; and nothing is
   invented. *)
Theorem C03_drop_rule_sound : forall c, comparer_ok c -> forall p, kparams_ok p ->
  forall minSeq base, (minSeq < keyMaxSeq p)%N -> forall k s l,
  ssorted c l -> kinds_ok p l -> (minSeq <= s)%N ->
  CompactProofs.res p (newest c k s (drop_run c p minSeq base None l) None) = CompactProofs.res p (newest c k s l None).
Proof. exact drop_rule_sound. Qed.
Print Assumptions C03_drop_rule_sound.

Theorem C03_drop_rule_subset : forall c p minSeq base l x,
  In x (drop_run c p minSeq base None l) -> In x l.
Proof. exact drop_rule_subset. Qed.
Print Assumptions C03_drop_rule_subset.

(* A whole table compaction preserves every read at a sequence number >= minSeq (in particular at every live
   snapshot, because minSeq is the oldest live snapshot or the current sequence number, read once at the
   start: later snapshots are newer). *)
Theorem C03_compaction_preserves : forall c, comparer_ok c -> forall p, kparams_ok p ->
  forall minSeq base, (minSeq < keyMaxSeq p)%N -> forall I O,
  kinds_ok p I -> NoDup (map keyseq I) -> uniq_in (I ++ O) ->
  (forall o i, In o O -> In i I -> e_uk o = e_uk i ->
     (e_seq i < e_seq o)%N \/ ((e_seq o < e_seq i)%N /\ base (e_uk i) = false)) ->
  forall k s, (minSeq <= s)%N ->
  History.res p (newest c k s (drop_run c p minSeq base None (isort c I) ++ O) None) =
  History.res p (newest c k s (I ++ O) None).
Proof. exact compaction_preserves. Qed.
Print Assumptions C03_compaction_preserves.

Theorem C03_certificate_sound : forall c, comparer_ok c -> forall p, kparams_ok p ->
  forall minSeq deeper I O outs,
  compaction_cert c p minSeq deeper I O outs = true ->
  concat outs = drop_run c p minSeq (is_base c deeper) None (isort c I) ->
  forall k s, (minSeq <= s)%N ->
  History.res p (newest c k s (concat outs ++ O) None) = History.res p (newest c k s (I ++ O) None).
Proof. exact certificate_sound. Qed.
Print Assumptions C03_certificate_sound.

(* Non-vacuity: key 1 was overwritten (seq 9 over seq 5) and key 2 deleted (seq 8 over seq 3); with a
   snapshot at 6 (minSeq = 6) the compaction must keep (1,5) and (2,3); with minSeq = 9 it drops them, and at
   base level the tombstone too. *)
Definition ex3 (k s kd v : N) : entry := {| e_uk := [k]; e_seq := s; e_kind := kd; e_val := [v] |}.
Definition ex3_in : list entry := [ex3 1 9 1 90; ex3 1 5 1 50; ex3 2 8 0 0; ex3 2 3 1 30].
Example C03_nonvacuous :
  ssorted bytewise ex3_in /\ kinds_ok kp ex3_in /\
  drop_run bytewise kp 6 (fun _ => true) None ex3_in = ex3_in /\
  drop_run bytewise kp 9 (fun _ => false) None ex3_in = [ex3 1 9 1 90; ex3 2 8 0 0] /\
  drop_run bytewise kp 9 (fun _ => true) None ex3_in = [ex3 1 9 1 90].
Proof.
  split; [|split; [|repeat split; vm_compute; reflexivity]].
  - cbn. repeat split; repeat constructor; vm_compute; reflexivity.
  - repeat constructor; vm_compute; congruence.
Qed.
