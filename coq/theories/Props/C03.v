(* Props/C03.v — property C03: snapshots (and, through them, iterators) are frozen views, immune to later
   activity.  Property theorems only. *)
From GL Require Import Base.Order Codec.IKey Codec.BytesCmp Codec.BytesCmpProofs Lsm.Lsm Lsm.Compact Lsm.LsmProofs
  Lsm.CompactProofs Lsm.History Lsm.HistoryProofs Lsm.ReorgProofs Lsm.CertProofs Gen.ConstsOk.

(* A snapshot taken after ops1 keeps returning, for every key, what the plain map held at that instant —
   whatever writes, deletes, flushes, compactions, other snapshots and releases (ops2) follow, as long as it
   has not been released itself.  Releasing other snapshots is just one more kind of later activity. *)
Theorem C03_snapshot_stable : forall c, comparer_ok c -> forall p ops1 ops2 k,
  hops_ok c p h_init (ops1 ++ ops2) ->
  In (h_seq (hrun ops1)) (h_snaps (hrun (ops1 ++ ops2))) ->
  store_get c p (hrun (ops1 ++ ops2)) k (h_seq (hrun ops1)) = a_get c k (map_of c p ops1).
Proof. exact snapshot_stable. Qed.
Print Assumptions C03_snapshot_stable.

(* The drop rule of the compaction builder, per user key: for every sequence number s >= minSeq (every
   reader that can still exist), the kept entries answer a lookup exactly as the inputs did; and nothing is
   invented. *)
Theorem C03_drop_rule_sound : forall c, comparer_ok c -> forall p, kparams_ok p ->
  forall minSeq base, (minSeq < keyMaxSeq p)%N -> forall k s l,
  ssorted c l -> kinds_ok p l -> (minSeq <= s)%N ->
  CompactProofs.res p (newest c k s (drop_run c p minSeq base None l) None) = CompactProofs.res p (newest c k s l None).
Proof. exact drop_rule_sound. Qed.
Print Assumptions C03_drop_rule_sound.

Theorem C03_drop_rule_subset : forall c p minSeq base l x,
  In x (drop_run c p minSeq base None l) -> In x l.
Proof. exact drop_rule_subset. Qed.
Print Assumptions C03_drop_rule_subset.

(* A whole table compaction preserves every read at a sequence number >= minSeq (in particular at every live
   snapshot, because minSeq is the oldest live snapshot or the current sequence number, read once at the
   start: later snapshots are newer). *)
Theorem C03_compaction_preserves : forall c, comparer_ok c -> forall p, kparams_ok p ->
  forall minSeq base, (minSeq < keyMaxSeq p)%N -> forall I O,
  kinds_ok p I -> NoDup (map keyseq I) -> uniq_in (I ++ O) ->
  (forall o i, In o O -> In i I -> e_uk o = e_uk i ->
     (e_seq i < e_seq o)%N \/ ((e_seq o < e_seq i)%N /\ base (e_uk i) = false)) ->
  forall k s, (minSeq <= s)%N ->
  History.res p (newest c k s (drop_run c p minSeq base None (isort c I) ++ O) None) =
  History.res p (newest c k s (I ++ O) None).
Proof. exact compaction_preserves. Qed.
Print Assumptions C03_compaction_preserves.

Theorem C03_certificate_sound : forall c, comparer_ok c -> forall p, kparams_ok p ->
  forall minSeq deeper I O outs,
  compaction_cert c p minSeq deeper I O outs = true ->
  concat outs = drop_run c p minSeq (is_base c deeper) None (isort c I) ->
  forall k s, (minSeq <= s)%N ->
  History.res p (newest c k s (concat outs ++ O) None) = History.res p (newest c k s (I ++ O) None).
Proof. exact certificate_sound. Qed.
Print Assumptions C03_certificate_sound.

(* Non-vacuity: key 1 was overwritten (seq 9 over seq 5) and key 2 deleted (seq 8 over seq 3); with a
   snapshot at 6 (minSeq = 6) the compaction must keep (1,5) and (2,3); with minSeq = 9 it drops them, and at
   base level the tombstone too. *)
Definition ex3 (k s kd v : N) : entry := {| e_uk := [k]; e_seq := s; e_kind := kd; e_val := [v] |}.
Definition ex3_in : list entry := [ex3 1 9 1 90; ex3 1 5 1 50; ex3 2 8 0 0; ex3 2 3 1 30].
Example C03_nonvacuous :
  ssorted bytewise ex3_in /\ kinds_ok kp ex3_in /\
  drop_run bytewise kp 6 (fun _ => true) None ex3_in = ex3_in /\
  drop_run bytewise kp 9 (fun _ => false) None ex3_in = [ex3 1 9 1 90; ex3 2 8 0 0] /\
  drop_run bytewise kp 9 (fun _ => true) None ex3_in = [ex3 1 9 1 90].
Proof.
  split; [|split; [|repeat split; vm_compute; reflexivity]].
  - cbn. repeat split; repeat constructor; vm_compute; reflexivity.
  - repeat constructor; vm_compute; congruence.
Qed.

(* ------------------------------------------------------------------------------------------------------------------
   The drop rule as tableCompactionBuilder really runs it (model Lsm/Builder.v: the run loop with hasLastUkey / lastUkey /
   lastSeq, the base-level cursors, table rotation, and compactionTransact's retries after transient errors with the
   builder's and the compaction's snapshot restored and the first snapIter entries of a fresh iterator skipped).
   ------------------------------------------------------------------------------------------------------------------ *)
From GL Require Import Lsm.Pick Lsm.Builder Lsm.BuilderBase Lsm.BuilderProofs Lsm.BuilderCuts Lsm.BuilderReads.

(* Whatever transient failures hit the attempts (iterator, table creation/append, flush, cleanup; any positions, any
   number of attempts), the tables recorded when compactionTransact returns answer, for every user key and every sequence
   number s >= minSeq, exactly as the merged inputs did: no kept entry is lost or duplicated at a resume point, nothing
   that a live snapshot needs is dropped. *)
Theorem C03_builder_retry_preserves_reads : forall c, comparer_ok c -> forall p, kparams_ok p ->
  forall sz gp maxgp deeper, Forall (lvl_ok c p) deeper ->
  forall minSeq, (minSeq < keyMaxSeq p)%N -> forall strict tableSize tsize es os s',
  ssorted c es -> kinds_ok p es ->
  transact c p sz gp maxgp deeper minSeq strict tableSize tsize os (map IGood es) (bst0 deeper) = (s', TDone) ->
  forall k s, (minSeq <= s)%N ->
  CompactProofs.res p (newest c k s (concat (fin s')) None) = CompactProofs.res p (newest c k s es None).
Proof. exact builder_preserves_reads. Qed.
Print Assumptions C03_builder_retry_preserves_reads.

(* ... and the whole compaction (I = entries of the input tables, O = every other stored entry) preserves reads at every
   s >= minSeq, with the installed tables in place of the abstract drop_run of C03_compaction_preserves. *)
Theorem C03_builder_compaction_preserves : forall c, comparer_ok c -> forall p, kparams_ok p ->
  forall sz gp maxgp deeper, Forall (lvl_ok c p) deeper ->
  forall minSeq, (minSeq < keyMaxSeq p)%N -> forall strict tableSize tsize I O os s',
  kinds_ok p I -> NoDup (map keyseq I) -> uniq_in (I ++ O) ->
  (forall o i, In o O -> In i I -> e_uk o = e_uk i ->
     (e_seq i < e_seq o)%N \/ ((e_seq o < e_seq i)%N /\ is_base c deeper (e_uk i) = false)) ->
  transact c p sz gp maxgp deeper minSeq strict tableSize tsize os (map IGood (isort c I)) (bst0 deeper) = (s', TDone) ->
  forall k s, (minSeq <= s)%N ->
  History.res p (newest c k s (concat (fin s') ++ O) None) = History.res p (newest c k s (I ++ O) None).
Proof. exact builder_compaction_preserves. Qed.
Print Assumptions C03_builder_compaction_preserves.

(* Non-vacuity: the inputs of C03_nonvacuous, a snapshot at 6 (minSeq = 6: everything is kept) and minSeq = 9 at base level
   (only 1@9 survives); tables hold one entry's worth of bytes; the first attempt fails in the flush at the first
   user-key boundary, the second in appendKV right after the snapshot taken there, the third succeeds. *)
Example C03_builder_nonvacuous :
  let fl := {| o_closed := false; o_next := fun _ => false; o_append := fun _ => AOk; o_flush := Nat.eqb 2;
               o_cleanup := false; o_perr := false; o_closed_sel := false |} in
  let ap := {| o_closed := false; o_next := fun _ => false; o_append := fun i => if Nat.eqb i 2 then AWrite else AOk;
               o_flush := fun _ => false; o_cleanup := true; o_perr := false; o_closed_sel := false |} in
  let size := fun l : list item => (10 * N.of_nat (length l))%N in
  (exists s', transact bytewise kp (fun _ => 100%N) [] 1000 [] 6 true 10 size [fl; ap; o_ok] (map IGood ex3_in) (bst0 [])
              = (s', TDone) /\ fin s' = [[ex3 1 9 1 90; ex3 1 5 1 50]; [ex3 2 8 0 0; ex3 2 3 1 30]] /\ drop s' = 0%N) /\
  (exists s', transact bytewise kp (fun _ => 100%N) [] 1000 [] 9 true 10 size [fl; ap; o_ok] (map IGood ex3_in) (bst0 [])
              = (s', TDone) /\ fin s' = [[ex3 1 9 1 90]] /\ drop s' = 3%N).
Proof. split; eexists; (split; [vm_compute; reflexivity|]); vm_compute; split; reflexivity. Qed.

(* ------------------------------------------------------------------------------------------------------------------
   PREORDER COMPARERS (Base/OrderPre.v comparer_pre_ok: byte-different keys may compare equal and are then ONE user
   key; see Props/C01.v (P)).  Snapshot stability, the drop rule and the whole-compaction theorem re-proved without
   the injectivity field cmp_eq; "same user key" is cmp c a b = Eq throughout.  The theorems above are the special
   cases for injective comparers.  The builder theorems (C03_builder_retry_preserves_reads, C03_builder_compaction_preserves) still assume comparer_ok. *)
From GL Require Import Base.OrderPre Codec.CiCmp Codec.CiCmpProofs Lsm.CompactPre Lsm.LsmPreProofs Lsm.CompactPreProofs
  Lsm.HistoryPreProofs Lsm.ReorgPreProofs Lsm.WfPreProofs.

Theorem C03_snapshot_stable_pre : forall c, comparer_pre_ok c -> forall p ops1 ops2 k,
  hops_ok c p h_init (ops1 ++ ops2) ->
  In (h_seq (hrun ops1)) (h_snaps (hrun (ops1 ++ ops2))) ->
  store_get c p (hrun (ops1 ++ ops2)) k (h_seq (hrun ops1)) = a_get c k (map_of c p ops1).
Proof. exact snapshot_stable_pre. Qed.
Print Assumptions C03_snapshot_stable_pre.

Theorem C03_drop_rule_sound_pre : forall c, comparer_pre_ok c -> forall p, kparams_ok p ->
  forall minSeq base, (minSeq < keyMaxSeq p)%N -> forall k s l,
  ssorted c l -> kinds_ok p l -> (minSeq <= s)%N ->
  CompactProofs.res p (newest c k s (drop_run c p minSeq base None l) None) = CompactProofs.res p (newest c k s l None).
Proof. exact drop_rule_sound_pre. Qed.
Print Assumptions C03_drop_rule_sound_pre.

Theorem C03_compaction_preserves_pre : forall c, comparer_pre_ok c -> forall p, kparams_ok p ->
  forall minSeq base, (minSeq < keyMaxSeq p)%N -> forall I O,
  kinds_ok p I -> uniqE c I -> uniq_inE c (I ++ O) ->
  (forall o i, In o O -> In i I -> cmp c (e_uk o) (e_uk i) = Eq ->
     (e_seq i < e_seq o)%N \/ ((e_seq o < e_seq i)%N /\ base (e_uk i) = false)) ->
  forall k s, (minSeq <= s)%N ->
  History.res p (newest c k s (drop_run c p minSeq base None (isort c I) ++ O) None) =
  History.res p (newest c k s (I ++ O) None).
Proof. exact compaction_preserves_pre. Qed.
Print Assumptions C03_compaction_preserves_pre.

Theorem C03_certificatec_sound : forall c, comparer_pre_ok c -> forall p, kparams_ok p ->
  forall minSeq deeper I O outs,
  compaction_certc c p minSeq deeper I O outs = true ->
  concat outs = drop_run c p minSeq (is_base c deeper) None (isort c I) ->
  forall k s, (minSeq <= s)%N ->
  History.res p (newest c k s (concat outs ++ O) None) = History.res p (newest c k s (I ++ O) None).
Proof. exact certificatec_sound. Qed.
Print Assumptions C03_certificatec_sound.

(* Non-vacuity under the non-injective comparer of the harness (id 4): "Key" (seq 3) overwritten as "KEY" (seq 9),
   "ab" (seq 2) deleted as "AB" (seq 8).  With a snapshot at 6 everything is kept; with minSeq = 9 the hidden
   versions go, and at base level the marker too — although the spellings differ. *)
Definition ex3c (u : bytes) (s kd v : N) : entry := {| e_uk := u; e_seq := s; e_kind := kd; e_val := [v] |}.
Definition ex3c_in : list entry :=
  [ex3c [65; 66]%N 8 0 0; ex3c [97; 98]%N 2 1 20; ex3c [75; 69; 89]%N 9 1 90; ex3c [75; 101; 121]%N 3 1 30].
Example C03_casefold_nonvacuous :
  comparer_pre_ok cicmp /\ ~ comparer_ok cicmp /\
  ssorted cicmp ex3c_in /\ kinds_ok kp ex3c_in /\
  drop_run cicmp kp 6 (fun _ => true) None ex3c_in = ex3c_in /\
  drop_run cicmp kp 9 (fun _ => false) None ex3c_in = [ex3c [65; 66]%N 8 0 0; ex3c [75; 69; 89]%N 9 1 90] /\
  drop_run cicmp kp 9 (fun _ => true) None ex3c_in = [ex3c [75; 69; 89]%N 9 1 90].
Proof.
  split; [exact cicmp_pre_ok|]. split; [exact cicmp_not_injective|].
  split; [|split; [|repeat split; vm_compute; reflexivity]].
  - cbn. repeat split; repeat constructor; vm_compute; reflexivity.
  - repeat constructor; vm_compute; congruence.
Qed.
