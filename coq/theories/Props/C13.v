(* Props/C13.v — property C13: sorted tables round-trip under all layouts and detect block damage.
   Property theorems only; each is closed by [exact lemma] and followed by Print Assumptions.

   Stage A (block level): Codec/Block.v models blockWriter and block / blockIter of
   leveldb/table; the theorems hold for every restart interval >= 1, every list of pairs whose
   encoded block is shorter than 2^32 bytes (offsets are uint32 in the format), every comparer
   satisfying the contract. *)
From GL Require Import Base.Order Base.Varint Base.VarintProofs Base.Cursor Base.CursorProofs
  Codec.BytesCmp Codec.BytesCmpProofs Codec.Block Codec.BlockEnc Codec.BlockProofs Codec.BlockSliceProofs
  Codec.Table Codec.TableProofs Codec.TableIterProofs Codec.IndexedIterProofs Codec.TableSliceProofs Codec.TableDamageProofs Codec.TableDamageIterProofs Codec.TableDamageStrictProofs
  Codec.TableCheck Codec.TableCheckProofs Codec.TableWriteProofs Codec.TableEmptyProofs Codec.TableSizes Codec.TableWriteSnappyProofs
  Codec.TablePolicyProofs Codec.Snappy Codec.TblCrc Gen.Consts Gen.ConstsOkTbl.

(* A.0  uvarint: Uvarint (PutUvarint x ++ rest) = (x, len) for every uint64 x. *)
Theorem C13_uvarint_roundtrip : forall x rest, (x < 2 ^ 64)%N ->
  uvarint (put_uvarint x ++ rest) = UvOk x (lenN (put_uvarint x)).
Proof. exact uvarint_put. Qed.
Print Assumptions C13_uvarint_roundtrip.

(* A.1  block_roundtrip: decoding what blockWriter produced returns the pairs — for ANY list of
   pairs (prefix compression does not need order) and every restart interval >= 1. *)
Theorem C13_block_roundtrip : forall ri kvs,
  (1 <= ri)%N -> (lenN (block_build ri kvs) < 2 ^ 32)%N ->
  block_decode (block_build ri kvs) = Ok kvs.
Proof. exact block_roundtrip. Qed.
Print Assumptions C13_block_roundtrip.

(* A.2  block_seek_first_ge: on strictly increasing keys, Seek k lands on the first entry whose
   key is >= k (restart-point binary search, then linear scan), or reports false when there is none. *)
Theorem C13_block_seek_first_ge : forall c ri kvs k,
  comparer_ok c -> (1 <= ri)%N -> (lenN (block_build ri kvs) < 2 ^ 32)%N -> sorted c kvs ->
  exists b, read_block (block_build ri kvs) = Ok b /\
    let '(ok, it) := bi_seek c (new_block_iter c b None false) k in
    match first_ge c k kvs 0 with
    | Some i => ok = true /\ nth_error kvs i = Some (bi_key it, bi_value it)
    | None => ok = false
    end.
Proof. exact block_seek_first_ge. Qed.
Print Assumptions C13_block_seek_first_ge.

(* A.3  block_iter_refines_cursor: any sequence of First/Last/Seek/Next/Prev on the (unsliced)
   block iterator observes exactly what the same calls observe on the reference cursor over the
   list (Base/Cursor.v), including stepping off either end and coming back.  (Model note: Prev
   re-scans the restart range instead of popping blockIter's prevNode/prevKeys cache.) *)
Theorem C13_block_iter_refines_cursor : forall c ri kvs,
  comparer_ok c -> (1 <= ri)%N -> (lenN (block_build ri kvs) < 2 ^ 32)%N -> sorted c kvs ->
  exists b, read_block (block_build ri kvs) = Ok b /\
    forall ops, bi_run c (new_block_iter c b None false) ops = c_run c kvs CSOI ops.
Proof. exact block_iter_refines_cursor. Qed.
Print Assumptions C13_block_iter_refines_cursor.

(* ------------------------------------------------------------------------------------------------
   Stage B (table level over an abstract block store).  [table_wf c rd blocks seps hs] (TableProofs.v):
   the reader's index block is the block blockWriter builds for the entries (sep j, handle j), every
   handle fetches the block built for the pairs [blocks j], the pairs are strictly increasing, and
   the separators satisfy   last key of block j <= sep j < first key of block j+1.
   [tkvs blocks] is the list of all pairs.  The theorems hold for every comparer satisfying the
   contract and every reader satisfying table_wf — in particular (C.2) for every file, written by
   whatever writer, that the executable check [table_check] accepts. *)

(* B.1  table_find_first_ge: Find(key) (index seek, data-block seek, fall through to the next block)
   returns the first pair whose key is >= key, NotFound when there is none. *)
Theorem C13_table_find_first_ge : forall c rd blocks seps hs key,
  comparer_ok c -> table_wf c rd blocks seps hs ->
  tfind c rd key false =
  match first_ge c key (tkvs blocks) 0 with
  | Some i => match nth_error (tkvs blocks) i with Some (k, v) => FFound k v | None => FOther end
  | None => FNotFound
  end.
Proof. intros c rd blocks seps hs key Hc Hw. exact (tfind_first_ge c Hc rd blocks seps hs Hw key). Qed.
Print Assumptions C13_table_find_first_ge.

(* B.2  table_get: Get returns the stored value of a stored key and NotFound for any other key. *)
Theorem C13_table_get_present : forall c rd blocks seps hs k v,
  comparer_ok c -> table_wf c rd blocks seps hs -> In (k, v) (tkvs blocks) -> tget c rd k = FFound k v.
Proof. intros c rd blocks seps hs k v Hc Hw. exact (tget_present c Hc rd blocks seps hs Hw k v). Qed.
Print Assumptions C13_table_get_present.

Theorem C13_table_get_absent : forall c rd blocks seps hs k,
  comparer_ok c -> table_wf c rd blocks seps hs -> (forall v, ~ In (k, v) (tkvs blocks)) -> tget c rd k = FNotFound.
Proof. intros c rd blocks seps hs k Hc Hw. exact (tget_absent c Hc rd blocks seps hs Hw k). Qed.
Print Assumptions C13_table_get_absent.

(* B.3  index_routes: by the separator law, the block the index seek selects for a key is the only
   block that can hold that key. *)
Theorem C13_index_routes : forall c rd blocks seps hs key j j' x,
  comparer_ok c -> table_wf c rd blocks seps hs ->
  c_seek c (ientries seps hs) key = CAt j ->
  (j' < length blocks)%nat -> In x (nth j' blocks []) -> fst x = key -> j' = j.
Proof.
  intros c rd blocks seps hs key j j' x Hc Hw Hs.
  exact (routes_only c Hc rd blocks seps hs Hw key j j' x (index_seek_at c rd blocks seps hs Hw key j Hs)).
Qed.
Print Assumptions C13_index_routes.

(* B.4  table_iter_refines_cursor: every sequence of First/Last/Seek/Next/Prev on the table
   iterator (indexedIterator over indexIter and the data-block iterators; both settings of the
   strict flag) observes what the reference cursor observes.
   (a) NewIterator(nil, ro): the cursor over all pairs — every well-formed table, the empty one included. *)
Theorem C13_table_iter_refines_cursor : forall c rd blocks seps hs strict,
  comparer_ok c -> table_wf c rd blocks seps hs ->
  exists t, new_titer c rd None strict = inr t /\
    forall ops, fst (ti_run c rd t ops) = c_run c (tkvs blocks) CSOI ops.
Proof. intros c rd blocks seps hs strict. exact (table_iter_refines c rd blocks seps hs strict). Qed.
Print Assumptions C13_table_iter_refines_cursor.

(* (b) NewIterator(&util.Range{start, limit}, ro), each bound optional: the cursor over the pairs
   with start <= key < limit (the index iterator is sliced with inclLimit, the data iterators of
   the first and last index position are sliced, indexIter.Get's isFirst/isLast rule) - for EVERY
   well-formed table, the EMPTY one included.  (On the empty table the observations are those of
   the cursor over the empty list - nothing, ever - although the iterator can REPORT a corruption
   error on the way: B.4c.) *)
Theorem C13_table_iter_range_refines_cursor : forall c rd blocks seps hs start limit strict,
  comparer_ok c -> table_wf c rd blocks seps hs ->
  exists t, new_titer c rd (Some (start, limit)) strict = inr t /\
    forall ops, fst (ti_run c rd t ops) = c_run c (restrict c start limit (tkvs blocks)) CSOI ops.
Proof. exact table_iter_range_refines. Qed.
Print Assumptions C13_table_iter_range_refines_cursor.

(*     the former partial statement (non-empty tables), kept under its name *)
Theorem C13_table_iter_range_refines_cursor_partial : forall c rd blocks seps hs start limit strict,
  comparer_ok c -> table_wf c rd blocks seps hs -> tkvs blocks <> [] ->
  exists t, new_titer c rd (Some (start, limit)) strict = inr t /\
    forall ops, fst (ti_run c rd t ops) = c_run c (restrict c start limit (tkvs blocks)) CSOI ops.
Proof. exact table_iter_sliced_refines. Qed.
Print Assumptions C13_table_iter_range_refines_cursor_partial.

(* (c) FINDING, stated precisely.  The table the writer produces for NO pairs (one data block
   without entries, one index entry with the empty separator) is well-formed; NewIterator(nil)
   walks it silently; but NewIterator(&util.Range{Start: []byte{}}) - an empty, non-nil start
   key, e.g. util.BytesPrefix([]byte{}) - followed by Seek([]byte{}) makes the data iterator call
   block.seek with an EMPTY restart range (riStart = riLimit = restartsLen): sort.Search(0) = 0,
   index = rstart = restartsLen, and the "restart offset" read at that index is the restart-COUNT
   word (1), so block.entry(1) reports "entries offset not aligned": Error() is a corruption
   error on an undamaged table.  The same at block level for any Start on an empty block.
   No pair is returned (B.4b), so the observations still refine the cursor; under the strict
   flag the error is recorded in the table iterator, otherwise it is swallowed. *)
Definition ex_empty_reader : treader :=
  match twrite tblp tbl_crc (fun x => x) bytewise 4096 16 false None [] with
  | Some f => open_table tblp tbl_crc (fun _ => None) (fun _ _ _ => true) bytewise f None true
  | None => tr_broken Corrupt
  end.
Definition run_err (sl : option krange) (strict : bool) (ops : list cop) :=
  match new_titer bytewise ex_empty_reader sl strict with
  | inr t => let '(l, tf) := ti_run bytewise ex_empty_reader t ops in (l, ti_error tf)
  | inl e => ([], Some e)
  end.
Theorem C13_range_iter_empty_table_reports_corruption :
  table_wf bytewise ex_empty_reader [[]] [[]] [mkBH 0 8] /\
  run_err None true [OpFirst; OpSeek []; OpLast; OpPrev; OpNext] = ([None; None; None; None; None], None) /\
  run_err (Some (Some [], None)) true [OpSeek []] = ([None], Some ErrCorrupt) /\
  run_err (Some (Some [], None)) false [OpSeek []] = ([None], None) /\
  (match read_block (block_build 16 []) with
   | Ok b => bi_err (snd (bi_seek bytewise (new_block_iter bytewise b (Some (Some [97]%N, None)) false) [97]%N))
   | _ => None
   end) = Some ErrCorrupt.
Proof.
  split; [apply (table_wfb_sound bytewise ex_empty_reader 16); vm_compute; reflexivity|].
  vm_compute. repeat split; reflexivity.
Qed.
Print Assumptions C13_range_iter_empty_table_reports_corruption.

(* B.5  offsetof_monotone: approximate offsets never decrease as the key grows. *)
Theorem C13_offsetof_monotone : forall c rd blocks seps hs k1 k2,
  comparer_ok c -> table_wf c rd blocks seps hs -> cmp c k1 k2 <> Gt ->
  exists o1 o2, toffset_of c rd k1 = Ok o1 /\ toffset_of c rd k2 = Ok o2 /\ (o1 <= o2)%N.
Proof. intros c rd blocks seps hs k1 k2 Hc Hw. exact (toffset_mono c Hc rd blocks seps hs Hw k1 k2). Qed.
Print Assumptions C13_offsetof_monotone.

(* B.6  filter_independent: with any filter that has no false negative on the keys of each data
   block (filter_sound), the exact-match lookup through the filter (what the DB does with
   Find(key, filtered = true)) equals Get without consulting a filter. *)
Theorem C13_filter_independent : forall c rd blocks seps hs key,
  comparer_ok c -> table_wf c rd blocks seps hs -> filter_sound rd blocks hs ->
  tget_filtered c rd key = tget c rd key.
Proof. intros c rd blocks seps hs key Hc Hw. exact (tget_filter_independent c Hc rd blocks seps hs Hw key). Qed.
Print Assumptions C13_filter_independent.

(* B.7  policy_change_invisible: two readers of one well-formed table that differ only in the filter
   they consult (the writer's policy, another policy, the writer's policy found among the
   alternatives, none - the component tr_filter - and possibly in dataEnd) answer every exact-match
   lookup through the filter, every Get, every Find and every movement sequence of every iterator
   (full or range-restricted, strict or not) identically, provided neither filter has a false
   negative on the keys of a data block (C16: any policy meeting the policy contract; a reader
   without a usable filter trivially, C13_filter_absent_sound).  OffsetOf agrees too when both
   readers have the same dataEnd; it is the ONE observable that depends on the reader's policy:
   NewReader moves dataEnd from the metaindex block's offset to the filter block's offset only
   when it recognises the filter, so OffsetOf of a key beyond the last separator differs by the
   length of the filter block (C13_policy_visible_in_offsetof_beyond_end). *)
Theorem C13_policy_change_invisible : forall c rd rd' blocks seps hs,
  comparer_ok c -> table_wf c rd blocks seps hs ->
  tr_index rd' = tr_index rd -> (forall h, tr_fetch rd' h = tr_fetch rd h) ->
  filter_sound rd blocks hs -> filter_sound rd' blocks hs ->
  (forall key, tget_filtered c rd' key = tget_filtered c rd key) /\
  (forall key, tget c rd' key = tget c rd key) /\
  (forall key, tfind c rd' key false = tfind c rd key false) /\
  (forall sl strict, exists t t',
     new_titer c rd sl strict = inr t /\ new_titer c rd' sl strict = inr t' /\
     forall ops, fst (ti_run c rd' t' ops) = fst (ti_run c rd t ops)) /\
  (tr_dataEnd rd' = tr_dataEnd rd -> forall key, toffset_of c rd' key = toffset_of c rd key).
Proof. exact policy_change_invisible. Qed.
Print Assumptions C13_policy_change_invisible.

Theorem C13_filter_absent_sound : forall rd blocks hs, tr_filter rd = None -> filter_sound rd blocks hs.
Proof. exact filter_sound_none. Qed.
Print Assumptions C13_filter_absent_sound.

(*      ... and at the byte level NewReader on the same file under ANY reader policy (filter name or
   none, any contains function) yields readers with the same index block and the same block
   fetches - the hypotheses of B.7. *)
Theorem C13_open_table_policy_independent : forall tp crc decompress fc1 fc2 c file fn1 fn2 verify,
  tr_index (open_table tp crc decompress fc2 c file fn2 verify) = tr_index (open_table tp crc decompress fc1 c file fn1 verify) /\
  forall h, tr_fetch (open_table tp crc decompress fc2 c file fn2 verify) h = tr_fetch (open_table tp crc decompress fc1 c file fn1 verify) h.
Proof. exact open_table_policy_indep. Qed.
Print Assumptions C13_open_table_policy_independent.

(* ------------------------------------------------------------------------------------------------
   Stage C (bytes).  The checksum and the compression codec are parameters. *)

(* C.1  table_damage_contained, conditional on [detects] (stored CRC <> CRC of the stored bytes):
   a verifying read of that block never returns a block ... *)
Theorem C13_table_damage_contained : forall tp crc decompress file h,
  detects tp crc file h ->
  match read_block_at tp crc decompress file h true with Ok _ => False | _ => True end.
Proof. exact read_block_detects. Qed.
Print Assumptions C13_table_damage_contained.

(* ... and a reader some of whose block reads fail that way answers Find / Get exactly as the
   intact reader or with Corrupted — never with invented or misattributed data; OffsetOf is
   unaffected. *)
Theorem C13_table_reads_degrade_to_corruption : forall c rd rd' key filtered,
  degraded rd rd' ->
  (tfind c rd' key filtered = tfind c rd key filtered \/ tfind c rd' key filtered = FCorrupted) /\
  (tget c rd' key = tget c rd key \/ tget c rd' key = FCorrupted) /\
  toffset_of c rd' key = toffset_of c rd key.
Proof.
  intros c rd rd' key filtered D. split; [exact (tfind_degraded c rd rd' D key filtered)|].
  split; [exact (tget_degraded c rd rd' D key) | exact (toffset_degraded c rd rd' D key)].
Qed.
Print Assumptions C13_table_reads_degrade_to_corruption.

(* ... and the NON-STRICT iterator over a table some of whose data blocks cannot be read skips
   exactly those blocks: every movement sequence observes what the reference cursor over the
   pairs of the readable blocks observes (remaining original pairs, in order). *)
Theorem C13_table_iter_skips_unreadable : forall c rd rd' blocks seps hs (bad : nat -> bool),
  comparer_ok c -> table_wf c rd blocks seps hs ->
  tr_index rd' = tr_index rd ->
  (forall j, (j < length blocks)%nat ->
     tr_fetch rd' (nth j hs bh0) = if bad j then Corrupt else tr_fetch rd (nth j hs bh0)) ->
  exists t, new_titer c rd' None false = inr t /\
    forall ops, fst (ti_run c rd' t ops)
                = c_run c (concat (map (fun j => if bad j then [] else nth j blocks []) (seq 0 (length blocks)))) CSOI ops.
Proof. exact table_iter_skips_unreadable. Qed.
Print Assumptions C13_table_iter_skips_unreadable.

(* ... and the STRICT iterator over a reader some of whose block fetches fail with Corrupt: every
   call either behaves exactly as on the intact reader or returns false with the error set, after
   which every call returns false — the observations of any movement sequence are a prefix of
   those on the intact reader (hence, by B.4, of the reference cursor's) followed by false only. *)
Theorem C13_table_strict_iter_degrades : forall c rd rd' ops t,
  degraded rd rd' -> ti_strict t = true ->
  exists n, firstn n (fst (ti_run c rd' t ops)) = firstn n (fst (ti_run c rd t ops)) /\
            skipn n (fst (ti_run c rd' t ops)) = map (fun _ => None) (skipn n ops).
Proof. intros c rd rd' ops t D. exact (strict_run_degraded c rd rd' D ops t). Qed.
Print Assumptions C13_table_strict_iter_degrades.

(* C.2  format membership: a reader accepted by the executable check [table_check] (every block
   re-encodes to its bytes with the given restart interval, separators and handles as required)
   is well-formed, with exactly the returned pairs.  The correspondence run evaluates table_check
   on the bytes of tables written by the Go writer. *)
Theorem C13_table_check_sound : forall c rd ri kvs, table_check c rd ri = Some kvs ->
  exists blocks seps hs, table_wf c rd blocks seps hs /\ tkvs blocks = kvs.
Proof. exact table_check_sound. Qed.
Print Assumptions C13_table_check_sound.

(* C.3  table_wf_of_write — PARTIAL: proved for Compression = NoCompression; any filter generator
   on the writer side and any filter name (or none) on the reader side, any block size, restart
   interval >= 1, any checksum function below 2^32, any comparer satisfying the contract for
   which the empty key is least (the Go writer tests len(key) == 0 to mean "no next key").  The file the
   model writer produces for strictly increasing pairs is, when opened by the model reader with
   or without checksum verification, a well-formed table holding exactly those pairs — so
   B.1-B.6 apply to it.
   FULL STATEMENT: the same with snappy = true for every codec with decompress (compress x) =
   Some x and non-empty output - proved below as C13_table_wf_of_write (C.3') under the computable
   size condition table_sizes_ok (the uncompressed blocks are then not bounded by the file length). *)
Theorem C13_table_wf_of_write_partial :
  forall tp crc compress decompress fcontains c blockSize ri fgen kvs file fname verify,
  tparams_ok tp -> (forall b, (crc b < 2 ^ 32)%N) -> (forall x, decompress (compress x) = Some x) ->
  comparer_ok c -> (forall k, cmp c [] k <> Gt) -> (1 <= ri)%N ->
  sorted c kvs ->
  twrite tp crc compress c blockSize ri false fgen kvs = Some file -> (lenN file < 2 ^ 32)%N ->
  exists blocks seps hs,
    table_wf c (open_table tp crc decompress fcontains c file fname verify) blocks seps hs /\
    tkvs blocks = kvs.
Proof.
  intros tp crc compress decompress fcontains c blockSize ri fgen kvs file fname verify Htp Hcrc Hcodec Hc Hel Hri.
  exact (table_wf_of_write tp Htp crc Hcrc compress decompress Hcodec fcontains c Hc Hel blockSize ri Hri fgen kvs file fname verify).
Qed.
Print Assumptions C13_table_wf_of_write_partial.

(* C.4  the round trip end to end (same scope as C.3): a table written from strictly increasing
   pairs and opened again yields exactly those pairs — exact lookups, first-key->= lookups,
   full and range-restricted iteration in both directions under arbitrary movement sequences,
   non-decreasing offsets. *)
Theorem C13_table_roundtrip_partial :
  forall tp crc compress decompress fcontains c blockSize ri fgen kvs file fname verify strict,
  tparams_ok tp -> (forall b, (crc b < 2 ^ 32)%N) -> (forall x, decompress (compress x) = Some x) ->
  comparer_ok c -> (forall k, cmp c [] k <> Gt) -> (1 <= ri)%N ->
  sorted c kvs ->
  twrite tp crc compress c blockSize ri false fgen kvs = Some file -> (lenN file < 2 ^ 32)%N ->
  let rd := open_table tp crc decompress fcontains c file fname verify in
  (forall k v, In (k, v) kvs -> tget c rd k = FFound k v) /\
  (forall k, (forall v, ~ In (k, v) kvs) -> tget c rd k = FNotFound) /\
  (forall key, tfind c rd key false =
     match first_ge c key kvs 0 with
     | Some i => match nth_error kvs i with Some (k, v) => FFound k v | None => FOther end
     | None => FNotFound
     end) /\
  (exists t, new_titer c rd None strict = inr t /\
     forall ops, fst (ti_run c rd t ops) = c_run c kvs CSOI ops) /\
  (forall k1 k2, cmp c k1 k2 <> Gt ->
     exists o1 o2, toffset_of c rd k1 = Ok o1 /\ toffset_of c rd k2 = Ok o2 /\ (o1 <= o2)%N) /\
  (kvs <> [] -> forall start limit,
     exists t, new_titer c rd (Some (start, limit)) strict = inr t /\
       forall ops, fst (ti_run c rd t ops) = c_run c (restrict c start limit kvs) CSOI ops).
Proof. exact table_roundtrip. Qed.
Print Assumptions C13_table_roundtrip_partial.

(* C.3' / C.4'  the writer theorems for BOTH compression settings ([snappy] is the writer's
   Compression = SnappyCompression: data, metaindex and index blocks go through the codec, the
   filter block does not).  The codec is any pair with decompress (compress x) = Some x whose
   encoder never returns the empty string (Writer uses pendingBH.length = 0 for "no pending
   block"; snappy.Encode always emits the length prefix).  With compression the file length no
   longer bounds the blocks the reader decodes, and the format's uint32 restart offsets need every
   UNCOMPRESSED block below 2^32 bytes: that is the computable condition table_sizes_ok
   (Codec/TableSizes.v: 34 bytes per pair cover the data blocks and the metaindex block; the
   index block's size - its separators come from the comparer, whose contract does not bound
   their length - is read off the model writer's final state).  The range iterator clause now
   includes the empty table (B.4b).  The contract is validated against golang/snappy on every
   run: the model decoder Codec/Snappy.v decodes what snappy.Encode produced back to the input
   (case KSnappy) and reads the snappy tables the Go writer wrote (KTable: format membership
   with exactly the input pairs, all probes and walks). *)
Theorem C13_table_wf_of_write :
  forall tp crc compress decompress fcontains c blockSize ri fgen snappy kvs file fname verify,
  tparams_ok tp -> (forall b, (crc b < 2 ^ 32)%N) ->
  (forall x, decompress (compress x) = Some x) -> (forall x, compress x <> []) ->
  comparer_ok c -> (forall k, cmp c [] k <> Gt) -> (1 <= ri)%N ->
  sorted c kvs ->
  twrite tp crc compress c blockSize ri snappy fgen kvs = Some file -> (lenN file < 2 ^ 32)%N ->
  table_sizes_ok tp crc compress c blockSize ri snappy fgen kvs = true ->
  exists blocks seps hs,
    table_wf c (open_table tp crc decompress fcontains c file fname verify) blocks seps hs /\
    tkvs blocks = kvs.
Proof.
  intros tp crc compress decompress fcontains c blockSize ri fgen snappy kvs file fname verify Htp Hcrc Hcodec Hne Hc Hel Hri.
  exact (table_wf_of_write_z tp Htp crc Hcrc compress decompress Hcodec Hne fcontains c Hc Hel blockSize ri Hri fgen snappy kvs file fname verify).
Qed.
Print Assumptions C13_table_wf_of_write.

Theorem C13_table_roundtrip :
  forall tp crc compress decompress fcontains c blockSize ri fgen snappy kvs file fname verify strict,
  tparams_ok tp -> (forall b, (crc b < 2 ^ 32)%N) ->
  (forall x, decompress (compress x) = Some x) -> (forall x, compress x <> []) ->
  comparer_ok c -> (forall k, cmp c [] k <> Gt) -> (1 <= ri)%N ->
  sorted c kvs ->
  twrite tp crc compress c blockSize ri snappy fgen kvs = Some file -> (lenN file < 2 ^ 32)%N ->
  table_sizes_ok tp crc compress c blockSize ri snappy fgen kvs = true ->
  let rd := open_table tp crc decompress fcontains c file fname verify in
  (forall k v, In (k, v) kvs -> tget c rd k = FFound k v) /\
  (forall k, (forall v, ~ In (k, v) kvs) -> tget c rd k = FNotFound) /\
  (forall key, tfind c rd key false =
     match first_ge c key kvs 0 with
     | Some i => match nth_error kvs i with Some (k, v) => FFound k v | None => FOther end
     | None => FNotFound
     end) /\
  (exists t, new_titer c rd None strict = inr t /\
     forall ops, fst (ti_run c rd t ops) = c_run c kvs CSOI ops) /\
  (forall k1 k2, cmp c k1 k2 <> Gt ->
     exists o1 o2, toffset_of c rd k1 = Ok o1 /\ toffset_of c rd k2 = Ok o2 /\ (o1 <= o2)%N) /\
  (forall start limit,
     exists t, new_titer c rd (Some (start, limit)) strict = inr t /\
       forall ops, fst (ti_run c rd t ops) = c_run c (restrict c start limit kvs) CSOI ops).
Proof. exact table_roundtrip_z. Qed.
Print Assumptions C13_table_roundtrip.

(* the constants of the current source satisfy the layout side conditions *)
Theorem C13_table_constants_ok : tparams_ok tblp.
Proof. exact tblp_ok. Qed.
Print Assumptions C13_table_constants_ok.

(* ... and the on-disk format constants (magic, block type bytes, trailer and footer length) have
   their documented values. *)
Theorem C13_format_constants_pinned :
  tbl_magic = [87; 251; 128; 139; 36; 117; 71; 219]%N /\
  tbl_blockTypeNoCompression = 0%N /\ tbl_blockTypeSnappyCompression = 1%N /\
  tbl_blockTrailerLen = 5%N /\ tbl_footerLen = 48%N.
Proof. exact tbl_format_pinned. Qed.
Print Assumptions C13_format_constants_pinned.

(* A.3b  block_no_panic — PARTIAL: on every block the writer produces (strictly increasing keys),
   no movement sequence ever puts the iterator into an error state: no Corrupted, no place where
   Go would index out of range.
   FULL STATEMENT (block_no_panic for arbitrary bytes: "decoding never panics") is FALSE for the
   code as it is: without checksum verification a single altered byte in the restart array or in
   an entry header makes block.entry / block.seek slice out of range (reproduced on the
   implementation, see the report); with verification the altered block never reaches the
   decoder (C.1). *)
Theorem C13_block_no_panic_partial : forall c ri kvs,
  comparer_ok c -> (1 <= ri)%N -> (lenN (block_build ri kvs) < 2 ^ 32)%N -> sorted c kvs ->
  exists b, read_block (block_build ri kvs) = Ok b /\
    forall ops, bi_err (bi_run_final c (new_block_iter c b None false) ops) = None.
Proof. exact block_no_panic_wf. Qed.
Print Assumptions C13_block_no_panic_partial.

(* A.4  the same for the SLICED block iterator newBlockIter(b, &util.Range{start, limit}, false):
   it refines the cursor over the pairs with start <= key < limit (each bound optional), for
   every non-empty block.  (On an EMPTY block a slice with a Start bound makes block.seek read
   the restart-count word as an entry offset and the iterator reports a spurious corruption
   error without returning any pair; the model reproduces this, the theorem excludes it.) *)
Theorem C13_block_iter_sliced_refines_cursor : forall c ri kvs start limit,
  comparer_ok c -> (1 <= ri)%N -> (lenN (block_build ri kvs) < 2 ^ 32)%N -> sorted c kvs -> kvs <> [] ->
  exists b, read_block (block_build ri kvs) = Ok b /\
    forall ops, bi_run c (new_block_iter c b (Some (start, limit)) false) ops
                = c_run c (restrict c start limit kvs) CSOI ops.
Proof. exact block_iter_sliced_refines. Qed.
Print Assumptions C13_block_iter_sliced_refines_cursor.

(* Non-vacuity: the documented example block (restart interval 2) meets the hypotheses, its
   bytes are the documented ones, and a walk with reversals at the restart point behaves. *)
Definition ex_kvs : list (bytes * bytes) :=
  [([100;101;99;107], [118;49]); ([100;111;99;107], [118;50]); ([100;117;99;107], [118;51])]%N.
Example C13_nonvacuous :
  comparer_ok bytewise /\ sorted bytewise ex_kvs /\ (lenN (block_build 2 ex_kvs) < 2 ^ 32)%N /\
  block_build 2 ex_kvs =
    [0;4;2;100;101;99;107;118;49; 1;3;2;111;99;107;118;50; 0;4;2;100;117;99;107;118;51;
     0;0;0;0; 17;0;0;0; 2;0;0;0]%N /\
  (match read_block (block_build 2 ex_kvs) with
   | Ok b => bi_run bytewise (new_block_iter bytewise b None false)
               [OpSeek [100;111]%N; OpNext; OpPrev; OpPrev; OpPrev; OpNext; OpLast; OpNext; OpPrev]
   | _ => []
   end) =
  [nth_error ex_kvs 1; nth_error ex_kvs 2; nth_error ex_kvs 1; nth_error ex_kvs 0; None;
   nth_error ex_kvs 0; nth_error ex_kvs 2; None; nth_error ex_kvs 2].
Proof.
  split; [exact bytewise_ok|]. split; [vm_compute; auto|]. split; [vm_compute; reflexivity|].
  split; vm_compute; reflexivity.
Qed.

(* The hypotheses of C.3/C.4 are satisfiable: the bytewise comparer is lawful and has the empty
   key least, the CRC instance stays below 2^32, the identity codec satisfies the contract, the
   generated constants satisfy tparams_ok. *)
Example C13_write_hypotheses_satisfiable :
  comparer_ok bytewise /\ (forall k, cmp bytewise [] k <> Gt) /\ (forall b, (tbl_crc b < 2 ^ 32)%N) /\
  (forall x : bytes, (fun y => Some y) ((fun y : bytes => y) x) = Some x) /\ tparams_ok tblp.
Proof.
  split; [exact bytewise_ok|]. split; [intros [|x k]; cbn; discriminate|].
  split; [intros b; unfold tbl_crc, crc_mask; apply N.mod_lt; discriminate|].
  split; [reflexivity | exact tblp_ok].
Qed.

(* Non-vacuity of table_wf: a seven-pair table written by the model writer (block size 24, restart
   interval 2, no compression, CRC-32C) has three data blocks, passes table_check when opened by
   the model reader with checksum verification, hence is table_wf; lookups behave. *)
Definition ex_tkvs : list (bytes * bytes) :=
  [([97], [1;1]); ([97;98], []); ([97;98;99], [2]); ([98], [3;3;3]); ([98;98], [4]); ([99;100], [5]); ([100], [6;6])]%N.
Definition ex_reader : treader :=
  match twrite tblp tbl_crc (fun x => x) bytewise 24 2 false None ex_tkvs with
  | Some f => open_table tblp tbl_crc (fun _ => None) (fun _ _ _ => true) bytewise f None true
  | None => tr_broken Corrupt
  end.
Example C13_table_nonvacuous :
  (exists blocks seps hs, table_wf bytewise ex_reader blocks seps hs /\ tkvs blocks = ex_tkvs /\ length blocks = 3%nat) /\
  tget bytewise ex_reader [98;98]%N = FFound [98;98]%N [4]%N /\
  tfind bytewise ex_reader [97;99]%N false = FFound [98]%N [3;3;3]%N.
Proof.
  split; [|split; vm_compute; reflexivity].
  exists [[([97], [1;1]); ([97;98], []); ([97;98;99], [2])]; [([98], [3;3;3]); ([98;98], [4]); ([99;100], [5])]; [([100], [6;6])]]%N,
         [[97;98;99]; [99;100]; [101]]%N, [mkBH 0 29; mkBH 34 30; mkBH 69 14]%N.
  split; [|split; reflexivity].
  apply (table_wfb_sound bytewise ex_reader 2). vm_compute. reflexivity.
Qed.

(* Non-vacuity of C.3'/C.4': a codec that is not the identity (one tag byte in front: never empty,
   decompress (compress x) = Some x for all x), the seven-pair table of C13_table_nonvacuous written
   by the model writer WITH compression and a filter block: the size condition evaluates to true,
   the file is below 2^32 bytes, and lookups through the model reader behave.  And the model of
   golang/snappy's decoder inverts a block snappy.Encode produced (literal + overlapping copy). *)
Definition tag_compress (x : bytes) : bytes := 7%N :: x.
Definition tag_decompress (y : bytes) : option bytes := match y with 7%N :: x => Some x | _ => None end.
Definition ex_fgen : option (bytes * (list (N * list bytes) -> bytes)) := Some ([102; 49]%N, fun _ => [0; 0; 0; 0; 11]%N).
Example C13_write_snappy_nonvacuous :
  (forall x, tag_decompress (tag_compress x) = Some x) /\ (forall x, tag_compress x <> []) /\
  table_sizes_ok tblp tbl_crc tag_compress bytewise 24 2 true ex_fgen ex_tkvs = true /\
  match twrite tblp tbl_crc tag_compress bytewise 24 2 true ex_fgen ex_tkvs with
  | Some f =>
      (lenN f <? 2 ^ 32)%N = true /\
      let rd := open_table tblp tbl_crc tag_decompress (fun _ _ _ => true) bytewise f (Some [102; 49]%N) true in
      tget bytewise rd [98;98]%N = FFound [98;98]%N [4]%N /\
      tfind bytewise rd [97;99]%N false = FFound [98]%N [3;3;3]%N /\
      table_check bytewise rd 2 = Some ex_tkvs
  | None => False
  end /\
  snappy_decode [12; 4; 97; 98; 25; 2]%N = Some [97; 98; 97; 98; 97; 98; 97; 98; 97; 98; 97; 98]%N.
Proof.
  split; [reflexivity|]. split; [discriminate|]. vm_compute. repeat split; reflexivity.
Qed.

(* B.7 is about results, not about OffsetOf beyond the last key: the same file (written with a
   filter block named "f1") read by a reader that has the policy "f1" and by a reader without a
   filter: every data handle is the same, OffsetOf of a key beyond all keys is 88 with the
   policy (the filter block's offset) and 98 without (the metaindex block's offset). *)
Example C13_policy_visible_in_offsetof_beyond_end :
  match twrite tblp tbl_crc (fun x => x) bytewise 24 2 false ex_fgen ex_tkvs with
  | Some f =>
      let rd1 := open_table tblp tbl_crc (fun _ => None) (fun _ _ _ => true) bytewise f (Some [102; 49]%N) true in
      let rd2 := open_table tblp tbl_crc (fun _ => None) (fun _ _ _ => true) bytewise f None true in
      toffset_of bytewise rd1 [122]%N = Ok 88%N /\ toffset_of bytewise rd2 [122]%N = Ok 98%N /\
      toffset_of bytewise rd1 [98]%N = toffset_of bytewise rd2 [98]%N /\
      tget_filtered bytewise rd1 [98;98]%N = tget_filtered bytewise rd2 [98;98]%N
  | None => False
  end.
Proof. vm_compute. repeat split; reflexivity. Qed.
