(* Props/C13.v — property C13: sorted tables round-trip under all layouts and detect block damage.
   Property theorems only; each is closed by [exact lemma] and followed by Print Assumptions.

   Stage A (block level): Codec/Block.v models blockWriter and block / blockIter of
   leveldb/table; the theorems hold for every restart interval >= 1, every list of pairs whose
   encoded block is shorter than 2^32 bytes (offsets are uint32 in the format), every comparer
   satisfying the contract. *)
From GL Require Import Base.Order Base.Varint Base.VarintProofs Base.Cursor Base.CursorProofs
  Codec.BytesCmp Codec.BytesCmpProofs Codec.Block Codec.BlockEnc Codec.BlockProofs.

(* A.0  uvarint: Uvarint (PutUvarint x ++ rest) = (x, len) for every uint64 x. *)
Theorem C13_uvarint_roundtrip : forall x rest, (x < 2 ^ 64)%N ->
  uvarint (put_uvarint x ++ rest) = UvOk x (lenN (put_uvarint x)).
Proof. exact uvarint_put. Qed.
Print Assumptions C13_uvarint_roundtrip.

(* A.1  block_roundtrip: decoding what blockWriter produced returns the pairs — for ANY list of
   pairs (prefix compression does not need order) and every restart interval >= 1. *)
Theorem C13_block_roundtrip : forall ri kvs,
  (1 <= ri)%N -> (lenN (block_build ri kvs) < 2 ^ 32)%N ->
  block_decode (block_build ri kvs) = Ok kvs.
Proof. exact block_roundtrip. Qed.
Print Assumptions C13_block_roundtrip.

(* A.2  block_seek_first_ge: on strictly increasing keys, Seek k lands on the first entry whose
   key is >= k (restart-point binary search, then linear scan), or reports false when there is none. *)
Theorem C13_block_seek_first_ge : forall c ri kvs k,
  comparer_ok c -> (1 <= ri)%N -> (lenN (block_build ri kvs) < 2 ^ 32)%N -> sorted c kvs ->
  exists b, read_block (block_build ri kvs) = Ok b /\
    let '(ok, it) := bi_seek c (new_block_iter c b None false) k in
    match first_ge c k kvs 0 with
    | Some i => ok = true /\ nth_error kvs i = Some (bi_key it, bi_value it)
    | None => ok = false
    end.
Proof. exact block_seek_first_ge. Qed.
Print Assumptions C13_block_seek_first_ge.

(* A.3  block_iter_refines_cursor: any sequence of First/Last/Seek/Next/Prev on the (unsliced)
   block iterator observes exactly what the same calls observe on the reference cursor over the
   list (Base/Cursor.v), including stepping off either end and coming back.  (Model note: Prev
   re-scans the restart range instead of popping blockIter's prevNode/prevKeys cache.) *)
Theorem C13_block_iter_refines_cursor : forall c ri kvs,
  comparer_ok c -> (1 <= ri)%N -> (lenN (block_build ri kvs) < 2 ^ 32)%N -> sorted c kvs ->
  exists b, read_block (block_build ri kvs) = Ok b /\
    forall ops, bi_run c (new_block_iter c b None false) ops = c_run c kvs CSOI ops.
Proof. exact block_iter_refines_cursor. Qed.
Print Assumptions C13_block_iter_refines_cursor.

(* Non-vacuity: the documented example block (restart interval 2) meets the hypotheses, its
   bytes are the documented ones, and a walk with reversals at the restart point behaves. *)
Definition ex_kvs : list (bytes * bytes) :=
  [([100;101;99;107], [118;49]); ([100;111;99;107], [118;50]); ([100;117;99;107], [118;51])]%N.
Example C13_nonvacuous :
  comparer_ok bytewise /\ sorted bytewise ex_kvs /\ (lenN (block_build 2 ex_kvs) < 2 ^ 32)%N /\
  block_build 2 ex_kvs =
    [0;4;2;100;101;99;107;118;49; 1;3;2;111;99;107;118;50; 0;4;2;100;117;99;107;118;51;
     0;0;0;0; 17;0;0;0; 2;0;0;0]%N /\
  (match read_block (block_build 2 ex_kvs) with
   | Ok b => bi_run bytewise (new_block_iter bytewise b None false)
               [OpSeek [100;111]%N; OpNext; OpPrev; OpPrev; OpPrev; OpNext; OpLast; OpNext; OpPrev]
   | _ => []
   end) =
  [nth_error ex_kvs 1; nth_error ex_kvs 2; nth_error ex_kvs 1; nth_error ex_kvs 0; None;
   nth_error ex_kvs 0; nth_error ex_kvs 2; None; nth_error ex_kvs 2].
Proof.
  split; [exact bytewise_ok|]. split; [vm_compute; auto|]. split; [vm_compute; reflexivity|].
  split; vm_compute; reflexivity.
Qed.
