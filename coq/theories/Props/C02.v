(* Props/C02.v — property C02: iterators enumerate exactly the live pairs, in order, for any walk.
   Property theorems only; each is closed by [exact lemma] and followed by Print Assumptions.

   The SPEC is the reference cursor of Iter/Cursor.v (positions SOI | At i | EOI over a strictly
   sorted list; run_cursor l ms = what every call of the sequence ms shows).  The model machines
   (Iter/Merged.v, Iter/Indexed.v, Iter/DBIter.v) mirror the Go iterators and take their children
   as black boxes that behave like cursors ([refines]). *)
From GL Require Import Base.Bytes Base.Order Base.OrderProofs Codec.IKey Codec.IKeyProofs Codec.Block Codec.Table Codec.TableProofs
  Lsm.Lsm Lsm.LsmProofs Lsm.ReadPath Lsm.ReadPathMem Lsm.ReadPathProofs Lsm.IterPath Lsm.IterPathChild Lsm.IterPathLevel
  Lsm.IterPathProofs Lsm.IterPathAbs.
From GL Require Mem.MemDB.
From GL Require Import Iter.Cursor Iter.CursorProofs Iter.Merged Iter.MergedProofs Iter.Indexed Iter.IndexedProofs
  Iter.DBIter Iter.LiveProofs Iter.DBIterProofs Iter.StackProofs Iter.DBIterCong Iter.InvertedProofs Iter.IterErr Iter.IterErrProofs Iter.DBIterErrProofs
  Gen.ConstsOkC02 Corr.Cmps.
Close Scope N_scope.

(* 1. dbIter: over ANY raw iterator that behaves like a cursor over the strictly icmp-sorted,
      well-formed internal entries l, for EVERY finite sequence of First/Last/Seek/Next/Prev
      (direction reversals, stepping off either end and back included), every call returns and
      shows exactly what the cursor over live_pairs l seq shows.  No fuel exhaustion, no panic. *)
Theorem C02_dbiter_refines : forall (c : comparer) (p : kparams) (C : Type) (chstep : C -> move ikey -> C)
  (chobs : C -> option entry) (seq : N) (strict : bool) (l : list entry) (fuel : nat) (ch0 : C),
  comparer_ok c -> dbparams_ok p -> (seq <= keyMaxSeq p)%N ->
  sorted_kv (icmp c) l -> Forall (entry_wf p) l -> length l < fuel ->
  refines (icmp c) chstep chobs ch0 l ->
  forall ms, db_run c p C chstep chobs seq strict fuel (db_init ch0) ms =
             Some (run_cursor (cmp c) (live_pairs c p seq l) ms).
Proof. exact dbiter_refines. Qed.
Print Assumptions C02_dbiter_refines.

(* 2. mergedIterator: over children that behave like cursors over strictly sorted lists with no
      key in common, with ANY heap meeting the contract of container/heap, every call sequence
      shows what the cursor over the merge of the lists shows; the machine never gets stuck. *)
Theorem C02_merged_refines : forall (K V C : Type) (kcmp : K -> K -> comparison) (chstep : C -> move K -> C)
  (chobs : C -> option (K * V)) (pop : list (option K) -> bool -> list nat -> option (nat * list nat))
  (ls : list (list (K * V))) (its : list C),
  ord_ok kcmp -> pop_ok K kcmp pop ->
  Forall (sorted_kv kcmp) ls -> NoDup (map fst (concat ls)) ->
  Forall2 (fun c l => refines kcmp chstep chobs c l) its ls ->
  forall ms, m_run K V C chstep chobs pop (m_init its) ms = Some (run_cursor kcmp (merge_lists kcmp ls) ms).
Proof. exact merged_refines. Qed.
Print Assumptions C02_merged_refines.

(* the executable heap used when the model is run against the code meets the contract *)
Theorem C02_pop_scan_ok : forall (K : Type) (kcmp : K -> K -> comparison), ord_ok kcmp ->
  pop_ok K kcmp (pop_scan K kcmp).
Proof. intros K kcmp ok. exact (pop_scan_ok K kcmp ok). Qed.
Print Assumptions C02_pop_scan_ok.

(* 3. indexedIterator: index and data iterators behaving like cursors, index keys separating the
      blocks: every call sequence shows what the cursor over the concatenation shows. *)
Theorem C02_indexed_refines : forall (K V D I C : Type) (kcmp : K -> K -> comparison)
  (istep : I -> move K -> I) (iobs : I -> option (K * D)) (mk : D -> C)
  (dstep : C -> move K -> C) (dobs : C -> option (K * V))
  (il : list (K * D)) (dl : D -> list (K * V)) (i0 : I) (fuel : nat),
  ord_ok kcmp -> index_ok kcmp il dl ->
  refines kcmp istep iobs i0 il ->
  (forall d, In d (map snd il) -> refines kcmp dstep dobs (mk d) (dl d)) ->
  length il < fuel ->
  forall ms, x_run K V D I C istep iobs mk dstep dobs fuel (x_init i0) ms =
             Some (run_cursor kcmp (concat_blocks il dl) ms).
Proof. exact indexed_refines. Qed.
Print Assumptions C02_indexed_refines.

(* the list an indexed iterator presents is itself strictly sorted (so a level can be a child of
   the merged iterator) *)
Theorem C02_concat_blocks_sorted : forall (K V D : Type) (kcmp : K -> K -> comparison), ord_ok kcmp ->
  forall (il : list (K * D)) (dl : D -> list (K * V)), index_ok kcmp il dl -> sorted_kv kcmp (concat_blocks il dl).
Proof. intros K V D. exact (@concat_blocks_sorted K V D). Qed.
Print Assumptions C02_concat_blocks_sorted.

(* 4. Corollaries about what an iterator can ever show. *)
(* strictly increasing comparer order, hence each live key once *)
Theorem C02_live_pairs_sorted : forall c, comparer_ok c -> forall p s l,
  sorted_kv (icmp c) l -> sorted_kv (cmp c) (live_pairs c p s l).
Proof. exact live_pairs_sorted. Qed.
Print Assumptions C02_live_pairs_sorted.

(* (u, v) is presented iff the newest entry of u with seq <= s exists, is a value, and carries v:
   deleted keys, overwritten versions and versions newer than the iterator's seq never surface *)
Theorem C02_live_pairs_spec : forall c, comparer_ok c -> forall p s l, sorted_kv (icmp c) l -> forall u v,
  In (u, v) (live_pairs c p s l) <->
  exists e, newest_visible c s l u = Some e /\ is_val p e = true /\ v = snd e.
Proof. exact live_pairs_spec. Qed.
Print Assumptions C02_live_pairs_spec.

(* every output of a walk is either "not valid, nil, nil" or a pair of the list: Key/Value
   return the pair under the cursor *)
Theorem C02_outputs_are_pairs : forall (K V : Type) (kcmp : K -> K -> comparison) (l : list (K * V)) ms,
  Forall (fun o => fst o = is_some (snd o) /\ forall x, snd o = Some x -> In x l) (run_cursor kcmp l ms).
Proof. intros K V. exact (@run_cursor_outputs K V). Qed.
Print Assumptions C02_outputs_are_pairs.

(* Seek(k) lands on the first key >= k *)
Theorem C02_seek_first_ge : forall (K V : Type) (kcmp : K -> K -> comparison), ord_ok kcmp ->
  forall (l : list (K * V)) p k, sorted_kv kcmp l ->
  match cobs l (cstep kcmp l p (MSeek k)) with
  | Some x => In x l /\ kcmp (fst x) k <> Lt /\ forall y, In y l -> kcmp (fst y) k <> Lt -> kcmp (fst x) (fst y) <> Gt
  | None => forall y, In y l -> kcmp (fst y) k = Lt
  end.
Proof. intros K V. exact (@seek_lands_first_ge K V). Qed.
Print Assumptions C02_seek_first_ge.

(* 5. Range restriction: slicing the raw iterator at (Start, keyMaxSeq, Seek) / (Limit, keyMaxSeq,
      Seek) - what newIterator passes down - leaves exactly the live pairs with Start <= key < Limit. *)
Theorem C02_slice_is_range : forall c, comparer_ok c -> forall p, dbparams_ok p -> forall s l start limit a b,
  sorted_kv (icmp c) l -> Forall (fun e : entry => (num (fst e) <= keyMaxNum p)%N) l ->
  opt_probe p start = Some a -> opt_probe p limit = Some b ->
  live_pairs c p s (slice_entries c a b l) =
  filter (fun kv => in_range c start limit (fst kv)) (live_pairs c p s l).
Proof. exact live_pairs_slice. Qed.
Print Assumptions C02_slice_is_range.

(* 6. Composition: the DB iterator stack.  Given that the memdb and table iterators under a DB /
      snapshot / transaction iterator behave like cursors over their (sliced) strictly sorted
      entry lists ls with no internal key in common (proved for memdb and tables by C14 / C13),
      dbIter over the merged iterator over them shows, for every call sequence, exactly the
      cursor over the live pairs of the merged entries - which by C02_slice_is_range are the live
      pairs with keys in [Start, Limit). *)
Theorem C02_db_iterator_correct : forall (c : comparer) (p : kparams) (C : Type)
  (chstep : C -> move ikey -> C) (chobs : C -> option entry)
  (pop : list (option ikey) -> bool -> list nat -> option (nat * list nat))
  (seq : N) (strict : bool) (ls : list (list entry)) (its : list C) (fuel : nat),
  comparer_ok c -> dbparams_ok p -> (seq <= keyMaxSeq p)%N -> pop_ok ikey (icmp c) pop ->
  Forall (sorted_kv (icmp c)) ls -> NoDup (map fst (concat ls)) -> Forall (Forall (entry_wf p)) ls ->
  Forall2 (fun ch l => refines (icmp c) chstep chobs ch l) its ls ->
  length (concat ls) < fuel ->
  forall ms, db_run c p _ (merged_step ikey bytes C chstep chobs pop) (m_kv ikey bytes C chobs) seq strict fuel
               (db_init (m_init its)) ms =
             Some (run_cursor (cmp c) (live_pairs c p seq (merge_lists (icmp c) ls)) ms).
Proof. exact db_iterator_correct. Qed.
Print Assumptions C02_db_iterator_correct.

(* the merged and the indexed machines are themselves black boxes that behave like cursors, so the
   stack composes to any depth (a level = indexed over tables = indexed over blocks, under merged) *)
Theorem C02_merged_is_cursor : forall (K V C : Type) (kcmp : K -> K -> comparison) (chstep : C -> move K -> C)
  (chobs : C -> option (K * V)) (pop : list (option K) -> bool -> list nat -> option (nat * list nat))
  (ls : list (list (K * V))) (its : list C),
  ord_ok kcmp -> pop_ok K kcmp pop ->
  Forall (sorted_kv kcmp) ls -> NoDup (map fst (concat ls)) ->
  Forall2 (fun c l => refines kcmp chstep chobs c l) its ls ->
  refines kcmp (merged_step K V C chstep chobs pop) (m_kv K V C chobs) (m_init its) (merge_lists kcmp ls).
Proof. exact merged_is_cursor. Qed.
Print Assumptions C02_merged_is_cursor.

Theorem C02_indexed_is_cursor : forall (K V D I C : Type) (kcmp : K -> K -> comparison)
  (istep : I -> move K -> I) (iobs : I -> option (K * D)) (mk : D -> C)
  (dstep : C -> move K -> C) (dobs : C -> option (K * V))
  (il : list (K * D)) (dl : D -> list (K * V)) (i0 : I) (fuel : nat),
  ord_ok kcmp -> index_ok kcmp il dl ->
  refines kcmp istep iobs i0 il ->
  (forall d, In d (map snd il) -> refines kcmp dstep dobs (mk d) (dl d)) ->
  length il < fuel ->
  refines kcmp (indexed_step K V D I C istep iobs mk dstep dobs fuel) (x_kv K V I C dobs) (x_init i0)
          (concat_blocks il dl).
Proof. exact indexed_is_cursor. Qed.
Print Assumptions C02_indexed_is_cursor.

(* 8. Inverted and empty ranges: with Start >= Limit the view is empty, and an iterator over an empty view
      answers every call of every walk with (false, nil, nil).  (DB.NewIterator used to panic on such a
      range once a sorted level held tables between the bounds; repaired, and generated by the harness.) *)
Theorem C02_inverted_range_empty : forall c, comparer_ok c -> forall (start limit : bytes) (l : list (bytes * bytes)),
  cmp c start limit <> Lt -> filter (fun kv => in_range c (Some start) (Some limit) (fst kv)) l = [].
Proof. exact inverted_range_empty. Qed.
Print Assumptions C02_inverted_range_empty.

Theorem C02_empty_view_shows_nothing : forall (K V : Type) (f : K -> K -> comparison) (ms : list (move K)),
  run_cursor f ([] : list (K * V)) ms = map (fun _ => (false, None)) ms.
Proof. intros K V. exact (@run_cursor_nil K V). Qed.
Print Assumptions C02_empty_view_shows_nothing.

(* 9. END TO END ON BYTES.  The children of the DB's merged iterator are no longer black boxes:
      Lsm/IterPath.v builds them as DB.newRawIterator does - the memdb iterator of property C14 over the
      array-encoded skip lists (transaction's memdb first, then the live and the frozen one), the table
      iterator of property C13 over the BYTES of every level-0 table file (and of the transaction's tables),
      one indexed iterator per non-empty deeper level over tFiles.newIndexIterator (the level cut at
      searchMax(Start) / searchMin(Limit), tFilesArrayIndexer.Get handing the slice on to the first and the
      last table only) - puts the merged iterator and dbIter on top and converts the range as DB.newIterator
      does.  Keys travel encoded below dbIter and parsed inside it. *)

(* 9a. the memdb iterator over a memdb state satisfying C14's representation invariant is a cursor over the
       pairs of the skip list inside the slice, and no call of the array model panics or runs out of fuel *)
Theorem C02_mem_child_refines : forall c, comparer_ok c -> forall p, (keyTypeSeek p <= keyTypeVal p)%N ->
  forall mp, MemDB.mparams_ok mp -> forall d sl, mem_ok c p mp d ->
  refines (cmp (ibc c)) (mc_step c mp) mc_obs (mc_new d sl) (sl_pairs (ibc c) sl (mem_pairs mp d)).
Proof. exact mem_child_refines. Qed.
Print Assumptions C02_mem_child_refines.

Theorem C02_mem_child_total : forall c, comparer_ok c -> forall p mp, MemDB.mparams_ok mp -> forall d sl ms,
  mem_ok c p mp d -> mc_bad (bb_run (mc_step c mp) (mc_new d sl) ms) = false.
Proof. exact mem_child_total. Qed.
Print Assumptions C02_mem_child_total.

(* 9b. the table iterator over the bytes of a file that C13's format check accepts is a cursor over the
       file's pairs inside the slice *)
Theorem C02_tab_child_refines : forall c, comparer_ok c -> forall tp crc decompress fname ufc verify strict f bl se hs sl,
  table_wf (ibc c) (tf_reader c tp crc decompress fname ufc verify f) bl se hs ->
  refines (cmp (ibc c)) (tc_step c) tc_obs (tc_new c tp crc decompress fname ufc verify strict f sl)
          (sl_pairs (ibc c) sl (tkvs bl)).
Proof. exact tab_child_refines. Qed.
Print Assumptions C02_tab_child_refines.

(* 9c. one sorted level: the indexed iterator over tFiles.newIndexIterator is a cursor over the pairs of ALL
       tables of the level inside the slice - the cut drops only tables wholly outside [Start, Limit), the
       tables strictly inside the cut need no slicing (the first/last rule), an inverted range cuts to nothing *)
Theorem C02_level_refines : forall c, comparer_ok c -> forall tp crc decompress fname ufc verify strict prs ts sl fuel,
  level_ok c tp crc decompress fname ufc verify strict prs ts -> length ts < fuel ->
  refines (cmp (ibc c)) (lv_step c tp crc decompress fname ufc verify strict fuel) lv_obs
          (x_init (new_index_iterator c ts sl)) (sl_pairs (ibc c) sl (lv_pairs prs ts)).
Proof. exact level_refines. Qed.
Print Assumptions C02_level_refines.

(* 9d. dbIter is parametric in its raw iterator: raw iterators indistinguishable by First/Last/Next/Prev and
       Seek with keys of a class P drive it to the same outputs (used at the encoded/parsed key boundary) *)
Theorem C02_dbiter_parametric : forall c p (C1 C2 : Type) step1 obs1 step2 obs2 seq strict (P : ikey -> Prop) f
  (x1 : C1) (x2 : C2) ms,
  sim C1 C2 step1 obs1 step2 obs2 P x1 x2 -> Forall (umove_in p seq P) ms ->
  db_run c p C1 step1 obs1 seq strict f (db_init x1) ms = db_run c p C2 step2 obs2 seq strict f (db_init x2) ms.
Proof. exact db_run_cong_init. Qed.
Print Assumptions C02_dbiter_parametric.

(* 9e. THE COMPOSITION.  For every lawful user comparer, every well-formed byte state with a write buffer
       (ReadPathProofs.wf_bstate: memdbs satisfy C14's invariant, every table file passes C13's format
       check with decodable keys and recorded bounds, the abstraction is a well-formed L1 layout), every
       sequence number, every range (bounds optional, nil range, INVERTED ranges included) and every finite
       sequence of First/Last/Seek/Next/Prev whose keys are byte strings: the DB iterator over the real
       children shows exactly what the reference cursor over lsm_view shows - the live pairs, at that
       sequence number, of the entries of [abs st] in internal-key order, restricted to [Start, Limit).
       In particular it never panics and never runs out of fuel (the result is Some). *)
Theorem C02_db_iterator_correct_bytes : forall c, comparer_ok c -> forall p, dbparams_ok p ->
  forall mp, MemDB.mparams_ok mp ->
  forall tp crc decompress fname ufc verify ri strict st seq slice fuel ms,
  wf_bstate c p mp tp crc decompress fname ufc verify ri st -> bs_mem st <> None ->
  (seq <= keyMaxSeq p)%N -> range_wf slice -> Forall umove_wf ms ->
  length (all_entries (abs c mp tp crc decompress fname ufc verify ri st)) < fuel ->
  dbi_run c p mp tp crc decompress fname ufc verify strict fuel None [] st seq slice ms =
  Some (run_cursor (cmp c) (lsm_view c p seq slice (abs c mp tp crc decompress fname ufc verify ri st)) ms).
Proof. exact db_iterator_correct_bytes. Qed.
Print Assumptions C02_db_iterator_correct_bytes.

(* 9f. the same with a transaction's private memdb and tables in front (Transaction.NewIterator), over the
       hypotheses the composition needs of the components (iter_wf: memdbs and files as above, deeper levels
       sorted, no internal key stored twice); the list is db_entries = all stored pairs merged in the encoded
       order and parsed.  (The L1 abstraction [abs] has no transaction memdb, hence no lsm_view here.) *)
Theorem C02_db_iterator_correct_bytes_gen : forall c, comparer_ok c -> forall p, dbparams_ok p ->
  forall mp, MemDB.mparams_ok mp ->
  forall tp crc decompress fname ufc verify ri strict auxm auxt st seq slice fuel ms,
  iter_wf c p mp tp crc decompress fname ufc verify ri auxm auxt st ->
  (seq <= keyMaxSeq p)%N -> range_wf slice -> Forall umove_wf ms ->
  length (concat (child_lists c mp tp crc decompress fname ufc verify ri auxm auxt st)) < fuel ->
  dbi_run c p mp tp crc decompress fname ufc verify strict fuel auxm auxt st seq slice ms =
  Some (run_cursor (cmp c) (range_view c slice (live_pairs c p seq
          (db_entries c mp tp crc decompress fname ufc verify ri auxm auxt st))) ms).
Proof. exact db_iterator_bytes_gen. Qed.
Print Assumptions C02_db_iterator_correct_bytes_gen.

(* 9g. what lsm_view is, in terms of reads: the pairs an iterator at sequence number s walks are exactly the
       (key, value) for which the read path of property C01 - lsm_get, which C01_read_path_refines proves equal
       to DB.Get / Snapshot.Get computed on the bytes - finds that value.  Iterators and point reads agree.
       Beyond wf_state this needs: no two stored entries share user key AND sequence number (every sequence
       number is given to one write), and kinds are deletion or value (wf_bstate gives the latter). *)
Theorem C02_view_agrees_with_get : forall c, comparer_ok c -> forall p, kparams_ok p -> forall st,
  wf_state c p st -> uniq (all_entries st) ->
  Forall (fun e => e_kind e = keyTypeDel p \/ e_kind e = keyTypeVal p) (all_entries st) ->
  forall s u v, In (u, v) (live_pairs c p s (lsm_entries c st)) <-> lsm_get c p st u s = GFound v.
Proof. exact view_agrees_with_get. Qed.
Print Assumptions C02_view_agrees_with_get.

(* 10. ERRORS AND RELEASE (Iter/IterErr.v: the error paths of merged_iter.go, indexed_iter.go, db_iter.go -
       iterErr, indexErr/dataErr, strict vs non-strict, setErr - and Release / use after Release /
       SetReleaser; children carry an error status). *)

(* 10a. once an error is recorded every movement call returns false, Valid is false, Key/Value are nil and
        the error stays (merged iterator; dbIter likewise; the indexed iterator returns false for ever -
        its Key/Value/Valid are those of the data iterator whose call failed) *)
Theorem C02_merged_error_stops : forall (K V C : Type) chstep chobs cherr pop strict (s : mestate K C) e ms,
  me_err s = Some e ->
  me_run K V C chstep chobs cherr pop strict s (map CMove ms) = Some (map (fun _ => dead_out K V e) ms).
Proof. exact me_error_stops. Qed.
Print Assumptions C02_merged_error_stops.

Theorem C02_dbiter_error_stops : forall c p (C : Type) chstep chobs cherr seq strict fuel (s : destate C) e ms,
  de_err s = Some e ->
  de_run c p C chstep chobs cherr seq strict fuel s (map CMove ms) = Some (map (fun _ => ddead_out e) ms).
Proof. exact de_error_stops. Qed.
Print Assumptions C02_dbiter_error_stops.

Theorem C02_indexed_error_stops : forall (K V D I C : Type) istep iobs ierr_of mk dstep dobs derr strict fuel
  (s : xestate I C) e ms, xe_err s = Some e ->
  xe_run K V D I C istep iobs ierr_of mk dstep dobs derr strict fuel s (map CMove ms) =
  Some (map (fun _ => xe_out ierr_of dobs s false) ms).
Proof. exact xe_error_stops. Qed.
Print Assumptions C02_indexed_error_stops.

(* 10b. after Release every movement call returns false, Valid is false, Key/Value are nil, and Error() is
        ErrIterReleased - or the error recorded before the Release, which is kept *)
Theorem C02_merged_after_release : forall (K V C : Type) chstep chobs cherr pop strict (s : mestate K C) ms,
  me_run K V C chstep chobs cherr pop strict (me_release s) (map CMove ms) =
  Some (map (fun _ => dead_out K V (err_after_release (me_err s))) ms).
Proof. exact me_after_release. Qed.
Print Assumptions C02_merged_after_release.

Theorem C02_indexed_after_release : forall (K V D I C : Type) istep iobs ierr_of mk dstep dobs derr strict fuel
  (s : xestate I C) ms,
  xe_run K V D I C istep iobs ierr_of mk dstep dobs derr strict fuel (xe_release s) (map CMove ms) =
  Some (map (fun _ => mkEO false None false (Some (err_after_release (xe_err s)))) ms).
Proof. exact xe_after_release. Qed.
Print Assumptions C02_indexed_after_release.

Theorem C02_dbiter_after_release : forall c p (C : Type) chstep chobs cherr seq strict fuel (s : destate C) ms,
  de_run c p C chstep chobs cherr seq strict fuel (de_release s) (map CMove ms) =
  Some (map (fun _ => ddead_out (err_after_release (de_err s))) ms).
Proof. exact de_after_release. Qed.
Print Assumptions C02_dbiter_after_release.

(* 10c. SetReleaser with a second non-nil releaser panics (util.ErrHasReleaser), after Release it panics
        whatever the argument (util.ErrReleased) *)
Theorem C02_set_releaser_twice_panics :
  (forall (K C : Type) (s s1 : mestate K C), me_set_releaser s true = Some s1 -> me_set_releaser s1 true = None) /\
  (forall (I C : Type) (s s1 : xestate I C), xe_set_releaser s true = Some s1 -> xe_set_releaser s1 true = None) /\
  (forall (C : Type) (s s1 : destate C), de_set_releaser s true = Some s1 -> de_set_releaser s1 true = None) /\
  (forall (K C : Type) (s : mestate K C) r, me_set_releaser (me_release s) r = None) /\
  (forall (I C : Type) (s : xestate I C) r, xe_set_releaser (xe_release s) r = None) /\
  (forall (C : Type) (s : destate C) r, de_set_releaser (de_release s) r = None).
Proof.
  split; [exact me_set_releaser_twice|]. split; [exact xe_set_releaser_twice|]. split; [exact de_set_releaser_twice|].
  split; [exact me_set_releaser_after_release|]. split; [exact xe_set_releaser_after_release|exact de_set_releaser_after_release].
Qed.
Print Assumptions C02_set_releaser_twice_panics.

(* 10d. the merged iterator over children that behave like cursors until one of them FAILS (a fuse: the n-th
        call on that child returns false with an error that halts the merged iterator - any error under the
        strict flag, any non-corruption error otherwise): for every call sequence there is a call number j
        such that the first j outputs are exactly those of the cursor over the merge, with no error recorded,
        and from call j on the outputs are (false, nil, nil), not valid, with the child's error recorded.
        It stops, and it never shows a pair the cursor would not show at that call. *)
Theorem C02_merged_error_prefix : forall (K V C : Type) (kcmp : K -> K -> comparison) chstep chobs pop strict
  (ls : list (list (K * V))) (fits : list (fchild C)),
  ord_ok kcmp -> pop_ok K kcmp pop ->
  Forall (sorted_kv kcmp) ls -> NoDup (map fst (concat ls)) ->
  Forall2 (fun c l => refines kcmp chstep chobs c l) (map fc_in fits) ls ->
  Forall (alive_h C strict) fits ->
  forall ms, exists eouts j e,
    me_run K V (fchild C) (f_step chstep) (f_obs chobs) f_err pop strict (me_init fits) (map CMove ms) = Some eouts /\
    degraded K V (length ms) (run_cursor kcmp (merge_lists kcmp ls) ms) eouts j e.
Proof. exact merged_error_prefix. Qed.
Print Assumptions C02_merged_error_prefix.

(* 10e. dbIter: a movement call that returns false after having moved the raw iterator records the raw
        iterator's error (iterErr); the two guards that return false without touching it are listed *)
Theorem C02_dbiter_false_records_error : forall c p (C : Type) chstep chobs cherr seq strict fuel (s : destate C) m s',
  de_err s = None -> de_released s = false ->
  de_move c p C chstep chobs cherr seq strict fuel s m = DEOk s' false ->
  (m = MNext /\ d_dir (de_base s) = DirEOI /\ s' = s) \/ (m = MPrev /\ d_dir (de_base s) = DirSOI /\ s' = s) \/
  match cherr (d_child (de_base s')) with
  | Some e => exists e', de_err s' = Some e'
  | None => True
  end.
Proof. exact de_false_records_error. Qed.
Print Assumptions C02_dbiter_false_records_error.

(* 10f. dbIter over a raw iterator that behaves like a cursor until it FAILS (a fuse: its n-th call returns
        false with an error - of any kind: dbIter records every error of its raw iterator - and it stays
        failed): for EVERY call sequence, forward, backward and mixed, there is a call number j such that the
        first j outputs are exactly those of the cursor over the live pairs, with no error recorded, and from
        call j on the outputs are (false, nil, nil), not valid, with an error recorded.  It stops, and it never
        shows a pair that is not the live pair of its key.  (True of the code since 35e2053; FULL.) *)
Theorem C02_dbiter_error_prefix : forall (c : comparer) (p : kparams) (C : Type) (chstep : C -> move ikey -> C)
  (chobs : C -> option entry) (seq : N) (strict : bool) (l : list entry) (fuel : nat) (raw : fchild C),
  comparer_ok c -> dbparams_ok p -> (seq <= keyMaxSeq p)%N ->
  sorted_kv (icmp c) l -> Forall (entry_wf p) l -> length l < fuel ->
  refines (icmp c) chstep chobs (fc_in raw) l -> fc_dead raw = false ->
  forall ms, exists eouts j e,
    de_run c p (fchild C) (f_step chstep) (f_obs chobs) f_err seq strict fuel (de_init raw) (map CMove ms) = Some eouts /\
    degraded bytes bytes (length ms) (run_cursor (cmp c) (live_pairs c p seq l) ms) eouts j e.
Proof. exact dbiter_error_prefix. Qed.
Print Assumptions C02_dbiter_error_prefix.

(* 10g. WITNESS OF THE PRE-FIX BEHAVIOUR (defect repaired by 35e2053; de_run_old = the code before it, kept
        for this witness only).  dbIter.prev() used to leave its loop when i.iter.Prev() returned false and,
        having saved a pair (del == false), return TRUE without consulting i.iter.Error(): when the raw
        iterator failed between two versions of one user key the saved pair was the OLDER version - Last()
        returned (k, "o") although the live pair is (k, "n"), Error() nil, the error surfacing one call later;
        with a deletion marker on top a deleted key was resurrected.  The repaired code, on the same inputs,
        returns false and records the error at once.  (Regression inputs: findings/C02_dbiter_prev_stale_on_error.json,
        findings/C02_dbiter_prev_stale_db_level.json.) *)
Definition stale_entries : list entry :=
  [ ({| uk := [107]%N; num := pack 5%N 1%N |}, [110]%N);       (* k@5 = "n" *)
    ({| uk := [107]%N; num := pack 3%N 1%N |}, [111]%N) ].     (* k@3 = "o" *)
Definition stale_deleted : list entry :=
  [ ({| uk := [107]%N; num := pack 5%N 0%N |}, []);            (* k@5 deleted *)
    ({| uk := [107]%N; num := pack 3%N 1%N |}, [111]%N) ].
(* a raw iterator whose second call fails with a non-corruption error *)
Definition stale_raw (l : list entry) : destate (fchild (list entry * pos)) := de_init (mkFC (l, SOI) (Some 1) EOther false).
Definition stale_run_old (l : list entry) (cs : list (ecall bytes)) :=
  de_run_old bytewise kp _ (f_step (cur_step (icmp bytewise))) (f_obs cur_obs) f_err 10%N true 5 (stale_raw l) cs.
Definition stale_run (l : list entry) (cs : list (ecall bytes)) :=
  de_run bytewise kp _ (f_step (cur_step (icmp bytewise))) (f_obs cur_obs) f_err 10%N true 5 (stale_raw l) cs.

Theorem C02_dbiter_prev_error_yields_stale_refuted :
  live_pairs bytewise kp 10%N stale_entries = [([107]%N, [110]%N)] /\
  live_pairs bytewise kp 10%N stale_deleted = [] /\
  (* before the repair *)
  stale_run_old stale_entries [CMove MLast; CMove MPrev] =
    Some [mkEO true (Some ([107]%N, [111]%N)) true None; mkEO false None false (Some EOther)] /\
  stale_run_old stale_deleted [CMove MLast; CMove MNext] =
    Some [mkEO true (Some ([107]%N, [111]%N)) true None; mkEO false None false (Some EOther)] /\
  (* the repaired code on the same inputs *)
  stale_run stale_entries [CMove MLast; CMove MPrev] =
    Some [mkEO false None false (Some EOther); mkEO false None false (Some EOther)] /\
  stale_run stale_deleted [CMove MLast; CMove MNext] =
    Some [mkEO false None false (Some EOther); mkEO false None false (Some EOther)].
Proof. repeat split; vm_compute; reflexivity. Qed.
Print Assumptions C02_dbiter_prev_error_yields_stale_refuted.

(* 7. The constants of the current source satisfy the side conditions (re-proved on every run). *)
Theorem C02_constants_ok : dbparams_ok kp.
Proof. exact kp_db_ok. Qed.
Print Assumptions C02_constants_ok.

(* Non-vacuity: a concrete list with an overwritten key, a deleted key and a key written after
   the iterator's sequence number; the hypotheses of C02_dbiter_refines hold for it (the cursor
   itself is a raw iterator), and a walk with reversals shows only the live pairs. *)
Definition ex_entries : list entry :=
  [ ({| uk := [97]%N;  num := pack 7%N 1%N |}, [1]%N);      (* a@7 = 1   (newest a)        *)
    ({| uk := [97]%N;  num := pack 3%N 1%N |}, [0]%N);      (* a@3 = 0   (overwritten)     *)
    ({| uk := [98]%N;  num := pack 6%N 0%N |}, []);         (* b@6 deleted                 *)
    ({| uk := [98]%N;  num := pack 2%N 1%N |}, [2]%N);      (* b@2 = 2   (hidden)          *)
    ({| uk := [99]%N;  num := pack 9%N 1%N |}, [9]%N);      (* c@9 = 9   (after seq 8)     *)
    ({| uk := [99]%N;  num := pack 5%N 1%N |}, [3]%N) ].    (* c@5 = 3                     *)

Example C02_nonvacuous :
  sorted_kv (icmp bytewise) ex_entries /\ Forall (entry_wf kp) ex_entries /\
  refines (icmp bytewise) (cur_step (icmp bytewise)) cur_obs (ex_entries, SOI) ex_entries /\
  live_pairs bytewise kp 8%N ex_entries = [([97]%N, [1]%N); ([99]%N, [3]%N)] /\
  db_run bytewise kp _ (cur_step (icmp bytewise)) cur_obs 8%N false 7 (db_init (ex_entries, SOI))
         [MLast; MPrev; MPrev; MNext; MSeek [98]%N; MPrev; MNext; MNext] =
  Some [(true, Some ([99]%N, [3]%N)); (true, Some ([97]%N, [1]%N)); (false, None);
        (true, Some ([97]%N, [1]%N)); (true, Some ([99]%N, [3]%N)); (true, Some ([97]%N, [1]%N));
        (true, Some ([99]%N, [3]%N)); (false, None)].
Proof.
  split; [repeat constructor|]. split.
  { rewrite Forall_forall. intros e He. repeat (destruct He as [<-|He]; [vm_compute; auto|]). destruct He. }
  split; [apply cursor_refines_itself|]. split; vm_compute; reflexivity.
Qed.

(* Non-vacuity of C02_merged_refines: two cursor children with interleaved keys, the scanning heap. *)
Definition ex_children : list (list (bytes * bytes)) :=
  [ [([1]%N, [10]%N); ([3]%N, [30]%N)]; [([2]%N, [20]%N)]; [] ].

Example C02_nonvacuous_merged :
  ord_ok (cmp bytewise) /\ pop_ok bytes (cmp bytewise) (pop_scan bytes (cmp bytewise)) /\
  Forall (sorted_kv (cmp bytewise)) ex_children /\ NoDup (map fst (concat ex_children)) /\
  Forall2 (fun ch l => refines (cmp bytewise) (cur_step (cmp bytewise)) cur_obs ch l)
          (map (fun l => (l, SOI)) ex_children) ex_children /\
  m_run bytes bytes _ (cur_step (cmp bytewise)) cur_obs (pop_scan bytes (cmp bytewise))
        (m_init (map (fun l => (l, SOI)) ex_children)) [MLast; MPrev; MNext; MNext; MPrev] =
  Some [(true, Some ([3]%N, [30]%N)); (true, Some ([2]%N, [20]%N)); (true, Some ([3]%N, [30]%N));
        (false, None); (true, Some ([3]%N, [30]%N))].
Proof.
  assert (Hok : ord_ok (cmp bytewise)) by (apply cmp_ord_ok; exact bytewise_ok).
  split; [exact Hok|]. split; [apply pop_scan_ok; exact Hok|].
  split; [repeat constructor|].
  split.
  { cbn. repeat constructor; cbn; intros H; repeat (destruct H as [H|H]; [discriminate|]); exact H. }
  split; [repeat constructor; apply cursor_refines_itself|].
  vm_compute. reflexivity.
Qed.

(* Non-vacuity of C02_indexed_refines: three blocks, the middle one empty. *)
Definition ex_index : list (bytes * list (bytes * bytes)) :=
  [ ([2]%N, [([1]%N, [10]%N); ([2]%N, [20]%N)]); ([5]%N, []); ([9]%N, [([7]%N, [70]%N)]) ].

Example C02_nonvacuous_indexed :
  index_ok (cmp bytewise) ex_index (fun d => d) /\
  x_run bytes bytes _ _ _ (cur_step (cmp bytewise)) cur_obs (fun d => (d, SOI)) (cur_step (cmp bytewise)) cur_obs
        4 (x_init (ex_index, SOI)) [MSeek [3]%N; MPrev; MNext; MNext; MLast] =
  Some [(true, Some ([7]%N, [70]%N)); (true, Some ([2]%N, [20]%N)); (true, Some ([7]%N, [70]%N));
        (false, None); (true, Some ([7]%N, [70]%N))].
Proof.
  split; [|vm_compute; reflexivity].
  unfold index_ok, ex_index. split; [repeat constructor|]. split.
  { intros e [<-|[<-|[<-|[]]]]; cbn; repeat constructor. }
  split.
  { intros e x [<-|[<-|[<-|[]]]]; cbn; intros H; repeat (destruct H as [<-|H]; [vm_compute; discriminate|]); destruct H. }
  intros a e b x H e' He' Hx.
  destruct a as [|a0 [|a1 [|a2 a]]]; cbn in H; inversion H; subst; cbn in He'.
  - destruct He' as [<-|[<-|[]]]; cbn in Hx; [destruct Hx|destruct Hx as [<-|[]]; vm_compute; reflexivity].
  - destruct He' as [<-|[]]. cbn in Hx. destruct Hx as [<-|[]]. vm_compute. reflexivity.
  - destruct He'.
  - destruct a; discriminate.
Qed.

(* Non-vacuity of 9e: the byte state of C01's example - three table files WRITTEN BY GOLEVELDB (bloom
   filter; two overlapping level-0 files, a two-block level-1 file) and a model-built memdb - satisfies
   wf_bstate; the byte-level iterator, evaluated, walks a=a4 b=b1 c=c3 e=e2 f=f1 at sequence number 13 (d and g
   are hidden by deletion markers in file 5 and in the buffer, older versions of c sit in file 5 and in level
   1), b=b1 c=c2 e=e2 inside [b, f) at sequence number 8, and nothing over the inverted range [f, b). *)
From GL Require Import Codec.TblCrc Codec.Bloom Gen.Inst Gen.InstTbl Gen.InstMem Gen.BloomInst Gen.ConstsOkMem.
From GL Require Props.C01.

Definition ex_dbi (sl : option krange) (s : N) (ms : list (move bytes)) : option (list (output bytes bytes)) :=
  dbi_run bytewise kp mp tblp tbl_crc C01.ex_nodec C01.ex_fname (bloom_ufc bp (BinInt.Z.of_N 10)) true false 30
          None [] C01.ex_bstate s sl ms.

Example C02_bytes_nonvacuous :
  wf_bstate bytewise kp mp tblp tbl_crc C01.ex_nodec C01.ex_fname (bloom_ufc bp (BinInt.Z.of_N 10)) true 2 C01.ex_bstate /\
  bs_mem C01.ex_bstate <> None /\ MemDB.mparams_ok mp /\
  ex_dbi None 13%N [MFirst; MNext; MNext; MSeek [100]%N; MPrev; MLast; MNext; MPrev; MPrev] =
    Some [(true, Some ([97], [97; 52])); (true, Some ([98], [98; 49])); (true, Some ([99], [99; 51]));
          (true, Some ([101], [101; 50])); (true, Some ([99], [99; 51])); (true, Some ([102], [102; 49]));
          (false, None); (true, Some ([102], [102; 49])); (true, Some ([101], [101; 50]))]%N /\
  ex_dbi (Some (Some [98]%N, Some [102]%N)) 8%N [MLast; MPrev; MPrev; MPrev; MPrev; MNext] =
    Some [(true, Some ([101], [101; 50])); (true, Some ([99], [99; 50])); (true, Some ([98], [98; 49]));
          (false, None); (false, None); (true, Some ([98], [98; 49]))]%N /\
  ex_dbi (Some (Some [102]%N, Some [98]%N)) 13%N [MFirst; MLast; MSeek [99]%N; MNext; MPrev] =
    Some [(false, None); (false, None); (false, None); (false, None); (false, None)].
Proof.
  split; [apply C01.ex_wf; left; reflexivity|]. split; [vm_compute; discriminate|]. split; [exact mp_ok|].
  split; [vm_compute; reflexivity|]. split; vm_compute; reflexivity.
Qed.

(* Non-vacuity of 10d: two children with interleaved keys, the second one fails at its third call with a
   non-corruption error (non-strict merged iterator): First, Next, Next answer like the cursor (the second child is
   called by First and by the Next that leaves its pair); the Prev that must reposition the failing child
   returns false and records the error; Release and First afterwards return false, the error is kept. *)
Example C02_nonvacuous_merged_error :
  Forall (alive_h _ false) [mkFC (nth 0%nat ex_children [], SOI) None EOther false; mkFC (nth 1%nat ex_children [], SOI) (Some 2%nat) EOther false] /\
  me_run bytes bytes _ (f_step (cur_step (cmp bytewise))) (f_obs cur_obs) f_err (pop_scan bytes (cmp bytewise)) false
         (me_init [mkFC (nth 0%nat ex_children [], SOI) None EOther false; mkFC (nth 1%nat ex_children [], SOI) (Some 2%nat) EOther false])
         [CMove MFirst; CMove MNext; CMove MNext; CMove MPrev; CRelease; CMove MFirst] =
  Some [mkEO true (Some ([1]%N, [10]%N)) true None; mkEO true (Some ([2]%N, [20]%N)) true None;
        mkEO true (Some ([3]%N, [30]%N)) true None; mkEO false None false (Some EOther);
        mkEO false None false (Some EOther); mkEO false None false (Some EOther)].
Proof.
  split; [|vm_compute; reflexivity].
  apply Forall_cons; [split; reflexivity|]. apply Forall_cons; [split; reflexivity|]. apply Forall_nil.
Qed.

