(* Props/C11.v — property C11: transactions are isolated, atomic and leave no residue when discarded.
   Property theorems only.  Model: Lsm/Txn.v (the transaction machine on top of the history machine of
   Lsm/History.v, and Transaction.Get on top of the read path of Lsm/Lsm.v); proofs: Lsm/TxnProofs.v.
   Every theorem quantifies over ALL traces: any number of base writes, snapshots, releases, admissible
   background reorganisations, transactions with bodies of any size, failed commits, held-back writers,
   oversized batches and Close with an open transaction. *)
From GL Require Import Base.Order Codec.IKey Codec.BytesCmp Codec.BytesCmpProofs Lsm.Lsm Lsm.Compact Lsm.LsmProofs
  Lsm.History Lsm.HistoryProofs Lsm.Txn Lsm.TxnProofs Gen.ConstsOk.

(* (0) Refinement: after any trace the shared state is exactly the state of the history machine run on the
   linearised trace (a committed transaction = ONE write of all its records at the commit point, a discarded
   one = nothing), and the open transaction holds exactly the records written through it, stamped with the
   sequence numbers above the shared one. *)
Theorem C11_txn_refines_history : forall ops, sim (trun ops) (lin ops).
Proof. exact txn_refines_history. Qed.
Print Assumptions C11_txn_refines_history.

(* (1) Everyone outside a transaction reads, at the current sequence number, the plain map of the committed
   writes only — at every point of every trace. *)
Theorem C11_outside_is_map : forall c, comparer_ok c -> forall p ops k, tops_ok c p t_init ops ->
  out_get c p (trun ops) k (h_seq (ts_h (trun ops))) = a_get c k (base_map c p ops).
Proof. exact outside_is_map. Qed.
Print Assumptions C11_outside_is_map.

(* (1') A snapshot taken at any instant keeps showing the committed writes of that instant, whatever is
   committed or discarded later. *)
Theorem C11_snapshot_sees_base : forall c, comparer_ok c -> forall p ops1 ops2 k,
  tops_ok c p t_init (ops1 ++ ops2) ->
  In (h_seq (ts_h (trun ops1))) (h_snaps (ts_h (trun (ops1 ++ ops2)))) ->
  out_get c p (trun (ops1 ++ ops2)) k (h_seq (ts_h (trun ops1))) = a_get c k (base_map c p ops1).
Proof. exact snapshot_sees_base. Qed.
Print Assumptions C11_snapshot_sees_base.

(* (2) Isolation.  While the transaction is open — through any body of its own writes, failed commits,
   outside snapshots and releases, background reorganisations and held-back writers — the DB's sequence
   number and history do not move; a read at the current sequence number is the plain map of the writes
   committed before it was opened; every protected read (current or any live snapshot, taken before or while
   it is open) is answered as the history at open answers it; and the private entries all carry sequence
   numbers above the DB's (which is why an outside reader cannot see them even once they sit in the version). *)
Theorem C11_txn_invisible_outside : forall c, comparer_ok c -> forall p ops1 body,
  ts_txn (trun ops1) = None -> forallb keeps_open body = true ->
  tops_ok c p t_init (ops1 ++ TOpen :: body) ->
  let s0 := trun ops1 in let s1 := trun (ops1 ++ TOpen :: body) in
  ts_txn s1 <> None /\
  h_seq (ts_h s1) = h_seq (ts_h s0) /\ h_hist (ts_h s1) = h_hist (ts_h s0) /\
  (forall k, out_get c p s1 k (h_seq (ts_h s1)) = a_get c k (base_map c p ops1)) /\
  (forall k q, protected (ts_h s1) q -> out_get c p s1 k q = hist_get c p (ts_h s0) k q) /\
  (forall t x, ts_txn s1 = Some t -> In x (t_writes t) -> (h_seq (ts_h s1) < e_seq x <= t_seq t)%N).
Proof. exact txn_invisible_outside. Qed.
Print Assumptions C11_txn_invisible_outside.

(* (3) The transaction's own view: its writes so far layered over the plain map at open. *)
Theorem C11_txn_reads_overlay : forall c, comparer_ok c -> forall p ops1 body k,
  ts_txn (trun ops1) = None -> forallb keeps_open body = true ->
  tops_ok c p t_init (ops1 ++ TOpen :: body) ->
  txn_get c p (trun (ops1 ++ TOpen :: body)) k =
  a_get c k (fold_left (a_apply c p) (body_writes body) (base_map c p ops1)).
Proof. exact txn_reads_overlay. Qed.
Print Assumptions C11_txn_reads_overlay.

(* (4) Atomic commit: a successful Commit is ONE step of the history machine — the write of all the
   transaction's records; there is no state in between.  Afterwards everyone reads the plain map of the base
   writes followed by ALL of them, which is what the transaction itself read just before. *)
Theorem C11_commit_atomic : forall c, comparer_ok c -> forall p ops1 body,
  ts_txn (trun ops1) = None -> forallb keeps_open body = true ->
  tops_ok c p t_init (ops1 ++ TOpen :: body) ->
  let s1 := trun (ops1 ++ TOpen :: body) in
  let s2 := trun ((ops1 ++ TOpen :: body) ++ [TCommit true]) in
  s2 = {| ts_h := hstep (ts_h s1) (HWrite (body_writes body)); ts_txn := None |} /\
  (forall k, out_get c p s2 k (h_seq (ts_h s2)) =
             a_get c k (fold_left (a_apply c p) (body_writes body) (base_map c p ops1))) /\
  (forall k, out_get c p s2 k (h_seq (ts_h s2)) = txn_get c p s1 k).
Proof. exact commit_atomic. Qed.
Print Assumptions C11_commit_atomic.

(* (4') The code commits in two steps (the tables enter the version, then db.seq is set).  The state in
   between is unobservable: entries above a reader's sequence number do not count. *)
Theorem C11_commit_window_unobservable : forall c p h t k q,
  (forall x, In x (t_writes t) -> (h_seq h < e_seq x)%N) -> (q <= h_seq h)%N ->
  store_get c p (publish_version h t) k q = store_get c p h k q.
Proof. exact commit_window_unobservable. Qed.
Print Assumptions C11_commit_window_unobservable.

(* (5) Discard, and Close with the transaction open: the whole run IS the run in which the transaction never
   existed — same store, history, sequence number and snapshots — so nothing of it can ever become visible. *)
Theorem C11_discard_no_trace : forall ops1 body fin,
  ts_txn (trun ops1) = None -> forallb keeps_open body = true -> fin = TDiscard \/ fin = TClose ->
  trun ((ops1 ++ TOpen :: body) ++ [fin]) = trun (ops1 ++ body_outside body) /\
  h_seq (ts_h (trun ((ops1 ++ TOpen :: body) ++ [fin]))) = h_seq (ts_h (trun ops1)) /\
  h_hist (ts_h (trun ((ops1 ++ TOpen :: body) ++ [fin]))) = h_hist (ts_h (trun ops1)).
Proof. exact discard_no_trace. Qed.
Print Assumptions C11_discard_no_trace.

(* (6) A batch larger than the write buffer: all of its records in one step, or nothing. *)
Theorem C11_large_batch_all_or_nothing : forall s recs okb, ts_txn s = None ->
  tstep s (TBigWrite recs okb) =
  if okb then {| ts_h := hstep (ts_h s) (HWrite recs); ts_txn := None |} else s.
Proof. exact large_batch_all_or_nothing. Qed.
Print Assumptions C11_large_batch_all_or_nothing.

Theorem C11_large_batch_reads : forall c, comparer_ok c -> forall p ops recs okb k,
  ts_txn (trun ops) = None -> tops_ok c p t_init (ops ++ [TBigWrite recs okb]) ->
  let s := trun (ops ++ [TBigWrite recs okb]) in
  out_get c p s k (h_seq (ts_h s)) =
  a_get c k (if okb then fold_left (a_apply c p) recs (base_map c p ops) else base_map c p ops).
Proof. exact large_batch_reads. Qed.
Print Assumptions C11_large_batch_reads.

(* (7) Other writers wait: while a transaction is open a write, an OpenTransaction and an oversized Write have
   no effect at that point of the trace (the blocking itself and the order of the queued writers are checked on
   the implementation). *)
Theorem C11_writers_wait : forall s t recs okb, ts_txn s = Some t ->
  tstep s (TOut (HWrite recs)) = s /\ tstep s TOpen = s /\ tstep s (TBigWrite recs okb) = s.
Proof. exact writers_wait. Qed.
Print Assumptions C11_writers_wait.

(* (8) Layout level.  Transaction.Get on the code's structures (private buffer first, then DB.get with the
   private tables in front of level 0) returns the newest visible entry among everything it consults. *)
Theorem C11_txn_lsm_get_correct : forall c, comparer_ok c -> forall p, kparams_ok p -> forall auxm st k s,
  ssorted c auxm -> kinds_ok p auxm -> newer_thanP auxm (all_entries st) -> wf_state c p st ->
  txn_lsm_get c p auxm st k s = group_res p (newest c k s (auxm ++ all_entries st) None).
Proof. exact txn_lsm_get_correct. Qed.
Print Assumptions C11_txn_lsm_get_correct.

(* In the transaction's situation (DB buffers empty, private entries newer than [base], shared entries at most
   [base]): the private tables, consulted first, are sound; and at any sequence number up to [base] — every
   outside reader, also inside the commit window — the private entries do not count. *)
Theorem C11_aux_tables_first_sound : forall c, comparer_ok c -> forall p, kparams_ok p -> forall auxm st base,
  st_mem st = [] -> st_frozen st = [] ->
  ssorted c auxm -> kinds_ok p auxm ->
  tables_ok c p (st_aux st) -> uniq (LsmProofs.level_entries (st_aux st)) ->
  newer_thanP auxm (LsmProofs.level_entries (st_aux st)) ->
  wf_state c p (outside_of st) ->
  (forall e, In e (private_entries auxm st) -> (base < e_seq e)%N) ->
  (forall e, In e (shared_entries st) -> (e_seq e <= base)%N) ->
  (forall k s, txn_lsm_get c p auxm st k s = group_res p (newest c k s (auxm ++ all_entries st) None)) /\
  (forall k s, (s <= base)%N -> txn_lsm_get c p auxm st k s = lsm_get c p (outside_of st) k s) /\
  (forall k s, (s <= base)%N -> lsm_get c p st k s = lsm_get c p (outside_of st) k s).
Proof. exact aux_tables_first_sound. Qed.
Print Assumptions C11_aux_tables_first_sound.

(* The boolean certificate the correspondence check evaluates on every state dumped inside an open
   transaction implies those conclusions for that state. *)
Theorem C11_txn_layout_cert_sound : forall c, comparer_ok c -> forall p, kparams_ok p ->
  forall dbseq tseq auxm st, txn_layout_okb c p dbseq tseq auxm st = true ->
  (forall k s, txn_lsm_get c p auxm st k s = group_res p (newest c k s (auxm ++ all_entries st) None)) /\
  (forall k s, (s <= dbseq)%N -> txn_lsm_get c p auxm st k s = lsm_get c p (outside_of st) k s) /\
  (forall k s, (s <= dbseq)%N -> lsm_get c p st k s = lsm_get c p (outside_of st) k s).
Proof. exact txn_layout_cert_sound. Qed.
Print Assumptions C11_txn_layout_cert_sound.

(* ---- Non-vacuity ---- *)
(* base: 7->1, 8->2; snapshot; transaction: 7 deleted, 9->3, 8->4 while an outside write is held back and a
   snapshot is taken; a failed commit; then commit / discard / close. *)
Definition ex_pre : list top := [TOut (HWrite [(1, [7], [1]); (1, [8], [2])]%N); TOut HSnap].
Definition ex_body : list top :=
  [TWrite [(0, [7], [])]%N; TOut (HWrite [(1, [7], [99])]%N); TOut HSnap; TWrite [(1, [9], [3]); (1, [8], [4])]%N;
   TCommit false].

Example C11_nonvacuous_hyps :
  ts_txn (trun ex_pre) = None /\ forallb keeps_open ex_body = true /\
  tops_ok bytewise kp t_init (ex_pre ++ TOpen :: ex_body).
Proof.
  split; [reflexivity|]. split; [reflexivity|].
  cbn [tops_ok top_ok app ex_pre ex_body hop_ok]. repeat split; repeat constructor; vm_compute; congruence.
Qed.

Example C11_nonvacuous_open :
  let s1 := trun (ex_pre ++ TOpen :: ex_body) in
  (* outside: the base, at the current sequence number and at both snapshots *)
  h_seq (ts_h s1) = 2%N /\ h_snaps (ts_h s1) = [2; 2]%N /\
  out_get bytewise kp s1 [7]%N 2 = Some [1]%N /\ out_get bytewise kp s1 [8]%N 2 = Some [2]%N /\
  out_get bytewise kp s1 [9]%N 2 = None /\
  (* inside: the overlay *)
  txn_get bytewise kp s1 [7]%N = None /\ txn_get bytewise kp s1 [8]%N = Some [4]%N /\
  txn_get bytewise kp s1 [9]%N = Some [3]%N /\
  option_map t_seq (ts_txn s1) = Some 5%N /\
  body_writes ex_body = [(0, [7], []); (1, [9], [3]); (1, [8], [4])]%N.
Proof. repeat split; vm_compute; reflexivity. Qed.

Example C11_nonvacuous_commit :
  let s2 := trun ((ex_pre ++ TOpen :: ex_body) ++ [TCommit true]) in
  h_seq (ts_h s2) = 5%N /\ ts_txn s2 = None /\
  out_get bytewise kp s2 [7]%N 5 = None /\ out_get bytewise kp s2 [8]%N 5 = Some [4]%N /\
  out_get bytewise kp s2 [9]%N 5 = Some [3]%N /\
  (* the snapshots taken before and during the transaction still show the base *)
  out_get bytewise kp s2 [7]%N 2 = Some [1]%N /\ out_get bytewise kp s2 [9]%N 2 = None.
Proof. repeat split; vm_compute; reflexivity. Qed.

Example C11_nonvacuous_discard :
  trun ((ex_pre ++ TOpen :: ex_body) ++ [TDiscard]) = trun (ex_pre ++ [TOut HSnap]) /\
  trun ((ex_pre ++ TOpen :: ex_body) ++ [TClose]) = trun (ex_pre ++ [TOut HSnap]) /\
  body_outside ex_body = [TOut HSnap].
Proof. repeat split; vm_compute; reflexivity. Qed.

Example C11_nonvacuous_big_batch :
  let recs := [(1, [7], [5]); (0, [8], [])]%N in
  out_get bytewise kp (trun (ex_pre ++ [TBigWrite recs true])) [8]%N 4 = None /\
  out_get bytewise kp (trun (ex_pre ++ [TBigWrite recs true])) [7]%N 4 = Some [5]%N /\
  trun (ex_pre ++ [TBigWrite recs false]) = trun ex_pre.
Proof. repeat split; vm_compute; reflexivity. Qed.

(* a dumped-state shaped layout: private buffer (9,seq 5), private table (7 deleted seq 3; 8->4 seq 4),
   shared level 0 (7->1 seq 1; 8->2 seq 2) *)
Definition ex_en (k s kd v : N) : entry := {| e_uk := [k]; e_seq := s; e_kind := kd; e_val := [v] |}.
Definition ex_st : lstate :=
  {| st_mem := []; st_frozen := [];
     st_aux := [ {| t_num := 12; t_entries := [ex_en 7 3 0 0; ex_en 8 4 1 4] |} ];
     st_levels := [ [ {| t_num := 10; t_entries := [ex_en 7 1 1 1; ex_en 8 2 1 2] |} ] ] |}.
Example C11_nonvacuous_layout :
  txn_layout_okb bytewise kp 2 5 [ex_en 9 5 1 3] ex_st = true /\
  api_of (txn_lsm_get bytewise kp [ex_en 9 5 1 3] ex_st [7]%N 5) = None /\
  api_of (txn_lsm_get bytewise kp [ex_en 9 5 1 3] ex_st [8]%N 5) = Some [4]%N /\
  api_of (txn_lsm_get bytewise kp [ex_en 9 5 1 3] ex_st [9]%N 5) = Some [3]%N /\
  api_of (lsm_get bytewise kp (outside_of ex_st) [7]%N 2) = Some [1]%N /\
  api_of (lsm_get bytewise kp ex_st [7]%N 2) = Some [1]%N.
Proof. repeat split; vm_compute; reflexivity. Qed.
