(* Props/C11.v — property C11: transactions are isolated, atomic and leave no residue when discarded.
   Property theorems only.  Model: Lsm/Txn.v (the transaction machine on top of the history machine of
   Lsm/History.v, and Transaction.Get on top of the read path of Lsm/Lsm.v); proofs: Lsm/TxnProofs.v.
   Every theorem quantifies over ALL traces: any number of base writes, snapshots, releases, admissible
   background reorganisations, transactions with bodies of any size, failed commits, held-back writers,
   oversized batches and Close with an open transaction. *)
From GL Require Import Base.Order Codec.IKey Codec.BytesCmp Codec.BytesCmpProofs Lsm.Lsm Lsm.Compact Lsm.LsmProofs
  Lsm.History Lsm.HistoryProofs Lsm.Txn Lsm.TxnProofs Gen.ConstsOk.

(* (0) Refinement: after any trace the shared state is exactly the state of the history machine run on the
   linearised trace (a committed transaction = ONE write of all its records at the commit point, a discarded
   one = nothing), and the open transaction holds exactly the records written through it, stamped with the
   sequence numbers above the shared one. *)
Theorem C11_txn_refines_history : forall ops, sim (trun ops) (lin ops).
Proof. exact txn_refines_history. Qed.
Print Assumptions C11_txn_refines_history.

(* (1) Everyone outside a transaction reads, at the current sequence number, the plain map of the committed
   writes only — at every point of every trace. *)
Theorem C11_outside_is_map : forall c, comparer_ok c -> forall p ops k, tops_ok c p t_init ops ->
  out_get c p (trun ops) k (h_seq (ts_h (trun ops))) = a_get c k (base_map c p ops).
Proof. exact outside_is_map. Qed.
Print Assumptions C11_outside_is_map.

(* (1') A snapshot taken at any instant keeps showing the committed writes of that instant, whatever is
   committed or discarded later. *)
Theorem C11_snapshot_sees_base : forall c, comparer_ok c -> forall p ops1 ops2 k,
  tops_ok c p t_init (ops1 ++ ops2) ->
  In (h_seq (ts_h (trun ops1))) (h_snaps (ts_h (trun (ops1 ++ ops2)))) ->
  out_get c p (trun (ops1 ++ ops2)) k (h_seq (ts_h (trun ops1))) = a_get c k (base_map c p ops1).
Proof. exact snapshot_sees_base. Qed.
Print Assumptions C11_snapshot_sees_base.

(* (2) Isolation.  While the transaction is open — through any body of its own writes, failed commits,
   outside snapshots and releases, background reorganisations and held-back writers — the DB's sequence
   number and history do not move; a read at the current sequence number is the plain map of the writes
   committed before it was opened; every protected read (current or any live snapshot, taken before or while
   it is open) is answered as the history at open answers it; and the private entries all carry sequence
   numbers above the DB's (which is why an outside reader cannot see them even once they sit in the version). *)
Theorem C11_txn_invisible_outside : forall c, comparer_ok c -> forall p ops1 body,
  ts_txn (trun ops1) = None -> forallb keeps_open body = true ->
  tops_ok c p t_init (ops1 ++ TOpen :: body) ->
  let s0 := trun ops1 in let s1 := trun (ops1 ++ TOpen :: body) in
  ts_txn s1 <> None /\
  h_seq (ts_h s1) = h_seq (ts_h s0) /\ h_hist (ts_h s1) = h_hist (ts_h s0) /\
  (forall k, out_get c p s1 k (h_seq (ts_h s1)) = a_get c k (base_map c p ops1)) /\
  (forall k q, protected (ts_h s1) q -> out_get c p s1 k q = hist_get c p (ts_h s0) k q) /\
  (forall t x, ts_txn s1 = Some t -> In x (t_writes t) -> (h_seq (ts_h s1) < e_seq x <= t_seq t)%N).
Proof. exact txn_invisible_outside. Qed.
Print Assumptions C11_txn_invisible_outside.

(* (3) The transaction's own view: its writes so far layered over the plain map at open. *)
Theorem C11_txn_reads_overlay : forall c, comparer_ok c -> forall p ops1 body k,
  ts_txn (trun ops1) = None -> forallb keeps_open body = true ->
  tops_ok c p t_init (ops1 ++ TOpen :: body) ->
  txn_get c p (trun (ops1 ++ TOpen :: body)) k =
  a_get c k (fold_left (a_apply c p) (body_writes body) (base_map c p ops1)).
Proof. exact txn_reads_overlay. Qed.
Print Assumptions C11_txn_reads_overlay.

(* (4) Atomic commit: a successful Commit is ONE step of the history machine — the write of all the
   transaction's records; there is no state in between.  Afterwards everyone reads the plain map of the base
   writes followed by ALL of them, which is what the transaction itself read just before. *)
Theorem C11_commit_atomic : forall c, comparer_ok c -> forall p ops1 body,
  ts_txn (trun ops1) = None -> forallb keeps_open body = true ->
  tops_ok c p t_init (ops1 ++ TOpen :: body) ->
  let s1 := trun (ops1 ++ TOpen :: body) in
  let s2 := trun ((ops1 ++ TOpen :: body) ++ [TCommit true]) in
  s2 = {| ts_h := hstep (ts_h s1) (HWrite (body_writes body)); ts_txn := None |} /\
  (forall k, out_get c p s2 k (h_seq (ts_h s2)) =
             a_get c k (fold_left (a_apply c p) (body_writes body) (base_map c p ops1))) /\
  (forall k, out_get c p s2 k (h_seq (ts_h s2)) = txn_get c p s1 k).
Proof. exact commit_atomic. Qed.
Print Assumptions C11_commit_atomic.

(* (4') The code commits in two steps (the tables enter the version, then db.seq is set).  The state in
   between is unobservable: entries above a reader's sequence number do not count. *)
Theorem C11_commit_window_unobservable : forall c p h t k q,
  (forall x, In x (t_writes t) -> (h_seq h < e_seq x)%N) -> (q <= h_seq h)%N ->
  store_get c p (publish_version h t) k q = store_get c p h k q.
Proof. exact commit_window_unobservable. Qed.
Print Assumptions C11_commit_window_unobservable.

(* (5) Discard, and Close with the transaction open: the whole run IS the run in which the transaction never
   existed — same store, history, sequence number and snapshots — so nothing of it can ever become visible. *)
Theorem C11_discard_no_trace : forall ops1 body fin,
  ts_txn (trun ops1) = None -> forallb keeps_open body = true -> fin = TDiscard \/ fin = TClose ->
  trun ((ops1 ++ TOpen :: body) ++ [fin]) = trun (ops1 ++ body_outside body) /\
  h_seq (ts_h (trun ((ops1 ++ TOpen :: body) ++ [fin]))) = h_seq (ts_h (trun ops1)) /\
  h_hist (ts_h (trun ((ops1 ++ TOpen :: body) ++ [fin]))) = h_hist (ts_h (trun ops1)).
Proof. exact discard_no_trace. Qed.
Print Assumptions C11_discard_no_trace.

(* (6) A batch larger than the write buffer: all of its records in one step, or nothing. *)
Theorem C11_large_batch_all_or_nothing : forall s recs okb, ts_txn s = None ->
  tstep s (TBigWrite recs okb) =
  if okb then {| ts_h := hstep (ts_h s) (HWrite recs); ts_txn := None |} else s.
Proof. exact large_batch_all_or_nothing. Qed.
Print Assumptions C11_large_batch_all_or_nothing.

Theorem C11_large_batch_reads : forall c, comparer_ok c -> forall p ops recs okb k,
  ts_txn (trun ops) = None -> tops_ok c p t_init (ops ++ [TBigWrite recs okb]) ->
  let s := trun (ops ++ [TBigWrite recs okb]) in
  out_get c p s k (h_seq (ts_h s)) =
  a_get c k (if okb then fold_left (a_apply c p) recs (base_map c p ops) else base_map c p ops).
Proof. exact large_batch_reads. Qed.
Print Assumptions C11_large_batch_reads.

(* (7) Other writers wait: while a transaction is open a write, an OpenTransaction and an oversized Write have
   no effect at that point of the trace (the blocking itself and the order of the queued writers are checked on
   the implementation). *)
Theorem C11_writers_wait : forall s t recs okb, ts_txn s = Some t ->
  tstep s (TOut (HWrite recs)) = s /\ tstep s TOpen = s /\ tstep s (TBigWrite recs okb) = s.
Proof. exact writers_wait. Qed.
Print Assumptions C11_writers_wait.

(* (8) Layout level.  Transaction.Get on the code's structures (private buffer first, then DB.get with the
   private tables in front of level 0) returns the newest visible entry among everything it consults. *)
Theorem C11_txn_lsm_get_correct : forall c, comparer_ok c -> forall p, kparams_ok p -> forall auxm st k s,
  ssorted c auxm -> kinds_ok p auxm -> newer_thanP auxm (all_entries st) -> wf_state c p st ->
  txn_lsm_get c p auxm st k s = group_res p (newest c k s (auxm ++ all_entries st) None).
Proof. exact txn_lsm_get_correct. Qed.
Print Assumptions C11_txn_lsm_get_correct.

(* In the transaction's situation (DB buffers empty, private entries newer than [base], shared entries at most
   [base]): the private tables, consulted first, are sound; and at any sequence number up to [base] — every
   outside reader, also inside the commit window — the private entries do not count. *)
Theorem C11_aux_tables_first_sound : forall c, comparer_ok c -> forall p, kparams_ok p -> forall auxm st base,
  st_mem st = [] -> st_frozen st = [] ->
  ssorted c auxm -> kinds_ok p auxm ->
  tables_ok c p (st_aux st) -> uniq (LsmProofs.level_entries (st_aux st)) ->
  newer_thanP auxm (LsmProofs.level_entries (st_aux st)) ->
  wf_state c p (outside_of st) ->
  (forall e, In e (private_entries auxm st) -> (base < e_seq e)%N) ->
  (forall e, In e (shared_entries st) -> (e_seq e <= base)%N) ->
  (forall k s, txn_lsm_get c p auxm st k s = group_res p (newest c k s (auxm ++ all_entries st) None)) /\
  (forall k s, (s <= base)%N -> txn_lsm_get c p auxm st k s = lsm_get c p (outside_of st) k s) /\
  (forall k s, (s <= base)%N -> lsm_get c p st k s = lsm_get c p (outside_of st) k s).
Proof. exact aux_tables_first_sound. Qed.
Print Assumptions C11_aux_tables_first_sound.

(* The boolean certificate the correspondence check evaluates on every state dumped inside an open
   transaction implies those conclusions for that state. *)
Theorem C11_txn_layout_cert_sound : forall c, comparer_ok c -> forall p, kparams_ok p ->
  forall dbseq tseq auxm st, txn_layout_okb c p dbseq tseq auxm st = true ->
  (forall k s, txn_lsm_get c p auxm st k s = group_res p (newest c k s (auxm ++ all_entries st) None)) /\
  (forall k s, (s <= dbseq)%N -> txn_lsm_get c p auxm st k s = lsm_get c p (outside_of st) k s) /\
  (forall k s, (s <= dbseq)%N -> lsm_get c p st k s = lsm_get c p (outside_of st) k s).
Proof. exact txn_layout_cert_sound. Qed.
Print Assumptions C11_txn_layout_cert_sound.

(* ---- Non-vacuity ---- *)
(* base: 7->1, 8->2; snapshot; transaction: 7 deleted, 9->3, 8->4 while an outside write is held back and a
   snapshot is taken; a failed commit; then commit / discard / close. *)
Definition ex_pre : list top := [TOut (HWrite [(1, [7], [1]); (1, [8], [2])]%N); TOut HSnap].
Definition ex_body : list top :=
  [TWrite [(0, [7], [])]%N; TOut (HWrite [(1, [7], [99])]%N); TOut HSnap; TWrite [(1, [9], [3]); (1, [8], [4])]%N;
   TCommit false].

Example C11_nonvacuous_hyps :
  ts_txn (trun ex_pre) = None /\ forallb keeps_open ex_body = true /\
  tops_ok bytewise kp t_init (ex_pre ++ TOpen :: ex_body).
Proof.
  split; [reflexivity|]. split; [reflexivity|].
  cbn [tops_ok top_ok app ex_pre ex_body hop_ok]. repeat split; repeat constructor; vm_compute; congruence.
Qed.

Example C11_nonvacuous_open :
  let s1 := trun (ex_pre ++ TOpen :: ex_body) in
  (* outside: the base, at the current sequence number and at both snapshots *)
  h_seq (ts_h s1) = 2%N /\ h_snaps (ts_h s1) = [2; 2]%N /\
  out_get bytewise kp s1 [7]%N 2 = Some [1]%N /\ out_get bytewise kp s1 [8]%N 2 = Some [2]%N /\
  out_get bytewise kp s1 [9]%N 2 = None /\
  (* inside: the overlay *)
  txn_get bytewise kp s1 [7]%N = None /\ txn_get bytewise kp s1 [8]%N = Some [4]%N /\
  txn_get bytewise kp s1 [9]%N = Some [3]%N /\
  option_map t_seq (ts_txn s1) = Some 5%N /\
  body_writes ex_body = [(0, [7], []); (1, [9], [3]); (1, [8], [4])]%N.
Proof. repeat split; vm_compute; reflexivity. Qed.

Example C11_nonvacuous_commit :
  let s2 := trun ((ex_pre ++ TOpen :: ex_body) ++ [TCommit true]) in
  h_seq (ts_h s2) = 5%N /\ ts_txn s2 = None /\
  out_get bytewise kp s2 [7]%N 5 = None /\ out_get bytewise kp s2 [8]%N 5 = Some [4]%N /\
  out_get bytewise kp s2 [9]%N 5 = Some [3]%N /\
  (* the snapshots taken before and during the transaction still show the base *)
  out_get bytewise kp s2 [7]%N 2 = Some [1]%N /\ out_get bytewise kp s2 [9]%N 2 = None.
Proof. repeat split; vm_compute; reflexivity. Qed.

Example C11_nonvacuous_discard :
  trun ((ex_pre ++ TOpen :: ex_body) ++ [TDiscard]) = trun (ex_pre ++ [TOut HSnap]) /\
  trun ((ex_pre ++ TOpen :: ex_body) ++ [TClose]) = trun (ex_pre ++ [TOut HSnap]) /\
  body_outside ex_body = [TOut HSnap].
Proof. repeat split; vm_compute; reflexivity. Qed.

Example C11_nonvacuous_big_batch :
  let recs := [(1, [7], [5]); (0, [8], [])]%N in
  out_get bytewise kp (trun (ex_pre ++ [TBigWrite recs true])) [8]%N 4 = None /\
  out_get bytewise kp (trun (ex_pre ++ [TBigWrite recs true])) [7]%N 4 = Some [5]%N /\
  trun (ex_pre ++ [TBigWrite recs false]) = trun ex_pre.
Proof. repeat split; vm_compute; reflexivity. Qed.

(* a dumped-state shaped layout: private buffer (9,seq 5), private table (7 deleted seq 3; 8->4 seq 4),
   shared level 0 (7->1 seq 1; 8->2 seq 2) *)
Definition ex_en (k s kd v : N) : entry := {| e_uk := [k]; e_seq := s; e_kind := kd; e_val := [v] |}.
Definition ex_st : lstate :=
  {| st_mem := []; st_frozen := [];
     st_aux := [ {| t_num := 12; t_entries := [ex_en 7 3 0 0; ex_en 8 4 1 4] |} ];
     st_levels := [ [ {| t_num := 10; t_entries := [ex_en 7 1 1 1; ex_en 8 2 1 2] |} ] ] |}.
Example C11_nonvacuous_layout :
  txn_layout_okb bytewise kp 2 5 [ex_en 9 5 1 3] ex_st = true /\
  api_of (txn_lsm_get bytewise kp [ex_en 9 5 1 3] ex_st [7]%N 5) = None /\
  api_of (txn_lsm_get bytewise kp [ex_en 9 5 1 3] ex_st [8]%N 5) = Some [4]%N /\
  api_of (txn_lsm_get bytewise kp [ex_en 9 5 1 3] ex_st [9]%N 5) = Some [3]%N /\
  api_of (lsm_get bytewise kp (outside_of ex_st) [7]%N 2) = Some [1]%N /\
  api_of (lsm_get bytewise kp ex_st [7]%N 2) = Some [1]%N.
Proof. repeat split; vm_compute; reflexivity. Qed.

(* ====================================================================================================
   Transactions at BYTE level (Lsm/TxnBytes.v: db_transaction.go branch by branch over the byte-level DB state of
   property C01 — memdb arrays, table files as bytes —, the manifest record codec of property C04, the batch
   codec of C01; proofs: Lsm/TxnBytesProofs.v, Lsm/TxnManifestProofs.v).
   What the environment contributes is an argument of each operation and universally quantified here: the heights
   memdb.Put draws, the table FILE a private flush wrote or its failure, capacities, the outcome of every manifest
   attempt of a Commit (ok / failed, record in the file or not, manifest too big), background reorganisations.
   Contract assumed of the table writer (bop_pre: flush_ok; C13's writer theorems; evaluated at every flush
   observed on the implementation): the file passes the format check and holds exactly the memdb's pairs.
   The machine is the REPAIRED code (a failed Commit leaves db.seq alone; Discard consumes the numbers): the
   behaviour before that repair is the refuted statement at the end.
   ==================================================================================================== *)
From GL Require Import Codec.Table Codec.TableCheck Codec.TblCrc Lsm.ReadPath Lsm.ReadPathMem Lsm.ReadPathProofs Lsm.ReorgProofs Lsm.CertProofs
  Lsm.IterPath Lsm.IterPathProofs Gen.Inst Gen.InstTbl Gen.InstMem Gen.BloomInst Gen.ConstsOkMem Gen.InstRecordOk.
From GL Require Import Lsm.TxnBytes Lsm.TxnBytesProofs Lsm.TxnManifestProofs.
From GL Require Mem.MemDB Codec.Batch Codec.SessionRecord Codec.SessionRecordSpec Iter.Cursor Iter.DBIter
  Store.Crash Store.Faults Store.FaultsProofs Props.C01.
From Coq Require Import ZArith.

(* (9) C11_txn_bytes_refines.  The byte-level transaction machine refines the history-level machine of Lsm/Txn.v
   (extended by the sequence-number skip of a discarded failed commit, see (15)): for EVERY operation sequence —
   OpenTransaction, Put / Delete / Write with private flushes wherever the memdb is full (and failing flushes),
   iterators held across flushes (the memdb is then replaced, not reset), Commit with any outcomes of its three
   manifest attempts, Discard, background reorganisations — the relation wrel (same sequence number, same stored
   entries, the open transaction holds exactly the records APPLIED so far stamped above db.seq: the abstraction of
   private memdb + private tables to t_writes) and the invariants of the byte world (winv: C14's invariant of the
   private memdb, the format check of every private table, every private entry with its own sequence number in
   (db.seq, tr.seq], tables older than the memdb) are kept; the history-level steps are abs_run: the records a
   call applied, one commit step for a successful Commit, nothing for a failed one. *)
Theorem C11_txn_bytes_refines :
  forall c, comparer_ok c -> forall p, kparams_ok p -> (keyTypeSeek p <= keyTypeVal p)%N ->
  forall mp, MemDB.mparams_ok mp ->
  forall tp crc decompress fname ufc verify ri rp ops w s,
  wrel c mp tp crc decompress fname ufc verify ri w s ->
  winv c p mp tp crc decompress fname ufc verify ri w ->
  bops_pre c p mp tp crc decompress fname ufc verify ri rp w ops ->
  wrel c mp tp crc decompress fname ufc verify ri (brun_from c p mp rp false w ops)
       (xrun s (abs_run c p mp tp crc decompress fname ufc verify ri rp w ops)) /\
  winv c p mp tp crc decompress fname ufc verify ri (brun_from c p mp rp false w ops).
Proof.
  intros c ok p pok sv mp mpok tp crc decompress fname ufc verify ri rp ops w s.
  exact (brun_refines c ok p pok sv mp mpok tp crc decompress fname ufc verify ri rp ops w s).
Qed.
Print Assumptions C11_txn_bytes_refines.

(* ... one step at a time (the statement the induction uses) *)
Theorem C11_txn_bytes_step_refines :
  forall c, comparer_ok c -> forall p, kparams_ok p -> (keyTypeSeek p <= keyTypeVal p)%N ->
  forall mp, MemDB.mparams_ok mp ->
  forall tp crc decompress fname ufc verify ri rp w s o,
  wrel c mp tp crc decompress fname ufc verify ri w s ->
  winv c p mp tp crc decompress fname ufc verify ri w ->
  bop_pre c p mp tp crc decompress fname ufc verify ri rp w o ->
  step_ok c p mp tp crc decompress fname ufc verify ri rp w s o.
Proof.
  intros c ok p pok sv mp mpok tp crc decompress fname ufc verify ri rp w s o.
  exact (bstep_refines c ok p pok sv mp mpok tp crc decompress fname ufc verify ri rp w s o).
Qed.
Print Assumptions C11_txn_bytes_step_refines.

(* (10) C11_txn_get_bytes.  Transaction.Get computed on the BYTES — DB.get(tr.mem, tr.tables, key, tr.seq): the
   private memdb's arrays first, the DB's memdbs, the private table files walked as "level -1" in front of the
   version's files — returns, in every state the machine reaches (winv), the base at open overlaid with the
   records applied so far; [m] is any plain map that answers the reads of the shared state at db.seq (by
   C01_get_is_map_bytes the map of the committed writes).  No panic, no error, fuel suffices. *)
Theorem C11_txn_get_bytes :
  forall c, comparer_ok c -> forall p, kparams_ok p -> (keyTypeSeek p <= keyTypeVal p)%N ->
  forall mp, MemDB.mparams_ok mp ->
  forall tp crc decompress fname ufc verify ri w t wr m k,
  winv c p mp tp crc decompress fname ufc verify ri w -> tw_tr w = Some t ->
  applied_rel c mp tp crc decompress fname ufc verify ri (tw_seq w) wr t ->
  (forall k', History.res p (newest c k' (tw_seq w) (all_entries (abs c mp tp crc decompress fname ufc verify ri (tw_db w))) None) =
              a_get c k' m) ->
  wf_bytes k ->
  option_map bapi (t_get c p mp tp crc decompress fname ufc verify w k) =
  Some (Some (a_get c k (fold_left (a_apply c p) wr m))).
Proof.
  intros c ok p pok sv mp mpok tp crc decompress fname ufc verify ri w t wr m k.
  exact (txn_get_overlay c ok p pok sv mp mpok tp crc decompress fname ufc verify ri w t wr m k).
Qed.
Print Assumptions C11_txn_get_bytes.

(* ... and both kinds of read, computed on the bytes, are the reads of the related history-level state: the
   theorems (1)-(7) about out_get / txn_get hold of DB.Get and Transaction.Get as computed on bytes *)
Theorem C11_reads_refine_bytes :
  forall c, comparer_ok c -> forall p, kparams_ok p -> (keyTypeSeek p <= keyTypeVal p)%N ->
  forall mp, MemDB.mparams_ok mp ->
  forall tp crc decompress fname ufc verify ri w s k,
  wrel c mp tp crc decompress fname ufc verify ri w s ->
  winv c p mp tp crc decompress fname ufc verify ri w -> wf_bytes k ->
  (forall q, (q <= keyMaxSeq p)%N ->
     bapi (o_get c p mp tp crc decompress fname ufc verify w k q) = Some (out_get c p s k q)) /\
  (tw_tr w <> None ->
     option_map bapi (t_get c p mp tp crc decompress fname ufc verify w k) = Some (Some (txn_get c p s k))).
Proof.
  intros c ok p pok sv mp mpok tp crc decompress fname ufc verify ri w s k.
  exact (reads_refine c ok p pok sv mp mpok tp crc decompress fname ufc verify ri w s k).
Qed.
Print Assumptions C11_reads_refine_bytes.

(* (11) C11_txn_iter_bytes.  Transaction.NewIterator computed on the bytes (Lsm/IterPath.v with auxm = tr.mem,
   auxt = tr.tables): for every range and every call sequence the reference cursor over the live pairs at tr.seq
   of everything the transaction consults; and those pairs are exactly the (key, value) Transaction.Get finds. *)
Theorem C11_txn_iter_bytes :
  forall c, comparer_ok c -> forall p, kparams_ok p -> (keyTypeSeek p <= keyTypeVal p)%N ->
  forall mp, MemDB.mparams_ok mp ->
  forall tp crc decompress fname ufc verify ri strict w t slice fuel ms,
  winv c p mp tp crc decompress fname ufc verify ri w -> tw_tr w = Some t -> bs_mem (tw_db w) <> None ->
  range_wf slice -> Forall umove_wf ms ->
  (length (all_entries (txn_state c mp tp crc decompress fname ufc verify ri t (tw_db w))) < fuel)%nat ->
  t_iter c p mp tp crc decompress fname ufc verify strict fuel w slice ms =
    Some (Some (Cursor.run_cursor (cmp c) (range_view c slice
                  (DBIter.live_pairs c p (tt_seq t)
                     (db_entries c mp tp crc decompress fname ufc verify ri (Some (tt_mem t)) (tt_tables t) (tw_db w)))) ms)) /\
  (forall u v, wf_bytes u ->
     (In (u, v) (DBIter.live_pairs c p (tt_seq t)
                   (db_entries c mp tp crc decompress fname ufc verify ri (Some (tt_mem t)) (tt_tables t) (tw_db w))) <->
      t_get c p mp tp crc decompress fname ufc verify w u = Some (BRes (GFound v)))).
Proof.
  intros c ok p pok sv mp mpok tp crc decompress fname ufc verify ri strict w t slice fuel ms.
  exact (txn_iter_bytes c ok p pok sv mp mpok tp crc decompress fname ufc verify ri strict w t slice fuel ms).
Qed.
Print Assumptions C11_txn_iter_bytes.

(* (12) C11_outside_unaffected_bytes.  What DB.Get / Snapshot.Get are computed from — the DB's memdbs, the version,
   db.seq — is not touched by any operation of the open transaction (Put, Delete, Write, flushes, iterators), nor
   by a Commit that fails; the private tables are not an argument of an outside read at all. *)
Theorem C11_outside_unaffected_bytes :
  forall c p mp tp crc decompress fname ufc verify rp w o,
  (txn_local o = true \/ (exists fo atts, o = BCommit fo atts /\ snd (bstep c p mp rp false w o) <> TOk)) ->
  tw_db (fst (bstep c p mp rp false w o)) = tw_db w /\ tw_seq (fst (bstep c p mp rp false w o)) = tw_seq w /\
  forall k q, o_get c p mp tp crc decompress fname ufc verify (fst (bstep c p mp rp false w o)) k q =
              o_get c p mp tp crc decompress fname ufc verify w k q.
Proof.
  intros c p mp tp crc decompress fname ufc verify rp w o.
  exact (outside_unaffected c p mp tp crc decompress fname ufc verify rp w o).
Qed.
Print Assumptions C11_outside_unaffected_bytes.

(* ... and inside the commit window (the private tables already sit in level 0 of the version, db.seq is not
   yet set) a read at any sequence number up to db.seq, computed on the bytes of the NEW version, is the read
   computed before the commit *)
Theorem C11_commit_window_bytes :
  forall c, comparer_ok c -> forall p, kparams_ok p -> (keyTypeSeek p <= keyTypeVal p)%N ->
  forall mp, MemDB.mparams_ok mp ->
  forall tp crc decompress fname ufc verify ri w t k q,
  sinv c p mp tp crc decompress fname ufc verify ri w ->
  tinv c p mp tp crc decompress fname ufc verify ri (tw_seq w) t -> tt_tables t <> [] -> wf_bytes k -> (q <= tw_seq w)%N ->
  db_get_bytes c p mp tp crc decompress fname ufc verify (installed (tw_db w) (tt_tables t)) k q =
  db_get_bytes c p mp tp crc decompress fname ufc verify (tw_db w) k q.
Proof.
  intros c ok p pok sv mp mpok tp crc decompress fname ufc verify ri w t k q.
  exact (commit_window_bytes c ok p pok sv mp mpok tp crc decompress fname ufc verify ri w t k q).
Qed.
Print Assumptions C11_commit_window_bytes.

(* (13) C11_commit_is_one_record.  tr.rec holds, in every state the machine reaches, the private tables as
   level-0 additions and nothing else a record writes (C11_rec_inv_reachable).  An attempt of Commit that goes
   through flushManifest and succeeds appends exactly ONE record to the manifest; decoded by the manifest codec
   (Codec/SessionRecord.v) it is the record built from next-file-num, seq-num = tr.seq and the private tables at
   level 0 ... *)
Theorem C11_rec_inv_reachable : forall c kp mp rp, SessionRecordSpec.rparams_ok rp -> forall sof w o,
  wrec_inv rp w -> wrec_inv rp (fst (bstep c kp mp rp sof w o)).
Proof. exact bstep_rec_inv. Qed.
Print Assumptions C11_rec_inv_reachable.

Theorem C11_commit_is_one_record : forall rp, SessionRecordSpec.rparams_ok rp -> forall w t a lvls,
  rec_inv rp t -> (tw_mfail w || ai_rot a) = false -> ai_ok a = true ->
  SessionRecordSpec.fields_ok (commit_fields (map (at_of 0) (tt_tables t)) (tt_seq t) (ai_nf a)) ->
  exists b w' r',
    session_commit rp w (SessionRecord.set_seq rp (tt_rec t) (tt_seq t)) (Some (tt_seq t)) lvls a = Some (w', r', true) /\
    tw_man w' = tw_man w ++ [b] /\
    SessionRecord.decode rp SessionRecord.sr_empty b =
      SessionRecord.DOk (SessionRecordSpec.build rp (commit_fields (map (at_of 0) (tt_tables t)) (tt_seq t) (ai_nf a))).
Proof. exact commit_appends_one_record. Qed.
Print Assumptions C11_commit_is_one_record.

(* ... and replayed by session.recover's model behind ANY manifest (C04_manifest_replay) it changes exactly this:
   the sequence number becomes tr.seq, the next file number the one it carries, and — for file numbers that are
   new at level 0 — the live tables are the old ones plus exactly the private tables *)
Theorem C11_commit_record_replay : forall rp, SessionRecordSpec.rparams_ok rp ->
  forall strict cmp recs rs b adds seq nf j pj nf0 q live cps,
  Forall2 (fun b r => SessionRecord.decode rp SessionRecord.sr_empty b = SessionRecord.DOk r) recs rs ->
  SessionRecord.decode rp SessionRecord.sr_empty b = SessionRecord.DOk (SessionRecordSpec.build rp (commit_fields adds seq nf)) ->
  SessionRecordSpec.replay_result rp cmp rs = SessionRecordSpec.SpecOk j pj nf0 q live cps ->
  SessionRecordSpec.agrees (SessionRecord.session_recover rp strict cmp (recs ++ [b]))
    (SessionRecordSpec.SpecOk j pj nf seq (fold_left SessionRecordSpec.live_add adds live) cps) /\
  (adds_fresh live adds -> Forall (fun a => SessionRecord.at_level a = 0%Z) adds ->
   forall x, In x (fold_left SessionRecordSpec.live_add adds live) <-> In x adds \/ In x live).
Proof.
  intros rp pok strict cmp recs rs b adds seq nf j pj nf0 q live cps HF Hb Hr. split.
  - destruct (commit_crash_atomic rp pok strict cmp recs rs b adds seq nf j pj nf0 q live cps (S (length recs)) HF Hb Hr)
      as [(Hk & _)|(_ & E & A)]; [exfalso; apply (Nat.nle_succ_diag_l _ Hk)|]. rewrite <- E. exact A.
  - intros Hf Hl. exact (live_adds_fresh adds live Hf Hl).
Qed.
Print Assumptions C11_commit_record_replay.

(* (14) C11_commit_crash_atomic.  A crash leaves a prefix of the manifest file's bytes, hence (C04_byte_cut_is_record_image:
   a torn record is never delivered) a prefix of its records.  For EVERY such prefix recovery either replays a
   prefix of the manifest as it was BEFORE the commit — the transaction's record is not read: wholly out — or the
   whole manifest with the record: sequence number tr.seq and ALL private tables live: wholly in.  Interface
   hypotheses, explicit: the records before the commit decode (rs), the commit's record decodes to the record of
   (13), the manifest before the commit replays (SpecOk). *)
Theorem C11_commit_crash_atomic : forall rp, SessionRecordSpec.rparams_ok rp ->
  forall strict cmp recs rs b adds seq nf j pj nf0 q live cps k,
  Forall2 (fun b r => SessionRecord.decode rp SessionRecord.sr_empty b = SessionRecord.DOk r) recs rs ->
  SessionRecord.decode rp SessionRecord.sr_empty b = SessionRecord.DOk (SessionRecordSpec.build rp (commit_fields adds seq nf)) ->
  SessionRecordSpec.replay_result rp cmp rs = SessionRecordSpec.SpecOk j pj nf0 q live cps ->
  let img := firstn k (recs ++ [b]) in
  ((k <= length recs)%nat /\ img = firstn k recs /\
     SessionRecordSpec.agrees (SessionRecord.session_recover rp strict cmp img) (SessionRecordSpec.replay_result rp cmp (firstn k rs))) \/
  ((length recs < k)%nat /\ img = recs ++ [b] /\
     SessionRecordSpec.agrees (SessionRecord.session_recover rp strict cmp img)
       (SessionRecordSpec.SpecOk j pj nf seq (fold_left SessionRecordSpec.live_add adds live) cps)).
Proof. exact commit_crash_atomic. Qed.
Print Assumptions C11_commit_crash_atomic.

(* ... composed with the fault model of property C08 (Store/Faults.v: FTxnBegin / FTxnCommit / FTxnCommitFail /
   FTxnDiscard; the transaction is ONE batch of n records there): after ANY history of succeeding and failing
   steps, a Commit that returns nil in a state with the transaction open on an idle journal acknowledges the
   transaction's batch, and (C08_faults_safe) every later crash image or clean reopen, whatever fails afterwards,
   recovers it — whole, batches being the atoms. *)
Theorem C11_commit_durable_under_faults : forall ops n fl later img L,
  let s := Faults.frun ops in
  Faults.f_txn s = Some (n, fl) -> n <> 0%N -> Faults.f_mfail s = false -> Faults.f_pend s = false ->
  Crash.p_frozen (Faults.f_p s) = None -> Crash.j_recs (Crash.p_live (Faults.f_p s)) = [] ->
  let s' := Faults.frun ((ops ++ [Faults.FTxnCommit]) ++ later) in
  Crash.is_image (Faults.f_p s') img -> Faults.sublist L (Crash.recover img) ->
  (forall b, In b (Crash.recover img) -> ~ In b L -> In b (Faults.f_unknown s')) ->
  Faults.fres s Faults.FTxnCommit = Faults.ROk /\
  In {| Crash.b_seq := Crash.p_seq (Faults.f_p s) + 1; Crash.b_n := n |} L.
Proof.
  intros ops n fl later img L s Ht Hn Hmf Hpe Hfr Hlv s' Himg Hsub Hunk.
  assert (Hack : In {| Crash.b_seq := Crash.p_seq (Faults.f_p s) + 1; Crash.b_n := n |}
                    (Crash.p_acked (Faults.f_p (Faults.fstep s Faults.FTxnCommit)))).
  { unfold Faults.fstep. rewrite Ht, Hmf, Hpe. unfold Faults.committed. cbn [Faults.f_p]. unfold Crash.pstep.
    rewrite Hfr, Hlv. apply N.eqb_neq in Hn. rewrite Hn. cbn [Crash.p_acked]. apply in_or_app. right. left. reflexivity. }
  split.
  - unfold Faults.fres. rewrite Ht, Hmf, Hpe. reflexivity.
  - destruct (FaultsProofs.faults_safe ((ops ++ [Faults.FTxnCommit]) ++ later) img L Himg Hsub Hunk) as (Hacked & _).
    assert (Eapp : forall a b, Faults.frun (a ++ b) = Faults.frun_from (Faults.frun a) b)
      by (intros a b; unfold Faults.frun, Faults.frun_from; apply fold_left_app).
    apply Hacked. unfold s'. rewrite Eapp. apply (FaultsProofs.acked_monotone_run _ later); [apply FaultsProofs.finv_run|].
    rewrite Eapp. unfold Faults.frun_from. cbn [fold_left]. exact Hack.
Qed.
Print Assumptions C11_commit_durable_under_faults.

(* (15) C11_failed_write_partial.  What a Transaction.Write that returned an error leaves: exactly a proper PREFIX of
   the batch applied — the records before the one whose private flush failed (the table file could not be written);
   the transaction stays open and consistent (winv), holds the earlier records plus that prefix, its later reads
   see the prefix ((10) with wr ++ prefix) and a later successful Commit publishes it with everything else ((9):
   the commit step of the history machine writes all records held).  This is NOT a violation of the property as
   written: atomicity is Commit's (all records the transaction holds become visible at once, or none), the caller
   of the failed Write got an error and decides — Discard, or go on and Commit; the oversized DB.Write, the only
   place where goleveldb itself wraps a batch in a transaction, discards (C11_large_batch_all_or_nothing). *)
Theorem C11_failed_write_partial :
  forall c, comparer_ok c -> forall p, kparams_ok p -> (keyTypeSeek p <= keyTypeVal p)%N ->
  forall mp, MemDB.mparams_ok mp ->
  forall tp crc decompress fname ufc verify ri rp w t wr b os recs,
  winv c p mp tp crc decompress fname ufc verify ri w -> tw_tr w = Some t ->
  applied_rel c mp tp crc decompress fname ufc verify ri (tw_seq w) wr t ->
  Batch.batch_records b = Some recs -> Batch.batch_len b <> 0%N ->
  puts_pre c p mp tp crc decompress fname ufc verify ri rp t recs os ->
  let '(w', r) := w_write c p mp rp w b os in
  exists t' post, recs = applied c p mp rp t recs os ++ post /\ tw_tr w' = Some t' /\
    tw_db w' = tw_db w /\ tw_seq w' = tw_seq w /\ tt_closed t' = false /\
    tinv c p mp tp crc decompress fname ufc verify ri (tw_seq w) t' /\
    applied_rel c mp tp crc decompress fname ufc verify ri (tw_seq w) (wr ++ applied c p mp rp t recs os) t' /\
    match r with
    | TOk => post = []
    | TErr e => e = ETable /\ post <> []
    | _ => False
    end.
Proof.
  intros c ok p pok sv mp mpok tp crc decompress fname ufc verify ri rp w t wr b os recs.
  exact (failed_write_partial c ok p pok sv mp mpok tp crc decompress fname ufc verify ri rp w t wr b os recs).
Qed.
Print Assumptions C11_failed_write_partial.

(* (16) The sequence-number skip of a discarded failed commit is unobservable: no stored entry carries the skipped
   numbers, so every read of the history-level state, at every sequence number, is unchanged (and so is what
   was ever written). *)
Theorem C11_seq_skip_unobservable : forall c p s d k q,
  out_get c p (x_skip s d) k q = out_get c p s k q /\ h_hist (ts_h (x_skip s d)) = h_hist (ts_h s) /\
  ts_txn (x_skip s d) = ts_txn s.
Proof. intros. repeat split. Qed.
Print Assumptions C11_seq_skip_unobservable.

(* (17) REFUTED: the code between the repairs 50c909c and the one of this round set db.seq := tr.seq as soon as a
   commit attempt failed, while the transaction stays open and may be committed by a retry.  A snapshot taken in
   between is pinned at tr.seq, which covers every sequence number of the transaction: once the retry installs the
   tables the snapshot shows the transaction's writes — its view changes, and it shows writes of a transaction
   that was not committed when it was taken.  Witness at the history level (the hypothesis q <= h_seq h of
   C11_commit_window_unobservable is exactly what that code broke): base 7 -> 1 at seq 1; the transaction
   overwrites 7 at seq 2; after the failed attempt h_seq = 2; the snapshot at 2 reads 1 before the retry
   installs the tables and 9 after. *)
Definition ex_h_failed : hstate :=
  {| h_seq := 2; h_store := [ex_en 7 1 1 1]; h_snaps := [2%N]; h_hist := [ex_en 7 1 1 1] |}.
Definition ex_t_failed : txn := {| t_seq := 2; t_writes := [ex_en 7 2 1 9] |}.
Theorem C11_failed_commit_publishes_seq_refuted :
  store_get bytewise kp ex_h_failed [7]%N 2 = Some [1]%N /\
  store_get bytewise kp (publish_version ex_h_failed ex_t_failed) [7]%N 2 = Some [9]%N /\
  (* with db.seq left alone (the repaired code) the snapshot is pinned at 1 and keeps reading 1 *)
  store_get bytewise kp (publish_version {| h_seq := 1; h_store := [ex_en 7 1 1 1]; h_snaps := [1%N]; h_hist := [ex_en 7 1 1 1] |}
                                          ex_t_failed) [7]%N 1 = Some [1]%N.
Proof. repeat split; vm_compute; reflexivity. Qed.
Print Assumptions C11_failed_commit_publishes_seq_refuted.

(* ---- Non-vacuity of the byte-level theorems: a concrete world ----
   The DB is C01's example state (three table files written by goleveldb: level 0 = files 8 and 5, level 1 = file 4)
   with an empty write buffer, db.seq = 13.  OpenTransaction; Put a; Delete c; the reads; Commit: its flush writes
   a table with the MODEL writer of property C13 (Codec/Table.v twrite) from the private memdb's pairs — the file
   satisfies the writer's contract flush_ok by computation —, one manifest attempt, successful.  Every hypothesis
   of the theorems above holds of this run (winv of the initial world, bops_pre of the operation sequence), and the
   machine, evaluated, reads: inside a = the Put, c deleted, b from level 1, d absent; outside meanwhile the base;
   after Commit everyone reads the overlay at db.seq = 15 and the base at the old sequence number 13; the manifest
   holds ONE record. *)
Definition exb_db : bstate := mkBS (mem_of bytewise mp []) None [[C01.ex_file8; C01.ex_file5]; [C01.ex_file4]].
Definition exb_w0 : tworld := mkTW exb_db 13 [] false 3%Z 13 [99]%N [] None [].
Definition exb_ufc : bytes -> N -> bytes -> bool := bloom_ufc bp (BinInt.Z.of_N 10).
Definition exb_in (h : N) : put_in := mkPI h FlErr 4096.
Definition exb_ops3 : list bop :=
  [BOpen 4096; BPut (keyTypeVal kp) [97]%N [1; 2]%N (exb_in 1); BPut (keyTypeDel kp) [99]%N [] (exb_in 2)].
Definition exb_w3 : tworld := brun_from bytewise kp mp rp false exb_w0 exb_ops3.
Definition exb_pairs : list (bytes * bytes) := match tw_tr exb_w3 with Some t => mem_pairs mp (tt_mem t) | None => [] end.
Definition exb_file : tfile :=
  match twrite tblp tbl_crc (fun x => x) (ibc bytewise) 4096 2 false None exb_pairs with
  | Some f => mkTF 9 (fst (hd ([], []) exb_pairs)) (fst (last exb_pairs ([], []))) f
  | None => no_tfile
  end.
Definition exb_commit : bop := BCommit (FlOk exb_file 4096) [mkAI true false false 10%Z].
Definition exb_w4 : tworld := fst (bstep bytewise kp mp rp false exb_w3 exb_commit).
Definition exb_tget (w : tworld) (k : N) :=
  option_map bapi (t_get bytewise kp mp tblp tbl_crc C01.ex_nodec None exb_ufc true w [k]).
Definition exb_oget (w : tworld) (k s : N) := bapi (o_get bytewise kp mp tblp tbl_crc C01.ex_nodec None exb_ufc true w [k] s).

Lemma exb_winv : winv bytewise kp mp tblp tbl_crc C01.ex_nodec None exb_ufc true 2 exb_w0.
Proof.
  split; [|exact I]. constructor; cbn [exb_w0 tw_db tw_seq].
  - constructor.
    + intros d H. split.
      * apply (mem_of_inv bytewise bytewise_ok mp mp_ok [] d); [constructor|exact H].
      * cbn [bs_mem exb_db] in H. assert (K : match mem_of bytewise mp [] with Some d => mem_keys_okb kp mp d | None => false end = true)
          by (vm_compute; reflexivity). rewrite H in K. exact K.
    + intros d H. discriminate.
    + apply Forall_cons; [apply Forall_cons; [vm_compute; reflexivity | apply Forall_cons; [vm_compute; reflexivity | apply Forall_nil]]
                         | apply Forall_cons; [apply Forall_cons; [vm_compute; reflexivity | apply Forall_nil] | apply Forall_nil]].
    + apply (wf_fullb_sound bytewise bytewise_ok kp). vm_compute. reflexivity.
  - reflexivity.
  - vm_compute. reflexivity.
  - assert (H : forallb (fun x => (e_seq x <=? 13)%N)
                  (all_entries (abs bytewise mp tblp tbl_crc C01.ex_nodec None exb_ufc true 2 exb_db)) = true) by (vm_compute; reflexivity).
    intros x Hx. rewrite forallb_forall in H. apply N.leb_le. apply H. exact Hx.
  - apply uniqb_uniq_in. vm_compute. reflexivity.
  - vm_compute. discriminate.
Qed.

Example C11_bytes_nonvacuous :
  winv bytewise kp mp tblp tbl_crc C01.ex_nodec None exb_ufc true 2 exb_w0 /\
  bops_pre bytewise kp mp tblp tbl_crc C01.ex_nodec None exb_ufc true 2 rp exb_w0 (exb_ops3 ++ [exb_commit]) /\
  (* inside: the overlay; outside meanwhile: the base *)
  map (exb_tget exb_w3) [97; 98; 99; 100]%N =
    [Some (Some (Some [1; 2])); Some (Some (Some [98; 49])); Some (Some None); Some (Some None)]%N /\
  map (fun k => exb_oget exb_w3 k 13) [97; 98; 99]%N = [Some None; Some (Some [98; 49]); Some (Some [99; 51])]%N /\
  option_map tt_seq (tw_tr exb_w3) = Some 15%N /\ tw_seq exb_w3 = 13%N /\
  (* Commit: everyone reads the overlay at the new sequence number, the base at the old one; one record *)
  snd (bstep bytewise kp mp rp false exb_w3 exb_commit) = TOk /\ tw_seq exb_w4 = 15%N /\ tw_tr exb_w4 = None /\
  map (fun k => exb_oget exb_w4 k 15) [97; 98; 99]%N = [Some (Some [1; 2]); Some (Some [98; 49]); Some None]%N /\
  map (fun k => exb_oget exb_w4 k 13) [97; 98; 99]%N = [Some None; Some (Some [98; 49]); Some (Some [99; 51])]%N /\
  length (tw_man exb_w4) = 1%nat.
Proof.
  split; [exact exb_winv|]. split.
  - cbn [app exb_ops3 bops_pre bop_pre]. split; [exact I|]. split.
    { vm_compute. repeat split; auto; discriminate. }
    split.
    { vm_compute. repeat split; auto; discriminate. }
    split; [|exact I].
    change (fst (bstep bytewise kp mp rp false (fst (bstep bytewise kp mp rp false (fst (bstep bytewise kp mp rp false exb_w0 (BOpen 4096)))
              (BPut (keyTypeVal kp) [97]%N [1; 2]%N (exb_in 1)))) (BPut (keyTypeDel kp) [99]%N [] (exb_in 2)))) with exb_w3.
    assert (E : exists t, tw_tr exb_w3 = Some t /\ tfile_okb bytewise kp tblp tbl_crc C01.ex_nodec None exb_ufc true 2 exb_file = true /\
                          tf_pairs bytewise tblp tbl_crc C01.ex_nodec None exb_ufc true 2 exb_file = mem_pairs mp (tt_mem t)).
    { eexists. split; [vm_compute; reflexivity|]. split; vm_compute; reflexivity. }
    destruct E as (t & Et & E1 & E2). cbn [bop_pre exb_commit]. rewrite Et. split; assumption.
  - repeat split; vm_compute; reflexivity.
Qed.
