(* Props/C10.v — property C10: writer serialisation and merge protocol loses or duplicates no
   writer.  Property theorems only; each is closed by [exact lemma] and followed by Print
   Assumptions.  The system is Conc/WriteMerge.v (any number n of writers, any merge-limit
   constants mp, unboundedly many competing Close / transaction / CompactRange / SetReadOnly /
   persistent-error-handler moves); [reachable mp n s] = s is reached from [init n] by some action
   sequence, so every statement below quantifies over all interleavings. *)
From Coq Require Import List NArith Bool Arith.
From GL Require Import Conc.WriteMerge Conc.WriteMergeProofs Gen.InstC10 Corr.C10Run Conc.WriteMergeTrace.
Import ListNotations.

(* 1. mutex: at most one process is between lock acquisition and release / hand-over — counting
      writers (leaders), CompactRange, OpenTransaction .. setDone, leaked transactions, Close and
      the lock held for the persistent-error handler; and the lock channel is full iff there is one. *)
Theorem C10_mutex : forall mp n s, reachable mp n s ->
  owners s <= 1 /\ (lock s = true -> owners s = 1) /\ (lock s = false -> owners s = 0).
Proof. exact mutex_owners. Qed.
Print Assumptions C10_mutex.

Theorem C10_mutex_writers : forall mp n s i j wi wj, reachable mp n s ->
  nth_error (ws s) i = Some wi -> nth_error (ws s) j = Some wj -> holds wi = 1 -> holds wj = 1 -> i = j.
Proof. exact mutex_writers. Qed.
Print Assumptions C10_mutex_writers.

(* 2. handover_unique: when a leader has sent its acknowledgements, exactly one of the two endings
      is possible — overflow: the release is impossible, exactly one writer waits for the reply and
      the hand-over to it is enabled; no overflow: the release is enabled, nobody waits for a reply,
      no hand-over is possible.  After a hand-over the lock is still taken and its one and only
      owner is the receiver; after a release nobody owns it. *)
Theorem C10_handover_unique : forall mp n s l wl c k e, reachable mp n s ->
  nth_error (ws s) l = Some wl -> pc wl = WLUnlock c k e -> lmerged c <= k ->
  sumf waitack (ws s) = 0 /\
  match lover c with
  | Some _ => step mp s (ARelease l) = None /\ sumf mwait (ws s) = 1 /\ exists o, step mp s (AHandover l o) <> None
  | None => step mp s (ARelease l) <> None /\ sumf mwait (ws s) = 0 /\ forall o, step mp s (AHandover l o) = None
  end.
Proof. exact unlock_end. Qed.
Print Assumptions C10_handover_unique.

Theorem C10_handover_step : forall mp n s l o s', reachable mp n s -> step mp s (AHandover l o) = Some s' ->
  lock s' = true /\ owners s' = 1 /\
  (exists wo, nth_error (ws s') o = Some wo /\ pc wo = WLFlush) /\
  (forall j w, j <> o -> nth_error (ws s') j = Some w -> holds w = 0) /\
  sumf mwait (ws s) = 1.
Proof. exact handover_step. Qed.
Print Assumptions C10_handover_step.

Theorem C10_release_step : forall mp n s l s', reachable mp n s -> step mp s (ARelease l) = Some s' ->
  lock s' = false /\ owners s' = 0 /\ sumf mwait (ws s) = 0.
Proof. exact release_step. Qed.
Print Assumptions C10_release_step.

(* 3. ack_count: while a leader is in unlockWrite with loop counter k, exactly merged - k writers
      wait for an acknowledgement (so each of the remaining sends has a receiver and nobody else
      waits); every send that is due is enabled; a finished unlockWrite has sent exactly `merged`
      acknowledgements, as many as it sent `true` replies.  Close, the handler and the other lock
      takers are part of the system, so this includes their interference. *)
Theorem C10_ack_count : forall mp n s l wl c k e, reachable mp n s ->
  nth_error (ws s) l = Some wl -> pc wl = WLUnlock c k e ->
  sumf waitack (ws s) = lmerged c - k /\ k <= lmerged c.
Proof. exact ack_receivers. Qed.
Print Assumptions C10_ack_count.

Theorem C10_ack_no_stuck_send : forall mp n s l wl c k e, reachable mp n s ->
  nth_error (ws s) l = Some wl -> pc wl = WLUnlock c k e -> k < lmerged c ->
  exists i, step mp s (AAck l i) <> None.
Proof. exact ack_has_receiver. Qed.
Print Assumptions C10_ack_no_stuck_send.

Theorem C10_reply_no_stuck_send : forall mp n s l wl c x, reachable mp n s ->
  nth_error (ws s) l = Some wl -> pc wl = WLReply c x ->
  exists i, step mp s (AReplyTrue l i) <> None.
Proof. exact reply_has_receiver. Qed.
Print Assumptions C10_reply_no_stuck_send.

Theorem C10_ack_count_finished : forall mp n s g, reachable mp n s -> In g (glog s) ->
  g_acks g = g_merged g /\ length (g_replied g) = g_merged g.
Proof. exact ack_count_finished. Qed.
Print Assumptions C10_ack_count_finished.

(* 4. no_lost_writer (deadlock freedom): in every reachable state in which some call is in
      progress an action other than the arrival of a new call is enabled, provided no
      OpenTransaction has returned an error while holding the lock (tleak = 0). *)
Theorem C10_no_lost_writer : forall mp n s, reachable mp n s -> tleak s = 0 ->
  (exists i w, nth_error (ws s) i = Some w /\ pending w = true) ->
  exists a, arrival a = false /\ step mp s a <> None.
Proof. exact no_lost_writer. Qed.
Print Assumptions C10_no_lost_writer.

(*    The exclusion is necessary: the code's OpenTransaction error paths keep the lock (DESIGN.md
      §2.3, C09 family), and then a writer is stranded with nothing but new arrivals enabled. *)
Theorem C10_no_lost_writer_refuted_with_txn_leak : forall mp,
  exists l s, run mp (init 1) l = Some s /\ tleak s = 1 /\
    (exists w, nth_error (ws s) 0 = Some w /\ pending w = true) /\
    forall a, arrival a = false -> step mp s a = None.
Proof. exact txn_leak_deadlock. Qed.
Print Assumptions C10_no_lost_writer_refuted_with_txn_leak.

(*    Progress measure: every move of a writer strictly decreases mu (<= 30 per writer), the moves
      of the other processes leave it unchanged. *)
Theorem C10_progress_measure : forall mp s a s', step mp s a = Some s' ->
  (writer_action a = true -> mu s' < mu s) /\ (writer_action a = false -> mu s' = mu s).
Proof. exact progress_measure. Qed.
Print Assumptions C10_progress_measure.

(* 5. group_atomic: every journal record written (or attempted) by a leader is the leader's batch
      followed by exactly the batches of the writers that received `true` from it — the reply channel
      does not name its receiver, so this needs: the writer that takes the `true` IS the requester whose
      batch was just appended; and the sequence number is published once per journalled group, in
      journal order, with at most one group journalled-but-unpublished at any time. *)
Theorem C10_group_atomic_journal : forall mp n s r, reachable mp n s -> In r (jlog s) ->
  j_batches r = j_leader r :: j_replied r.
Proof. exact journal_composition. Qed.
Print Assumptions C10_group_atomic_journal.

Theorem C10_group_atomic_reply : forall mp n s l wl c x i s', reachable mp n s ->
  nth_error (ws s) l = Some wl -> pc wl = WLReply c x -> step mp s (AReplyTrue l i) = Some s' -> i = x.
Proof. exact reply_goes_to_requester. Qed.
Print Assumptions C10_group_atomic_reply.

Theorem C10_group_atomic_publish : forall mp n s, reachable mp n s ->
  ok_leaders (jlog s) = plog s ++ pend_from 0 (ws s) /\ length (pend_from 0 (ws s)) <= 1.
Proof. exact publish_once. Qed.
Print Assumptions C10_group_atomic_publish.

(* 6. exactly_one_result: no call is answered twice; a call has a logged result iff it has returned,
      and that is the result it returned (so when the run is over — quiescent — every started call has
      exactly one); a writer that was told `true` by leader l returns the result of l's group; the
      leader returns it too; and that result is unique. *)
Theorem C10_exactly_one_result : forall mp n s i w, reachable mp n s -> nth_error (ws s) i = Some w ->
  cnt i (rlog s) <= 1 /\
  (cnt i (rlog s) = 1 <-> exists e, pc w = WDone e) /\
  (forall e, In (i, e) (rlog s) -> pc w = WDone e).
Proof. exact one_result. Qed.
Print Assumptions C10_exactly_one_result.

Theorem C10_merged_result_is_groups : forall mp n s i w l e, reachable mp n s ->
  nth_error (ws s) i = Some w -> wgroup w = Some l -> (pc w = WRet e \/ pc w = WDone e) ->
  group_res (ws s) (glog s) l e.
Proof. exact merged_result_is_groups. Qed.
Print Assumptions C10_merged_result_is_groups.

Theorem C10_leader_result_is_groups : forall mp n s g, reachable mp n s -> In g (glog s) ->
  exists wl, nth_error (ws s) (g_leader g) = Some wl /\ (pc wl = WRet (g_res g) \/ pc wl = WDone (g_res g)).
Proof. exact leader_result_is_groups. Qed.
Print Assumptions C10_leader_result_is_groups.

Theorem C10_group_result_unique : forall mp n s l e e', reachable mp n s ->
  group_res (ws s) (glog s) l e -> group_res (ws s) (glog s) l e' -> e = e'.
Proof. exact group_res_unique. Qed.
Print Assumptions C10_group_result_unique.

(* 7. trace inclusion: a trace accepted by the correspondence evaluator is the visible part of a
      run of this system that ends in a state where every call has returned. *)
Theorem C10_accepted_trace_is_a_run : forall n evs files complete,
  run_case (CTrace n evs files complete) = true -> exists s, reachable wmp n s /\ quiescent s = true.
Proof. exact run_case_sound. Qed.
Print Assumptions C10_accepted_trace_is_a_run.

(* Non-vacuity: three writers; writer 0 leads, merges writer 1 (told true), writer 2 is too large
   (overflow) and is handed the lock, then leads its own group and releases. *)
Definition demo_actions : list action :=
  [ACall 0 true false 100; ACall 1 true true 50; ACall 2 true false 200000;
   ASelLock 0; AFlushOk 0 4000000;
   ASelMerge 1 0; AReplyTrue 0 1; ASelMerge 2 0;
   AJournalOk 0; AApply 0; APublish 0; ARotateSkip 0;
   AAck 0 1; AHandover 0 2; AReturn 0; AReturn 1;
   AFlushOk 2 4000000; AMergeDone 2; AJournalOk 2; AApply 2; APublish 2; ARotateSkip 2;
   ARelease 2; AReturn 2]%N.

Example C10_nonvacuous_actions :
  accepts wmp demo_actions = true /\
  match run wmp (init 3) demo_actions with
  | Some s => map (fun r => (j_leader r, j_batches r)) (jlog s) = [(0, [0; 1]); (2, [2])] /\
              map g_handed (glog s) = [Some 2; None] /\ lock s = false /\ quiescent s = true
  | None => False
  end.
Proof. vm_compute. repeat split; reflexivity. Qed.

Definition demo_events : list event :=
  [ECall 0 true false 100; ECall 1 true true 50; ECall 2 true false 200000;
   ESelLock 0; EFlushOk 0 4000000;
   EMergeRecv 0 1; EMergeTrue 0 1; ESelMerged 1; EMergeRecv 0 2; EMergeOverflow 0 2;
   EJournalOk 0 1; EApplied 0; EPublish 0 2;
   EUnlock 1 true ROk; EAckSend 0 ROk; EAckSent 0; EHandover; EHandoverDone; ERet 0 ROk; ESelHanded 2; ERet 1 ROk;
   EFlushOk 2 4000000; EJournalOk 2 3; EApplied 2; EPublish 2 3; EUnlock 0 false ROk; ERelease; ERet 2 ROk;
   ECloseCall; ECloseRet]%N.

Example C10_nonvacuous_trace :
  run_case (CTrace 3 demo_events [(1%N, [0; 1]); (3%N, [2])] true) = true /\
  run_case (CTrace 3 demo_events [(1%N, [0]); (3%N, [2])] true) = false.
Proof. vm_compute. split; reflexivity. Qed.

(* A finding the model makes visible (it concerns Close, i.e. property C09, not the writers — they
   still return ErrClosed): SetReadOnly takes the lock, Close closes closeC, compactionError is
   still in its no-error loop and simply returns, SetReadOnly's second select takes the closeC
   branch — and nobody is left to release the lock, so Close's own acquisition never becomes
   enabled.  Reproduced on the real DB (SetReadOnly racing Close: Close hangs in ~1 of 600 tries). *)
Example C10_close_stranded_by_setreadonly :
  match run wmp (init 0) [AROAcquire; ACloseCall; ACloseSignal; AHExit; AROAbort] with
  | Some s => lock s = true /\ cwl s = true /\ hpc s = HExit /\ ropend s = 0 /\ step wmp s ACloseLock = None
  | None => False
  end.
Proof. vm_compute. repeat split; reflexivity. Qed.
