(* Props/C10.v — property C10: writer serialisation and merge protocol loses or duplicates no
   writer.  Property theorems only; each is closed by [exact lemma] and followed by Print
   Assumptions.  The system is Conc/WriteMerge.v (any number n of writers, any merge-limit
   constants mp, unboundedly many competing Close / transaction / CompactRange / SetReadOnly /
   persistent-error-handler moves); [reachable mp n s] = s is reached from [init n] by some action
   sequence, so every statement below quantifies over all interleavings. *)
From Coq Require Import List NArith Bool Arith.
From GL Require Import Conc.WriteMerge Conc.WriteMergeProofs Gen.InstC10 Corr.C10Run Conc.WriteMergeTrace.
From GL Require Import Conc.WriteMergeData Corr.C10DataRun.
Import ListNotations.

(* 1. mutex: at most one process is between lock acquisition and release / hand-over — counting
      writers (leaders), CompactRange, OpenTransaction .. setDone, leaked transactions, Close and
      the lock held for the persistent-error handler; and the lock channel is full iff there is one. *)
Theorem C10_mutex : forall mp n s, reachable mp n s ->
  owners s <= 1 /\ (lock s = true -> owners s = 1) /\ (lock s = false -> owners s = 0).
Proof. exact mutex_owners. Qed.
Print Assumptions C10_mutex.

Theorem C10_mutex_writers : forall mp n s i j wi wj, reachable mp n s ->
  nth_error (ws s) i = Some wi -> nth_error (ws s) j = Some wj -> holds wi = 1 -> holds wj = 1 -> i = j.
Proof. exact mutex_writers. Qed.
Print Assumptions C10_mutex_writers.

(* 2. handover_unique: when a leader has sent its acknowledgements, exactly one of the two endings
      is possible — overflow: the release is impossible, exactly one writer waits for the reply and
      the hand-over to it is enabled; no overflow: the release is enabled, nobody waits for a reply,
      no hand-over is possible.  After a hand-over the lock is still taken and its one and only
      owner is the receiver; after a release nobody owns it. *)
Theorem C10_handover_unique : forall mp n s l wl c k e, reachable mp n s ->
  nth_error (ws s) l = Some wl -> pc wl = WLUnlock c k e -> lmerged c <= k ->
  sumf waitack (ws s) = 0 /\
  match lover c with
  | Some _ => step mp s (ARelease l) = None /\ sumf mwait (ws s) = 1 /\ exists o, step mp s (AHandover l o) <> None
  | None => step mp s (ARelease l) <> None /\ sumf mwait (ws s) = 0 /\ forall o, step mp s (AHandover l o) = None
  end.
Proof. exact unlock_end. Qed.
Print Assumptions C10_handover_unique.

Theorem C10_handover_step : forall mp n s l o s', reachable mp n s -> step mp s (AHandover l o) = Some s' ->
  lock s' = true /\ owners s' = 1 /\
  (exists wo, nth_error (ws s') o = Some wo /\ pc wo = WLFlush) /\
  (forall j w, j <> o -> nth_error (ws s') j = Some w -> holds w = 0) /\
  sumf mwait (ws s) = 1.
Proof. exact handover_step. Qed.
Print Assumptions C10_handover_step.

Theorem C10_release_step : forall mp n s l s', reachable mp n s -> step mp s (ARelease l) = Some s' ->
  lock s' = false /\ owners s' = 0 /\ sumf mwait (ws s) = 0.
Proof. exact release_step. Qed.
Print Assumptions C10_release_step.

(* 3. ack_count: while a leader is in unlockWrite with loop counter k, exactly merged - k writers
      wait for an acknowledgement (so each of the remaining sends has a receiver and nobody else
      waits); every send that is due is enabled; a finished unlockWrite has sent exactly `merged`
      acknowledgements, as many as it sent `true` replies.  Close, the handler and the other lock
      takers are part of the system, so this includes their interference. *)
Theorem C10_ack_count : forall mp n s l wl c k e, reachable mp n s ->
  nth_error (ws s) l = Some wl -> pc wl = WLUnlock c k e ->
  sumf waitack (ws s) = lmerged c - k /\ k <= lmerged c.
Proof. exact ack_receivers. Qed.
Print Assumptions C10_ack_count.

Theorem C10_ack_no_stuck_send : forall mp n s l wl c k e, reachable mp n s ->
  nth_error (ws s) l = Some wl -> pc wl = WLUnlock c k e -> k < lmerged c ->
  exists i, step mp s (AAck l i) <> None.
Proof. exact ack_has_receiver. Qed.
Print Assumptions C10_ack_no_stuck_send.

Theorem C10_reply_no_stuck_send : forall mp n s l wl c x, reachable mp n s ->
  nth_error (ws s) l = Some wl -> pc wl = WLReply c x ->
  exists i, step mp s (AReplyTrue l i) <> None.
Proof. exact reply_has_receiver. Qed.
Print Assumptions C10_reply_no_stuck_send.

Theorem C10_ack_count_finished : forall mp n s g, reachable mp n s -> In g (glog s) ->
  g_acks g = g_merged g /\ length (g_replied g) = g_merged g.
Proof. exact ack_count_finished. Qed.
Print Assumptions C10_ack_count_finished.

(* 4. no_lost_writer (deadlock freedom): in every reachable state in which some call is in
      progress an action other than the arrival of a new call is enabled, provided no
      OpenTransaction has returned an error while holding the lock (tleak = 0). *)
Theorem C10_no_lost_writer : forall mp n s, reachable mp n s -> tleak s = 0 ->
  (exists i w, nth_error (ws s) i = Some w /\ pending w = true) ->
  exists a, arrival a = false /\ step mp s a <> None.
Proof. exact no_lost_writer. Qed.
Print Assumptions C10_no_lost_writer.

(*    The exclusion is necessary: the code's OpenTransaction error paths keep the lock (DESIGN.md
      §2.3, C09 family), and then a writer is stranded with nothing but new arrivals enabled. *)
Theorem C10_no_lost_writer_refuted_with_txn_leak : forall mp,
  exists l s, run mp (init 1) l = Some s /\ tleak s = 1 /\
    (exists w, nth_error (ws s) 0 = Some w /\ pending w = true) /\
    forall a, arrival a = false -> step mp s a = None.
Proof. exact txn_leak_deadlock. Qed.
Print Assumptions C10_no_lost_writer_refuted_with_txn_leak.

(*    Progress measure: every move of a writer strictly decreases mu (<= 30 per writer), the moves
      of the other processes leave it unchanged. *)
Theorem C10_progress_measure : forall mp s a s', step mp s a = Some s' ->
  (writer_action a = true -> mu s' < mu s) /\ (writer_action a = false -> mu s' = mu s).
Proof. exact progress_measure. Qed.
Print Assumptions C10_progress_measure.

(* 5. group_atomic: every journal record written (or attempted) by a leader is the leader's batch
      followed by exactly the batches of the writers that received `true` from it — the reply channel
      does not name its receiver, so this needs: the writer that takes the `true` IS the requester whose
      batch was just appended; and the sequence number is published once per journalled group, in
      journal order, with at most one group journalled-but-unpublished at any time. *)
Theorem C10_group_atomic_journal : forall mp n s r, reachable mp n s -> In r (jlog s) ->
  j_batches r = j_leader r :: j_replied r.
Proof. exact journal_composition. Qed.
Print Assumptions C10_group_atomic_journal.

Theorem C10_group_atomic_reply : forall mp n s l wl c x i s', reachable mp n s ->
  nth_error (ws s) l = Some wl -> pc wl = WLReply c x -> step mp s (AReplyTrue l i) = Some s' -> i = x.
Proof. exact reply_goes_to_requester. Qed.
Print Assumptions C10_group_atomic_reply.

Theorem C10_group_atomic_publish : forall mp n s, reachable mp n s ->
  ok_leaders (jlog s) = plog s ++ pend_from 0 (ws s) /\ length (pend_from 0 (ws s)) <= 1.
Proof. exact publish_once. Qed.
Print Assumptions C10_group_atomic_publish.

(* 6. exactly_one_result: no call is answered twice; a call has a logged result iff it has returned,
      and that is the result it returned (so when the run is over — quiescent — every started call has
      exactly one); a writer that was told `true` by leader l returns the result of l's group; the
      leader returns it too; and that result is unique. *)
Theorem C10_exactly_one_result : forall mp n s i w, reachable mp n s -> nth_error (ws s) i = Some w ->
  cnt i (rlog s) <= 1 /\
  (cnt i (rlog s) = 1 <-> exists e, pc w = WDone e) /\
  (forall e, In (i, e) (rlog s) -> pc w = WDone e).
Proof. exact one_result. Qed.
Print Assumptions C10_exactly_one_result.

Theorem C10_merged_result_is_groups : forall mp n s i w l e, reachable mp n s ->
  nth_error (ws s) i = Some w -> wgroup w = Some l -> (pc w = WRet e \/ pc w = WDone e) ->
  group_res (ws s) (glog s) l e.
Proof. exact merged_result_is_groups. Qed.
Print Assumptions C10_merged_result_is_groups.

Theorem C10_leader_result_is_groups : forall mp n s g, reachable mp n s -> In g (glog s) ->
  exists wl, nth_error (ws s) (g_leader g) = Some wl /\ (pc wl = WRet (g_res g) \/ pc wl = WDone (g_res g)).
Proof. exact leader_result_is_groups. Qed.
Print Assumptions C10_leader_result_is_groups.

Theorem C10_group_result_unique : forall mp n s l e e', reachable mp n s ->
  group_res (ws s) (glog s) l e -> group_res (ws s) (glog s) l e' -> e = e'.
Proof. exact group_res_unique. Qed.
Print Assumptions C10_group_result_unique.

(* 7. trace inclusion: a trace accepted by the correspondence evaluator is the visible part of a
      run of this system that ends in a state where every call has returned. *)
Theorem C10_accepted_trace_is_a_run : forall n evs files complete,
  run_case (CTrace n evs files complete) = true -> exists s, reachable wmp n s /\ quiescent s = true.
Proof. exact run_case_sound. Qed.
Print Assumptions C10_accepted_trace_is_a_run.

(* Non-vacuity: three writers; writer 0 leads, merges writer 1 (told true), writer 2 is too large
   (overflow) and is handed the lock, then leads its own group and releases. *)
Definition demo_actions : list action :=
  [ACall 0 true false 100; ACall 1 true true 50; ACall 2 true false 200000;
   ASelLock 0; AFlushOk 0 4000000;
   ASelMerge 1 0; AReplyTrue 0 1; ASelMerge 2 0;
   AJournalOk 0; AApply 0; APublish 0; ARotateSkip 0;
   AAck 0 1; AHandover 0 2; AReturn 0; AReturn 1;
   AFlushOk 2 4000000; AMergeDone 2; AJournalOk 2; AApply 2; APublish 2; ARotateSkip 2;
   ARelease 2; AReturn 2]%N.

Example C10_nonvacuous_actions :
  accepts wmp demo_actions = true /\
  match run wmp (init 3) demo_actions with
  | Some s => map (fun r => (j_leader r, j_batches r)) (jlog s) = [(0, [0; 1]); (2, [2])] /\
              map g_handed (glog s) = [Some 2; None] /\ lock s = false /\ quiescent s = true
  | None => False
  end.
Proof. vm_compute. repeat split; reflexivity. Qed.

Definition demo_events : list event :=
  [ECall 0 true false 100; ECall 1 true true 50; ECall 2 true false 200000;
   ESelLock 0; EFlushOk 0 4000000;
   EMergeRecv 0 1; EMergeTrue 0 1; ESelMerged 1; EMergeRecv 0 2; EMergeOverflow 0 2;
   EJournalOk 0 1; EApplied 0; EPublish 0 2;
   EUnlock 1 true ROk; EAckSend 0 ROk; EAckSent 0; EHandover; EHandoverDone; ERet 0 ROk; ESelHanded 2; ERet 1 ROk;
   EFlushOk 2 4000000; EJournalOk 2 3; EApplied 2; EPublish 2 3; EUnlock 0 false ROk; ERelease; ERet 2 ROk;
   ECloseCall; ECloseRet]%N.

Example C10_nonvacuous_trace :
  run_case (CTrace 3 demo_events [(1%N, [0; 1]); (3%N, [2])] true) = true /\
  run_case (CTrace 3 demo_events [(1%N, [0]); (3%N, [2])] true) = false.
Proof. vm_compute. split; reflexivity. Qed.

(* A finding the model makes visible (it concerns Close, i.e. property C09, not the writers — they
   still return ErrClosed): SetReadOnly takes the lock, Close closes closeC, compactionError is
   still in its no-error loop and simply returns, SetReadOnly's second select takes the closeC
   branch — and nobody is left to release the lock, so Close's own acquisition never becomes
   enabled.  Reproduced on the real DB (SetReadOnly racing Close: Close hangs in ~1 of 600 tries). *)
Example C10_close_stranded_by_setreadonly :
  match run wmp (init 0) [AROAcquire; ACloseCall; ACloseSignal; AHExit; AROAbort] with
  | Some s => lock s = true /\ cwl s = true /\ hpc s = HExit /\ ropend s = 0 /\ step wmp s ACloseLock = None
  | None => False
  end.
Proof. vm_compute. repeat split; reflexivity. Qed.

(* ======================================================================================== *)
(* 8. THE DATA of the protocol (Conc/WriteMergeData.v, layered over the system above: every run of
      the data-carrying system projects to a run of the base system, so theorems 1-7 apply to it).
      Each request carries (writer id, kind Put/Delete/Write, number of records, internalLen,
      effective sync flag); the leader carries batches / ourBatch / sync / seq; the journal log is
      the list of writeJournal calls (ok?, seq, records in file order, sync argument); the memdb
      order is the list of putMem insertions.  All statements: the code as it is (v_real), any
      number of writers, any request table, any merge-limit constants, every reachable state. *)
From GL Require Import Conc.WriteMergeDataProofs Conc.WriteMergeDataTheorems.

Theorem C10_data_run_is_base_run : forall mp rq n q0 x,
  xreachable mp v_real rq n q0 x -> reachable mp n (xb x).
Proof. exact data_run_is_base_run. Qed.
Print Assumptions C10_data_run_is_base_run.

(* 8.1 the record written by a leader contains exactly its group: the k-th record of the data log
       belongs to the k-th writeJournal call of the base log, whose batches are the group in MERGE
       order (leader :: the writers told `true`, theorem 5).  The record is a permutation of the
       group without repetition, the leader's records come first, Write(batch) members keep their
       merge order and so do Put/Delete members (regrouped into ourBatch as the code does — the
       code's comment: "concurrent write doesn't guarantee write order"), and every member
       contributes as many records as its request has. *)
Theorem C10_group_record_is_group : forall mp rq n q0 x, xreachable mp v_real rq n q0 x ->
  Forall2 (record_of_group rq) (djl (xd x)) (jlog (xb x)).
Proof. exact group_record_is_group. Qed.
Print Assumptions C10_group_record_is_group.

(*     across the run: no request is in two records nor twice in one (failed writes included) ... *)
Theorem C10_no_request_journalled_twice : forall mp rq n q0 x, xreachable mp v_real rq n q0 x ->
  NoDup (concat (map rec_ids (djl (xd x)))).
Proof. exact no_request_journalled_twice. Qed.
Print Assumptions C10_no_request_journalled_twice.

Theorem C10_request_in_one_record : forall mp rq n q0 x i k1 k2 r1 r2, xreachable mp v_real rq n q0 x ->
  nth_error (djl (xd x)) k1 = Some r1 -> nth_error (djl (xd x)) k2 = Some r2 ->
  In i (rec_ids r1) -> In i (rec_ids r2) -> k1 = k2.
Proof. exact request_in_one_record. Qed.
Print Assumptions C10_request_in_one_record.

(*     ... and none is lost: whoever holds a nil result (received, or returned) is in a record whose
       write succeeded; being a statement about every reachable state it holds in the state where the
       result has just been received: the record was written before the result was sent. *)
Theorem C10_acked_request_is_journalled : forall mp rq n q0 x i w, xreachable mp v_real rq n q0 x ->
  nth_error (ws (xb x)) i = Some w -> (pc w = WRet ROk \/ pc w = WDone ROk) ->
  exists r, In r (djl (xd x)) /\ dr_ok r = true /\ In i (rec_ids r).
Proof. exact acked_request_is_journalled. Qed.
Print Assumptions C10_acked_request_is_journalled.

(* 8.2 writeJournal's sync argument is the OR of the members' flags ... *)
Theorem C10_group_sync_is_or : forall mp rq n q0 x r, xreachable mp v_real rq n q0 x -> In r (djl (xd x)) ->
  dr_sync r = existsb (fun i => rq_sync (rq i)) (rec_ids r).
Proof. exact group_sync_is_or. Qed.
Print Assumptions C10_group_sync_is_or.

(*     ... hence every writer that asked for Sync and got nil is in a SYNCED record (written and
       synced before its result was sent, as above) *)
Theorem C10_sync_ack_implies_synced : forall mp rq n q0 x i w, xreachable mp v_real rq n q0 x ->
  nth_error (ws (xb x)) i = Some w -> (pc w = WRet ROk \/ pc w = WDone ROk) -> rq_sync (rq i) = true ->
  exists r, In r (djl (xd x)) /\ dr_ok r = true /\ In i (rec_ids r) /\ dr_sync r = true.
Proof. exact sync_ack_implies_synced. Qed.
Print Assumptions C10_sync_ack_implies_synced.

(* 8.3 sequence numbers: a reader of the journal numbers the records of a record consecutively from
       the header's seq, in record order (= merge order up to the ourBatch regrouping, 8.1); the
       putMem loop (per batch, seq += batch.Len()) assigns exactly these numbers; and the memdb is
       filled in journal order: its insertions are the numbering of the successfully written records,
       in order (all of them unless a leader is between writeJournal and its putMem loop). *)
Theorem C10_seq_order_is_merge_order : forall mp rq n q0 x, xreachable mp v_real rq n q0 x ->
  (forall r, In r (djl (xd x)) ->
     consecutive (dr_seq r) (rec_numbering r) /\ map (fun t => fst (fst t)) (rec_numbering r) = rec_ids r) /\
  (forall q bs, put_all q bs = put_batch q (concat bs)) /\
  (exists rest, dmem (xd x) ++ rest = numbering_all (djl (xd x))) /\
  ((forall l wl, nth_error (ws (xb x)) l = Some wl -> isapply (pc wl) = false) ->
   dmem (xd x) = numbering_all (djl (xd x))).
Proof. exact seq_order_is_merge_order. Qed.
Print Assumptions C10_seq_order_is_merge_order.

(*     the sequence ranges [seq, seq + count) of the records increase along the log — records of FAILED
       writes included (the repaired code consumes their numbers), transactions' commits in between
       included: no record ever reuses a number of an earlier one *)
Theorem C10_seq_ranges_disjoint : forall mp rq n q0 x k1 k2 r1 r2, xreachable mp v_real rq n q0 x -> k1 < k2 ->
  nth_error (djl (xd x)) k1 = Some r1 -> nth_error (djl (xd x)) k2 = Some r2 ->
  (dr_seq r1 + rec_count r1 <= dr_seq r2)%N.
Proof. exact seq_ranges_disjoint. Qed.
Print Assumptions C10_seq_ranges_disjoint.

(* 8.4 the merge limit: while a leader carries its group, the internalLen of the merged requests (the
       members after the leader, in merge order) plus the remaining mergeLimit is the initial limit
       min(128 KiB | 1 MiB - own, mdbFree - own); so the merged bytes never exceed the memdb's free
       space left by the leader's own batch, nor 128 KiB (small leader), and leader + merged never
       exceed 1 MiB (large leader, unless it is larger by itself) *)
Theorem C10_merge_respects_limit : forall mp rq n q0 x l wl c, xreachable mp v_real rq n q0 x ->
  nth_error (ws (xb x)) l = Some wl -> gpc_of (pc wl) = Some c ->
  let g := getg (xd x) l in
  lbatches c = l :: map fst (gx_merged g) /\
  (sum_sizes (gx_merged g) + llim c = merge_limit mp (wsize wl) (lfree c))%N /\
  (sum_sizes (gx_merged g) <= lfree c - wsize wl)%N /\
  ((mergeThreshold mp <? wsize wl)%N = false -> (sum_sizes (gx_merged g) <= mergeSmallLimit mp)%N) /\
  ((mergeThreshold mp <? wsize wl)%N = true -> (wsize wl + sum_sizes (gx_merged g) <= N.max (wsize wl) (mergeBigLimit mp))%N).
Proof. exact merge_respects_limit. Qed.
Print Assumptions C10_merge_respects_limit.

(*     a request is merged iff it fits the remaining limit; the one that does not fit stops the loop as
       `overflow` and — not dropped — is the one and only writer the lock is handed to *)
Theorem C10_merge_decision : forall c x sz b,
  ((llim c <? sz)%N = true -> exists c', merge_decide c x sz b = WLJournal c' /\ lover c' = Some x /\ lbatches c' = lbatches c) /\
  ((llim c <? sz)%N = false -> exists c', merge_decide c x sz b = WLReply c' x /\ lbatches c' = lbatches c ++ [x] /\
                                           llim c' = (llim c - sz)%N).
Proof. exact merge_decision. Qed.
Print Assumptions C10_merge_decision.

Theorem C10_overflow_writer_gets_the_lock : forall mp rq n q0 x l wl c k e o o' s', xreachable mp v_real rq n q0 x ->
  nth_error (ws (xb x)) l = Some wl -> pc wl = WLUnlock c k e -> lover c = Some o' ->
  step mp (xb x) (AHandover l o) = Some s' -> o = o'.
Proof. exact overflow_writer_gets_the_lock. Qed.
Print Assumptions C10_overflow_writer_gets_the_lock.

(* 8.5 a failing journal write: the step inserts nothing, logs the record as failed, goes to
       unlockWrite(.., err) with that error (so every member gets it: C10_merged_result_is_groups) and
       consumes the sequence numbers of the whole group ("fix: consume the sequence numbers of a batch
       whose journal write failed"); afterwards no member of the failed record ever holds nil and none of
       its records is ever inserted into the memdb *)
Theorem C10_journal_failure_step : forall mp rq x l e x', xstep mp v_real rq x (XA (AJournalFail l e)) = Some x' ->
  let g := getg (xd x) l in
  dmem (xd x') = dmem (xd x) /\
  dseq (xd x') = (dseq (xd x) + batches_len (gx_batches g))%N /\
  exists r, djl (xd x') = djl (xd x) ++ [r] /\ dr_ok r = false /\ dr_leader r = l /\
            dr_seq r = (dseq (xd x) + 1)%N /\ rec_count r = batches_len (gx_batches g) /\
            exists c, (exists wl, nth_error (ws (xb x)) l = Some wl /\ pc wl = WLJournal c) /\
                      (exists wl', nth_error (ws (xb x')) l = Some wl' /\ pc wl' = WLUnlock c 0 e) /\ e <> ROk.
Proof. exact journal_failure_step. Qed.
Print Assumptions C10_journal_failure_step.

Theorem C10_failed_group_not_acked : forall mp rq n q0 x r i w, xreachable mp v_real rq n q0 x ->
  In r (djl (xd x)) -> dr_ok r = false -> In i (rec_ids r) -> nth_error (ws (xb x)) i = Some w ->
  pc w <> WRet ROk /\ pc w <> WDone ROk.
Proof. exact failed_group_not_acked. Qed.
Print Assumptions C10_failed_group_not_acked.

Theorem C10_failed_group_not_inserted : forall mp rq n q0 x r i, xreachable mp v_real rq n q0 x ->
  In r (djl (xd x)) -> dr_ok r = false -> In i (rec_ids r) ->
  ~ In i (map (fun t => fst (fst t)) (dmem (xd x))).
Proof. exact failed_group_not_inserted. Qed.
Print Assumptions C10_failed_group_not_inserted.

(* 8.6 the seeded change C04_r2 as a model variant: `sync = sync || incoming.sync` taken only in the
       "merge batch" branch.  Witness: writer 0 (Put, no sync) leads and merges writer 1 (Put, Sync);
       both return nil, the one record holds both and was written with sync = false — the statement
       C10_sync_ack_implies_synced is false for that variant (the same run of the real code syncs). *)
Definition v_seeded_C04_r2 : dvariant := {| v_sync_put := false; v_consume := true |}.
Definition rq_sync_demo : reqtab := fun i => RQ KPut 1 (Nat.eqb i 1).
Definition sync_demo_run : list xaction := map XA
  [ACall 0 true true 30; ACall 1 true true 30; ASelLock 0; AFlushOk 0 4000;
   ASelMerge 1 0; AReplyTrue 0 1; AMergeDone 0; AJournalOk 0; AApply 0; APublish 0; ARotateSkip 0;
   AAck 0 1; ARelease 0; AReturn 0; AReturn 1]%N.

Theorem C10_merged_put_loses_sync_refuted :
  exists x, xrun wmp v_seeded_C04_r2 rq_sync_demo (xinit 2 0) sync_demo_run = Some x /\
    (exists w, nth_error (ws (xb x)) 1 = Some w /\ pc w = WDone ROk) /\ rq_sync (rq_sync_demo 1) = true /\
    (exists r, djl (xd x) = [r] /\ rec_ids r = [0; 1] /\ dr_ok r = true /\ dr_sync r = false) /\
  exists x', xrun wmp v_real rq_sync_demo (xinit 2 0) sync_demo_run = Some x' /\
    (exists r, djl (xd x') = [r] /\ rec_ids r = [0; 1] /\ dr_sync r = true).
Proof. vm_compute. eexists. split; [reflexivity|]. repeat split; eauto 10. Qed.
Print Assumptions C10_merged_put_loses_sync_refuted.

(*     and the pre-repair behaviour (a failed journal write does not consume its sequence numbers) as a
       variant: the failed record — which may have reached the file, e.g. when only Sync failed — and
       the next, acknowledged one carry the same sequence number; C10_seq_ranges_disjoint is false there *)
Definition v_no_consume : dvariant := {| v_sync_put := true; v_consume := false |}.
Definition reuse_demo_run : list xaction := map XA
  [ACall 0 true true 30; ACall 1 true true 30; ASelLock 0; AFlushOk 0 4000; AMergeDone 0; AJournalFail 0 ROther;
   ARelease 0; AReturn 0; ASelLock 1; AFlushOk 1 4000; AMergeDone 1; AJournalOk 1]%N.

Theorem C10_failed_write_reuses_seq_refuted :
  exists x r1 r2, xrun wmp v_no_consume rq_sync_demo (xinit 2 0) reuse_demo_run = Some x /\
    djl (xd x) = [r1; r2] /\ dr_ok r1 = false /\ dr_ok r2 = true /\ dr_seq r1 = dr_seq r2 /\
  exists x' r1' r2', xrun wmp v_real rq_sync_demo (xinit 2 0) reuse_demo_run = Some x' /\
    djl (xd x') = [r1'; r2'] /\ dr_seq r1' = 1%N /\ dr_seq r2' = 2%N.
Proof. vm_compute. do 3 eexists. split; [reflexivity|]. repeat split. do 3 eexists. repeat split. Qed.
Print Assumptions C10_failed_write_reuses_seq_refuted.

(* Non-vacuity of section 8: five writers; writer 0 (Write, 3 records) leads and merges Put 1 (Sync),
   Write 2 (2 records) and Delete 3; Write 4 does not fit (overflow) and is handed the lock.  The one
   record of the first group holds 0, 1, 3, 2 in that order (the Delete joins the Put in ourBatch, which
   was created before batch 2 was appended), is synced (writer 1 asked), numbers 1..7; the second
   record starts at 8; the memdb was filled in that order with those numbers. *)
Definition data_demo_reqs : list wreq :=
  [RQ KBatch 3 false; RQ KPut 1 true; RQ KBatch 2 false; RQ KDelete 1 false; RQ KBatch 1 false].
Definition data_demo_run : list xaction := map XA
  [ACall 0 true false 100; ACall 1 true true 50; ACall 2 true false 60; ACall 3 true true 18; ACall 4 true false 200000;
   ASelLock 0; AFlushOk 0 4000000;
   ASelMerge 1 0; AReplyTrue 0 1; ASelMerge 2 0; AReplyTrue 0 2; ASelMerge 3 0; AReplyTrue 0 3; ASelMerge 4 0;
   AJournalOk 0; AApply 0; APublish 0; ARotateSkip 0; AAck 0 1; AAck 0 2; AAck 0 3; AHandover 0 4;
   AReturn 0; AReturn 1; AReturn 2; AReturn 3;
   AFlushOk 4 4000000; AMergeDone 4; AJournalOk 4; AApply 4; APublish 4; ARotateSkip 4; ARelease 4; AReturn 4]%N.

Example C10_data_nonvacuous :
  match xrun wmp v_real (rq data_demo_reqs) (xinit 5 0) data_demo_run with
  | Some x =>
      map (fun r => (dr_ok r, dr_seq r, dr_segs r, dr_sync r)) (djl (xd x)) =
        [(true, 1, [SG 0 3; SG 1 1; SG 3 1; SG 2 2], true); (true, 8, [SG 4 1], false)]%N /\
      map j_batches (jlog (xb x)) = [[0; 1; 2; 3]; [4]] /\
      dmem (xd x) = [(0%nat, 1, 3); (1%nat, 4, 1); (3%nat, 5, 1); (2%nat, 6, 2); (4%nat, 8, 1)]%N /\
      dseq (xd x) = 8%N /\ quiescent (xb x) = true
  | None => False
  end.
Proof. vm_compute. repeat split; reflexivity. Qed.

(* 8.7 composition with the L2 persistence model (Store/Crash.v, property C04): read the journal log as a
       history of the store — a successful writeJournal = PWrite count sync, a failed one = PSkipSeq count,
       numbers consumed in between (transaction commits) = PSkipSeq gap.  Then a writer that asked for
       Sync and holds nil is recovered, with the sequence numbers it was given, from EVERY crash image
       after ANY later history of the store (writes, rotations, flushes, transactions, crashes, reopenings). *)
From GL Require Import Conc.WriteMergeDataCrash.
From GL Require Store.Crash.

Theorem C10_sync_ack_is_durable : forall mp rq n x i w, xreachable mp v_real rq n 0%N x ->
  nth_error (ws (xb x)) i = Some w -> (pc w = WRet ROk \/ pc w = WDone ROk) -> rq_sync (rq i) = true ->
  (1 <= req_nrec (rq i))%N ->
  exists r, In r (djl (xd x)) /\ In i (rec_ids r) /\
    forall more img, Crash.is_image (Crash.prun (pops_of 1%N (djl (xd x)) ++ more)) img ->
                     In (batch_of r) (Crash.recover img).
Proof. exact sync_ack_is_durable. Qed.
Print Assumptions C10_sync_ack_is_durable.

(* 8.8 trace inclusion with data: a case accepted by the data evaluator (Corr/C10DataRun.v) is the visible
       part of a run of the data-carrying system with the case's request table, ending with all calls
       returned, whose journal log matches the records read back from the journal files. *)
From GL Require Import Conc.WriteMergeDataTrace.

Theorem C10_accepted_data_trace_is_a_run : forall n q0 reqs evs files complete,
  run_dcase (CDTrace n q0 reqs evs files complete) = true ->
  exists x, xreachable wmp v_real (rq reqs) n q0 x /\ quiescent (xb x) = true /\
            files_ok complete (djl (xd x)) files = true.
Proof. exact run_dcase_sound. Qed.
Print Assumptions C10_accepted_data_trace_is_a_run.

(* Non-vacuity: the run of C10_data_nonvacuous as a recorded trace with the observed data; accepted.
   Refused: the same trace with writeJournal's observed sync argument false (seeded C04_r2), with the
   records of the merged batch before those of ourBatch in the file, with the second putMem call
   given the leader's sequence number, and with a merged request larger than what is left of the limit. *)
Definition data_demo_events (sy : bool) (q2 : N) (sz4 : N) : list devent :=
  [DE (ECall 0 true false 100); DE (ECall 1 true true 50); DE (ECall 2 true false 60); DE (ECall 3 true true 18);
   DE (ECall 4 true false sz4);
   DE (ESelLock 0); DE (EFlushOk 0 4000000);
   DE (EMergeRecv 0 1); DMergeInfo 0 1 KPut 50 true; DE (EMergeTrue 0 1); DE (ESelMerged 1);
   DE (EMergeRecv 0 2); DMergeInfo 0 2 KBatch 60 false; DE (EMergeTrue 0 2); DE (ESelMerged 2);
   DE (EMergeRecv 0 3); DMergeInfo 0 3 KDelete 18 false; DE (EMergeTrue 0 3); DE (ESelMerged 3);
   DE (EMergeRecv 0 4); DMergeInfo 0 4 KBatch sz4 false; DE (EMergeOverflow 0 4);
   DJournalArgs 0 3 7 228 1 sy; DE (EJournalOk 0 1);
   DPutMem 0 1 3; DPutMem 1 q2 2; DPutMem 2 6 2; DE (EApplied 0); DE (EPublish 0 7);
   DE (EUnlock 3 true ROk); DE (EAckSend 0 ROk); DE (EAckSent 0); DE (EAckSend 1 ROk); DE (EAckSent 1);
   DE (EAckSend 2 ROk); DE (EAckSent 2);
   DE EHandover; DE EHandoverDone; DE (ERet 0 ROk); DE (ESelHanded 4); DE (ERet 1 ROk); DE (ERet 2 ROk); DE (ERet 3 ROk);
   DE (EFlushOk 4 4000000); DJournalArgs 4 1 1 sz4 8 false; DE (EJournalOk 4 8); DPutMem 4 8 1; DE (EApplied 4);
   DE (EPublish 4 8); DE (EUnlock 0 false ROk); DE ERelease; DE (ERet 4 ROk); DE ECloseCall; DE ECloseRet]%N.

Example C10_data_trace_nonvacuous :
  let files := [FR 1 [SG 0 3; SG 1 1; SG 3 1; SG 2 2]; FR 8 [SG 4 1]]%N in
  run_dcase (CDTrace 5 0 data_demo_reqs (data_demo_events true 4 200000) files true) = true /\
  run_dcase (CDTrace 5 0 data_demo_reqs (data_demo_events false 4 200000) files true) = false /\
  run_dcase (CDTrace 5 0 data_demo_reqs (data_demo_events true 4 200000)
               [FR 1 [SG 0 3; SG 2 2; SG 1 1; SG 3 1]; FR 8 [SG 4 1]]%N true) = false /\
  run_dcase (CDTrace 5 0 data_demo_reqs (data_demo_events true 1 200000) files true) = false /\
  run_dcase (CDTrace 5 0 data_demo_reqs (data_demo_events true 4 100) files true) = false.
Proof. vm_compute. repeat split; reflexivity. Qed.
