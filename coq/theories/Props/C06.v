(* Props/C06.v — property C06: the live table set is always a well-formed LSM tree.
   Property theorems only.  The well-formedness conditions are a boolean (Compact.wf_versionb) that the
   correspondence check evaluates inside Coq on the versions the implementation installs; the theorems say
   what that boolean guarantees and that the tables a compaction writes are well-formed by construction.
   Second part (C06_inputs_closed ... C06_range_compaction_seed): the step theorems for the model Lsm/Pick.v of
   goleveldb's own construction — getOverlaps (both variants), newCompaction/expand, trivial(), pickMemdbLevel,
   versionStaging.finish — over every comparer, every well-formed version, every level and every seed.  The invariant
   is WfLsm.wf_lsm; its boolean form Pick.wf_lsmb = wf_versionb && wf_extrab is what the correspondence check evaluates
   on the versions the running code installs.
   NOT covered by a step theorem: records committed with finish(trivial=false) (transaction commit, recovery), which the
   model has but for which only the correspondence check (KFinish) and the oracle speak. *)
From GL Require Import Base.Order Codec.IKey Codec.BytesCmp Codec.BytesCmpProofs Lsm.Lsm Lsm.Compact Lsm.LsmProofs
  Lsm.CompactProofs Lsm.History Lsm.ReorgProofs Lsm.WfProofs Lsm.OutputProofs Lsm.Pick Lsm.PickBase Lsm.OverlapProofs
  Lsm.WfLsm Lsm.C06Steps Gen.ConstsOk.

(* The boolean check implies the invariant under which newest-first lookup is correct: every table sorted,
   level 0 without duplicate (key, seq), deeper levels ordered with pairwise disjoint user-key ranges, and for
   one user key every entry of a shallower level newer than every entry of a deeper one. *)
Theorem C06_wf_versionb_sound : forall c, comparer_ok c -> forall p lvls,
  wf_versionb c p lvls = true ->
  wf_state c p {| st_mem := []; st_frozen := []; st_aux := []; st_levels := lvls |}.
Proof. exact wf_versionb_sound. Qed.
Print Assumptions C06_wf_versionb_sound.

(* ... and those are the conditions under which the lookup is correct. *)
Theorem C06_wf_makes_lookup_correct : forall c, comparer_ok c -> forall p, kparams_ok p -> forall lvls k s,
  wf_versionb c p lvls = true ->
  let st := {| st_mem := []; st_frozen := []; st_aux := []; st_levels := lvls |} in
  lsm_get c p st k s = group_res p (newest c k s (all_entries st) None).
Proof. intros c ok p pok lvls k s H st. apply (get_correct c ok p pok). apply wf_versionb_sound; assumption. Qed.
Print Assumptions C06_wf_makes_lookup_correct.

(* The merged, filtered entry list a compaction writes is strictly ordered ... *)
Theorem C06_kept_sorted : forall c p minSeq base l, ssorted c l -> ssorted c (drop_run c p minSeq base None l).
Proof. intros c p minSeq base l. exact (drop_sorted c p minSeq base None l). Qed.
Print Assumptions C06_kept_sorted.

Theorem C06_merge_sorted : forall c, comparer_ok c -> forall p, kparams_ok p -> forall l,
  kinds_ok p l -> NoDup (map keyseq l) -> ssorted c (isort c l).
Proof. exact isort_sorted. Qed.
Print Assumptions C06_merge_sorted.

(* ... and cutting it only between different user keys yields tables that are each sorted, non-empty, and
   pairwise disjoint in user keys (no user key spans two files). *)
Theorem C06_outputs_well_formed_partial : forall c, comparer_ok c -> forall outs,
  cuts_ok c outs = true -> ssorted c (concat outs) ->
  Forall (fun es => ssorted c es /\ es <> []) outs /\ level_sorted c (mk_tables outs).
Proof. exact outputs_well_formed. Qed.
Print Assumptions C06_outputs_well_formed_partial.

Example C06_nonvacuous :
  wf_versionb bytewise kp
    [ [ {| t_num := 9; t_entries := [{| e_uk := [1]; e_seq := 12; e_kind := 1; e_val := [] |}] |};
        {| t_num := 8; t_entries := [{| e_uk := [1]; e_seq := 10; e_kind := 0; e_val := [] |}] |} ];
      [ {| t_num := 5; t_entries := [{| e_uk := [1]; e_seq := 5; e_kind := 1; e_val := [] |}] |};
        {| t_num := 6; t_entries := [{| e_uk := [3]; e_seq := 4; e_kind := 1; e_val := [] |}] |} ] ]%N = true
  /\ wf_versionb bytewise kp
    [ []; [ {| t_num := 5; t_entries := [{| e_uk := [3]; e_seq := 5; e_kind := 1; e_val := [] |}] |};
            {| t_num := 6; t_entries := [{| e_uk := [3]; e_seq := 4; e_kind := 1; e_val := [] |}] |} ] ]%N = false.
Proof. split; vm_compute; reflexivity. Qed.

(* ------------------------------------------------------------------------------------------------------------------
   The step theorems for goleveldb's own compaction construction (model Lsm/Pick.v).
   ------------------------------------------------------------------------------------------------------------------ *)

(* The boolean evaluated on observed versions implies the step invariant, and the step invariant implies the invariant
   of the read path (the Prop C06_wf_versionb_sound concludes). *)
Theorem C06_wf_lsmb_sound : forall c, comparer_ok c -> forall p v, wf_lsmb c p v = true -> wf_lsm c p v.
Proof. exact wf_lsmb_sound. Qed.
Print Assumptions C06_wf_lsmb_sound.

Theorem C06_wf_lsm_wf_state : forall c p v, wf_lsm c p v ->
  wf_state c p {| st_mem := []; st_frozen := []; st_aux := []; st_levels := v |}.
Proof. exact wf_lsm_wf_state. Qed.
Print Assumptions C06_wf_lsm_wf_state.

(* tFiles.getOverlaps on an ordered, disjoint level (the two binary searches) returns exactly the overlapping tables. *)
Theorem C06_getoverlaps_sorted_exact : forall c, comparer_ok c -> forall p tf,
  (forall t, In t tf -> tbl_ok c p t) -> bsorted c tf -> forall umin umax t,
  In t (get_overlaps_sorted c tf umin umax) <-> In t tf /\ t_overlaps c t umin umax = true.
Proof. exact get_overlaps_sorted_in. Qed.
Print Assumptions C06_getoverlaps_sorted_exact.

(* tFiles.getOverlaps on level 0 (restart-the-scan loop) terminates within its fuel and returns the tables overlapping a
   widened range none of which sticks out of that range. *)
Theorem C06_getoverlaps_level0 : forall c, comparer_ok c -> forall tf umin umax,
  exists d, get_overlaps c tf umin umax true = POk d /\ l0_result c tf umin umax d.
Proof. exact get_overlaps_l0_spec. Qed.
Print Assumptions C06_getoverlaps_level0.

(* The inputs newCompaction/expand choose are closed: they contain the seed; every table of level+1 overlapping the
   user-key range spanned by any two chosen source tables is an input; for source level 0 so is every level-0 table
   overlapping such a range.  (No panic, no fuel exhaustion: the result is POk.) *)
Theorem C06_inputs_closed : forall c, comparer_ok c -> forall p sz v lvl limit seed,
  wf_lsm c p v -> seed_ok v lvl seed ->
  exists cm, new_compaction c sz v lvl limit seed = POk cm /\
    c_level cm = lvl /\ incl seed (c_t0 cm) /\ incl (c_t0 cm) (lv v lvl) /\ incl (c_t1 cm) (lv v (S lvl)) /\
    (forall s ta tb, In s (lv v (S lvl)) -> In ta (c_t0 cm) -> In tb (c_t0 cm) ->
       t_overlaps c s (Some (umin_of ta)) (Some (umax_of tb)) = true -> In s (c_t1 cm)) /\
    (lvl = 0%nat -> forall s ta tb, In s (lv v 0) -> In ta (c_t0 cm) -> In tb (c_t0 cm) ->
       t_overlaps c s (Some (umin_of ta)) (Some (umax_of tb)) = true -> In s (c_t0 cm)).
Proof. exact inputs_closed. Qed.
Print Assumptions C06_inputs_closed.

(* Compaction step: for every level and every seed, installing (finish) the record of the model-built compaction —
   inputs deleted, outputs = chunks of the kept merged entries cut only between different user keys, under new file
   numbers — yields a well-formed version again. *)
Theorem C06_compaction_step : forall c, comparer_ok c -> forall p, kparams_ok p -> forall sz v lvl limit seed,
  wf_lsm c p v -> seed_ok v lvl seed ->
  exists cm, new_compaction c sz v lvl limit seed = POk cm /\
    forall minSeq deeper chunks nums, outputs_of c p cm minSeq deeper chunks ->
      length nums = length chunks -> fresh_nums v nums ->
      exists nv, finish c true v (compaction_edit cm (mk_outputs nums chunks)) = POk nv /\ wf_lsm c p nv.
Proof. exact compaction_step. Qed.
Print Assumptions C06_compaction_step.

(* ... also when level-0 tables (memdb flushes, transaction commits: newer than everything stored) were installed
   between picking and committing; v2 is the version at commit time. *)
Theorem C06_compaction_step_interleaved : forall c, comparer_ok c -> forall p, kparams_ok p -> forall sz v lvl limit seed,
  wf_lsm c p v -> seed_ok v lvl seed ->
  exists cm, new_compaction c sz v lvl limit seed = POk cm /\
    forall v2 minSeq deeper chunks nums, later_version c p v v2 -> outputs_of c p cm minSeq deeper chunks ->
      length nums = length chunks -> fresh_nums v2 nums ->
      exists nv, finish c true v2 (compaction_edit cm (mk_outputs nums chunks)) = POk nv /\ wf_lsm c p nv.
Proof. exact compaction_step_interleaved. Qed.
Print Assumptions C06_compaction_step_interleaved.

(* Trivial move: whenever compaction.trivial() holds, re-adding the single source table one level down keeps the
   invariant. *)
Theorem C06_trivial_move_step : forall c, comparer_ok c -> forall p sz v lvl limit seed,
  wf_lsm c p v -> seed_ok v lvl seed ->
  exists cm, new_compaction c sz v lvl limit seed = POk cm /\
    forall max_gp, trivial sz cm max_gp = true ->
      exists nv, finish c true v (move_edit cm) = POk nv /\ wf_lsm c p nv.
Proof. exact trivial_move_step. Qed.
Print Assumptions C06_trivial_move_step.

(* Flush step: the table placed at pickMemdbLevel keeps the invariant, including the cross-level clause (nothing above
   it shares a user key with it; everything below is older), for every maxLevel and every grandparent limit. *)
Theorem C06_flush_step : forall c, comparer_ok c -> forall p, kparams_ok p -> forall sz v gp_limit maxLevel t,
  wf_lsm c p v -> seqs_fit p v -> flushed_ok c p v t ->
  exists nv, finish c true v (flush_edit c p sz v gp_limit maxLevel t) = POk nv /\ wf_lsm c p nv.
Proof. exact flush_step. Qed.
Print Assumptions C06_flush_step.

(* The entry-level hypotheses of compaction_preserves / certificate_sound are discharged for model-built compactions:
   reads at every sequence number >= minSeq are preserved (M = the entries of the write buffers). *)
Theorem C06_model_compaction_admissible : forall c, comparer_ok c -> forall p, kparams_ok p -> forall sz v lvl limit seed,
  wf_lsm c p v -> seed_ok v lvl seed ->
  exists cm, new_compaction c sz v lvl limit seed = POk cm /\
    forall M minSeq, minSeq < keyMaxSeq p -> uniq_in M ->
      (forall m i x, In m M -> In x (LE (lv v i)) -> e_uk x = e_uk m -> e_seq x < e_seq m) ->
      let inputs := c_t0 cm ++ c_t1 cm in
      let others := M ++ LE (filter (fun t => negb (is_input (nums_of inputs) t)) (concat v)) in
      forall k s, minSeq <= s ->
        History.res p (newest c k s (compact_entries c p minSeq (skipn (lvl + 2) v) inputs ++ others) None) =
        History.res p (newest c k s (LE inputs ++ others) None).
Proof. exact model_compaction_admissible. Qed.
Print Assumptions C06_model_compaction_admissible.

(* Range compactions: getCompactionRange never panics and its seed (getOverlaps of the range, cut by the source limit)
   is a seed in the sense of the theorems above. *)
Theorem C06_range_compaction_seed : forall c, comparer_ok c -> forall p sz v lvl umin umax noLimit src_limit exp_limit,
  wf_lsm c p v ->
  exists r, compaction_range c sz v lvl umin umax noLimit src_limit exp_limit = POk r /\
    forall cm, r = Some cm -> exists seed, seed_ok v lvl seed /\ new_compaction c sz v lvl exp_limit seed = POk cm.
Proof. exact range_compaction_seed. Qed.
Print Assumptions C06_range_compaction_seed.

(* Non-vacuity: a three-level version satisfies the invariant; the model picks {9, 8} + {3, 4} from seed 9 (level-0
   closure), the compaction's single output installs into a well-formed version; a flushed table with fresh keys is
   placed at level 2 and the result is well-formed; a trivial move of table 5 to level 2 likewise. *)
Definition ex_e (k : N) (s : N) : entry := {| e_uk := [k]; e_seq := s; e_kind := 1; e_val := [] |}.
Definition ex_t (n : N) (es : list entry) : table := {| t_num := n; t_entries := es |}.
Definition ex_v : list (list table) :=
  [ [ ex_t 9 [ex_e 5 20; ex_e 7 19]; ex_t 8 [ex_e 1 18; ex_e 5 17] ];
    [ ex_t 3 [ex_e 0 5; ex_e 2 4]; ex_t 4 [ex_e 4 3; ex_e 6 2]; ex_t 5 [ex_e 8 1; ex_e 11 1] ] ]%N.

Example C06_step_nonvacuous :
  wf_lsmb bytewise kp ex_v = true /\
  seed_ok ex_v 0 [ex_t 9 [ex_e 5 20; ex_e 7 19]]%N /\
  (exists cm, new_compaction bytewise (fun _ => 100) ex_v 0 100000 [ex_t 9 [ex_e 5 20; ex_e 7 19]]%N = POk cm /\
     nums_of (c_t0 cm) = [9; 8]%N /\ nums_of (c_t1 cm) = [3; 4]%N /\
     let kept := compact_entries bytewise kp 0 (skipn 2 ex_v) (c_t0 cm ++ c_t1 cm) in
     cuts_ok bytewise [kept] = true /\
     match finish bytewise true ex_v (compaction_edit cm (mk_outputs [20%N] [kept])) with
     | POk nv => wf_lsmb bytewise kp nv = true /\ map nums_of nv = [[]; [20; 5]]%N
     | _ => False
     end) /\
  (let t := ex_t 30 [ex_e 20 40; ex_e 21 41]%N in
   flush_edit bytewise kp (fun _ => 100) ex_v (fun _ => 1000) 2 t = {| ed_del := []; ed_add := [(2%nat, t)] |} /\
   match finish bytewise true ex_v (flush_edit bytewise kp (fun _ => 100) ex_v (fun _ => 1000) 2 t) with
   | POk nv => wf_lsmb bytewise kp nv = true /\ map nums_of nv = [[9; 8]; [3; 4; 5]; [30]]%N
   | _ => False
   end) /\
  (exists cm, new_compaction bytewise (fun _ => 100) ex_v 1 100000 [ex_t 5 [ex_e 8 1; ex_e 11 1]]%N = POk cm /\
     trivial (fun _ => 100) cm 1000 = true /\
     match finish bytewise true ex_v (move_edit cm) with
     | POk nv => wf_lsmb bytewise kp nv = true /\ map nums_of nv = [[9; 8]; [3; 4]; [5]]%N
     | _ => False
     end).
Proof.
  split; [vm_compute; reflexivity|]. split.
  { split; [discriminate|]. split; [|repeat constructor; intros []].
    intros t [<-|[]]. left. reflexivity. }
  split; [eexists; split; [vm_compute; reflexivity|vm_compute; repeat split; reflexivity]|].
  split; [vm_compute; repeat split; reflexivity|].
  eexists. split; [vm_compute; reflexivity|vm_compute; repeat split; reflexivity].
Qed.

(* Why C06_compaction_step_interleaved requires the deeper levels to be unchanged between picking and committing: with
   memdbMaxLevel > 0 (a DB field marked "For testing"; the production value 0 flushes to level 0 only) a flush that
   commits while a table compaction is in flight can be placed by pickMemdbLevel INSIDE the user-key hull of that
   compaction's inputs, in the compaction's output level: pickMemdbLevel looks at the current tables only, the outputs do
   not exist yet.  Witness: level 1 = {1: keys 1..3, 2: keys 24..26}, a range compaction with both as seed (no level-2
   input; one output table spanning 1..26), meanwhile a flush of key 13 goes to level 2; committing the compaction then
   yields level 2 = {30: 13, 20: 1..26} — overlapping tables; a lookup of key 13 at level 2 consults table 20 only. *)
Definition ex_w : list (list table) :=
  [ []; [ ex_t 1 [ex_e 1 5; ex_e 3 4]; ex_t 2 [ex_e 24 3; ex_e 26 2] ] ]%N.

Example C06_deep_flush_during_compaction_refuted :
  wf_lsmb bytewise kp ex_w = true /\
  exists cm v2,
    new_compaction bytewise (fun _ => 100) ex_w 1 100000 (nth 1 ex_w []) = POk cm /\
    finish bytewise true ex_w (flush_edit bytewise kp (fun _ => 100) ex_w (fun _ => 1000) 2 (ex_t 30 [ex_e 13 40])) = POk v2 /\
    wf_lsmb bytewise kp v2 = true /\ map nums_of v2 = [[]; [1; 2]; [30]]%N /\
    let kept := compact_entries bytewise kp 0 [] (c_t0 cm ++ c_t1 cm) in
    cuts_ok bytewise [kept] = true /\
    match finish bytewise true v2 (compaction_edit cm (mk_outputs [20%N] [kept])) with
    | POk nv => map nums_of nv = [[]; []; [30; 20]]%N /\ wf_lsmb bytewise kp nv = false
    | _ => False
    end.
Proof.
  split; [vm_compute; reflexivity|]. eexists. eexists.
  split; [vm_compute; reflexivity|]. split; [vm_compute; reflexivity|].
  vm_compute. repeat split; reflexivity.
Qed.
