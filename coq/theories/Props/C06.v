(* Props/C06.v — property C06: the live table set is always a well-formed LSM tree.
   Property theorems only.  The well-formedness conditions are a boolean (Compact.wf_versionb) that the
   correspondence check evaluates inside Coq on the versions the implementation installs; the theorems say
   what that boolean guarantees and that the tables a compaction writes are well-formed by construction.
   PARTIAL: that the outputs fit between the surviving tables of the output level (wf_step for the code's own
   picker/expand/finish) is not proved; it is validated on every observed version by wf_versionb. *)
From GL Require Import Base.Order Codec.IKey Codec.BytesCmp Codec.BytesCmpProofs Lsm.Lsm Lsm.Compact Lsm.LsmProofs
  Lsm.CompactProofs Lsm.ReorgProofs Lsm.WfProofs Lsm.OutputProofs Gen.ConstsOk.

(* The boolean check implies the invariant under which newest-first lookup is correct: every table sorted,
   level 0 without duplicate (key, seq), deeper levels ordered with pairwise disjoint user-key ranges, and for
   one user key every entry of a shallower level newer than every entry of a deeper one. *)
Theorem C06_wf_versionb_sound : forall c, comparer_ok c -> forall p lvls,
  wf_versionb c p lvls = true ->
  wf_state c p {| st_mem := []; st_frozen := []; st_aux := []; st_levels := lvls |}.
Proof. exact wf_versionb_sound. Qed.
Print Assumptions C06_wf_versionb_sound.

(* ... and those are the conditions under which the lookup is correct. *)
Theorem C06_wf_makes_lookup_correct : forall c, comparer_ok c -> forall p, kparams_ok p -> forall lvls k s,
  wf_versionb c p lvls = true ->
  let st := {| st_mem := []; st_frozen := []; st_aux := []; st_levels := lvls |} in
  lsm_get c p st k s = group_res p (newest c k s (all_entries st) None).
Proof. intros c ok p pok lvls k s H st. apply (get_correct c ok p pok). apply wf_versionb_sound; assumption. Qed.
Print Assumptions C06_wf_makes_lookup_correct.

(* The merged, filtered entry list a compaction writes is strictly ordered ... *)
Theorem C06_kept_sorted : forall c p minSeq base l, ssorted c l -> ssorted c (drop_run c p minSeq base None l).
Proof. intros c p minSeq base l. exact (drop_sorted c p minSeq base None l). Qed.
Print Assumptions C06_kept_sorted.

Theorem C06_merge_sorted : forall c, comparer_ok c -> forall p, kparams_ok p -> forall l,
  kinds_ok p l -> NoDup (map keyseq l) -> ssorted c (isort c l).
Proof. exact isort_sorted. Qed.
Print Assumptions C06_merge_sorted.

(* ... and cutting it only between different user keys yields tables that are each sorted, non-empty, and
   pairwise disjoint in user keys (no user key spans two files). *)
Theorem C06_outputs_well_formed_partial : forall c, comparer_ok c -> forall outs,
  cuts_ok c outs = true -> ssorted c (concat outs) ->
  Forall (fun es => ssorted c es /\ es <> []) outs /\ level_sorted c (mk_tables outs).
Proof. exact outputs_well_formed. Qed.
Print Assumptions C06_outputs_well_formed_partial.

Example C06_nonvacuous :
  wf_versionb bytewise kp
    [ [ {| t_num := 9; t_entries := [{| e_uk := [1]; e_seq := 12; e_kind := 1; e_val := [] |}] |};
        {| t_num := 8; t_entries := [{| e_uk := [1]; e_seq := 10; e_kind := 0; e_val := [] |}] |} ];
      [ {| t_num := 5; t_entries := [{| e_uk := [1]; e_seq := 5; e_kind := 1; e_val := [] |}] |};
        {| t_num := 6; t_entries := [{| e_uk := [3]; e_seq := 4; e_kind := 1; e_val := [] |}] |} ] ]%N = true
  /\ wf_versionb bytewise kp
    [ []; [ {| t_num := 5; t_entries := [{| e_uk := [3]; e_seq := 5; e_kind := 1; e_val := [] |}] |};
            {| t_num := 6; t_entries := [{| e_uk := [3]; e_seq := 4; e_kind := 1; e_val := [] |}] |} ] ]%N = false.
Proof. split; vm_compute; reflexivity. Qed.
