(* Props/C06.v — property C06: the live table set is always a well-formed LSM tree.
   Property theorems only.  The well-formedness conditions are a boolean (Compact.wf_versionb) that the
   correspondence check evaluates inside Coq on the versions the implementation installs; the theorems say
   what that boolean guarantees and that the tables a compaction writes are well-formed by construction.
   Second part (C06_inputs_closed ... C06_range_compaction_seed): the step theorems for the model Lsm/Pick.v of
   goleveldb's own construction — getOverlaps (both variants), newCompaction/expand, trivial(), pickMemdbLevel,
   versionStaging.finish — over every comparer, every well-formed version, every level and every seed.  The invariant
   is WfLsm.wf_lsm; its boolean form Pick.wf_lsmb = wf_versionb && wf_extrab is what the correspondence check evaluates
   on the versions the running code installs.
   NOT covered by a step theorem: records committed with finish(trivial=false) (transaction commit, recovery), which the
   model has but for which only the correspondence check (KFinish) and the oracle speak. *)
From GL Require Import Base.Order Codec.IKey Codec.BytesCmp Codec.BytesCmpProofs Lsm.Lsm Lsm.Compact Lsm.LsmProofs
  Lsm.CompactProofs Lsm.History Lsm.ReorgProofs Lsm.WfProofs Lsm.OutputProofs Lsm.Pick Lsm.PickBase Lsm.OverlapProofs
  Lsm.WfLsm Lsm.C06Steps Gen.ConstsOk.

(* The boolean check implies the invariant under which newest-first lookup is correct: every table sorted,
   level 0 without duplicate (key, seq), deeper levels ordered with pairwise disjoint user-key ranges, and for
   one user key every entry of a shallower level newer than every entry of a deeper one. *)
Theorem C06_wf_versionb_sound : forall c, comparer_ok c -> forall p lvls,
  wf_versionb c p lvls = true ->
  wf_state c p {| st_mem := []; st_frozen := []; st_aux := []; st_levels := lvls |}.
Proof. exact wf_versionb_sound. Qed.
Print Assumptions C06_wf_versionb_sound.

(* ... and those are the conditions under which the lookup is correct. *)
Theorem C06_wf_makes_lookup_correct : forall c, comparer_ok c -> forall p, kparams_ok p -> forall lvls k s,
  wf_versionb c p lvls = true ->
  let st := {| st_mem := []; st_frozen := []; st_aux := []; st_levels := lvls |} in
  lsm_get c p st k s = group_res p (newest c k s (all_entries st) None).
Proof. intros c ok p pok lvls k s H st. apply (get_correct c ok p pok). apply wf_versionb_sound; assumption. Qed.
Print Assumptions C06_wf_makes_lookup_correct.

(* The merged, filtered entry list a compaction writes is strictly ordered ... *)
Theorem C06_kept_sorted : forall c p minSeq base l, ssorted c l -> ssorted c (drop_run c p minSeq base None l).
Proof. intros c p minSeq base l. exact (drop_sorted c p minSeq base None l). Qed.
Print Assumptions C06_kept_sorted.

Theorem C06_merge_sorted : forall c, comparer_ok c -> forall p, kparams_ok p -> forall l,
  kinds_ok p l -> NoDup (map keyseq l) -> ssorted c (isort c l).
Proof. exact isort_sorted. Qed.
Print Assumptions C06_merge_sorted.

(* ... and cutting it only between different user keys yields tables that are each sorted, non-empty, and
   pairwise disjoint in user keys (no user key spans two files). *)
Theorem C06_outputs_well_formed_partial : forall c, comparer_ok c -> forall outs,
  cuts_ok c outs = true -> ssorted c (concat outs) ->
  Forall (fun es => ssorted c es /\ es <> []) outs /\ level_sorted c (mk_tables outs).
Proof. exact outputs_well_formed. Qed.
Print Assumptions C06_outputs_well_formed_partial.

Example C06_nonvacuous :
  wf_versionb bytewise kp
    [ [ {| t_num := 9; t_entries := [{| e_uk := [1]; e_seq := 12; e_kind := 1; e_val := [] |}] |};
        {| t_num := 8; t_entries := [{| e_uk := [1]; e_seq := 10; e_kind := 0; e_val := [] |}] |} ];
      [ {| t_num := 5; t_entries := [{| e_uk := [1]; e_seq := 5; e_kind := 1; e_val := [] |}] |};
        {| t_num := 6; t_entries := [{| e_uk := [3]; e_seq := 4; e_kind := 1; e_val := [] |}] |} ] ]%N = true
  /\ wf_versionb bytewise kp
    [ []; [ {| t_num := 5; t_entries := [{| e_uk := [3]; e_seq := 5; e_kind := 1; e_val := [] |}] |};
            {| t_num := 6; t_entries := [{| e_uk := [3]; e_seq := 4; e_kind := 1; e_val := [] |}] |} ] ]%N = false.
Proof. split; vm_compute; reflexivity. Qed.

(* ------------------------------------------------------------------------------------------------------------------
   The step theorems for goleveldb's own compaction construction (model Lsm/Pick.v).
   ------------------------------------------------------------------------------------------------------------------ *)

(* The boolean evaluated on observed versions implies the step invariant, and the step invariant implies the invariant
   of the read path (the Prop C06_wf_versionb_sound concludes). *)
Theorem C06_wf_lsmb_sound : forall c, comparer_ok c -> forall p v, wf_lsmb c p v = true -> wf_lsm c p v.
Proof. exact wf_lsmb_sound. Qed.
Print Assumptions C06_wf_lsmb_sound.

Theorem C06_wf_lsm_wf_state : forall c p v, wf_lsm c p v ->
  wf_state c p {| st_mem := []; st_frozen := []; st_aux := []; st_levels := v |}.
Proof. exact wf_lsm_wf_state. Qed.
Print Assumptions C06_wf_lsm_wf_state.

(* tFiles.getOverlaps on an ordered, disjoint level (the two binary searches) returns exactly the overlapping tables. *)
Theorem C06_getoverlaps_sorted_exact : forall c, comparer_ok c -> forall p tf,
  (forall t, In t tf -> tbl_ok c p t) -> bsorted c tf -> forall umin umax t,
  In t (get_overlaps_sorted c tf umin umax) <-> In t tf /\ t_overlaps c t umin umax = true.
Proof. exact get_overlaps_sorted_in. Qed.
Print Assumptions C06_getoverlaps_sorted_exact.

(* tFiles.getOverlaps on level 0 (restart-the-scan loop) terminates within its fuel and returns the tables overlapping a
   widened range none of which sticks out of that range. *)
Theorem C06_getoverlaps_level0 : forall c, comparer_ok c -> forall tf umin umax,
  exists d, get_overlaps c tf umin umax true = POk d /\ l0_result c tf umin umax d.
Proof. exact get_overlaps_l0_spec. Qed.
Print Assumptions C06_getoverlaps_level0.

(* The inputs newCompaction/expand choose are closed: they contain the seed; every table of level+1 overlapping the
   user-key range spanned by any two chosen source tables is an input; for source level 0 so is every level-0 table
   overlapping such a range.  (No panic, no fuel exhaustion: the result is POk.) *)
Theorem C06_inputs_closed : forall c, comparer_ok c -> forall p sz v lvl limit seed,
  wf_lsm c p v -> seed_ok v lvl seed ->
  exists cm, new_compaction c sz v lvl limit seed = POk cm /\
    c_level cm = lvl /\ incl seed (c_t0 cm) /\ incl (c_t0 cm) (lv v lvl) /\ incl (c_t1 cm) (lv v (S lvl)) /\
    (forall s ta tb, In s (lv v (S lvl)) -> In ta (c_t0 cm) -> In tb (c_t0 cm) ->
       t_overlaps c s (Some (umin_of ta)) (Some (umax_of tb)) = true -> In s (c_t1 cm)) /\
    (lvl = 0%nat -> forall s ta tb, In s (lv v 0) -> In ta (c_t0 cm) -> In tb (c_t0 cm) ->
       t_overlaps c s (Some (umin_of ta)) (Some (umax_of tb)) = true -> In s (c_t0 cm)).
Proof. exact inputs_closed. Qed.
Print Assumptions C06_inputs_closed.

(* Compaction step: for every level and every seed, installing (finish) the record of the model-built compaction —
   inputs deleted, outputs = chunks of the kept merged entries cut only between different user keys, under new file
   numbers — yields a well-formed version again. *)
Theorem C06_compaction_step : forall c, comparer_ok c -> forall p, kparams_ok p -> forall sz v lvl limit seed,
  wf_lsm c p v -> seed_ok v lvl seed ->
  exists cm, new_compaction c sz v lvl limit seed = POk cm /\
    forall minSeq deeper chunks nums, outputs_of c p cm minSeq deeper chunks ->
      length nums = length chunks -> fresh_nums v nums ->
      exists nv, finish c true v (compaction_edit cm (mk_outputs nums chunks)) = POk nv /\ wf_lsm c p nv.
Proof. exact compaction_step. Qed.
Print Assumptions C06_compaction_step.

(* ... also when level-0 tables (memdb flushes, transaction commits: newer than everything stored) were installed
   between picking and committing; v2 is the version at commit time. *)
Theorem C06_compaction_step_interleaved : forall c, comparer_ok c -> forall p, kparams_ok p -> forall sz v lvl limit seed,
  wf_lsm c p v -> seed_ok v lvl seed ->
  exists cm, new_compaction c sz v lvl limit seed = POk cm /\
    forall v2 minSeq deeper chunks nums, later_version c p v v2 -> outputs_of c p cm minSeq deeper chunks ->
      length nums = length chunks -> fresh_nums v2 nums ->
      exists nv, finish c true v2 (compaction_edit cm (mk_outputs nums chunks)) = POk nv /\ wf_lsm c p nv.
Proof. exact compaction_step_interleaved. Qed.
Print Assumptions C06_compaction_step_interleaved.

(* Trivial move: whenever compaction.trivial() holds, re-adding the single source table one level down keeps the
   invariant. *)
Theorem C06_trivial_move_step : forall c, comparer_ok c -> forall p sz v lvl limit seed,
  wf_lsm c p v -> seed_ok v lvl seed ->
  exists cm, new_compaction c sz v lvl limit seed = POk cm /\
    forall max_gp, trivial sz cm max_gp = true ->
      exists nv, finish c true v (move_edit cm) = POk nv /\ wf_lsm c p nv.
Proof. exact trivial_move_step. Qed.
Print Assumptions C06_trivial_move_step.

(* Flush step: the table placed at pickMemdbLevel keeps the invariant, including the cross-level clause (nothing above
   it shares a user key with it; everything below is older), for every maxLevel and every grandparent limit. *)
Theorem C06_flush_step : forall c, comparer_ok c -> forall p, kparams_ok p -> forall sz v gp_limit maxLevel t,
  wf_lsm c p v -> seqs_fit p v -> flushed_ok c p v t ->
  exists nv, finish c true v (flush_edit c p sz v gp_limit maxLevel t) = POk nv /\ wf_lsm c p nv.
Proof. exact flush_step. Qed.
Print Assumptions C06_flush_step.

(* The entry-level hypotheses of compaction_preserves / certificate_sound are discharged for model-built compactions:
   reads at every sequence number >= minSeq are preserved (M = the entries of the write buffers). *)
Theorem C06_model_compaction_admissible : forall c, comparer_ok c -> forall p, kparams_ok p -> forall sz v lvl limit seed,
  wf_lsm c p v -> seed_ok v lvl seed ->
  exists cm, new_compaction c sz v lvl limit seed = POk cm /\
    forall M minSeq, minSeq < keyMaxSeq p -> uniq_in M ->
      (forall m i x, In m M -> In x (LE (lv v i)) -> e_uk x = e_uk m -> e_seq x < e_seq m) ->
      let inputs := c_t0 cm ++ c_t1 cm in
      let others := M ++ LE (filter (fun t => negb (is_input (nums_of inputs) t)) (concat v)) in
      forall k s, minSeq <= s ->
        History.res p (newest c k s (compact_entries c p minSeq (skipn (lvl + 2) v) inputs ++ others) None) =
        History.res p (newest c k s (LE inputs ++ others) None).
Proof. exact model_compaction_admissible. Qed.
Print Assumptions C06_model_compaction_admissible.

(* Range compactions: getCompactionRange never panics and its seed (getOverlaps of the range, cut by the source limit)
   is a seed in the sense of the theorems above. *)
Theorem C06_range_compaction_seed : forall c, comparer_ok c -> forall p sz v lvl umin umax noLimit src_limit exp_limit,
  wf_lsm c p v ->
  exists r, compaction_range c sz v lvl umin umax noLimit src_limit exp_limit = POk r /\
    forall cm, r = Some cm -> exists seed, seed_ok v lvl seed /\ new_compaction c sz v lvl exp_limit seed = POk cm.
Proof. exact range_compaction_seed. Qed.
Print Assumptions C06_range_compaction_seed.

(* Non-vacuity: a three-level version satisfies the invariant; the model picks {9, 8} + {3, 4} from seed 9 (level-0
   closure), the compaction's single output installs into a well-formed version; a flushed table with fresh keys is
   placed at level 2 and the result is well-formed; a trivial move of table 5 to level 2 likewise. *)
Definition ex_e (k : N) (s : N) : entry := {| e_uk := [k]; e_seq := s; e_kind := 1; e_val := [] |}.
Definition ex_t (n : N) (es : list entry) : table := {| t_num := n; t_entries := es |}.
Definition ex_v : list (list table) :=
  [ [ ex_t 9 [ex_e 5 20; ex_e 7 19]; ex_t 8 [ex_e 1 18; ex_e 5 17] ];
    [ ex_t 3 [ex_e 0 5; ex_e 2 4]; ex_t 4 [ex_e 4 3; ex_e 6 2]; ex_t 5 [ex_e 8 1; ex_e 11 1] ] ]%N.

Example C06_step_nonvacuous :
  wf_lsmb bytewise kp ex_v = true /\
  seed_ok ex_v 0 [ex_t 9 [ex_e 5 20; ex_e 7 19]]%N /\
  (exists cm, new_compaction bytewise (fun _ => 100) ex_v 0 100000 [ex_t 9 [ex_e 5 20; ex_e 7 19]]%N = POk cm /\
     nums_of (c_t0 cm) = [9; 8]%N /\ nums_of (c_t1 cm) = [3; 4]%N /\
     let kept := compact_entries bytewise kp 0 (skipn 2 ex_v) (c_t0 cm ++ c_t1 cm) in
     cuts_ok bytewise [kept] = true /\
     match finish bytewise true ex_v (compaction_edit cm (mk_outputs [20%N] [kept])) with
     | POk nv => wf_lsmb bytewise kp nv = true /\ map nums_of nv = [[]; [20; 5]]%N
     | _ => False
     end) /\
  (let t := ex_t 30 [ex_e 20 40; ex_e 21 41]%N in
   flush_edit bytewise kp (fun _ => 100) ex_v (fun _ => 1000) 2 t = {| ed_del := []; ed_add := [(2%nat, t)] |} /\
   match finish bytewise true ex_v (flush_edit bytewise kp (fun _ => 100) ex_v (fun _ => 1000) 2 t) with
   | POk nv => wf_lsmb bytewise kp nv = true /\ map nums_of nv = [[9; 8]; [3; 4; 5]; [30]]%N
   | _ => False
   end) /\
  (exists cm, new_compaction bytewise (fun _ => 100) ex_v 1 100000 [ex_t 5 [ex_e 8 1; ex_e 11 1]]%N = POk cm /\
     trivial (fun _ => 100) cm 1000 = true /\
     match finish bytewise true ex_v (move_edit cm) with
     | POk nv => wf_lsmb bytewise kp nv = true /\ map nums_of nv = [[9; 8]; [3; 4]; [5]]%N
     | _ => False
     end).
Proof.
  split; [vm_compute; reflexivity|]. split.
  { split; [discriminate|]. split; [|repeat constructor; intros []].
    intros t [<-|[]]. left. reflexivity. }
  split; [eexists; split; [vm_compute; reflexivity|vm_compute; repeat split; reflexivity]|].
  split; [vm_compute; repeat split; reflexivity|].
  eexists. split; [vm_compute; reflexivity|vm_compute; repeat split; reflexivity].
Qed.

(* Why C06_compaction_step_interleaved requires the deeper levels to be unchanged between picking and committing: with
   memdbMaxLevel > 0 (a DB field marked "For testing"; the production value 0 flushes to level 0 only) a flush that
   commits while a table compaction is in flight can be placed by pickMemdbLevel INSIDE the user-key hull of that
   compaction's inputs, in the compaction's output level: pickMemdbLevel looks at the current tables only, the outputs do
   not exist yet.  Witness: level 1 = {1: keys 1..3, 2: keys 24..26}, a range compaction with both as seed (no level-2
   input; one output table spanning 1..26), meanwhile a flush of key 13 goes to level 2; committing the compaction then
   yields level 2 = {30: 13, 20: 1..26} — overlapping tables; a lookup of key 13 at level 2 consults table 20 only. *)
Definition ex_w : list (list table) :=
  [ []; [ ex_t 1 [ex_e 1 5; ex_e 3 4]; ex_t 2 [ex_e 24 3; ex_e 26 2] ] ]%N.

Example C06_deep_flush_during_compaction_refuted :
  wf_lsmb bytewise kp ex_w = true /\
  exists cm v2,
    new_compaction bytewise (fun _ => 100) ex_w 1 100000 (nth 1 ex_w []) = POk cm /\
    finish bytewise true ex_w (flush_edit bytewise kp (fun _ => 100) ex_w (fun _ => 1000) 2 (ex_t 30 [ex_e 13 40])) = POk v2 /\
    wf_lsmb bytewise kp v2 = true /\ map nums_of v2 = [[]; [1; 2]; [30]]%N /\
    let kept := compact_entries bytewise kp 0 [] (c_t0 cm ++ c_t1 cm) in
    cuts_ok bytewise [kept] = true /\
    match finish bytewise true v2 (compaction_edit cm (mk_outputs [20%N] [kept])) with
    | POk nv => map nums_of nv = [[]; []; [30; 20]]%N /\ wf_lsmb bytewise kp nv = false
    | _ => False
    end.
Proof.
  split; [vm_compute; reflexivity|]. eexists. eexists.
  split; [vm_compute; reflexivity|]. split; [vm_compute; reflexivity|].
  vm_compute. repeat split; reflexivity.
Qed.

(* ------------------------------------------------------------------------------------------------------------------
   tableCompactionBuilder (model Lsm/Builder.v): the run loop with shouldStopBefore / needFlush / the drop rule, the
   snapshot taken after a flush at a first-occurrence boundary, and compactionTransact's retries after transient
   errors (fresh iterator, skip of snapIter entries, restore of the builder's and the compaction's snapshot, cleanup of
   the partially written table).
   ------------------------------------------------------------------------------------------------------------------ *)
From GL Require Import Lsm.Builder Lsm.BuilderBase Lsm.BuilderProofs Lsm.BuilderCuts Lsm.BuilderShape Lsm.BuilderStep.

(* Retry invariant: for EVERY input sequence (corrupted keys included, strict or not), every size function and limits, and
   EVERY history of failing attempts (one oracle per attempt: iterator error at any position, table creation / append
   error at any entry, flush error at any entry or at the end, failing cleanup), if compactionTransact returns normally
   then the builder is in exactly the state in which a single failure-free run ends: the same list of finished tables
   (entries of each table in order, recorded first/last key), the same dropCnt and kerrCnt.  No entry is processed twice
   or skipped at a resume point. *)
Theorem C06_builder_retry_invariant : forall c p sz gp maxgp deeper minSeq strict tableSize tsize items os s',
  transact c p sz gp maxgp deeper minSeq strict tableSize tsize os items (bst0 deeper) = (s', TDone) ->
  run_attempt c p sz gp maxgp deeper minSeq strict tableSize tsize o_ok items (bst0 deeper) = (s', ROk).
Proof. exact retry_invariant. Qed.
Print Assumptions C06_builder_retry_invariant.

(* The failing attempts themselves: an attempt that ends with a corruption error (corrupted key under StrictCompaction;
   compactionTransact then exits and reverts) ends exactly like the failure-free run, whatever failed before. *)
Theorem C06_builder_corrupt_exit : forall c p sz gp maxgp deeper minSeq strict tableSize tsize items o s,
  inv c p sz gp maxgp deeper minSeq strict tableSize tsize items s ->
  snd (run_attempt c p sz gp maxgp deeper minSeq strict tableSize tsize o items s) = RCorrupt ->
  run_attempt c p sz gp maxgp deeper minSeq strict tableSize tsize o items s =
  run_attempt c p sz gp maxgp deeper minSeq strict tableSize tsize o_ok items (bst0 deeper).
Proof. exact corrupt_exit_inv. Qed.
Print Assumptions C06_builder_corrupt_exit.

(* What the failure-free run — hence, by the retry invariant, every successful compactionTransact — writes for entries
   whose keys parse, ordered by user key, when the levels below the output level are ordered and disjoint: the tables
   concatenated are Compact.drop_run with the stateless base-level test (the function drop_rule_sound and
   compaction_preserves are about; the cursors tPtrs answer like is_base), the CONCRETE cut rule — shouldStopBefore and
   needFlush consulted only at the first occurrence of a user key — satisfies the abstract cuts_ok, kerrCnt = 0 and
   dropCnt = number of dropped entries. *)
Theorem C06_builder_good_run : forall c, comparer_ok c -> forall p sz gp maxgp deeper,
  Forall (lvl_ok c p) deeper -> forall minSeq strict tableSize tsize es os s',
  uk_sorted c es ->
  transact c p sz gp maxgp deeper minSeq strict tableSize tsize os (map IGood es) (bst0 deeper) = (s', TDone) ->
  out_items s' = map (map IGood) (fin s') /\
  cuts_ok c (fin s') = true /\
  concat (fin s') = drop_run c p minSeq (is_base c deeper) None es /\
  kerr s' = 0 /\
  drop s' + N.of_nat (length (drop_run c p minSeq (is_base c deeper) None es)) = N.of_nat (length es).
Proof. exact transact_good. Qed.
Print Assumptions C06_builder_good_run.

(* The abstraction of C06_compaction_step discharged: for the compaction the model picker builds on a well-formed
   version, the tables the builder has recorded when compactionTransact returns — after any transient failures — are
   outputs in the sense of the step theorems (cuts_ok and concat = compact_entries), ... *)
Theorem C06_builder_cuts_ok : forall c, comparer_ok c -> forall p, kparams_ok p -> forall sz v lvl limit seed,
  wf_lsm c p v -> seed_ok v lvl seed ->
  exists cm, new_compaction c sz v lvl limit seed = POk cm /\
    forall gp maxgp minSeq strict tableSize tsize os s',
      let deeper := skipn (lvl + 2) v in
      let es := merge_inputs c (c_t0 cm ++ c_t1 cm) in
      transact c p sz gp maxgp deeper minSeq strict tableSize tsize os (map IGood es) (bst0 deeper) = (s', TDone) ->
      out_items s' = map (map IGood) (fin s') /\
      outputs_of c p cm minSeq deeper (fin s') /\
      kerr s' = 0 /\
      drop s' + N.of_nat (length (compact_entries c p minSeq deeper (c_t0 cm ++ c_t1 cm))) = N.of_nat (length es).
Proof. exact builder_outputs_of. Qed.
Print Assumptions C06_builder_cuts_ok.

(* ... so installing them keeps the invariant (also when level-0 tables were installed meanwhile). *)
Theorem C06_builder_compaction_step : forall c, comparer_ok c -> forall p, kparams_ok p -> forall sz v lvl limit seed,
  wf_lsm c p v -> seed_ok v lvl seed ->
  exists cm, new_compaction c sz v lvl limit seed = POk cm /\
    forall gp maxgp minSeq strict tableSize tsize os s' nums,
      let deeper := skipn (lvl + 2) v in
      transact c p sz gp maxgp deeper minSeq strict tableSize tsize os
               (map IGood (merge_inputs c (c_t0 cm ++ c_t1 cm))) (bst0 deeper) = (s', TDone) ->
      length nums = length (fin s') -> fresh_nums v nums ->
      exists nv, finish c true v (compaction_edit cm (mk_outputs nums (fin s'))) = POk nv /\ wf_lsm c p nv.
Proof. exact builder_compaction_step. Qed.
Print Assumptions C06_builder_compaction_step.

Theorem C06_builder_compaction_step_interleaved : forall c, comparer_ok c -> forall p, kparams_ok p ->
  forall sz v lvl limit seed, wf_lsm c p v -> seed_ok v lvl seed ->
  exists cm, new_compaction c sz v lvl limit seed = POk cm /\
    forall v2 gp maxgp minSeq strict tableSize tsize os s' nums,
      let deeper := skipn (lvl + 2) v in
      later_version c p v v2 ->
      transact c p sz gp maxgp deeper minSeq strict tableSize tsize os
               (map IGood (merge_inputs c (c_t0 cm ++ c_t1 cm))) (bst0 deeper) = (s', TDone) ->
      length nums = length (fin s') -> fresh_nums v2 nums ->
      exists nv, finish c true v2 (compaction_edit cm (mk_outputs nums (fin s'))) = POk nv /\ wf_lsm c p nv.
Proof. exact builder_compaction_step_interleaved. Qed.
Print Assumptions C06_builder_compaction_step_interleaved.

(* Every table the builder records — any input, any failure history, any way compactionTransact ends — is non-empty, its
   recorded largest key is its last entry, its recorded smallest key its first entry with a non-empty key (for entries
   whose keys parse: its first entry). *)
Theorem C06_builder_outputs_shape : forall c p sz gp maxgp deeper minSeq strict tableSize tsize items os,
  Forall shape_o (recs (fst (transact c p sz gp maxgp deeper minSeq strict tableSize tsize os items (bst0 deeper)))).
Proof. exact outputs_shape. Qed.
Print Assumptions C06_builder_outputs_shape.

(* shouldStopBefore asked twice for the same key answers false the second time and changes nothing: the [resumed] flag of
   run (which suppresses the call for the first entry after a resume) does not influence the result. *)
Theorem C06_builder_resumed_flag_redundant : forall c sz gp maxgp x ik,
  let x1 := snd (should_stop c sz gp maxgp x ik) in
  should_stop c sz gp maxgp x1 ik = (false, x1).
Proof. exact should_stop_idempotent. Qed.
Print Assumptions C06_builder_resumed_flag_redundant.

(* Likewise the restored hasLastUkey / lastUkey / lastSeq: the entry at which a resumed run starts is a first occurrence
   whatever they are (the snapshot is taken at a first-occurrence boundary and the writer is gone), so a run resumed with
   hasLastUkey = false performs the same iteration.  (Both facts explain why the two corresponding source changes are
   equivalent mutants.) *)
Theorem C06_builder_restored_last_key_redundant : forall c p sz gp maxgp deeper minSeq tableSize tsize o i e m u q,
  tw m = None -> first_occ c m (e_uk e) = true ->
  step_good c p sz gp maxgp deeper minSeq tableSize tsize o true i e (set_last m false u q) =
  step_good c p sz gp maxgp deeper minSeq tableSize tsize o true i e m.
Proof. exact resume_last_irrelevant. Qed.
Print Assumptions C06_builder_restored_last_key_redundant.

(* Non-vacuity: seven entries (user keys 1..5, minSeq 8: the tombstone 2@8 and the older 2@3 are dropped), tables are
   full after two entries; six failing attempts — flush error at entry 2; append error at entry 4 after the snapshot at 2;
   iterator error at position 1 while skipping; flush error at entry 6; error of the final flush; table creation error
   at entry 6 with a failing cleanup before — then a clean one.  The result is the failure-free one: three tables
   {1@9 1@7} {3@6 4@5} {5@4}, dropCnt 2. *)
Definition bx_e (k s kind : N) : entry := {| e_uk := [k]; e_seq := s; e_kind := kind; e_val := [] |}.
Definition bx_items : list item :=
  map IGood [bx_e 1 9 1; bx_e 1 7 1; bx_e 2 8 0; bx_e 2 3 1; bx_e 3 6 1; bx_e 4 5 1; bx_e 5 4 1].
Definition bx_o (nx : nat -> bool) (ap : nat -> afault) (fl : nat -> bool) (cl : bool) : oracle :=
  {| o_closed := false; o_next := nx; o_append := ap; o_flush := fl; o_cleanup := cl; o_perr := false;
     o_closed_sel := false |}.
Definition bx_os : list oracle :=
  [ bx_o (fun _ => false) (fun _ => AOk) (Nat.eqb 2) false;
    bx_o (fun _ => false) (fun i => if Nat.eqb i 4 then AWrite else AOk) (fun _ => false) false;
    bx_o (Nat.eqb 1) (fun _ => AOk) (fun _ => false) false;
    bx_o (fun _ => false) (fun _ => AOk) (Nat.eqb 6) true;
    bx_o (fun _ => false) (fun _ => AOk) (Nat.eqb 7) false;
    bx_o (fun _ => false) (fun i => if Nat.eqb i 6 then ACreate else AOk) (fun _ => false) true;
    o_ok ].
Definition bx_size (l : list item) : N := 10 * N.of_nat (length l).

Example C06_builder_nonvacuous :
  exists s', transact bytewise kp (fun _ => 100) [] 1000 [] 8 true 20 bx_size bx_os bx_items (bst0 []) = (s', TDone) /\
    out_items s' = [ map IGood [bx_e 1 9 1; bx_e 1 7 1]; map IGood [bx_e 3 6 1; bx_e 4 5 1]; map IGood [bx_e 5 4 1] ] /\
    drop s' = 2 /\ kerr s' = 0 /\ sn_iter (snap s') = 6%nat /\
    run_attempt bytewise kp (fun _ => 100) [] 1000 [] 8 true 20 bx_size o_ok bx_items (bst0 []) = (s', ROk) /\
    cuts_ok bytewise (fin s') = true /\
    (* the first six attempts do fail: with one oracle fewer the fuel runs out *)
    snd (transact bytewise kp (fun _ => 100) [] 1000 [] 8 true 20 bx_size (firstn 6 bx_os) bx_items (bst0 [])) = TOutOfFuel.
Proof. eexists. split; [vm_compute; reflexivity|]. vm_compute. repeat split; reflexivity. Qed.

(* Outside the hypotheses of C06_builder_good_run — a corrupted key, StrictCompaction off: "Don't drop corrupted keys"
   resets hasLastUkey, so the next entry of the SAME user key counts as a first occurrence and the table may be rotated
   there.  Witness: 1@5, a key with user key 1 and an invalid kind, 1@3, tables full after one entry: user key 1 ends up in
   two tables of one level (and 1@3 is not dropped although 1@5 is newer and minSeq = 9).  With StrictCompaction (the
   default) the same input makes compactionTransact exit with nothing installed. *)
Example C06_builder_corrupted_key_splits_user_key_refuted :
  let items := [IGood (bx_e 1 5 1); IBad [1; 7; 4; 0; 0; 0; 0; 0; 0] []; IGood (bx_e 1 3 1)] in
  (exists s', transact bytewise kp (fun _ => 100) [] 1000 [] 9 false 10 bx_size [o_ok] items (bst0 []) = (s', TDone) /\
     out_items s' = [[IGood (bx_e 1 5 1); IBad [1; 7; 4; 0; 0; 0; 0; 0; 0] []]; [IGood (bx_e 1 3 1)]] /\
     kerr s' = 1 /\ cuts_ok bytewise (fin s') = false) /\
  (exists s', transact bytewise kp (fun _ => 100) [] 1000 [] 9 true 10 bx_size [o_ok] items (bst0 []) = (s', TExit) /\
     recs s' = []).
Proof. split; eexists; (split; [vm_compute; reflexivity|]); vm_compute; repeat split; reflexivity. Qed.

(* ------------------------------------------------------------------------------------------------------------------
   The LOOPS that drive table compactions (model Lsm/RangeCompact.v): the retry loop of DB.CompactRange
   (tableRangeCompaction, level = -1) and the background loop (tCompaction repeating tableAutoCompaction while
   needCompaction).  One compaction = the model step of the theorems above; the tables it writes come from an output
   oracle [bld] of which the theorems assume bld_ok (what C06_builder_cuts_ok proves of Builder.v's run: chunks of the
   kept merged entries, cut between different user keys, under unused numbers); ms k is the minSeq of the k-th compaction.
   ------------------------------------------------------------------------------------------------------------------ *)
From GL Require Import Lsm.RangeCompact Lsm.RangeStep Lsm.RangeProofs Lsm.AutoProofs Lsm.RangeReads.
From Coq Require Import ZArith Lia.

(* Termination of the CompactRange retry loop when no new table arrives in between, with an explicit fuel bound:
   range_fuel v = 1 + max 1 (levels - 1) * (number of stored entries).  Measure: the sum over the levels l < K of
   (entries in level l) * (K - l), K = max 1 (levels - 1): each compaction of a pass takes a >= 1 entries out of a level
   below m <= K and adds at most a one level down (the number of tables is no measure: one input may be cut into many
   outputs); a pass that compacts nothing ends the loop.  No panic, no exhausted inner fuel. *)
Theorem C06_compact_range_terminates : forall c, comparer_ok c -> forall p, kparams_ok p -> forall sz o bld ms,
  bld_ok c p sz o bld ms -> forall st umin umax, wf_lsm c p (cp_v st) ->
  forall fuel, (range_fuel (cp_v st) <= fuel)%nat ->
  exists st' passes, compact_range c p sz o bld fuel st umin umax [] = POk (st', passes).
Proof. exact compact_range_terminates. Qed.
Print Assumptions C06_compact_range_terminates.

(* What it returns with (for ANY fuel with which it returns): the version is well-formed; with m = the deepest level
   >= 1 holding a table that overlaps the range (1 if none), no table of a level above m overlaps the range and
   tFiles.overlaps answers false for every level below m (hence, for tables whose sequence numbers fit 56 bits, no table
   there overlaps either): all data of the range sits in ONE level.  The last pass is the one that found nothing to do;
   the passes before it exist because getCompactionRange cuts the overlapping tables of a level > 0 to the shortest
   prefix reaching the source limit (C06_range_compaction_seed: never empty), so one pass may move only part of a level.
   No level beyond max 1 (levels - 1) was created.  Reads are unchanged: the read path returns on the final version what
   it returned on the initial one, for every key at every sequence number at or above every compaction's minSeq. *)
Theorem C06_compact_range_post : forall c, comparer_ok c -> forall p, kparams_ok p -> forall sz o bld ms,
  bld_ok c p sz o bld ms -> (forall j, ms j < keyMaxSeq p) ->
  forall st umin umax fuel st' passes, wf_lsm c p (cp_v st) ->
  compact_range c p sz o bld fuel st umin umax [] = POk (st', passes) ->
  wf_lsm c p (cp_v st') /\
  (let m := range_max_level c p (cp_v st') umin umax in
   (forall l t, (l < m)%nat -> In t (lv (cp_v st') l) -> t_overlaps c t umin umax = false) /\
   (forall l, (m < l)%nat -> files_overlaps c p (lv (cp_v st') l) umin umax false = false) /\
   (forall l t, (m < l)%nat -> (forall u, In u (lv (cp_v st') l) -> e_seq (t_hi u) <= keyMaxSeq p) ->
      In t (lv (cp_v st') l) -> t_overlaps c t umin umax = false) /\
   last passes (0%nat, []) = (m, [])) /\
  levels_below (cp_v st') (S (range_depth (cp_v st))) /\
  (forall k s, safe_seq ms s -> api_of (lsm_get c p (lst (cp_v st')) k s) = api_of (lsm_get c p (lst (cp_v st)) k s)).
Proof. exact compact_range_post_full. Qed.
Print Assumptions C06_compact_range_post.

(* The background loop reaches needCompaction = false without writes — CONDITIONALLY.  goleveldb has no deepest level:
   computeCompaction scores every level, the deepest included, against GetCompactionTotalSize(level), and a level whose
   score reaches 1 is compacted into the next one, creating it if need be.  Hypotheses: a table weighs at most Bz bytes
   per entry, and from level K on (K >= the number of levels) the level limit exceeds Bz * (stored entries) — true for
   some K whenever the limits grow without bound (CompactionTotalSizeMultiplier > 1).  Then within K * (stored entries)
   steps — size-triggered, seek-triggered, trivial moves and rewrites alike — the loop stops with a well-formed version
   that needs no compaction and has no level beyond K.  Same measure as above.  Without the growth hypothesis the
   statement is false: C06_auto_compaction_quiesces_refuted. *)
Theorem C06_auto_compaction_quiesces : forall c, comparer_ok c -> forall p, kparams_ok p -> forall sz o bld ms,
  bld_ok c p sz o bld ms -> forall st Bz K,
  wf_lsm c p (cp_v st) -> seek_in st -> size_bounded sz Bz -> (1 <= K)%nat -> (length (cp_v st) <= K)%nat ->
  limits_exceed o Bz (elen (concat (cp_v st))) K ->
  forall fuel, (K * elen (concat (cp_v st)) <= fuel)%nat ->
  exists st', auto_loop c sz o bld fuel st = POk st' /\ need_compaction sz o st' = false /\ wf_lsm c p (cp_v st') /\
              levels_below (cp_v st') (S K).
Proof. exact auto_compaction_quiesces. Qed.
Print Assumptions C06_auto_compaction_quiesces.

(* ... and whenever it stops, reads are what they were. *)
Theorem C06_auto_compaction_reads : forall c, comparer_ok c -> forall p, kparams_ok p -> forall sz o bld ms,
  bld_ok c p sz o bld ms -> (forall j, ms j < keyMaxSeq p) ->
  forall fuel st st', wf_lsm c p (cp_v st) -> seek_in st -> auto_loop c sz o bld fuel st = POk st' ->
  forall k s, safe_seq ms s -> api_of (lsm_get c p (lst (cp_v st')) k s) = api_of (lsm_get c p (lst (cp_v st)) k s).
Proof. exact auto_loop_get. Qed.
Print Assumptions C06_auto_compaction_reads.

(* The write throttle: a version that needs no compaction has fewer level-0 tables than WriteL0PauseTrigger, so
   DB.resumeWrite holds and paused writers are released — provided 0 < CompactionL0Trigger <= WriteL0PauseTrigger
   (an explicit hypothesis about the option getters; with CompactionL0Trigger < 0 the level-0 score is never >= 1 and
   with CompactionL0Trigger > WriteL0PauseTrigger a quiescent DB may keep writers paused). *)
Theorem C06_quiescent_resumes_write : forall sz o st,
  need_compaction sz o st = false -> (0 < o_l0_trigger o)%Z -> (o_l0_trigger o <= o_l0_pause o)%Z ->
  resume_write o st = true.
Proof. exact quiescent_resumes_write. Qed.
Print Assumptions C06_quiescent_resumes_write.

(* Every table compaction leaves the compaction pointer of its source level at the compaction's imax and the other
   pointers alone (the repaired behaviour; see C06_comp_ptr_lost_on_manifest_rotation_refuted for the code before). *)
Theorem C06_comp_ptr_advances : forall c, comparer_ok c -> forall p, kparams_ok p -> forall sz o bld ms,
  bld_ok c p sz o bld ms -> forall st lvl seed cm noTrivial st',
  wf_lsm c p (cp_v st) -> seed_ok (cp_v st) lvl seed ->
  new_compaction c sz (cp_v st) lvl (o_exp_limit o lvl) seed = POk cm ->
  table_compaction c sz o bld st cm noTrivial = POk st' ->
  get_ptr (cp_ptrs st') lvl = Some (c_imax cm) /\
  forall l, l <> lvl -> get_ptr (cp_ptrs st') l = get_ptr (cp_ptrs st) l.
Proof. exact comp_ptr_advances. Qed.
Print Assumptions C06_comp_ptr_advances.

(* The hypothesis bld_ok is satisfiable: the one-output-table oracle of the model file satisfies it for every
   comparer, options and minSeq function. *)
Theorem C06_simple_builder_admissible : forall c, comparer_ok c -> forall p sz o ms,
  bld_ok c p sz o (simple_bld c p ms) ms.
Proof. exact simple_bld_ok. Qed.
Print Assumptions C06_simple_builder_admissible.

(* Non-vacuity.  A three-level version, tables of 100 bytes, source limit 150: CompactRange [0, 12] needs TWO compacting
   passes — pass 1 (m = 2) takes only tables 3 and 4 of level 1 (the shortest prefix reaching the limit) with table 1 of
   level 2; pass 2 takes the rest (table 5) with the output of pass 1; pass 3 finds nothing.  Everything ends in level 2,
   the fuel bound is 17, both compaction pointers of level 1 were set.  With growing level limits the background loop
   stops after one step (level 1 holds 300 >= 250 bytes: table 3 moves to ... level 2 by a rewrite with table 1). *)
Definition rx_v : list (list table) :=
  [ []; [ ex_t 3 [ex_e 0 5; ex_e 2 4]; ex_t 4 [ex_e 4 3; ex_e 6 2]; ex_t 5 [ex_e 8 1; ex_e 11 1] ];
    [ ex_t 1 [ex_e 2 0; ex_e 9 0] ] ]%N.
Definition rx_sz (t : table) : N := 50 * N.of_nat (length (t_entries t)).
Definition rx_o : copts :=
  {| o_src_limit := fun _ => 150; o_exp_limit := fun _ => 0; o_gp_limit := fun _ => 1000;
     o_tot_limit := fun l => match l with 1%nat => 250%Z | _ => 100000%Z end; o_l0_trigger := 4%Z; o_l0_pause := 12%Z |}.
Definition rx_st : cpstate := {| cp_v := rx_v; cp_ptrs := []; cp_seek := None; cp_n := 0 |}.
Definition rx_bld := simple_bld bytewise kp (fun _ => 0).

Example C06_loops_nonvacuous :
  wf_lsmb bytewise kp rx_v = true /\ range_fuel rx_v = 17%nat /\
  (exists st' passes, compact_range bytewise kp rx_sz rx_o rx_bld 17 rx_st (Some [0]) (Some [12]) [] = POk (st', passes) /\
     map nums_of (cp_v st') = [[]; []; [7]]%N /\
     map (fun ps => (fst ps, map (fun cm => (c_level cm, nums_of (c_t0 cm), nums_of (c_t1 cm))) (snd ps))) passes =
       [ (2%nat, [(1%nat, [3; 4], [1])]); (2%nat, [(1%nat, [5], [6])]); (2%nat, []) ]%N /\
     wf_lsmb bytewise kp (cp_v st') = true /\ get_ptr (cp_ptrs st') 1 <> None) /\
  need_compaction rx_sz rx_o rx_st = true /\
  (exists st', auto_loop bytewise rx_sz rx_o rx_bld 16 rx_st = POk st' /\ need_compaction rx_sz rx_o st' = false /\
     map nums_of (cp_v st') = [[]; [4; 5]; [6]]%N /\ resume_write rx_o st' = true).
Proof.
  split; [vm_compute; reflexivity|]. split; [vm_compute; reflexivity|].
  split; [eexists; eexists; split; [vm_compute; reflexivity|vm_compute; repeat split; try reflexivity; discriminate]|].
  split; [vm_compute; reflexivity|]. eexists. split; [vm_compute; reflexivity|]. vm_compute. repeat split; reflexivity.
Qed.

(* REFUTED without the growth hypothesis (found while looking for the measure; reproduced on the real DB, see
   known_findings_C06.txt: flat-level-limits-endless-moves).  FLAT level limits (CompactionTotalSizeMultiplier = 1: every
   level may hold 50 bytes) and ONE table of 100 bytes in level 1: the table's level always scores 2, so every step is
   a trivial move one level down into a level that scores 2 again.  Every other hypothesis of
   C06_auto_compaction_quiesces holds (well-formed, no cSeek, size bound, K = 2 >= levels); the bound of the theorem
   would be K * entries = 4 steps; after 300 steps the loop is still running: fuel 300 is exhausted, the table sits
   in level 301 and needCompaction holds.  (The real DB additionally stops by accident when
   multiplier^level underflows, e.g. after ~1075 moves with multiplier 0.5; with multiplier 1 it never stops.) *)
Definition fx_o : copts :=
  {| o_src_limit := fun _ => 150; o_exp_limit := fun _ => 100000; o_gp_limit := fun _ => 1000;
     o_tot_limit := fun _ => 50%Z; o_l0_trigger := 4%Z; o_l0_pause := 12%Z |}.
Definition fx_st : cpstate :=
  {| cp_v := [ []; [ ex_t 3 [ex_e 0 5; ex_e 2 4] ] ]%N; cp_ptrs := []; cp_seek := None; cp_n := 0 |}.
Fixpoint auto_steps (n : nat) (st : cpstate) : pres cpstate :=
  match n with
  | O => POk st
  | S n' => pdo st' <- auto_step bytewise rx_sz fx_o rx_bld st; auto_steps n' st'
  end.

Example C06_auto_compaction_quiesces_refuted :
  wf_lsmb bytewise kp (cp_v fx_st) = true /\ seek_in fx_st /\ size_bounded rx_sz 50 /\
  (length (cp_v fx_st) <= 2)%nat /\ (2 * elen (concat (cp_v fx_st)) = 4)%nat /\
  ~ limits_exceed fx_o 50 (elen (concat (cp_v fx_st))) 2 /\
  auto_loop bytewise rx_sz fx_o rx_bld 300 fx_st = POutOfFuel /\
  (exists st', auto_steps 300 fx_st = POk st' /\ need_compaction rx_sz fx_o st' = true /\
     length (cp_v st') = 302%nat /\ nums_of (nth 301 (cp_v st') []) = [3]%N /\ cp_n st' = 300%nat).
Proof.
  split; [vm_compute; reflexivity|]. split; [intros l t H; discriminate|].
  split; [intros t; unfold rx_sz; apply N.le_refl|]. split; [vm_compute; repeat constructor|]. split; [vm_compute; reflexivity|].
  split; [intros H; specialize (H 2%nat (le_n 2)); vm_compute in H; discriminate|].
  split; [vm_compute; reflexivity|]. eexists. split; [vm_compute; reflexivity|]. vm_compute. repeat split; reflexivity.
Qed.

(* The same for ALL fuel, and in general: with FLAT level limits (every level may hold lim > 0 bytes) and a size function
   under which no table is lighter than lim, from a well-formed version with an empty level 0, no cSeek and some readable
   key the background loop never stops, whatever fuel it is given.  (Reads are preserved by every step, so a table
   always exists; nothing moves up, so it lives in a level >= 1, which scores >= 1.) *)
Theorem C06_flat_limits_never_idle : forall c, comparer_ok c -> forall p, kparams_ok p -> forall sz o bld ms,
  bld_ok c p sz o bld ms -> (forall j, ms j < keyMaxSeq p) ->
  forall lim, 0 < lim -> (forall l, o_tot_limit o l = Z.of_N lim) -> (forall t, t_entries t <> [] -> lim <= sz t) ->
  forall k0 s0, safe_seq ms s0 -> forall val fuel st,
  restless c p k0 s0 val st -> auto_loop c sz o bld fuel st = POutOfFuel.
Proof. exact flat_limits_never_idle. Qed.
Print Assumptions C06_flat_limits_never_idle.

Example C06_auto_compaction_never_quiesces_refuted :
  forall fuel, auto_loop bytewise rx_sz fx_o rx_bld fuel fx_st = POutOfFuel.
Proof.
  intros fuel.
  apply (C06_flat_limits_never_idle bytewise bytewise_ok kp kp_ok rx_sz fx_o rx_bld (fun _ => 0)
           (simple_bld_ok bytewise bytewise_ok kp rx_sz fx_o (fun _ => 0)) ltac:(intros j; vm_compute; reflexivity)
           50 ltac:(reflexivity) ltac:(intros l; reflexivity)
           ltac:(intros t H; unfold rx_sz; destruct (t_entries t) as [|e r]; [congruence|cbn [length]; rewrite Nat2N.inj_succ; nia])
           [0] 10 ltac:(intros j; vm_compute; discriminate) [] fuel fx_st).
  split; [apply (wf_lsmb_sound bytewise bytewise_ok kp); vm_compute; reflexivity|].
  split; [reflexivity|]. split; [reflexivity|]. vm_compute. reflexivity.
Qed.

(* REFUTED for the code before the repair (found by the KRange correspondence: observed compaction pointers after a
   range compaction differed from the model's whenever MaxManifestFileSize made the commit rotate the manifest): the
   record of a rotating commit dropped rec.compPtrs, so the pointer of the source level did not advance — here: stays
   unset — and the next size-triggered pick of that level starts at tables[0] again instead of behind the last
   compaction (with every commit rotating, the round-robin over the key space never moves). *)
Example C06_comp_ptr_lost_on_manifest_rotation_refuted :
  exists cm st1 st2,
    new_compaction bytewise rx_sz rx_v 1 0 [ex_t 4 [ex_e 4 3; ex_e 6 2]]%N = POk cm /\
    table_compaction bytewise rx_sz rx_o rx_bld rx_st cm false = POk st1 /\
    table_compaction_unrepaired bytewise rx_sz rx_o rx_bld true rx_st cm false = POk st2 /\
    cp_v st2 = cp_v st1 /\ get_ptr (cp_ptrs st1) 1 = Some (c_imax cm) /\ get_ptr (cp_ptrs st2) 1 = None /\
    (* the next size-triggered pick of level 1 (its limit lowered to 50; table 4 was compacted): behind the pointer
       (table 5) vs tables[0] (table 3) *)
    let o2 := {| o_src_limit := o_src_limit rx_o; o_exp_limit := o_exp_limit rx_o; o_gp_limit := o_gp_limit rx_o;
                 o_tot_limit := fun l => match l with 1%nat => 50%Z | _ => 100000%Z end; o_l0_trigger := 4%Z; o_l0_pause := 12%Z |} in
    (exists s1 s2 ty, pick_seed bytewise rx_sz o2 st1 = POk (Some (1%nat, [s1], ty)) /\
                      pick_seed bytewise rx_sz o2 st2 = POk (Some (1%nat, [s2], ty)) /\ t_num s1 = 5%N /\ t_num s2 = 3%N).
Proof.
  eexists. eexists. eexists. split; [vm_compute; reflexivity|]. split; [vm_compute; reflexivity|].
  split; [vm_compute; reflexivity|]. split; [reflexivity|]. split; [vm_compute; reflexivity|]. split; [vm_compute; reflexivity|].
  cbv zeta. eexists. eexists. eexists. split; [vm_compute; reflexivity|]. split; [vm_compute; reflexivity|].
  split; reflexivity.
Qed.
