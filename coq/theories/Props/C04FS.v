(* Props/C04FS.v — property C04, the part that rests on the real file storage: a crash during a manifest switch.
   Property theorems only.

   The checker's storage (harness/lib/vstor) ASSUMES that SetMeta is atomic and durable in order; the real
   fileStorage implements it with several file-system operations (Store/FileStorage.v: [set_meta_ops] — back up a
   usable CURRENT to CURRENT.bak (create/truncate, write, fsync), write CURRENT.<n> (create/truncate, write,
   fsync), rename it over CURRENT, sync the directory).  Crash model ([crash_image]): of the directory operations
   issued since the last directory sync ANY SUBSET survives (each atomic; a rename persists as "the new name
   binds that inode, the old name is gone"); a file keeps its last fsync'ed content or — truncated/created since —
   any prefix of its current content.

   [clean s A A K i0] (Store/FileStorageCrashProofs.v) is the invariant of a settled directory: CURRENT is a
   synced file holding "MANIFEST-<A>\n", no pending directory operation touches CURRENT, the files of K (which
   include MANIFEST-<A>) exist durably and are not being removed, and every pending file CURRENT.<n> that may
   appear in a crash image holds a content GetMeta rejects or reads as a number not above A.  It holds after a
   read-write GetMeta ([C04_getmeta_repair_crash_safe]) and after every completed switch. *)
From Coq Require Import List NArith ZArith Bool.
From GL Require Import Base.Bytes Store.FileStorage Store.FileStorageProofs Store.FileStorageCrashProofs.
Import ListNotations.

(* 1. One switch.  From a settled directory on A, SetMeta(B) for a newer manifest B that exists durably: after ANY
      number k of its file-system operations and with ANY admissible loss of unsynced effects, GetMeta answers A or
      B — never an error, never a third value; once SetMeta has returned, every crash image answers B and the
      directory is settled on B. *)
Theorem C04_setmeta_crash_atomic : forall s A B K i0,
  clean s A A K i0 -> In (gen_name A) K -> In (gen_name B) K ->
  (fd_num A < fd_num B)%Z -> int64_ok (fd_num A) = true -> int64_ok (fd_num B) = true ->
  (forall k v, crash_image (fapply_all s (firstn k (set_meta_ops (vol_view s) B))) v ->
               get_meta_result v = GOk A \/ get_meta_result v = GOk B) /\
  (exists j, clean (set_meta s B) B B K j) /\
  (forall v, crash_image (set_meta s B) v -> get_meta_result v = GOk B).
Proof. exact set_meta_crash_atomic. Qed.
Print Assumptions C04_setmeta_crash_atomic.

(* 2. It stays: every crash image of a settled directory answers A, and the restarted machine (everything that
      survived is durable) is settled on A again — so any number of crashes and restarts changes nothing. *)
Theorem C04_settled_across_crashes : forall s A K i0 v,
  clean s A A K i0 -> In (gen_name A) K -> int64_ok (fd_num A) = true -> crash_image s v ->
  get_meta_result v = GOk A /\ exists i1, clean (fs_of_view v) A A K i1.
Proof. exact settled_across_crashes. Qed.
Print Assumptions C04_settled_across_crashes.

(* 3. A chain of switches with the session's other file operations in between (creating, writing, syncing,
      renaming, removing other files — the current manifest excepted —, directory syncs; a switch is what
      newManifest does: sync the directory, SetMeta(B) for a newer existing B, after which only B has to stay):
      in EVERY state between two file-system operations every crash image answers the manifest before or after
      the switch in progress (the current one outside a switch). *)
Theorem C04_setmeta_chain : forall evs s A K i0,
  clean s A A K i0 -> In (gen_name A) K -> int64_ok (fd_num A) = true -> valid_chain s A K evs ->
  Forall safe (chain_states s A evs).
Proof. exact chain_safe. Qed.
Print Assumptions C04_setmeta_chain.

(* 4. After a crash in the middle of a switch the restarted directory is clean for the window (A, B) or settled
      on B; a read-write GetMeta on such a directory answers A or B, a crash at any point of ITS repair leaves
      a directory that answers A or B, and when it has returned the directory is settled on the answer B, or
      still open on A when the pending file did not validate. *)
Theorem C04_crash_image_restarts_clean : forall s A B K v,
  good s A B K -> (fd_num A <= fd_num B)%Z -> (forall k, In k K -> ~ famc k) -> crash_image s v ->
  (exists i, clean (fs_of_view v) A B K i) \/ (exists i, clean (fs_of_view v) B B K i).
Proof. exact crash_image_restarts_clean. Qed.
Print Assumptions C04_crash_image_restarts_clean.

Theorem C04_getmeta_repair_crash_safe : forall s A B K i0,
  clean s A B K i0 -> In (gen_name A) K -> In (gen_name B) K -> (fd_num A <= fd_num B)%Z ->
  int64_ok (fd_num A) = true -> int64_ok (fd_num B) = true ->
  let r := fst (get_meta_ops false (vol_view s)) in
  let ops := snd (get_meta_ops false (vol_view s)) in
  (forall k v, crash_image (fapply_all s (firstn k ops)) v -> get_meta_result v = GOk A \/ get_meta_result v = GOk B) /\
  ((r = GOk A /\ clean (fapply_all s ops) A B K i0) \/ (r = GOk B /\ exists j, clean (fapply_all s ops) B B K j)).
Proof. exact repair_safe. Qed.
Print Assumptions C04_getmeta_repair_crash_safe.

(* ---------------------------------------------------------------- what does NOT hold *)

(* (a) BEFORE the repair "fix: setMeta backs up CURRENT only when CURRENT is usable": from a directory whose
       CURRENT is torn and whose CURRENT.bak is good (GetMeta answers MANIFEST-000004), GetMeta's own repair
       copied the torn CURRENT over CURRENT.bak first; a crash right after it left a directory on which GetMeta
       fails with ErrCorrupted although the manifest is intact.  Reproduced on the real storage by killing the
       process inside setMeta (harness, fsmodel.go). *)
Theorem C04_repair_from_backup_refuted :
  get_meta_result ex_bak_view = GOk (M 4) /\
  exists k mask sel,
    get_meta_result (image_view mask sel (fapply_all (fs_of_view ex_bak_view) (firstn k (get_meta_ops_old ex_bak_view))))
    = GErr GCorrupted.
Proof. exact repair_from_backup_old_refuted. Qed.
Print Assumptions C04_repair_from_backup_refuted.

(* with the repair, on that directory: all crash states of the repair, enumerated, answer MANIFEST-000004
   (checked by computation on this directory; NOT proved for every directory of that kind) *)
Theorem C04_repair_from_backup_fixed_enumerated :
  let ops := snd (get_meta_ops false ex_bak_view) in
  ops = [OCreate (pend_name 4); OWrite (pend_name 4) (meta_content (M 4)); OFsync (pend_name 4);
         ORename (pend_name 4) s_CURRENT; OSyncDir] /\
  forallb (fun k =>
    forallb (fun mask =>
      forallb (fun sel =>
        match get_meta_result (image_view mask sel (fapply_all (fs_of_view ex_bak_view) (firstn k ops))) with
        | GOk fd => fd_eqb fd (M 4)
        | GErr _ => false
        end) ex_sels) (all_masks 2)) (seq 0 6) = true.
Proof. exact repair_from_backup_fixed_enumerated. Qed.
Print Assumptions C04_repair_from_backup_fixed_enumerated.

(* (b) "once the new manifest was answered it stays": FALSE.  After a crash that left a valid pending file a
       read-only GetMeta answers the new manifest; the next read-write GetMeta rewrites that very file
       (truncate, write, fsync) before renaming it; a crash in between leaves it empty and GetMeta answers the
       old manifest again.  Both manifests are intact and nobody has acted on the answer yet (the read-write
       GetMeta had not returned), so this is within "old or new". *)
Theorem C04_observed_answer_may_revert_refuted :
  get_meta_result ex_pending_view = GOk (M 2) /\
  exists k mask sel,
    get_meta_result (image_view mask sel (fapply_all (fs_of_view ex_pending_view)
                                                   (firstn k (snd (get_meta_ops false ex_pending_view)))))
    = GOk (M 1).
Proof. exact observed_answer_may_revert. Qed.
Print Assumptions C04_observed_answer_may_revert_refuted.

(* (c) WHY a manifest number must never be used again once a SetMeta for it was attempted (repair 901ff3d
       "fix: do not give back the file number of a manifest whose creation failed").  A setMeta that fails after
       writing CURRENT.<n> leaves that pending file (or, after a failed directory sync, CURRENT itself) naming
       MANIFEST-<n>, which newManifest then removes.  The stale pointer is harmless exactly as long as no file of
       that name exists: GetMeta skips it.  Re-creating MANIFEST-<n> (number given back to the allocator) makes
       GetMeta answer the new, still EMPTY, file — the directory is outside the invariant [clean].  The harness
       drives the real session into the failed SetMeta on the real file storage and kills it at every later
       file operation (fsmodel.go, sessionFaultChecks). *)
Theorem C04_manifest_number_reuse_refuted :
  get_meta_result ex_dangling_view = GOk (M 5) /\
  get_meta_result (vapply ex_dangling_view (OCreate (gen_name (M 9)))) = GOk (M 9).
Proof. exact dangling_pending_flips. Qed.
Print Assumptions C04_manifest_number_reuse_refuted.

(* (d) the hypothesis "B is newer than A" is needed: after a completed SetMeta to an OLDER number a stale pending
       file with a number in between wins. *)
Theorem C04_backwards_switch_refuted :
  get_meta_result ex_backwards_view = GOk (M 9) /\
  get_meta_result (vol_view (set_meta (fs_of_view ex_backwards_view) (M 5))) = GOk (M 7).
Proof. exact backwards_switch_refuted. Qed.
Print Assumptions C04_backwards_switch_refuted.

(* ---------------------------------------------------------------- non-vacuity *)

(* a settled directory with a stale CURRENT.bak and a stale pending file, and a valid chain of 8 events on it
   (two switches, table and manifest creation, removal of the old manifest) with 27 crash points *)
Example C04_setmeta_nonvacuous :
  exists i0, clean (fs_of_view ex_settled_view) (M 1) (M 1) [gen_name (M 1)] i0 /\
  valid_chain (fs_of_view ex_settled_view) (M 1) [gen_name (M 1)] ex_chain /\
  List.length (chain_states (fs_of_view ex_settled_view) (M 1) ex_chain) = 27%nat.
Proof. exact ex_chain_valid. Qed.
