(* Props/C17.v — property C17: the shared cache never hands out a dead value and respects its capacity.
   Property theorems only; each is closed by [exact lemma] and followed by Print Assumptions.

   Model: Conc/Cache.v (cache.go + lru.go; the resizable bucket array is abstracted to a finite map).
   Part A: the sequential semantics [step], for EVERY reachable state: any cacher (nil or lru), any
           initial capacity, any finite sequence of Get/Release/Delete/Evict/EvictNS/EvictAll/
           SetCapacity/Close operations, no bound on keys, sizes or length.
   Part B: the interleaved semantics (Conc/CacheLts.v): any number of goroutines, every interleaving of
           atomic actions at lock granularity (the decrement of a reference count and its zero-check are
           separate actions).  Complete for the OPEN cache (all operations except Close); for Close the
           faithful model REFUTES the property (C17_close_race_refuted, reproduced on the implementation),
           so the statements that involve Close are proved for the sequential semantics only and the
           interleaved ones are named _partial.

   Reading guide: [s_log s] is the history of user-visible calls, newest first:
     EvConstruct x v sz  setFunc ran for the node (residency) x and returned value v of charge sz
     EvFinal v forced     v.Release() ran (forced: from Close(true)'s own callFinalizer)
     EvDelReg d x         Delete attached delFunc d to node x;   EvDelRun d   delFunc d ran
   cf v / ccn x / ccv v / cdr d count EvFinal v / EvConstruct x _ _ / EvConstruct _ v _ / EvDelRun d. *)
From GL Require Import Conc.Cache Conc.CacheLemmas Conc.CacheInv Conc.CacheProofs Conc.CacheTheorems.
From GL Require Import Conc.CacheLts Conc.CacheLtsProofs Conc.CacheLtsInv Conc.CacheLtsClose.
From GL Require Import Conc.CacheTable Conc.CacheTableLemmas Conc.CacheTableInv Conc.CacheTableProofs.
From GL Require Import Conc.CacheLocks Conc.CacheLocksProofs.
From GL Require Import Gen.InstC17 Gen.InstC17Ok.
From Coq Require Import Lia Permutation.

(* ================================================================ Part A: sequential semantics *)

(* 1. one_live_value: all outstanding handles on one (ns,key) point to the same node and see the same
      value; that value was constructed exactly once for this residency and is not finalised. *)
Theorem C17_one_live_value : forall s, reachable s -> s_forced s = false ->
  forall h1 h2 n1 n2, handle_node s h1 = Some n1 -> handle_node s h2 = Some n2 -> keyof n1 = keyof n2 ->
    n1 = n2 /\
    exists v, handle_value s h1 = Some v /\ handle_value s h2 = Some v /\
              ccn (n_id n1) (s_log s) = 1%nat /\ ccv v (s_log s) = 1%nat /\ cf v (s_log s) = 0%nat.
Proof. exact one_live_value_seq. Qed.
Print Assumptions C17_one_live_value.

Theorem C17_construct_once : forall s, reachable s ->
  forall x v, (ccn x (s_log s) <= 1)%nat /\ (ccv v (s_log s) <= 1)%nat.
Proof. exact construct_once_seq. Qed.
Print Assumptions C17_construct_once.

Theorem C17_unique_keys : forall s, reachable s -> NoDup (map keyof (s_nodes s)).
Proof. exact unique_keys_seq. Qed.
Print Assumptions C17_unique_keys.

(* 2. finalise_once_after_release *)
Theorem C17_finalise_at_most_once : forall s, reachable s -> forall v, (cf v (s_log s) <= 1)%nat.
Proof. exact finalise_at_most_once_seq. Qed.
Print Assumptions C17_finalise_at_most_once.

Theorem C17_finalise_not_early : forall s, reachable s -> s_forced s = false ->
  forall x v sz, In (EvConstruct x v sz) (s_log s) -> (1 <= cf v (s_log s))%nat ->
    handles_on x (s_handles s) = 0%nat.
Proof. exact finalise_not_early_seq. Qed.
Print Assumptions C17_finalise_not_early.

Theorem C17_finalise_or_live : forall s, reachable s ->
  forall x v sz, In (EvConstruct x v sz) (s_log s) ->
    cf v (s_log s) = 1%nat \/
    (cf v (s_log s) = 0%nat /\ exists n, In n (s_nodes s) /\ n_id n = x /\ n_val n = Some v).
Proof. exact finalise_or_live_seq. Qed.
Print Assumptions C17_finalise_or_live.

Theorem C17_finalise_exactly_once_at_end : forall s, reachable s ->
  s_closed s = true -> s_handles s = [] ->
  forall x v sz, In (EvConstruct x v sz) (s_log s) -> cf v (s_log s) = 1%nat.
Proof. exact finalise_exactly_once_at_end_seq. Qed.
Print Assumptions C17_finalise_exactly_once_at_end.

Theorem C17_open_nodes_pinned : forall s, reachable s -> s_closed s = false ->
  forall n, In n (s_nodes s) -> (0 < handles_on (n_id n) (s_handles s))%nat \/ resident n = true.
Proof. exact open_nodes_pinned_seq. Qed.
Print Assumptions C17_open_nodes_pinned.

(* 3. delfunc_once_not_early *)
Theorem C17_delfunc_at_most_once : forall s, reachable s -> forall d, (cdr d (s_log s) <= 1)%nat.
Proof. exact delfunc_at_most_once_seq. Qed.
Print Assumptions C17_delfunc_at_most_once.

Theorem C17_delfunc_not_early : forall s, reachable s -> s_forced s = false ->
  forall d x, In (EvDelReg d x) (s_log s) -> (1 <= cdr d (s_log s))%nat -> handles_on x (s_handles s) = 0%nat.
Proof. exact delfunc_not_early_seq. Qed.
Print Assumptions C17_delfunc_not_early.

Theorem C17_delfunc_ran_or_pending : forall s, reachable s -> forall d, d < s_next_did s ->
  cdr d (s_log s) = 1%nat \/ (cdr d (s_log s) = 0%nat /\ exists n, In n (s_nodes s) /\ In d (n_dels n)).
Proof. exact delfunc_ran_or_pending_seq. Qed.
Print Assumptions C17_delfunc_ran_or_pending.

Theorem C17_delfunc_exactly_once_at_end : forall s, reachable s ->
  s_closed s = true -> s_handles s = [] -> forall d, d < s_next_did s -> cdr d (s_log s) = 1%nat.
Proof. exact delfunc_exactly_once_at_end_seq. Qed.
Print Assumptions C17_delfunc_exactly_once_at_end.

(* 4. capacity_respected: after every completed operation *)
Theorem C17_capacity_respected : forall s, reachable s ->
  s_used s = used_sum (s_nodes s) /\ (s_used s <= Z.of_N (s_cap s))%Z.
Proof. exact capacity_respected_seq. Qed.
Print Assumptions C17_capacity_respected.

Theorem C17_lru_list_exact : forall s, reachable s ->
  NoDup (s_order s) /\
  forall x, In x (s_order s) <-> exists n, In n (s_nodes s) /\ n_id n = x /\ resident n = true.
Proof. exact lru_list_exact_seq. Qed.
Print Assumptions C17_lru_list_exact.

(* 5. ref_nonneg / census: ref = outstanding handles + (1 if linked in the LRU) *)
Theorem C17_ref_census : forall s, reachable s -> s_forced s = false -> forall n, In n (s_nodes s) ->
  n_ref n = (Z.of_nat (handles_on (n_id n) (s_handles s)) + (if resident n then 1 else 0))%Z /\ (0 <= n_ref n)%Z.
Proof. exact ref_census_seq. Qed.
Print Assumptions C17_ref_census.

Theorem C17_ref_positive_open : forall s, reachable s -> s_closed s = false ->
  forall n, In n (s_nodes s) -> (0 < n_ref n)%Z.
Proof. exact ref_positive_open_seq. Qed.
Print Assumptions C17_ref_positive_open.

(* 6. banned_never_readmitted: a node banned by Delete stays banned and out of the recency list, whatever
      operations follow, for as long as it exists *)
Theorem C17_banned_never_readmitted : forall s, reachable s ->
  forall ops n, In n (s_nodes s) -> n_lru n = LBanned ->
    forall n', In n' (s_nodes (run s ops)) -> n_id n' = n_id n ->
      n_lru n' = LBanned /\ ~ In (n_id n') (s_order (run s ops)) /\ keyof n' = keyof n.
Proof. exact banned_never_readmitted_seq. Qed.
Print Assumptions C17_banned_never_readmitted.

(* 7. none of the Go panics of the modelled code ("BUG: Node.GetHandle on zero ref", "BUG: removing
      removed node", the nil dereference of the eviction loops) is reachable; counters are exact *)
Theorem C17_no_panic : forall s, reachable s -> forall o, snd (step s o) <> RPanic /\ s_panic (fst (step s o)) = false.
Proof. exact no_panic_seq. Qed.
Print Assumptions C17_no_panic.

Theorem C17_stats_exact : forall s, reachable s -> s_closed s = false ->
  s_stat_nodes s = Z.of_nat (length (s_nodes s)) /\ s_stat_size s = size_sum (s_nodes s).
Proof. exact stats_exact_seq. Qed.
Print Assumptions C17_stats_exact.

(* ---- non-vacuity: concrete reachable states exercising the hypotheses *)
Definition ex_ops1 : list op :=
  [OGet 1 7 (SfRet 2 true); OGet 1 7 (SfRet 9 true); OGet 1 8 (SfRet 2 true); ODelete 1 7 true;
   ORelease 0; OGet 1 7 SfNil; ORelease 1; ORelease 3].

(* two handles on (1,7) see the one value 0 (the second setFunc never ran); Delete while they are held
   bans the node and defers delFunc 0; the value is finalised and the delFunc runs exactly when the last
   of the three handles goes; capacity 3 holds only (1,8) *)
Example C17_nonvacuous_live :
  let s := run (init true 3) (firstn 6 ex_ops1) in
  reachable s /\ s_forced s = false /\
  handle_value s 1 = Some 0 /\ handle_value s 3 = Some 0 /\ cf 0 (s_log s) = 0%nat /\
  cdr 0 (s_log s) = 0%nat /\ In (EvDelReg 0 0) (s_log s) /\ s_used s = 2%Z /\ s_order s = [1].
Proof. cbv zeta. split; [exists true, 3, (firstn 6 ex_ops1); reflexivity|]. vm_compute. repeat split; auto. Qed.

Example C17_nonvacuous_final :
  let s := run (init true 3) ex_ops1 in
  cf 0 (s_log s) = 1%nat /\ cdr 0 (s_log s) = 1%nat /\ handles_on 0 (s_handles s) = 0%nat /\
  map (fun e => match e with EvFinal v _ => v + 100 | EvDelRun d => d + 200 | _ => 0 end) (firstn 2 (s_log s)) = [200; 100].
Proof. vm_compute. repeat split; auto. Qed.

(* the force-close exception is real: Close(true) finalises value 0 while handle 0 is outstanding *)
Example C17_nonvacuous_forced :
  let s := run (init true 3) [OGet 1 7 (SfRet 2 true); OClose true] in
  s_forced s = true /\ handles_on 0 (s_handles s) = 1%nat /\ cf 0 (s_log s) = 1%nat.
Proof. vm_compute. repeat split; auto. Qed.

(* eviction by capacity in recency order; a banned node is not re-admitted by a later Get *)
Example C17_nonvacuous_lru :
  let s := run (init true 2) [OGet 0 1 (SfRet 1 true); ORelease 0; OGet 0 2 (SfRet 1 true); ORelease 1;
                              OGet 0 1 SfNil; ORelease 2; OGet 0 3 (SfRet 1 true); ORelease 3] in
  s_order s = [0; 2] /\ cf 1 (s_log s) = 1%nat /\ cf 0 (s_log s) = 0%nat /\ s_used s = 2%Z.
Proof. vm_compute. repeat split; auto. Qed.

(* ================================================================ Part B: interleaved semantics *)

(* B1. The interleaved semantics contains the sequential one: whatever one goroutine can do alone in the
       LTS is exactly [step]; every sequentially reachable state is reachable in the LTS with all
       goroutines idle.  (So the per-run differential validation of [step] against the real cache also
       validates these schedules of the LTS.) *)
Theorem C17_lts_contains_seq : forall s, reachable s ->
  exists L, lreach L /\ l_g L = s /\ all_idle (l_thr L).
Proof. exact seq_reachable_in_lts. Qed.
Print Assumptions C17_lts_contains_seq.

Theorem C17_seq_op_is_a_schedule : forall s o, s_panic (fst (step_raw s o)) = false ->
  exists s1 code rl, start o false s = Some (s1, code, rl) /\ drains s1 code (fst (step_raw s o)).
Proof. exact seq_is_a_schedule. Qed.
Print Assumptions C17_seq_op_is_a_schedule.

(* B2. ALL interleavings of Get / Release / Delete / Evict / EvictNS / EvictAll / SetCapacity / Close(false) by
       any number of goroutines ([lreach_c]: every finite sequence of enabled actions other than the start
       of a force-close; Close(false) is enabled whenever no goroutine holds Cache.mu.RLock).  In particular
       the states of the open cache ([lreach_o], no Close at all) are covered: [lreach_o_c]. *)
Theorem C17_one_live_value_lts_partial : forall L, lreach_c L ->
  forall h1 h2 n1 n2, handle_node (l_g L) h1 = Some n1 -> handle_node (l_g L) h2 = Some n2 -> keyof n1 = keyof n2 ->
    n1 = n2 /\
    exists v, handle_value (l_g L) h1 = Some v /\ handle_value (l_g L) h2 = Some v /\
              ccn (n_id n1) (s_log (l_g L)) = 1%nat /\ ccv v (s_log (l_g L)) = 1%nat /\ cf v (s_log (l_g L)) = 0%nat.
Proof. exact one_live_value_ltc. Qed.
Print Assumptions C17_one_live_value_lts_partial.

Theorem C17_construct_once_lts_partial : forall L, lreach_c L ->
  forall x v, (ccn x (s_log (l_g L)) <= 1)%nat /\ (ccv v (s_log (l_g L)) <= 1)%nat.
Proof. exact construct_once_ltc. Qed.
Print Assumptions C17_construct_once_lts_partial.

Theorem C17_finalise_at_most_once_lts_partial : forall L, lreach_c L -> forall v, (cf v (s_log (l_g L)) <= 1)%nat.
Proof. exact finalise_at_most_once_ltc. Qed.
Print Assumptions C17_finalise_at_most_once_lts_partial.

Theorem C17_finalise_not_early_lts_partial : forall L, lreach_c L ->
  forall x v sz, In (EvConstruct x v sz) (s_log (l_g L)) -> (1 <= cf v (s_log (l_g L)))%nat ->
    handles_on x (s_handles (l_g L)) = 0%nat.
Proof. exact finalise_not_early_ltc. Qed.
Print Assumptions C17_finalise_not_early_lts_partial.

Theorem C17_finalise_or_live_lts_partial : forall L, lreach_c L ->
  forall x v sz, In (EvConstruct x v sz) (s_log (l_g L)) ->
    cf v (s_log (l_g L)) = 1%nat \/
    (cf v (s_log (l_g L)) = 0%nat /\ exists n, In n (s_nodes (l_g L)) /\ n_id n = x /\ n_val n = Some v).
Proof. exact finalise_or_live_ltc. Qed.
Print Assumptions C17_finalise_or_live_lts_partial.

Theorem C17_delfunc_at_most_once_lts_partial : forall L, lreach_c L -> forall d, (cdr d (s_log (l_g L)) <= 1)%nat.
Proof. exact delfunc_at_most_once_ltc. Qed.
Print Assumptions C17_delfunc_at_most_once_lts_partial.

Theorem C17_delfunc_not_early_lts_partial : forall L, lreach_c L ->
  forall d x, In (EvDelReg d x) (s_log (l_g L)) -> (1 <= cdr d (s_log (l_g L)))%nat ->
    handles_on x (s_handles (l_g L)) = 0%nat.
Proof. exact delfunc_not_early_ltc. Qed.
Print Assumptions C17_delfunc_not_early_lts_partial.

Theorem C17_delfunc_ran_or_pending_lts_partial : forall L, lreach_c L -> forall d, d < s_next_did (l_g L) ->
  cdr d (s_log (l_g L)) = 1%nat \/
  (cdr d (s_log (l_g L)) = 0%nat /\ exists n, In n (s_nodes (l_g L)) /\ In d (n_dels n)).
Proof. exact delfunc_ran_or_pending_ltc. Qed.
Print Assumptions C17_delfunc_ran_or_pending_lts_partial.

(* in EVERY reachable state of the LTS, i.e. whenever the lru lock is free — not only between operations *)
Theorem C17_capacity_respected_lts_partial : forall L, lreach_c L ->
  s_used (l_g L) = used_sum (s_nodes (l_g L)) /\ (s_used (l_g L) <= Z.of_N (s_cap (l_g L)))%Z.
Proof. exact capacity_respected_ltc. Qed.
Print Assumptions C17_capacity_respected_lts_partial.

(* ref = outstanding handles + (1 if linked in the LRU) + references held by instructions still to run *)
Theorem C17_ref_census_lts_partial : forall L, lreach_c L -> forall n, In n (s_nodes (l_g L)) ->
  n_ref n = (Z.of_nat (handles_on (n_id n) (s_handles (l_g L))) + (if resident n then 1 else 0)
             + pend_ref (n_id n) (l_thr L))%Z /\ (0 <= n_ref n)%Z.
Proof. exact ref_census_ltc. Qed.
Print Assumptions C17_ref_census_lts_partial.

(* a node whose count is 0 (on the closed cache: and which still has a value or a delFunc) is exactly one
   whose zero-check — Cache.delete's re-check under the bucket lock, or the re-read on the closed path —
   is still to run: no node is leaked and none is finalised without that check *)
Theorem C17_zero_ref_is_pending_lts_partial : forall L, lreach_c L -> forall n, In n (s_nodes (l_g L)) ->
  n_ref n = 0%Z -> (s_closed (l_g L) = false \/ n_val n <> None \/ n_dels n <> []) ->
  zero_pending (l_thr L) (n_id n) = true.
Proof. exact zero_ref_is_pending_ltc. Qed.
Print Assumptions C17_zero_ref_is_pending_lts_partial.

Theorem C17_no_panic_lts_partial : forall L, lreach_c L -> s_panic (l_g L) = false.
Proof. exact no_panic_ltc. Qed.
Print Assumptions C17_no_panic_lts_partial.

Theorem C17_open_states_covered : forall L, lreach_o L -> lreach_c L.
Proof. exact lreach_o_c. Qed.
Print Assumptions C17_open_states_covered.

(* non-vacuity of B2: a reachable interleaving in which goroutine 2's Get revives node 0 between goroutine
   1's decrement to zero and its zero-check; the re-check then leaves the node alone *)
Definition revive_trace : list action :=
  [AStart 1 (OGet 0 0 (SfRet 1 true)); AStep 1; AStep 1; AStart 1 (ORelease 0); AStep 1;
   AStart 2 (OGet 0 0 SfNil); AStep 2; AStep 2; AStep 1].

Example C17_nonvacuous_lts :
  exists L, lrun_o (linit false 0) revive_trace = Some L /\
            lreach_o L /\ handle_value (l_g L) 1 = Some 0 /\ cf 0 (s_log (l_g L)) = 0%nat /\
            zero_pending (l_thr L) 0 = false.
Proof.
  eexists. split; [vm_compute; reflexivity|]. split; [|vm_compute; auto].
  apply (lrun_o_reach revive_trace (linit false 0)); [apply (lo_init false 0)|vm_compute; reflexivity].
Qed.

(* the schedule of the refutation below, under the repaired semantics, is a reachable interleaving WITH a
   Close(false) overlapping a pending zero-check; the revived value stays alive *)
Example C17_nonvacuous_lts_close :
  exists L, lrun_c (linit false 0) close_race_trace = Some L /\ lreach_c L /\ s_closed (l_g L) = true /\
            handle_value (l_g L) 1 = Some 0 /\ cf 0 (s_log (l_g L)) = 0%nat.
Proof.
  eexists. split; [vm_compute; reflexivity|]. split; [|vm_compute; auto].
  apply (lrun_c_reach close_race_trace (linit false 0)); [apply (lc_init false 0)|vm_compute; reflexivity].
Qed.

(* B3. Close.  The faithful model of the code as it was ([exec_old]) REFUTES "finalised only after every
       handle has been released (unless force-closed)" once Close(false) may run while a zero-check is
       pending: unRefExternal, finding the cache closed, called callFinalizer without looking at the count
       again.  The witness was replayed on the implementation (`build/c17 --extra closerace`: tens of
       reproductions per 10^7 trials) and the code repaired (repo commit "fix: cache: finalise once, and
       only at zero references, on a closed cache"); with the repair — modelled in [exec] — the same
       schedule leaves the value alive. *)
Theorem C17_close_race_refuted :
  exists L, lrun_old (linit false 0) close_race_trace = Some L /\
    s_forced (l_g L) = false /\ handles_on 0 (s_handles (l_g L)) = 1%nat /\
    handle_node (l_g L) 1 <> None /\ handle_value (l_g L) 1 = None /\
    In (EvConstruct 0 0 1) (s_log (l_g L)) /\ cf 0 (s_log (l_g L)) = 1%nat.
Proof. exact close_race_refuted. Qed.
Print Assumptions C17_close_race_refuted.

Theorem C17_close_race_repaired :
  exists L, lrun (linit false 0) close_race_trace = Some L /\
    handles_on 0 (s_handles (l_g L)) = 1%nat /\ handle_value (l_g L) 1 = Some 0 /\ cf 0 (s_log (l_g L)) = 0%nat.
Proof. exact close_race_repaired. Qed.
Print Assumptions C17_close_race_repaired.

(* Full statements that remain open for the interleaved semantics:
     the B2 statements for traces that also contain force-close (Close(true)); the model has it as one
       action, and the property itself exempts it from the release ordering;
     forall L, lreach_c L -> s_closed (l_g L) = true -> s_handles (l_g L) = [] -> all_idle (l_thr L) ->
       forall x v sz, In (EvConstruct x v sz) (s_log (l_g L)) -> cf v (s_log (l_g L)) = 1      (exactly once at the end;
       likewise for delFuncs) — proved for the sequential semantics in Part A.
   The overlap of Close(true)'s callFinalizer with a concurrent Release (a value finalised twice on the
   code as it was; reproduced by the same experiment and repaired by the same commit, which makes
   callFinalizer take the value and the delFuncs exactly once under the node lock) is below the LTS's
   granularity (callFinalizer is one action). *)

(* ================================================================ Part C: the node table

   Conc/CacheTable.v is a sequential executable model of the resizable hash table that Parts A and B
   abstract to a finite map: chain of heads (newest first), buckets uninitialised / initialised / frozen,
   lazy split (grow) or merge (shrink) of predecessor buckets by mHead.initBucket, the grow / shrink
   triggers of mBucket.get / delete with the resizeInProgress CAS, enumeration through the newest head.
   One operation at a time; between operations ANY of the background steps of `go nh.initBuckets()`
   (TInit d i: initBucket(i) of the head at depth d; TFinish d: predecessor = nil) may happen, in any order.
   All theorems hold for EVERY hash function [hashf] and every parameter triple with a power-of-two
   initial size ([cache_tp_ok]: the constants read from cache.go qualify).
   [live t] is the list of all nodes of the table: for every bucket of the newest head its own slice if
   it is initialised, otherwise what initBucket would compute from the predecessors. *)

(* C1. for every sequence of get-or-create / delete / enumerate operations interleaved with arbitrary resize
       steps the results are those of a finite map keyed by (ns,key) ([mstep]: Cache.v's find / sorted
       insert / removal; an enumeration returns the same nodes up to order; a background step returns
       nothing); no Go panic of the modelled code, no index out of range, the fuel of initBucket's
       recursion suffices, and no operation ever meets a frozen bucket (no retry of the getBucket loop
       in a sequential run); the nodes of the table are those of the map (none lost, none kept) and
       statNodes counts them. *)
Theorem C17_table_refines_map : forall hashf P, (exists e, tp_init P = 2 ^ e) -> forall ops,
  Forall2 res_match (snd (trun hashf P (tinit P) ops)) (snd (mrun hashf minit ops)) /\
  Forall res_ok (snd (trun hashf P (tinit P) ops)) /\
  Permutation (live (fst (trun hashf P (tinit P) ops))) (km_nodes (fst (mrun hashf minit ops))) /\
  t_nodes (fst (trun hashf P (tinit P) ops)) = Z.of_nat (length (km_nodes (fst (mrun hashf minit ops)))) /\
  t_panic (fst (trun hashf P (tinit P) ops)) = false.
Proof. exact table_refines_map. Qed.
Print Assumptions C17_table_refines_map.

(* C2. no node is duplicated (object identities and keys pairwise different, identities never reused) and
       none is reachable from two buckets *)
Theorem C17_table_nodes_unique : forall hashf P, (exists e, tp_init P = 2 ^ e) -> forall t, treach hashf P t ->
  NoDup (map tn_id (live t)) /\ NoDup (map tkey (live t)) /\
  (forall x, In x (live t) -> tn_id x < t_next t) /\
  forall h rest, t_heads t = h :: rest ->
    forall i j x, i < hlen h -> j < hlen h -> In x (content (t_heads t) i) -> In x (content (t_heads t) j) -> i = j.
Proof. exact table_nodes_unique. Qed.
Print Assumptions C17_table_nodes_unique.

(* C3. once a bucket of the CURRENT head is initialised it is sorted by (ns,key), holds only nodes whose
       hash selects it under the current mask, and holds EVERY node of the table whose hash selects it *)
Theorem C17_table_placement : forall hashf P, (exists e, tp_init P = 2 ^ e) -> forall t, treach hashf P t ->
  forall h rest, t_heads t = h :: rest -> forall i, i < hlen h -> b_state (bget h i) <> BUninit ->
    ssorted (b_nodes (bget h i)) /\
    (forall x, In x (b_nodes (bget h i)) ->
       N.land (tn_hash x) (h_mask h) = i /\ tn_hash x = hashf (tn_ns x) (tn_key x) /\ In x (live t)) /\
    (forall x, In x (live t) -> N.land (tn_hash x) (h_mask h) = i -> In x (b_nodes (bget h i))).
Proof. exact table_placement. Qed.
Print Assumptions C17_table_placement.

(* C4. what any step (operation or background step) does to the heads: at most one new head is put in front
       (k = 1, exactly when GrowCount + ShrinkCount increases by one); every head that was reachable keeps
       its identity, and every FROZEN bucket of it is left exactly as it was (state and slice) *)
Theorem C17_table_frozen_never_modified : forall hashf P, (exists e, tp_init P = 2 ^ e) ->
  forall t o, treach hashf P t -> step_struct t (fst (tstep hashf P t o)).
Proof. exact table_step_struct. Qed.
Print Assumptions C17_table_frozen_never_modified.

(* C5. resizeInProgress: in every reachable table the newest head has the flag clear and no frozen bucket,
       every older head of the chain has it set — so a head starts at most one resize, the chain is
       linear, and its heads are the last resizes (the head at depth d was created by resize number
       GrowCount + ShrinkCount - d); neighbouring heads differ by a factor two.
       NOT true, and not claimed: "no second resize while one is in progress".  resizeInProgress belongs
       to the head that is being REPLACED; the new head starts with a clear flag, so its own threshold can
       fire while its buckets are still being initialised from the predecessor: chains of three and
       more heads are reachable (C17_table_nonvacuous below; observed on the implementation, up to four). *)
Theorem C17_table_resize_flags : forall hashf P, (exists e, tp_init P = 2 ^ e) -> forall t, treach hashf P t ->
  top_ok (t_heads t) /\ ids_ok (t_heads t) (t_ngrow t + t_nshrink t) /\
  (forall h rest, t_heads t = h :: rest -> forall p r, rest = p :: r -> h_pred h = true /\ link h p).
Proof. exact table_resize_flags. Qed.
Print Assumptions C17_table_resize_flags.

(* C6. enumeration through the newest head (every bucket is initialised first) visits every node exactly
       once: the result IS [live t] (bucket order), without repetition; by namespace: exactly the nodes
       of that namespace *)
Theorem C17_table_enum_exact : forall hashf P, (exists e, tp_init P = 2 ^ e) -> forall t, treach hashf P t ->
  snd (tstep hashf P t TEnum) = REnum (map tn_id (live t)) /\ NoDup (map tn_id (live t)) /\
  forall ns, snd (tstep hashf P t (TEnumNS ns)) = REnum (map tn_id (filter (fun x => tn_ns x =? ns) (live t))).
Proof. exact table_enum_exact. Qed.
Print Assumptions C17_table_enum_exact.

(* C7. mHead.initBucket changes the representation only: for any chain satisfying the invariant and any
       fuel >= its length, no panic, the invariant is kept, every head keeps its fields, a frozen bucket
       is untouched and an initialised one keeps its slice ([head_le], [evolves]), the logical contents
       of every bucket are unchanged, the requested bucket is initialised and no bucket of the first
       head becomes frozen *)
Theorem C17_init_bucket_pure : forall hashf fuel h rest i,
  (length (h :: rest) <= fuel)%nat -> chain_ok hashf (h :: rest) -> i < hlen h ->
  exists h' rest', init_bucket fuel (h :: rest) i = (h' :: rest', false) /\
    chain_ok hashf (h' :: rest') /\ head_le h h' /\ evolves rest rest' /\
    (forall i', i' < hlen h -> content (h' :: rest') i' = content (h :: rest) i') /\
    b_state (bget h' i) <> BUninit /\
    (forall i', b_state (bget h' i') = BFrozen -> b_state (bget h i') = BFrozen).
Proof. exact init_ok. Qed.
Print Assumptions C17_init_bucket_pure.

(* C8. hash & mask arithmetic: under the doubled mask a node of bucket j lands in j or j + len; under the
       halved mask the nodes of buckets i and i + len/2 land in i *)
Theorem C17_mask_split : forall x e,
  N.land x (N.ones (e + 1)) = N.land x (N.ones e) \/ N.land x (N.ones (e + 1)) = N.land x (N.ones e) + 2 ^ e.
Proof. exact land_refine. Qed.
Print Assumptions C17_mask_split.

Theorem C17_mask_merge : forall x e, N.land x (N.ones e) = N.land (N.land x (N.ones (e + 1))) (N.ones e).
Proof. exact land_coarsen. Qed.
Print Assumptions C17_mask_merge.

(* the constants of cache.go satisfy the side condition *)
Theorem C17_table_params_ok : exists e, tp_init cache_tp = 2 ^ e.
Proof. exact cache_tp_ok. Qed.
Print Assumptions C17_table_params_ok.

(* ---- non-vacuity: 2 initial buckets, thresholds 1 and 2, identity hash.  Four insertions start two
   grows, the second while NO bucket of the first new head has been initialised by the background
   goroutine (chain of three heads, two of them with resizeInProgress set); a lookup then initialises
   bucket 0 of the newest head through both predecessors (freezing one bucket in each); enumeration
   forces the rest; deletions start two shrinks (chain of four heads); all results are the map's. *)
Definition tbl_hid (ns key : N) : N := key.
Definition tbl_P0 : tparams := mkTP 2 1 2.
Definition tbl_ops0 : list top :=
  [TGet 0 0 false; TGet 0 1 false; TGet 0 2 false; TGet 0 3 false; TGet 0 0 true; TEnum; TInit 1 1; TFinish 1; TEnumNS 0;
   TDel 0 3 true; TDel 0 2 true; TDel 0 1 true; TDel 0 1 false; TGet 0 1 true; TFinish 0; TEnum].

Example C17_table_nonvacuous :
  let t4 := fst (trun tbl_hid tbl_P0 (tinit tbl_P0) (firstn 4 tbl_ops0)) in
  let t5 := fst (trun tbl_hid tbl_P0 (tinit tbl_P0) (firstn 5 tbl_ops0)) in
  let t12 := fst (trun tbl_hid tbl_P0 (tinit tbl_P0) (firstn 12 tbl_ops0)) in
  treach tbl_hid tbl_P0 t5 /\
  map (fun h => (h_mask h, h_resizing h)) (t_heads t4) = [(7, false); (3, true); (1, true)] /\
  map (fun h => map (fun b => bcode (b_state b)) (h_buckets h)) (t_heads t5) =
    [[1; 0; 0; 0; 0; 0; 0; 0]; [2; 0; 1; 1]; [2; 2]] /\
  map tn_id (live t4) = [0; 1; 2; 3] /\ length (t_heads t12) = 4%nat /\ (t_ngrow t12, t_nshrink t12) = (2, 2) /\
  snd (trun tbl_hid tbl_P0 (tinit tbl_P0) tbl_ops0) =
    [RNode 0 true; RNode 1 true; RNode 2 true; RNode 3 true; RNode 0 false; REnum [0; 1; 2; 3]; RBg true; RBg true;
     REnum [0; 1; 2; 3]; RDel true; RDel true; RDel true; RDel false; RNone; RBg false; REnum [0]].
Proof. cbv zeta. split; [exists (firstn 5 tbl_ops0); reflexivity|]. vm_compute. repeat split; reflexivity. Qed.

(* murmur32 as executed by the model, on the constants read from cache.go (compared with the Go
   function on every run by the correspondence check) *)
Example C17_murmur32_values :
  cache_hash 0 0 = 2515361066 /\ cache_hash 1 2 = 2553770548 /\
  cache_hash 18446744073709551615 1311768467463790320 = 518841862.
Proof. vm_compute. repeat split; reflexivity. Qed.

(* ================================================================ Part D: Close and the locks

   Conc/CacheLocks.v puts sync.RWMutex's blocking rules (a writer that has called Lock blocks every later
   RLock; Lock waits for the readers inside) on top of the interleaved semantics of Part B, for the lock
   protocol of the code as found (one lock, re-entered by Handle.Release -> unRefExternal inside
   Get/Delete/Evict/EvictNS/EvictAll) and for the repaired one (repo commit "fix: cache: Close must not
   deadlock with an operation whose cacher step releases a handle": the operations hold opMu,
   unRefExternal takes mu, Close takes opMu and then mu). *)

(* D1. the code as found deadlocks (known finding cache-close-rlock-reentry / cache-close-deadlock-recursive-rlock,
       reproduced on the implementation: 3 deadlocks in 46-131 trials): after the 11-action schedule
       [deadlock_trace] goroutine 1 is inside Get holding the read lock with the release of an evicted lru
       handle next, goroutine 2 has called Close; the nested RLock and Close's Lock are both disabled and
       stay disabled after EVERY continuation by any goroutines *)
Theorem C17_close_deadlock_as_found :
  exists K, krun false (kinit true 1) deadlock_trace = Some K /\ kreach false K /\ dead12 K /\
    forall tr K', krun false K tr = Some K' ->
      dead12 K' /\ kstep false K' (KAct (AStep 1)) = None /\
      forall f, kstep false K' (KAct (AStart 2 (OClose f))) = None.
Proof. exact close_deadlock_old. Qed.
Print Assumptions C17_close_deadlock_as_found.

(* D2. the repaired protocol has no such wait: in EVERY reachable state (any number of goroutines, any
       interleaving, force-close included) a Close that holds opMu finds nobody inside an operation and can
       run its flag section at once; otherwise every goroutine inside an operation or a release can take its
       next step (the nested Handle.Release included); an announced Close gets opMu as soon as nobody is
       inside an operation.  Every wait is for a goroutine that can move: no cycle. *)
Theorem C17_close_repaired_no_wait_cycle : forall K, kreach true K ->
  (forall w, k_w K = Some (w, true) ->
     rlocked_other w (l_thr (k_L K)) = false /\ forall f, kstep true K (KAct (AStart w (OClose f))) <> None) /\
  ((forall w, k_w K <> Some (w, true)) ->
     forall t, t_code (get_thr t (l_thr (k_L K))) <> [] -> kstep true K (KAct (AStep t)) <> None) /\
  (forall w, k_w K = Some (w, false) -> rlocked_other w (l_thr (k_L K)) = false -> kstep true K (KAcq w) <> None).
Proof. exact repaired_no_wait_cycle. Qed.
Print Assumptions C17_close_repaired_no_wait_cycle.

(* D3. the lock layer only restricts the interleaved semantics, for either protocol: its reachable states
       are states of Part B, so the invariants proved there hold for the repaired protocol — restated for
       its reachable states (all operations and Close(false)) *)
Theorem C17_close_repaired_refines_lts : forall two K, kreach_c two K -> lreach_c (k_L K).
Proof. exact kreach_c_lreach_c. Qed.
Print Assumptions C17_close_repaired_refines_lts.

Theorem C17_close_repaired_one_live_value_partial : forall K, kreach_c true K ->
  forall h1 h2 n1 n2, handle_node (l_g (k_L K)) h1 = Some n1 -> handle_node (l_g (k_L K)) h2 = Some n2 -> keyof n1 = keyof n2 ->
    n1 = n2 /\
    exists v, handle_value (l_g (k_L K)) h1 = Some v /\ handle_value (l_g (k_L K)) h2 = Some v /\
              ccn (n_id n1) (s_log (l_g (k_L K))) = 1%nat /\ ccv v (s_log (l_g (k_L K))) = 1%nat /\ cf v (s_log (l_g (k_L K))) = 0%nat.
Proof. exact one_live_value_k. Qed.
Print Assumptions C17_close_repaired_one_live_value_partial.

Theorem C17_close_repaired_finalise_once_after_release_partial : forall K, kreach_c true K ->
  (forall v, (cf v (s_log (l_g (k_L K))) <= 1)%nat) /\
  (forall x v sz, In (EvConstruct x v sz) (s_log (l_g (k_L K))) -> (1 <= cf v (s_log (l_g (k_L K))))%nat ->
     handles_on x (s_handles (l_g (k_L K))) = 0%nat) /\
  (forall x v sz, In (EvConstruct x v sz) (s_log (l_g (k_L K))) ->
     cf v (s_log (l_g (k_L K))) = 1%nat \/
     (cf v (s_log (l_g (k_L K))) = 0%nat /\ exists n, In n (s_nodes (l_g (k_L K))) /\ n_id n = x /\ n_val n = Some v)).
Proof. exact finalise_once_not_early_k. Qed.
Print Assumptions C17_close_repaired_finalise_once_after_release_partial.

Theorem C17_close_repaired_delfunc_once_not_early_partial : forall K, kreach_c true K ->
  (forall d, (cdr d (s_log (l_g (k_L K))) <= 1)%nat) /\
  (forall d x, In (EvDelReg d x) (s_log (l_g (k_L K))) -> (1 <= cdr d (s_log (l_g (k_L K))))%nat ->
     handles_on x (s_handles (l_g (k_L K))) = 0%nat) /\
  (forall d, d < s_next_did (l_g (k_L K)) ->
     cdr d (s_log (l_g (k_L K))) = 1%nat \/
     (cdr d (s_log (l_g (k_L K))) = 0%nat /\ exists n, In n (s_nodes (l_g (k_L K))) /\ In d (n_dels n))).
Proof. exact delfunc_once_not_early_k. Qed.
Print Assumptions C17_close_repaired_delfunc_once_not_early_partial.

Theorem C17_close_repaired_capacity_census_partial : forall K, kreach_c true K ->
  s_used (l_g (k_L K)) = used_sum (s_nodes (l_g (k_L K))) /\ (s_used (l_g (k_L K)) <= Z.of_N (s_cap (l_g (k_L K))))%Z /\
  s_panic (l_g (k_L K)) = false /\
  forall n, In n (s_nodes (l_g (k_L K))) ->
    n_ref n = (Z.of_nat (handles_on (n_id n) (s_handles (l_g (k_L K)))) + (if resident n then 1 else 0)
               + pend_ref (n_id n) (l_thr (k_L K)))%Z /\ (0 <= n_ref n)%Z.
Proof. exact capacity_census_k. Qed.
Print Assumptions C17_close_repaired_capacity_census_partial.

(* non-vacuity of D2/D3: the deadlock schedule continued under the repaired protocol — goroutine 1's nested
   release runs although Close is announced, its Get returns, Close acquires opMu then mu, closes and evicts;
   the last handle is released; everybody idle, both values finalised exactly once *)
Theorem C17_close_deadlock_repaired :
  exists K, krun true (kinit true 1) repaired_trace = Some K /\
    k_w K = None /\ all_idle (l_thr (k_L K)) /\ s_closed (l_g (k_L K)) = true /\ s_handles (l_g (k_L K)) = [] /\
    cf 0 (s_log (l_g (k_L K))) = 1%nat /\ cf 1 (s_log (l_g (k_L K))) = 1%nat.
Proof. exact close_deadlock_repaired. Qed.
Print Assumptions C17_close_deadlock_repaired.
