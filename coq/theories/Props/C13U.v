(* Props/C13U.v — the glue packages under the table writer / reader (property C13): leveldb/util/buffer.go
   (util.Buffer), buffer_pool.go (util.BufferPool), range.go (BytesPrefix), util.go (BasicReleaser).
   Models: Base/UBuffer.v.  Property theorems only: [exact lemma] + Print Assumptions + Examples.

   util.Buffer is modelled with its backing array and b.off as the code has them, because the slices it
   returns are views of that array.  [mx] is the largest length make([]byte, n) accepts (runtime maxAlloc); every
   theorem holds for every mx.

   CALL SITES of util.Buffer in goleveldb (read one by one; the rule each obeys is proved below):
     table/writer.go blockWriter.append     Write x3 (scratch, key tail, value)          queue: appends           [U1]
     table/writer.go blockWriter.finish     Alloc(4), PutUint32 into it at once            fill-at-once            [U6]
     table/writer.go blockWriter.reset      Reset                                          queue                    [U1]
     table/writer.go blockWriter.bytesLen   Len                                            queue                    [U1]
     table/writer.go filterWriter.finish    Len, Alloc(4) + PutUint32 at once, WriteByte   fill-at-once; append-only [U6][U7]
     table/writer.go filterWriter.generate  Len, generator.Generate(&w.buf)                append-only              [U7]
     filter/bloom.go Generate               dest := b.Alloc(nBytes+1); dest[nBytes] = k; dest[i] |= bit
                                            -- ORs into the slice: needs ZERO bytes.  filterWriter.buf is only ever
                                            appended to (never read, truncated or reset), so [U7] applies
     table/writer.go Writer.writeBlock      snappy: Encode(scratch, buf.Bytes()) reads the view before any other call [U3];
                                            else tmp := buf.Alloc(5); tmp[0] = type; b := buf.Bytes(); store the CRC into
                                            b[n:]; writer.Write(b): stores through views with no growing call in between
                                            [U5][U6]; all 5 allocated bytes are overwritten (the data block's buffer is
                                            reset and reused, its Alloc'ed cells are dirty: [U7] does not apply, not needed)
     table/writer.go Writer.Close           dataBlock.buf.Reset(); bpool.Put(dataBlock.buf.Bytes()): after Reset the
                                            view is the array from cell 0 (off = 0), capacity = whole array [U1]; ONE Put:
                                            the repair 239f7b9 keeps a failed writer from being closed twice [P5][P6]
     table/writer.go NewWriter              util.NewBuffer(pool.Get(size)[:0]): dirty cells above len, see writeBlock
     db.go recoverJournal / recoverJournalRO  buf.Reset(); buf.ReadFrom(journal record); decodeBatchToMem(buf.Bytes(), ...):
                                            the view is consumed (memdb.Put copies) before the next Reset / ReadFrom [U3];
                                            the reader's io.EOF is ReadFrom's success [U8]
     journal/journal.go, batch.go           do NOT use util.Buffer (journal.Writer has its own [blockSize]byte array,
                                            Batch its own data slice with its own grow): nothing to check there.
   BufferPool: table/reader.go readRawBlock / readBlock (Get(n) ... Put on every error path and after decompression),
   block.Release / filterBlock.Release (Put(b.data) once: Release latches through BasicReleaser [R1]). *)
From GL Require Import Base.Bytes Base.NIdx Base.UBuffer Base.UBufferProofs Base.UBufferAliasProofs Base.UBufferMiscProofs.
From Coq Require Import ZArith.
Open Scope N_scope.

(* ---------------------------------------------------------------------------------------------- util.Buffer *)

(* U1  buffer_refines_queue.  For every sequence of calls (every call of the API except a caller's own store through
   a held slice) from every well-formed state, the observable contents are those of a plain byte queue: writes
   append, reads consume from the front, Truncate keeps a prefix, Reset empties, Len is the length, Bytes / String
   are the queue; a call panics only as q_spec says (Truncate out of range, negative Alloc / Grow, negative Next,
   a lying writer / reader, bytes.ErrTooLarge) and nothing runs after a panic. *)
Theorem C13U_buffer_refines_queue : forall mx ops s s' rs,
  u_wf s -> Forall queue_op ops -> u_run mx s ops = (s', rs) ->
  u_wf s' /\ q_chain (u_contents s) ops rs (u_contents s').
Proof. exact run_refines. Qed.
Print Assumptions C13U_buffer_refines_queue.

(* U2  bytes.ErrTooLarge is raised only by a request that would take the array beyond maxInt or beyond what make
   accepts: 2*cap + n > maxInt or > mx. *)
Theorem C13U_toolarge_only_when_large : forall mx s o s',
  u_wf s -> u_step mx s o = (s', RPanic PTooLarge) ->
  match o with
  | OReadFrom _ _ => True
  | _ => maxInt < 2 * u_cap s + op_need o \/ mx < 2 * u_cap s + op_need o
  end.
Proof. exact toolarge_needs. Qed.
Print Assumptions C13U_toolarge_only_when_large.

(* U3  buffer_views_valid_until_write, part 1: no call other than the growing calls (Alloc, Grow, Write, WriteByte,
   ReadFrom) stores into any array, so EVERY slice ever returned reads the same bytes after any sequence of Bytes,
   String, Len, Read, Next, ReadByte, ReadBytes, WriteTo, Truncate and Reset. *)
Theorem C13U_views_unchanged_by_reads : forall mx ops s s' rs,
  Forall (fun o => write_op o = false) ops -> u_run mx s ops = (s', rs) ->
  forall v, view_read s' v = view_read s v.
Proof. exact views_unchanged_by_reads. Qed.
Print Assumptions C13U_views_unchanged_by_reads.

(* U4  part 2: an array the buffer has abandoned (it reallocated) is never stored to again by any call of the
   buffer: a slice of it keeps its bytes for ever (it no longer aliases the contents). *)
Theorem C13U_abandoned_arrays_frozen : forall mx s o s' r a,
  (match o with OVWrite _ _ _ => False | _ => True end) ->
  u_step mx s o = (s', r) -> (a < u_aid s)%nat -> u_array s' a = u_array s a.
Proof. exact old_array_frozen. Qed.
Print Assumptions C13U_abandoned_arrays_frozen.

(* U5  part 3, the current array: Alloc / Write / WriteByte that fit the capacity (n <= cap - len, the
   tryGrowByReslice path) store only at or above len(b.buf): a slice lying below len(b.buf) keeps its bytes, and no
   array is abandoned.  This is exactly the guarantee the code gives; growing calls that do not fit may slide the
   contents down over the array's start or reallocate (witnesses below). *)
Theorem C13U_view_survives_fitting_write : forall mx s o s' r a lo n,
  u_wf s ->
  (match o with OAlloc k => (0 <= k)%Z | OWrite _ | OWriteByte _ => True | _ => False end) ->
  op_need o <= u_cap s - u_len s ->
  u_step mx s o = (s', r) ->
  (a < u_aid s)%nat \/ (a = u_aid s /\ lo + n <= u_len s) ->
  view_read s' (a, lo, n) = view_read s (a, lo, n).
Proof. exact view_below_len_survives_reslice. Qed.
Print Assumptions C13U_view_survives_fitting_write.

(* U6  what a returned slice is: it reads back the bytes the call reported; the slice of Bytes is the contents;
   storing n bytes through the slice of Alloc(n) before any other call on the buffer makes them the last n bytes
   of the contents (Alloc + fill = Write). *)
Theorem C13U_returned_view_reads_back : forall mx s o s' v d,
  u_step mx s o = (s', RView v d) -> view_read s' v = d.
Proof. exact returned_view_reads_back. Qed.
Print Assumptions C13U_returned_view_reads_back.

Theorem C13U_bytes_view_is_contents : forall mx s s' v d,
  u_step mx s OBytes = (s', RView v d) -> s' = s /\ d = u_contents s /\ view_read s v = u_contents s.
Proof. exact bytes_view_is_contents. Qed.
Print Assumptions C13U_bytes_view_is_contents.

Theorem C13U_alloc_then_fill_is_write : forall mx s n s1 v d x s2 r2,
  u_wf s -> u_step mx s (OAlloc n) = (s1, RView v d) -> lenN x = Z.to_N n ->
  u_step mx s1 (OVWrite v 0 x) = (s2, r2) ->
  u_wf s2 /\ u_contents s2 = u_contents s ++ x /\ r2 = RNum (lenN x).
Proof. exact alloc_then_fill. Qed.
Print Assumptions C13U_alloc_then_fill_is_write.

(* U7  on a buffer that was only ever appended to (Write, WriteByte, Alloc, Grow; Bytes / String / Len in between)
   starting from the zero value, every slice Alloc returns is all zero — what filter/bloom.go relies on. *)
Theorem C13U_alloc_zero_on_append_only : forall mx ops s s' rs,
  app_inv s -> Forall (fun o => append_op o = true) ops -> u_run mx s ops = (s', rs) ->
  app_inv s' /\ forall n v d, In (OAlloc n, RView v d) (combine ops rs) -> all_zero d.
Proof. exact append_run_alloc_zero. Qed.
Print Assumptions C13U_alloc_zero_on_append_only.

Theorem C13U_zero_value_is_append_only : app_inv u_zero.
Proof. exact app_inv_zero. Qed.
Print Assumptions C13U_zero_value_is_append_only.

(* U8  readfrom_total.  For every reader script: the state stays well formed; with a reader that ends (io.EOF once
   the script is used up) the call returns; the call NEVER reports io.EOF (the reader's io.EOF is the success path);
   with a lawful reader (no negative count, no answer above MinRead, which always fits) the result is
   bytes.ErrTooLarge, or all data up to the first io.EOF / error was appended and n is its length — a read of
   nothing with a nil error is not the end; a reader answering (0, nil) for ever makes the call spin (RDiverge). *)
Theorem C13U_readfrom_total : forall mx s sc tl s' r,
  u_wf s -> u_step mx s (OReadFrom sc tl) = (s', r) ->
  u_wf s'
  /\ (tl = TEof -> r <> RDiverge)
  /\ (forall n d, r <> RNErr n UEOF d)
  /\ (Forall rd_small sc -> Forall rd_nonneg sc ->
      (r = RPanic PTooLarge /\ exists k, u_contents s' = u_contents s ++ concat (map rd_data (firstn k sc)))
      \/ (u_contents s' = u_contents s ++ fst (rf_abs sc tl [])
          /\ (r = RDiverge \/ exists e, e <> UEOF /\ r = RNErr (lenN (fst (rf_abs sc tl []))) e []))).
Proof. exact readfrom_total. Qed.
Print Assumptions C13U_readfrom_total.

Theorem C13U_readfrom_zero_read_is_not_eof : forall tl sc acc,
  rf_abs (Rd [] UNil :: sc) tl acc = rf_abs sc tl acc.
Proof. exact rf_abs_zero_read. Qed.
Print Assumptions C13U_readfrom_zero_read_is_not_eof.

(* ---- non-vacuity and witnesses (mx = 2^48, linux/amd64) *)
Definition mx48 : N := 281474976710656.

(* a run: write, read, a read of nothing, data behind it, EOF *)
Example C13U_ex_queue :
  let '(s, rs) := u_run mx48 u_zero
     [OWrite [1;2;3]; ORead 2; OReadFrom [Rd [7] UNil; Rd [] UNil; Rd [8;9] UEOF] TEof; OLen; OString] in
  rs = [RNErr 3 UNil []; RNErr 2 UNil [1;2]; RNErr 3 UNil []; RNum 4; RData [3;7;8;9]] /\ u_wfb s = true.
Proof. vm_compute. split; reflexivity. Qed.

(* misbehaving readers: a negative count is the code's own panic, a count above len(p) a run-time slice error *)
Example C13U_ex_reader_negative :
  snd (u_step mx48 u_zero (OReadFrom [RdNeg] TEof)) = RPanic PNegRead.
Proof. vm_compute. reflexivity. Qed.
Example C13U_ex_reader_overclaims :
  snd (u_step mx48 (u_new (zeros 600) 0) (OReadFrom [Rd (zeros 601) UNil] TEof)) = RPanic PBounds.
Proof. vm_compute. reflexivity. Qed.
Example C13U_ex_reader_zero_forever :
  snd (u_step mx48 u_zero (OReadFrom [Rd [1] UNil] TZeros)) = RDiverge.
Proof. vm_compute. reflexivity. Qed.

(* the documented panics and the undocumented one (Next with a negative count) *)
Example C13U_ex_panics :
  snd (u_step mx48 (u_new [1;2;3] 3) (OTruncate 4)) = RPanic PTruncate
  /\ snd (u_step mx48 u_zero (OAlloc (-1))) = RPanic PAllocNeg
  /\ snd (u_step mx48 u_zero (OGrow (-1))) = RPanic PGrowNeg
  /\ snd (u_step mx48 (u_new [1;2;3] 3) (ONext (-1))) = RPanic PBounds
  /\ snd (u_step mx48 (u_new [1;2;3] 3) (OGrow 9223372036854775800)) = RPanic PTooLarge
  /\ snd (u_step mx48 (u_new [1;2;3] 3) (OGrow 1125899906842624)) = RPanic PTooLarge.
Proof. vm_compute. repeat split; reflexivity. Qed.

(* U5 is tight: a Write that does not fit slides the contents down over a slice Next returned earlier (the slide
   itself never touches the cells of the CURRENT contents: it needs off > cap/2 and stores below cap/2) ... *)
Example C13U_view_clobbered_by_slide_witness :
  let s0 := u_new [1;2;3;4;5;6;7;8] 8 in
  let '(s1, r1) := u_step mx48 s0 (ONext 6) in
  let '(s2, _) := u_step mx48 s1 (OWrite [9]) in
  r1 = RView (0%nat, 0, 6) [1;2;3;4;5;6] /\ view_read s2 (0%nat, 0, 6) = [7;8;9;4;5;6] /\ u_contents s2 = [7;8;9].
Proof. vm_compute. repeat split; reflexivity. Qed.

(* ... and after Reset the next Write reuses the cells of a slice taken before it *)
Example C13U_view_clobbered_after_reset_witness :
  let s0 := u_new [1;2;3;4] 4 in
  let '(s1, _) := u_step mx48 s0 OReset in
  let '(s2, _) := u_step mx48 s1 (OWrite [9;9]) in
  view_read s0 (0%nat, 0, 4) = [1;2;3;4] /\ view_read s2 (0%nat, 0, 4) = [9;9;3;4].
Proof. vm_compute. repeat split; reflexivity. Qed.

(* a store through the slice of Alloc after a reallocating call is lost: it lands in the abandoned array *)
Example C13U_stale_alloc_view_witness :
  let s0 := u_new [0;0;0;0] 0 in
  let '(s1, _) := u_step mx48 s0 (OAlloc 2) in
  let '(s2, _) := u_step mx48 s1 (OWrite [5;5;5;5;5]) in
  let '(s3, _) := u_step mx48 s2 (OVWrite (0%nat, 0, 2) 0 [7;7]) in
  u_aid s2 = 1%nat /\ u_contents s3 = [0;0;5;5;5;5;5].
Proof. vm_compute. repeat split; reflexivity. Qed.

(* U7 needs "append-only": after a Reset, Alloc hands out the old bytes *)
Example C13U_alloc_dirty_after_reset_witness :
  let '(s1, _) := u_step mx48 u_zero (OWrite [1;2;3]) in
  let '(s2, _) := u_step mx48 s1 OReset in
  snd (u_step mx48 s2 (OAlloc 2)) = RView (0%nat, 0, 2) [1;2].
Proof. vm_compute. reflexivity. Qed.

(* ---------------------------------------------------------------------------------------------- BytesPrefix *)

(* B1  bytes_prefix_correct: BytesPrefix(p) = [p, limit) holds exactly the byte strings with prefix p (membership
   as the iterators test it: Start <= k under bytes.Compare, and k < Limit unless Limit is nil). *)
Theorem C13U_bytes_prefix_correct : forall p k, wf_bytes p -> wf_bytes k ->
  fst (bytes_prefix p) = p /\ in_range (bytes_prefix p) k = is_prefix_of p k.
Proof. exact bytes_prefix_correct. Qed.
Print Assumptions C13U_bytes_prefix_correct.

(* B2  the limit is open (nil) exactly for the prefixes made of 0xff bytes only, the empty one included *)
Theorem C13U_bytes_prefix_open_limit : forall p, wf_bytes p ->
  (snd (bytes_prefix p) = None <-> Forall (fun c => c = 255) p).
Proof. exact bytes_prefix_open_limit. Qed.
Print Assumptions C13U_bytes_prefix_open_limit.

Example C13U_ex_prefix :
  bytes_prefix [102;111;111;45] = ([102;111;111;45], Some [102;111;111;46])
  /\ bytes_prefix [1;255;255] = ([1;255;255], Some [2])
  /\ bytes_prefix [255;255] = ([255;255], None) /\ bytes_prefix [] = ([], None).
Proof. vm_compute. repeat split; reflexivity. Qed.

(* ---------------------------------------------------------------------------------------------- BufferPool *)

(* P1  poolNum is monotone in the size and stays within the six classes *)
Theorem C13U_pool_num_monotone : forall bl n n', n <= n' -> (pool_num bl n <= pool_num bl n')%nat.
Proof. exact pool_num_mono. Qed.
Print Assumptions C13U_pool_num_monotone.

(* P2  the class of n: n fits the class's baseline and exceeds every smaller class's *)
Theorem C13U_pool_num_bound : forall bl n,
  let c := pool_num bl n in
  (c <= length bl)%nat /\ ((c < length bl)%nat -> n <= nth c bl 0) /\ forall i, (i < c)%nat -> nth i bl 0 < n.
Proof. exact pool_num_bound. Qed.
Print Assumptions C13U_pool_num_bound.

(* P3  Get(n) returns length n and capacity >= n, whatever sync.Pool hands back *)
Theorem C13U_pool_get_len_cap : forall p n pick fresh,
  let g := snd (bp_get p n pick fresh) in pg_len g = n /\ n <= pg_cap g.
Proof. exact bp_get_len_cap. Qed.
Print Assumptions C13U_pool_get_len_cap.

(* P4  every pooled slice sits in the class of its capacity (new pool, Put, Get keep it), and a slice Get reuses
   has a capacity of the request's own class *)
Theorem C13U_pool_classes_kept : forall b,
  pool_ok (bp_new b)
  /\ (forall p x, pool_ok p -> pool_ok (bp_put p x))
  /\ (forall p n pick fresh, pool_ok p -> pool_ok (fst (bp_get p n pick fresh))).
Proof. intros b. exact (conj (pool_ok_new b) (conj pool_ok_put pool_ok_get)). Qed.
Print Assumptions C13U_pool_classes_kept.

Theorem C13U_pool_reuse_same_class : forall p n i fresh,
  pool_ok p -> pg_reused (snd (bp_get p n (Some i) fresh)) = true ->
  pool_num (bp_base p) (pg_cap (snd (bp_get p n (Some i) fresh))) = pool_num (bp_base p) n.
Proof. exact bp_get_reused_class. Qed.
Print Assumptions C13U_pool_reuse_same_class.

(* P5  a slice that is in the pool at most once is handed out at most once: two Gets without a Put in between
   never return the same array *)
Theorem C13U_pool_single_put_single_owner : forall p n i fresh n' i' fresh',
  let r := bp_get p n (Some i) fresh in
  let r' := bp_get (fst r) n' (Some i') fresh' in
  (bp_count p (pg_id (snd r)) <= 1)%nat ->
  pg_reused (snd r) = true -> pg_reused (snd r') = true -> pg_id (snd r') <> pg_id (snd r).
Proof. exact bp_get_no_second_owner. Qed.
Print Assumptions C13U_pool_single_put_single_owner.

(* P6  pool_double_put_refuted: nothing in Put detects a second Put of the same slice; two Gets then return the
   same array to two owners (the hazard defect 239f7b9 hit through table.Writer.Close running twice). *)
Example C13U_pool_double_put_refuted :
  let p0 := bp_new 4096 in
  let p2 := bp_put (bp_put p0 (7%nat, 4096)) (7%nat, 4096) in
  let '(p3, g1) := bp_get p2 4000 (Some 0%nat) 100%nat in
  let '(_, g2) := bp_get p3 3000 (Some 0%nat) 101%nat in
  bp_count p2 7%nat = 2%nat /\ pg_id g1 = 7%nat /\ pg_id g2 = 7%nat /\ pg_reused g1 = true /\ pg_reused g2 = true.
Proof. vm_compute. repeat split; reflexivity. Qed.

Example C13U_ex_pool_classes :
  map (pool_num (bp_base (bp_new 4096))) [0; 1024; 1025; 2048; 2049; 4096; 4097; 8192; 8193; 16384; 16385]
  = [0; 0; 1; 1; 2; 2; 3; 3; 4; 4; 5]%nat.
Proof. vm_compute. reflexivity. Qed.

(* ---------------------------------------------------------------------------------------------- BasicReleaser *)

(* R1  Release latches: the attached releaser can be called by the first Release only *)
Theorem C13U_release_latches : forall r,
  let '(r1, res1) := rl_step r RLRelease in
  rl_released r1 = true /\ rl_step r1 RLRelease = (r1, RLUnit false).
Proof. exact rl_release_latches. Qed.
Print Assumptions C13U_release_latches.

Theorem C13U_set_releaser_after_release_panics : forall r nn,
  rl_released r = true -> rl_step r (RLSet nn) = (r, RLPanicReleased).
Proof. exact rl_set_after_release_panics. Qed.
Print Assumptions C13U_set_releaser_after_release_panics.
