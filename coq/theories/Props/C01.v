(* Props/C01.v — property C01: reads return the latest write; the DB behaves as an ordered map.
   Property theorems only.  Structure: (1) read path on a well-formed layout = newest visible entry among
   ALL stored entries; (2) any history of writes, snapshots and admissible reorganisations answers like the
   plain map; (3) the reorganisations the DB performs are admissible; (4) the boolean certificates the
   correspondence check evaluates on the implementation's versions/compactions imply the hypotheses. *)
From GL Require Import Base.Order Codec.IKey Codec.BytesCmp Codec.BytesCmpProofs Lsm.Lsm Lsm.Compact Lsm.LsmProofs
  Lsm.CompactProofs Lsm.History Lsm.HistoryProofs Lsm.ReorgProofs Lsm.WfProofs Lsm.CertProofs Gen.ConstsOk.
From GL Require Import Codec.Table Codec.TableCheck Codec.TblCrc Lsm.ReadPath Lsm.ReadPathMem Lsm.ReadPathProofs
  Gen.Inst Gen.InstTbl Gen.InstMem Gen.BloomInst Gen.ConstsOkMem.
From GL Require Mem.MemDB.

(* (1) DB.get / version.get on any well-formed layout (write buffer, frozen buffer, transaction tables,
   level 0, sorted levels) returns the newest entry of k with seq <= s among all stored entries —
   wherever it sits — for every comparer satisfying the contract. *)
Theorem C01_get_correct : forall c, comparer_ok c -> forall p, kparams_ok p -> forall st k s,
  wf_state c p st -> lsm_get c p st k s = group_res p (newest c k s (all_entries st) None).
Proof. exact get_correct. Qed.
Print Assumptions C01_get_correct.

Theorem C01_get_refines_spec : forall c, comparer_ok c -> forall p, kparams_ok p -> forall st k s,
  wf_state c p st -> api_of (lsm_get c p st k s) = spec_get c p st k s.
Proof. exact get_refines_spec. Qed.
Print Assumptions C01_get_refines_spec.

(* (2) For every finite sequence of writes (Put, Delete, batches, committed transactions), snapshot
   acquisitions/releases and admissible reorganisations, a read at the current sequence number returns
   exactly what the plain map driven by the same writes returns. *)
Theorem C01_get_is_map : forall c, comparer_ok c -> forall p ops k,
  hops_ok c p (h_init) ops ->
  store_get c p (hrun ops) k (h_seq (hrun ops)) = a_get c k (map_of c p ops).
Proof. exact get_is_map. Qed.
Print Assumptions C01_get_is_map.

Theorem C01_history_correct : forall c, comparer_ok c -> forall p ops, hops_ok c p h_init ops ->
  forall k s, protected (hrun ops) s -> store_get c p (hrun ops) k s = hist_get c p (hrun ops) k s.
Proof. intros c _ p. exact (history_correct c p). Qed.
Print Assumptions C01_history_correct.

(* (3a) Rotation, flush, trivial move: the same entries in another place. *)
Theorem C01_rearrangement_ok : forall c, comparer_ok c -> forall p h s',
  uniq_in (h_store h) -> same_elems (h_store h) s' -> reorg_ok c p h s'.
Proof. exact rearrangement_ok. Qed.
Print Assumptions C01_rearrangement_ok.

(* (3b) A table compaction (merge of the inputs, drop rule with minSeq, tombstones removed at base level)
   is admissible provided minSeq is below every protected sequence number and every other stored entry
   with the user key of an input entry is newer than it, or older and then the key is not at base level. *)
Theorem C01_compaction_reorg_ok : forall c, comparer_ok c -> forall p, kparams_ok p ->
  forall minSeq base, (minSeq < keyMaxSeq p)%N -> forall I O,
  kinds_ok p I -> NoDup (map keyseq I) -> uniq_in (I ++ O) ->
  (forall o i, In o O -> In i I -> e_uk o = e_uk i ->
     (e_seq i < e_seq o)%N \/ ((e_seq o < e_seq i)%N /\ base (e_uk i) = false)) ->
  forall h s', same_elems (h_store h) (I ++ O) ->
  same_elems s' (drop_run c p minSeq base None (isort c I) ++ O) ->
  (forall q, protected h q -> (minSeq <= q)%N) ->
  reorg_ok c p h s'.
Proof. exact compaction_reorg_ok. Qed.
Print Assumptions C01_compaction_reorg_ok.

(* (4) The certificates evaluated by the correspondence check on the implementation's dumps. *)
Theorem C01_wf_versionb_sound : forall c, comparer_ok c -> forall p lvls,
  wf_versionb c p lvls = true ->
  wf_state c p {| st_mem := []; st_frozen := []; st_aux := []; st_levels := lvls |}.
Proof. exact wf_versionb_sound. Qed.
Print Assumptions C01_wf_versionb_sound.

Theorem C01_certificate_sound : forall c, comparer_ok c -> forall p, kparams_ok p ->
  forall minSeq deeper I O outs,
  compaction_cert c p minSeq deeper I O outs = true ->
  concat outs = drop_run c p minSeq (is_base c deeper) None (isort c I) ->
  forall k s, (minSeq <= s)%N ->
  History.res p (newest c k s (concat outs ++ O) None) = History.res p (newest c k s (I ++ O) None).
Proof. exact certificate_sound. Qed.
Print Assumptions C01_certificate_sound.

(* Non-vacuity: a three-level layout with overlapping level-0 tables, a tombstone and an overwritten key
   satisfies the certificate, and a history with a snapshot and a no-op reorganisation is admissible. *)
Definition ex_e (k : N) (s kd v : N) : entry := {| e_uk := [k]; e_seq := s; e_kind := kd; e_val := [v] |}.
Definition ex_levels : list (list table) :=
  [ [ {| t_num := 9; t_entries := [ex_e 1 12 1 50; ex_e 3 11 0 0] |};
      {| t_num := 8; t_entries := [ex_e 1 10 1 40; ex_e 2 9 1 41] |} ];
    [ {| t_num := 5; t_entries := [ex_e 1 5 1 30; ex_e 2 6 0 0] |};
      {| t_num := 6; t_entries := [ex_e 3 4 1 31; ex_e 4 7 1 32] |} ];
    [ {| t_num := 2; t_entries := [ex_e 2 1 1 20; ex_e 3 2 1 21] |} ] ].

Example C01_nonvacuous_layout :
  wf_versionb bytewise kp ex_levels = true /\
  api_of (lsm_get bytewise kp {| st_mem := []; st_frozen := []; st_aux := []; st_levels := ex_levels |} [1]%N 12) = Some [50]%N /\
  api_of (lsm_get bytewise kp {| st_mem := []; st_frozen := []; st_aux := []; st_levels := ex_levels |} [3]%N 12) = None /\
  api_of (lsm_get bytewise kp {| st_mem := []; st_frozen := []; st_aux := []; st_levels := ex_levels |} [3]%N 10) = Some [31]%N /\
  api_of (lsm_get bytewise kp {| st_mem := []; st_frozen := []; st_aux := []; st_levels := ex_levels |} [2]%N 8) = None.
Proof. repeat split; vm_compute; reflexivity. Qed.

Example C01_nonvacuous_history :
  hops_ok bytewise kp h_init [HWrite [(1, [7], [1]); (1, [8], [2])]%N; HSnap; HWrite [(0, [7], [])]%N] /\
  a_get bytewise [7]%N (map_of bytewise kp [HWrite [(1, [7], [1]); (1, [8], [2])]%N; HSnap; HWrite [(0, [7], [])]%N]) = None /\
  a_get bytewise [8]%N (map_of bytewise kp [HWrite [(1, [7], [1]); (1, [8], [2])]%N; HSnap; HWrite [(0, [7], [])]%N]) = Some [2]%N.
Proof.
  split; [|split; vm_compute; reflexivity].
  cbn [hops_ok hop_ok]. repeat split; try (repeat constructor; vm_compute; congruence).
Qed.

(* (5) The read path at BYTE level.  Lsm/ReadPath.v db_get_bytes is DB.Get as the code computes it: memGet =
   memdb.Find with the probe key (ukey, seq, keyTypeSeek) on the array-encoded skip list (live, then frozen),
   then version.get: level 0 in slice order among the tables whose recorded [imin.ukey, imax.ukey] contains the
   key, keeping the hit with the largest sequence number; deeper levels by sort.Search on imax and the imin
   test; every table consulted through table.Reader.Find on the BYTES of its file (footer, metaindex, index
   block seek, the filter block asked first about the user key, data block seek, fall through to the next
   block); user-key equality test after each Find; a deletion marker ends the search with ErrNotFound.
   For every comparer satisfying the contract and every well-formed byte state — the memdbs satisfy the
   representation invariant of property C14 and hold stored keys only; every table file passes the executable
   format check of property C13 (table_check) and has decodable keys, the recorded bounds, and a filter that
   does not hide a stored user key; the abstraction (the sorted entry lists of the buffers and tables) is a
   well-formed L1 layout — every read of a real byte-string key at a sequence number <= keyMaxSeq computes
   exactly what the L1 model's lsm_get computes on the abstraction (no panic, no error, fuel suffices). *)
Theorem C01_read_path_refines :
  forall c, comparer_ok c -> forall p, kparams_ok p -> (keyTypeSeek p <= keyTypeVal p)%N ->
  forall mp, MemDB.mparams_ok mp ->
  forall tp crc decompress fname ufc verify ri k s, wf_bytes k -> (s <= keyMaxSeq p)%N ->
  forall st, wf_bstate c p mp tp crc decompress fname ufc verify ri st ->
  db_get_bytes c p mp tp crc decompress fname ufc verify st k s =
  BRes (lsm_get c p (abs c mp tp crc decompress fname ufc verify ri st) k s).
Proof. exact read_path_refines. Qed.
Print Assumptions C01_read_path_refines.

(* ... hence (with (1)) it returns the newest entry of k with seq <= s among all stored entries, wherever it is
   stored: in a memdb, in a level-0 file, in a deeper file. *)
Theorem C01_get_correct_bytes :
  forall c, comparer_ok c -> forall p, kparams_ok p -> (keyTypeSeek p <= keyTypeVal p)%N ->
  forall mp, MemDB.mparams_ok mp ->
  forall tp crc decompress fname ufc verify ri k s, wf_bytes k -> (s <= keyMaxSeq p)%N ->
  forall st, wf_bstate c p mp tp crc decompress fname ufc verify ri st ->
  db_get_bytes c p mp tp crc decompress fname ufc verify st k s =
  BRes (group_res p (newest c k s (all_entries (abs c mp tp crc decompress fname ufc verify ri st)) None)).
Proof. exact get_correct_bytes. Qed.
Print Assumptions C01_get_correct_bytes.

(* ... and the filter setting is invisible: two settings (no filter, another policy, another reading of the
   filter block) under which the state is well-formed answer every read alike. *)
Theorem C01_filter_setting_irrelevant :
  forall c, comparer_ok c -> forall p, kparams_ok p -> (keyTypeSeek p <= keyTypeVal p)%N ->
  forall mp, MemDB.mparams_ok mp ->
  forall tp crc decompress verify ri fname fname' ufc ufc' st k s, wf_bytes k -> (s <= keyMaxSeq p)%N ->
  wf_bstate c p mp tp crc decompress fname ufc verify ri st ->
  wf_bstate c p mp tp crc decompress fname' ufc' verify ri st ->
  db_get_bytes c p mp tp crc decompress fname ufc verify st k s =
  db_get_bytes c p mp tp crc decompress fname' ufc' verify st k s.
Proof. exact filter_setting_irrelevant. Qed.
Print Assumptions C01_filter_setting_irrelevant.

(* ... and against the plain map of (2): when the memdbs and table files hold exactly the stored collection of an
   admissible history, DB.Get computed on the bytes at the history's current sequence number is the plain
   map's answer, and at every protected sequence number the answer judged on everything ever written. *)
Theorem C01_get_is_map_bytes :
  forall c, comparer_ok c -> forall p, kparams_ok p -> (keyTypeSeek p <= keyTypeVal p)%N ->
  forall mp, MemDB.mparams_ok mp ->
  forall tp crc decompress fname ufc verify ri st ops k,
  wf_bstate c p mp tp crc decompress fname ufc verify ri st -> wf_bytes k ->
  hops_ok c p h_init ops -> h_store (hrun ops) = all_entries (abs c mp tp crc decompress fname ufc verify ri st) ->
  (h_seq (hrun ops) <= keyMaxSeq p)%N ->
  bapi (db_get_bytes c p mp tp crc decompress fname ufc verify st k (h_seq (hrun ops))) =
  Some (a_get c k (map_of c p ops)).
Proof. exact get_is_map_bytes. Qed.
Print Assumptions C01_get_is_map_bytes.

Theorem C01_history_correct_bytes :
  forall c, comparer_ok c -> forall p, kparams_ok p -> (keyTypeSeek p <= keyTypeVal p)%N ->
  forall mp, MemDB.mparams_ok mp ->
  forall tp crc decompress fname ufc verify ri st ops k s,
  wf_bstate c p mp tp crc decompress fname ufc verify ri st -> wf_bytes k ->
  hops_ok c p h_init ops -> h_store (hrun ops) = all_entries (abs c mp tp crc decompress fname ufc verify ri st) ->
  protected (hrun ops) s -> (s <= keyMaxSeq p)%N ->
  bapi (db_get_bytes c p mp tp crc decompress fname ufc verify st k s) = Some (hist_get c p (hrun ops) k s).
Proof. exact history_correct_bytes. Qed.
Print Assumptions C01_history_correct_bytes.

(* the boolean certificate the correspondence run evaluates on the abstraction of every dumped byte state *)
Theorem C01_wf_fullb_sound : forall c, comparer_ok c -> forall p st,
  wf_fullb c p st = true -> wf_state c p st.
Proof. exact wf_fullb_sound. Qed.
Print Assumptions C01_wf_fullb_sound.

(* Non-vacuity at byte level: three table files WRITTEN BY GOLEVELDB (NoCompression, block size 40, restart
   interval 2, bloom filter 10 bits per key, FilterBaseLg 5; taken from a DB after: Put b c d f, CompactRange,
   Put c, Delete d, Put e, reopen, Put c g, reopen, Put a, Delete g) — level 0 = files 8 (newest) and 5 with
   overlapping ranges, level 1 = file 4 with two data blocks — and the write buffer built by the memdb
   model's own Put.  The state is well-formed (so the theorems apply to it), with the bloom filter consulted
   (property C16's model) and with no filter configured, and db_get_bytes, evaluated, returns what the
   real DB returned: a from the buffer, c from the newest level-0 file although older values sit in file 5
   and in level 1, b and f from level 1, d hidden by the deletion marker in file 5, g hidden by the marker in
   the buffer, e from file 5; at sequence number 8 (before the second reopen) c is c2 and g is absent; at 4 d
   is d1. *)
From Coq Require Import String.
Definition ex_file8 : tfile := mkTF 8 (unhex "630109000000000000"%string) (unhex "67010a000000000000"%string)
  (unhex "000902630109000000000000633300090267010a00000000000067330000000001000000006b85060f020a0c14504080800600000000090000000500c55eddb500210266696c7465722e6c6576656c64622e4275696c74696e426c6f6f6d46696c746572291200000000010000000053af85db00090267010a000000000000002400000000010000000038479861402e731600000000000000000000000000000000000000000000000000000000000000000000000057fb808b247547db"%string).
Definition ex_file5 : tfile := mkTF 5 (unhex "630105000000000000"%string) (unhex "650107000000000000"%string)
  (unhex "00090263010500000000000063320009006400060000000000000009026501070000000000006532000000001a00000002000000004c075ecc020a0c18e02080000600000000090000000500768ea2f800210266696c7465722e6c6576656c64622e4275696c74696e426c6f6f6d46696c7465723912000000000100000000326a53e60009026501070000000000000034000000000100000000e6f3e89c502e830116000000000000000000000000000000000000000000000000000000000000000000000057fb808b247547db"%string).
Definition ex_file4 : tfile := mkTF 4 (unhex "620101000000000000"%string) (unhex "660104000000000000"%string)
  (unhex "000902620101000000000000623100090263010200000000000063310009026401030000000000006431000000001c000000020000000004f67afd0009026601040000000000006631000000000100000000900df521122a4c9860218200064000010104001040060000000009000000120000000500441ab79300210266696c7465722e6c6576656c64622e4275696c74696e426c6f6f6d46696c746572561f000000000100000000102a39ac00090264010300000000000000360009026601040000000000003b16000000000e00000002000000007f35b5527a2ead0128000000000000000000000000000000000000000000000000000000000000000000000057fb808b247547db"%string).
Definition ex_mem_puts : list (bytes * bytes * N) :=
  [([97; 1; 12; 0; 0; 0; 0; 0; 0], [97; 52], 1); ([103; 0; 13; 0; 0; 0; 0; 0; 0], [], 2)]%N.
Definition ex_bstate : bstate :=
  mkBS (mem_of bytewise mp ex_mem_puts) None [[ex_file8; ex_file5]; [ex_file4]].
Definition ex_fname : option bytes := Some (unhex "6c6576656c64622e4275696c74696e426c6f6f6d46696c746572"%string).
Definition ex_nodec (_ : bytes) : option bytes := None.
Definition ex_get (fname : option bytes) (k : N) (s : N) : option (option bytes) :=
  bapi (db_get_bytes bytewise kp mp tblp tbl_crc ex_nodec fname (bloom_ufc bp (BinInt.Z.of_N 10)) true ex_bstate [k] s).

Lemma ex_mem_keys :
  match mem_of bytewise mp ex_mem_puts with Some d => mem_keys_okb kp mp d | None => false end = true.
Proof. vm_compute. reflexivity. Qed.

Lemma ex_wf fname : (fname = ex_fname \/ fname = None) ->
  wf_bstate bytewise kp mp tblp tbl_crc ex_nodec fname (bloom_ufc bp (BinInt.Z.of_N 10)) true 2 ex_bstate.
Proof.
  intros Hf. constructor.
  - intros d H. split.
    + apply (mem_of_inv bytewise bytewise_ok mp mp_ok ex_mem_puts d); [|exact H].
      apply Forall_cons; [split; vm_compute; congruence|]. apply Forall_cons; [split; vm_compute; congruence|]. apply Forall_nil.
    + cbn [bs_mem ex_bstate] in H. pose proof ex_mem_keys as K. rewrite H in K. exact K.
  - intros d H. discriminate.
  - destruct Hf as [-> | ->];
      (apply Forall_cons; [apply Forall_cons; [vm_compute; reflexivity | apply Forall_cons; [vm_compute; reflexivity | apply Forall_nil]]
                          | apply Forall_cons; [apply Forall_cons; [vm_compute; reflexivity | apply Forall_nil] | apply Forall_nil]]).
  - apply (wf_fullb_sound bytewise bytewise_ok kp). destruct Hf as [-> | ->]; vm_compute; reflexivity.
Qed.

Example C01_bytes_nonvacuous :
  wf_bstate bytewise kp mp tblp tbl_crc ex_nodec ex_fname (bloom_ufc bp (BinInt.Z.of_N 10)) true 2 ex_bstate /\
  wf_bstate bytewise kp mp tblp tbl_crc ex_nodec None (bloom_ufc bp (BinInt.Z.of_N 10)) true 2 ex_bstate /\
  (keyTypeSeek kp <= keyTypeVal kp)%N /\ MemDB.mparams_ok mp /\
  map (fun k => ex_get ex_fname k 13) [97; 98; 99; 100; 101; 102; 103; 104]%N =
    [Some (Some [97; 52]); Some (Some [98; 49]); Some (Some [99; 51]); Some None; Some (Some [101; 50]);
     Some (Some [102; 49]); Some None; Some None]%N /\
  map (fun k => ex_get None k 13) [97; 98; 99; 100; 101; 102; 103; 104]%N =
  map (fun k => ex_get ex_fname k 13) [97; 98; 99; 100; 101; 102; 103; 104]%N /\
  ex_get ex_fname 99 8 = Some (Some [99; 50])%N /\ ex_get ex_fname 103 8 = Some None /\
  ex_get ex_fname 100 4 = Some (Some [100; 49])%N /\ ex_get ex_fname 99 1 = Some None.
Proof.
  split; [apply ex_wf; left; reflexivity|]. split; [apply ex_wf; right; reflexivity|].
  split; [vm_compute; discriminate|]. split; [exact mp_ok|].
  split; [vm_compute; reflexivity|]. split; [vm_compute; reflexivity|]. split; [vm_compute; reflexivity|].
  split; [vm_compute; reflexivity|]. split; vm_compute; reflexivity.
Qed.

(* (6) The WRITE path down to the bytes that reach the journal and the memdb (Codec/Batch.v = leveldb/batch.go
   and the memdb-insertion half of db_write.go / journal recovery: Batch.Put/Delete (appendRec), Dump, Load
   (decodeBatch), Replay, the 12-byte header, writeBatchesWithHeader = the ONE journal record of a merged group,
   Batch.putMem, decodeBatchToMem, the per-record step of recoverJournal).  Go ints are 64-bit with the wrap
   written out; panics, non-termination (fuel) and corruption errors are explicit results (and proved absent
   where the theorems say so). *)
From GL Require Import Codec.Batch Codec.BatchProofs Codec.BatchCutProofs Codec.BatchGroupProofs Lsm.BatchWriteProofs
  Lsm.ReorgProofs Gen.Consts.
From GL Require Mem.MemSpec.

(* the constants the statements below fix, re-proved from the generated ones on every run *)
Example C01_batch_consts : ldb_batchHeaderLen = 12%N /\ keyTypeDel kp = 0%N /\ keyTypeVal kp = 1%N.
Proof. repeat split. Qed.

(* (6a) Load(Dump(b)) rebuilds b — bytes, index array, internalLen — for EVERY record list (empty keys and
   values, any lengths; the only size condition is the one Go's int imposes: the encoding is shorter than
   2^59 bytes, so that internalLen does not wrap), and the records read back are the ones written, a
   deletion carrying no value. *)
Theorem C01_batch_load_dump : forall p, kparams_ok p -> forall recs,
  Forall (rec_ok p) recs -> (lenN (enc_recs p recs) < 2 ^ 59)%N ->
  batch_load p (batch_dump (batch_of p recs)) = DOk (batch_of p recs).
Proof. exact load_dump. Qed.
Print Assumptions C01_batch_load_dump.

Theorem C01_batch_roundtrip : forall p, kparams_ok p -> forall recs,
  Forall (rec_ok p) recs -> (lenN (enc_recs p recs) < 2 ^ 59)%N ->
  exists b, batch_load p (batch_dump (batch_of p recs)) = DOk b /\
            batch_records b = Some (map (norm_rec p) recs) /\
            batch_len b = N.of_nat (length recs).
Proof. exact batch_roundtrip. Qed.
Print Assumptions C01_batch_roundtrip.

(* (6b) The decoder on other bytes (FULL): on ARBITRARY bytes — any byte string a Go slice can hold, len(data) < 2^63
   — Batch.Load returns a batch or a corruption error: it never panics (every index and slice expression of
   decodeBatch is in range) and it always terminates (the fuel len(data)+1 is never exhausted).  This holds for
   the code since fix d912a49 (bounds tests "x > uint64(len(data)-o)"); for the code before it see
   C01_batch_decode_total_refuted below. *)
Theorem C01_batch_decode_total : forall p data, (lenN data < 2 ^ 63)%N ->
  (exists b, batch_load p data = DOk b) \/ (exists e b, batch_load p data = DErr e b).
Proof. exact load_total. Qed.
Print Assumptions C01_batch_decode_total.

(* ... and precisely on a CUT encoding (FULL): the first n bytes of the encoding of a record list decode to
   the records that lie wholly before the cut when the cut falls between two records — a shorter batch, NOT
   an error: the plain encoding carries no count — and otherwise to the error 'invalid key length' (cut
   before the end of the cut record's key) or 'invalid value length' (after it), with the records before it
   already indexed. *)
Theorem C01_batch_decode_prefix : forall p, kparams_ok p -> forall recs n,
  Forall (rec_ok p) recs -> (lenN (enc_recs p recs) < 2 ^ 59)%N ->
  batch_load p (takeN n (enc_recs p recs)) =
  match cut_at p n recs with
  | (done, None) => DOk (mkbatch (takeN n (enc_recs p recs)) (idxs_of p 0 done) (ilen_of p done))
  | (done, Some (r, m)) => DErr (cut_err r m) (mkbatch (takeN n (enc_recs p recs)) (idxs_of p 0 done) (ilen_of p done))
  end.
Proof. exact load_prefix. Qed.
Print Assumptions C01_batch_decode_prefix.

(* The witnesses of the PRE-FIX behaviour (defect batch-load-huge-varint, repaired in /repo by d912a49; the old
   decoder is kept in Codec/Batch.v as decode_loop_old / batch_load_old for this statement only): with the bounds
   tests "o+int(x) > len(data)" totality was false — 11 bytes on which the decoding loop never advanced, for EVERY
   amount of fuel, and inputs on which it indexed with a negative offset — and on the same inputs the decoder as
   it is now returns the corruption error. *)
Theorem C01_batch_decode_total_refuted :
  (forall fuel i b, decode_loop_old kp fuel loop_input decode_cb i 0%Z b = DFuel) /\
  batch_load_old kp loop_input = DFuel /\
  batch_load_old kp [0; 255; 255; 255; 255; 255; 255; 255; 255; 127]%N = DPanic /\
  batch_load_old kp [1; 128; 128; 128; 128; 128; 128; 128; 128; 128; 1]%N = DPanic /\
  (exists b, batch_load kp loop_input = DErr EKeyLen b) /\
  (exists b, batch_load kp [0; 255; 255; 255; 255; 255; 255; 255; 255; 127]%N = DErr EKeyLen b) /\
  (exists b, batch_load kp [1; 128; 128; 128; 128; 128; 128; 128; 128; 128; 1]%N = DErr EKeyLen b).
Proof.
  split; [exact (loop_input_never_ends kp eq_refl)|].
  repeat split; try (vm_compute; reflexivity); eexists; vm_compute; reflexivity.
Qed.
Print Assumptions C01_batch_decode_total_refuted.

(* (6c) The journal record of a merged group: one header with the group's first sequence number and the
   TOTAL count, then the records of every batch in order.  It decodes to exactly that. *)
Theorem C01_group_record_roundtrip : forall p, kparams_ok p -> forall bhl, bhl = 12%N -> forall groups seq,
  Forall (rec_ok p) (concat groups) -> (seq < 2 ^ 64)%N ->
  (N.of_nat (length (concat groups)) < 2 ^ 32)%N -> (lenN (enc_recs p (concat groups)) < 2 ^ 59)%N ->
  let record := group_record (group_of p groups) seq in
  decode_header bhl record = inr (seq, N.of_nat (length (concat groups))) /\
  batch_load p (dropN bhl record) = DOk (batch_of p (concat groups)) /\
  batch_records (batch_of p (concat groups)) = Some (map (norm_rec p) (concat groups)).
Proof. exact group_record_roundtrip. Qed.
Print Assumptions C01_group_record_roundtrip.

(* (6d) Replay = live, for EVERY memdb state (no invariant needed: both paths are the same sequence of
   makeInternalKey + memdb.Put calls): decodeBatchToMem of the group's journal record is rejected with
   'invalid sequence number', the memdb untouched, when the record is older than expected; otherwise it IS
   putMem of the group's batches in order and returns (first seq, total count).  So recovery replays a
   group atomically: all of its records, or an error before the first one. *)
Theorem C01_replay_equals_live : forall p, kparams_ok p -> forall bhl, bhl = 12%N ->
  forall mc mp groups seq expect d hs,
  Forall (rec_ok p) (concat groups) -> (seq < 2 ^ 64)%N ->
  (N.of_nat (length (concat groups)) < 2 ^ 32)%N -> (lenN (enc_recs p (concat groups)) < 2 ^ 59)%N ->
  (seq + N.of_nat (length (concat groups)) <= keyMaxSeq p)%N ->
  decode_to_mem p bhl mc mp (group_record (group_of p groups) seq) expect d hs =
  if (seq <? expect)%N then TmErr ESeq d hs
  else match putmem_group p mc mp (group_of p groups) seq d hs with
       | PmOk d' hs' => TmOk seq (N.of_nat (length (concat groups))) d' hs'
       | PmPanic => TmPanic
       | PmFuel => TmFuel
       end.
Proof. exact replay_equals_live. Qed.
Print Assumptions C01_replay_equals_live.

(* ... the live path's own record, replayed by recoverJournal's step at the old db.seq, rebuilds the live
   path's memdb; db.seq becomes first seq + count, one above the live path's db.seq *)
Theorem C01_write_then_recover : forall p, kparams_ok p -> forall bhl, bhl = 12%N ->
  forall mc mp groups dbseq strict d hs record d' hs' dbseq',
  Forall (rec_ok p) (concat groups) -> (dbseq + 1 < 2 ^ 64)%N ->
  (N.of_nat (length (concat groups)) < 2 ^ 32)%N -> (lenN (enc_recs p (concat groups)) < 2 ^ 59)%N ->
  (dbseq + 1 + N.of_nat (length (concat groups)) <= keyMaxSeq p)%N ->
  write_group p mc mp dbseq (group_of p groups) d hs = WgOk record d' hs' dbseq' ->
  recover_step p bhl mc mp strict record dbseq d hs = RsOk d' hs' (u64 (dbseq' + 1)).
Proof. exact write_then_recover. Qed.
Print Assumptions C01_write_then_recover.

(* (6e) putMem is one HWrite step of the history machine: on a memdb that satisfies C14's representation
   invariant, holds stored keys and nothing newer than db.seq, Batch.putMem at db.seq+1 of a batch built by
   Put/Delete calls succeeds (no panic — sequence numbers stay <= keyMaxSeq —, fuel suffices), keeps the
   invariant, and the memdb's abstraction (the entries of its level-0 chain, as ReadPath's abs reads them)
   is the old abstraction plus exactly the entries (k_i, db.seq+1+i, kind_i, v_i) = stamp db.seq recs, which
   is what hstep (HWrite recs) appends to the store.  Uses C14's put_ok; the skip list is not re-proved. *)
Theorem C01_putmem_is_history_write :
  forall c, comparer_ok c -> forall p, kparams_ok p -> (keyTypeSeek p <= keyTypeVal p)%N ->
  forall mp, MemDB.mparams_ok mp -> forall d recs dbseq hs,
  mem_ok c p mp d -> (forall x, In x (mem_entries mp (Some d)) -> (e_seq x <= dbseq)%N) ->
  Forall (rec_wf p) recs -> (dbseq + N.of_nat (length recs) <= keyMaxSeq p)%N -> heights_okl mp hs ->
  (lenN (enc_recs p recs) < 2 ^ 63)%N ->
  exists d' hs',
    batch_putmem p (ibc c) mp (batch_of p recs) (dbseq + 1) d hs = PmOk d' hs' /\ mem_ok c p mp d' /\ heights_okl mp hs' /\
    (forall x, In x (mem_entries mp (Some d')) <->
               In x (mem_entries mp (Some d)) \/ In x (stamp dbseq (map (norm_rec p) recs))).
Proof. exact putmem_is_history_write. Qed.
Print Assumptions C01_putmem_is_history_write.

(* (6f) ... composed with (5): after a merged group was written — live path (write_group) or replay path
   (recover_step on the record the live path wrote) — the byte state is well-formed again and DB.Get computed
   on the bytes at the new sequence number returns, for every key, what the group's LAST record for that key
   says (its value; not-found for a deletion), and for a key the group does not mention what DB.Get returned
   before the write. *)
Theorem C01_get_after_group_write :
  forall c, comparer_ok c -> forall p, kparams_ok p -> (keyTypeSeek p <= keyTypeVal p)%N ->
  forall mp, MemDB.mparams_ok mp ->
  forall tp crc decompress fname ufc verify ri st d groups dbseq hs k strict,
  wf_bstate c p mp tp crc decompress fname ufc verify ri st -> bs_mem st = Some d ->
  uniq_in (all_entries (abs c mp tp crc decompress fname ufc verify ri st)) ->
  (forall x, In x (all_entries (abs c mp tp crc decompress fname ufc verify ri st)) -> (e_seq x <= dbseq)%N) ->
  Forall (rec_wf p) (concat groups) -> (dbseq + N.of_nat (length (concat groups)) < keyMaxSeq p)%N -> heights_okl mp hs ->
  (N.of_nat (length (concat groups)) < 2 ^ 32)%N -> (lenN (enc_recs p (concat groups)) < 2 ^ 59)%N -> wf_bytes k ->
  exists record d' hs' prev,
    write_group p (ibc c) mp dbseq (group_of p groups) d hs = WgOk record d' hs' (dbseq + N.of_nat (length (concat groups))) /\
    recover_step p 12 (ibc c) mp strict record dbseq d hs = RsOk d' hs' (dbseq + N.of_nat (length (concat groups)) + 1) /\
    wf_bstate c p mp tp crc decompress fname ufc verify ri (with_mem st d') /\
    bapi (db_get_bytes c p mp tp crc decompress fname ufc verify st k dbseq) = Some prev /\
    bapi (db_get_bytes c p mp tp crc decompress fname ufc verify (with_mem st d') k (dbseq + N.of_nat (length (concat groups)))) =
      Some (recs_get p c k (concat groups) prev).
Proof. exact get_after_group_replay. Qed.
Print Assumptions C01_get_after_group_write.

(* Non-vacuity of (6): on the byte state of C01_bytes_nonvacuous (three table files written by goleveldb + a
   memdb), a merged group of two batches — Put a, Delete c | Put h, Put a again — satisfies every hypothesis of
   C01_get_after_group_write at db.seq = 13, and the model, evaluated, writes one journal record with first
   sequence number 14 and count 4 and then answers: a = the second Put, c deleted, h present, b unchanged. *)
Definition ex_d : MemDB.db :=
  match mem_of bytewise mp ex_mem_puts with Some d => d | None => MemDB.mkdb [] [] 1 0%Z 0%Z end.
Definition ex_groups : list (list brec) :=
  [[(1, [97], [1; 1]); (0, [99], [])]; [(1, [104], []); (1, [97], [2])]]%N.
Definition ex_abs : lstate := abs bytewise mp tblp tbl_crc ex_nodec ex_fname (bloom_ufc bp (BinInt.Z.of_N 10)) true 2 ex_bstate.

Example C01_batch_write_nonvacuous :
  bs_mem ex_bstate = Some ex_d /\
  uniq_in (all_entries ex_abs) /\
  (forall x, In x (all_entries ex_abs) -> (e_seq x <= 13)%N) /\
  Forall (rec_wf kp) (concat ex_groups) /\ heights_okl mp [2; 1; 1]%N /\
  match write_group kp (ibc bytewise) mp 13 (group_of kp ex_groups) ex_d [2; 1; 1]%N with
  | WgOk record d' _ s' =>
      decode_header 12 record = inr (14, 4)%N /\ s' = 17%N /\
      map (fun k => bapi (db_get_bytes bytewise kp mp tblp tbl_crc ex_nodec ex_fname (bloom_ufc bp (BinInt.Z.of_N 10)) true
                            (with_mem ex_bstate d') [k] 17)) [97; 98; 99; 104]%N =
      [Some (Some [2]); Some (Some [98; 49]); Some None; Some (Some [])]%N
  | _ => False
  end.
Proof.
  split; [vm_compute; reflexivity|].
  split; [apply CertProofs.uniqb_uniq_in; vm_compute; reflexivity|].
  split.
  { assert (H : forallb (fun x => (e_seq x <=? 13)%N) (all_entries ex_abs) = true) by (vm_compute; reflexivity).
    intros x Hx. rewrite forallb_forall in H. apply N.leb_le. apply H. exact Hx. }
  split; [repeat constructor; vm_compute; auto; intros; discriminate|].
  split; [repeat constructor; vm_compute; congruence|].
  vm_compute. repeat split.
Qed.

(* (6g) The header's sequence numbers stay in the range of an internal key (since the fix "decodeBatchToMem must
   reject a header whose sequence numbers leave the key range": seq > keyMaxSeq || count > keyMaxSeq - seq is
   'invalid sequence number'): an ACCEPTED record has first seq + count <= keyMaxSeq, for arbitrary bytes; hence
   recoverJournal's "db.seq = batchSeq + uint64(batchLen)" never wraps and db.seq stays usable as a key's
   sequence number (C19_recover_seq_above_all uses this instead of a no-wrap hypothesis). *)
Theorem C01_replay_seq_in_range : forall p bhl mc mp data expect d hs sq bl d' hs',
  decode_to_mem p bhl mc mp data expect d hs = TmOk sq bl d' hs' -> (sq + bl <= keyMaxSeq p)%N.
Proof.
  intros p bhl mc mp data expect d hs sq bl d' hs'. unfold decode_to_mem.
  destruct (decode_header bhl data) as [e|[s b]]; [discriminate|].
  destruct (s <? expect)%N; [discriminate|].
  destruct ((keyMaxSeq p <? s) || (keyMaxSeq p - s <? b))%N eqn:E; [discriminate|].
  destruct (decode_loop _ _ _ _ _ _ _) as [st|e st| |]; try discriminate.
  destruct (tm_n st =? BinInt.Z.of_N b)%Z; [|discriminate]. intros H. injection H as <- <- _ _.
  apply Bool.orb_false_iff in E as [E1 E2]. apply N.ltb_ge in E1. apply N.ltb_ge in E2.
  clear - E1 E2. Lia.lia.
Qed.
Print Assumptions C01_replay_seq_in_range.

(* The witnesses of the PRE-FIX behaviour (the old decodeBatchToMem is kept as decode_to_mem_old / recover_step_old
   for this statement only).  The wrap of "batchSeq + uint64(batchLen)" itself was NOT reachable: a record with
   header seq = 2^64-1, count = 1 and one well-formed record made makeInternalKey PANIC (Open crashed) before any
   addition; but the 12-byte record seq = 2^64-1, count = 0 was accepted and set db.seq = 2^64-1, above keyMaxSeq:
   every later Get / Put panicked in makeInternalKey, and db.seq + 1 wrapped to sequence number 0 (both reproduced on
   the real code).  The current decoder reports 'invalid sequence number' on both; non-strict recovery skips the
   record and leaves db.seq alone. *)
Theorem C01_replay_seq_wrap_refuted :
  match MemDB.mdb_new mp with
  | MemDB.Ok d0 =>
      let empty := encode_header 18446744073709551615 0 in
      let one := encode_header 18446744073709551615 1 ++ enc_recs kp [(1, [122], [90])]%N in
      (exists d hs, recover_step_old kp 12 (ibc bytewise) mp true empty 7 d0 [] = RsOk d hs 18446744073709551615%N) /\
      recover_step_old kp 12 (ibc bytewise) mp true one 7 d0 [1]%N = RsPanic /\
      recover_step kp 12 (ibc bytewise) mp true empty 7 d0 [] = RsFail ESeq /\
      recover_step kp 12 (ibc bytewise) mp true one 7 d0 [1]%N = RsFail ESeq /\
      recover_step kp 12 (ibc bytewise) mp false empty 7 d0 [] = RsOk d0 [] 7%N /\
      recover_step kp 12 (ibc bytewise) mp false one 7 d0 [1]%N = RsOk d0 [1]%N 7%N
  | _ => False
  end.
Proof. vm_compute. repeat split; try reflexivity. eexists _, _. reflexivity. Qed.
Print Assumptions C01_replay_seq_wrap_refuted.

(* What (6d) does NOT say, as a witness: a record whose header count exceeds the records of its body (it can
   only reach recovery with a valid checksum) is reported as corrupted AFTER its records were inserted — they
   stay in the memdb, and non-strict recovery continues with them (db.seq untouched). *)
Example C01_replay_damaged_record_leaves_partial_batch :
  match MemDB.mdb_new mp with
  | MemDB.Ok d0 =>
      let record := encode_header 5 3 ++ enc_recs kp [(1, [97], [1]); (0, [98], [])]%N in
      match recover_step kp 12 (ibc bytewise) mp false record 5 d0 [1; 1]%N with
      | RsOk d' _ s' => MemDB.nEnt d' = 2%Z /\ s' = 5%N
      | _ => False
      end /\
      recover_step kp 12 (ibc bytewise) mp true record 5 d0 [1; 1]%N = RsFail (ERecLenMismatch 3 2)
  | _ => False
  end.
Proof. vm_compute. repeat split. Qed.

(* (7) The WRITE side of the LSM tree at BYTE level (Lsm/WritePath.v): the steps that change the byte state of (5) — memdbs as
   C14 model states, table FILES as bytes — composed from the existing models, nothing re-modelled:
     b_write        Batch.putMem into the live memdb                                        (Codec/Batch.v, (6))
     b_rotate       newMem: the live memdb becomes the frozen one, fresh live memdb          (Mem/MemDB.v mdb_new)
     b_flush        memCompaction/flushMemdb: the frozen memdb drained through its ITERATOR (Mem/MemDB.v it_next) into the
                    model table WRITER (Codec/Table.v tw_append/tw_close, property C13) with the session's options and the DB's
                    iComparer (Separator/Successor: Codec/IKey.v isep/isucc, property C15); recorded imin/imax = first/last key
                    (tWriter.first/last); installed at pickMemdbLevel (Lsm/Pick.v) by versionStaging.finish; frozen memdb dropped
     b_compact      tableCompaction: inputs chosen by the Lsm/Pick.v model from any seed at any level, merged iteration over the
                    decoded entries of the input FILES, tableCompactionBuilder (Lsm/Builder.v transact, any failure history) with
                    BytesLen = the model writer's offset, every output chunk written by the model writer, finish
     b_trivial_move tableCompaction's move branch
     b_txn_commit   a committed transaction (also DB.Write of an oversized batch): its memdb flushed into one table that a
                    record committed with trivial = false adds at level 0; enabled only with flushed DB memdbs (OpenTransaction)
   The invariant [bfull] = wf_bstate (5) + the step invariant WfLsm.wf_lsm of property C06 on the abstraction + no two stored
   entries with the same (user key, sequence number).
   Hypotheses stated explicitly everywhere: comparer_ok, the generated constants' side conditions, the codec contract of
   property C13 (decompress (compress x) = Some x, compress x <> [] — needed by C13's writer theorem also for NoCompression, where
   the codec is never called), BlockRestartInterval >= 1, per written table the computable size condition write_sizes_ok
   (C13's table_sizes_ok and the file below 2^32 bytes), fresh file numbers, sequence numbers below keyMaxSeq, and for a
   configured filter policy the no-false-negative condition of property C16 on each written file ([table_filter_ok]: a
   boolean on the file, evaluated by the correspondence run on every table of every dumped state; with no policy —
   goleveldb's default — it holds outright; it is NOT proved for the model's bloom filter writer). *)
From GL Require Import Base.Cursor Codec.TableSizes Lsm.Pick Lsm.WfLsm Lsm.C06Steps Lsm.Builder Lsm.BuilderCuts Lsm.WritePath
  Lsm.WritePathTable Lsm.WritePathSteps Lsm.WritePathTheorems Lsm.WritePathTxn Lsm.WritePathHistory.

(* (7a) "The table writer produces files that pass tfile_okb", for the MODEL writer: for every strictly increasing non-empty list
   of stored internal keys (decodable, kind value or deletion), either compression setting, the file table_bytes returns
   passes the byte-level format check of the read path with recorded bounds = first and last key, and Codec/TableCheck.v
   table_check decodes it to exactly the pairs written. *)
Theorem C01_writer_output_ok :
  forall c, comparer_ok c -> forall p, kparams_ok p -> forall tp, tparams_ok tp ->
  forall crc, (forall b, (crc b < 2 ^ 32)%N) ->
  forall compress decompress, (forall x, decompress (compress x) = Some x) -> (forall x, compress x <> []) ->
  forall fname ufc verify o, (1 <= wo_ri o)%N -> forall num kvs data,
  Cursor.sorted (ibc c) kvs -> kvs <> [] -> Forall (fun kv => key_okb p (fst kv) = true) kvs ->
  table_bytes c p tp crc compress o kvs = Some data -> write_sizes_ok c p tp crc compress o kvs = true ->
  (wo_filter o = None \/
   filter_part c tp crc decompress fname ufc verify (mkTF num (key_first kvs) (key_last kvs) data) = true) ->
  tfile_okb c p tp crc decompress fname ufc verify (wo_ri o) (mkTF num (key_first kvs) (key_last kvs) data) = true /\
  tf_pairs c tp crc decompress fname ufc verify (wo_ri o) (mkTF num (key_first kvs) (key_last kvs) data) = kvs /\
  table_check (ibc c) (tf_reader c tp crc decompress fname ufc verify (mkTF num (key_first kvs) (key_last kvs) data)) (wo_ri o) = Some kvs.
Proof. exact writer_output_ok. Qed.
Print Assumptions C01_writer_output_ok.

(* ... the memdb iterator feeds the writer exactly the pairs the read path's abstraction reads (C14's iterator refinement) *)
Theorem C01_memdb_iterator_yields_pairs :
  forall c, comparer_ok c -> forall p, (keyTypeSeek p <= keyTypeVal p)%N -> forall mp, MemDB.mparams_ok mp ->
  forall d, mem_ok c p mp d -> mem_iter_all c mp d = Some (mem_pairs mp d).
Proof. exact WritePathMem.mem_iter_pairs. Qed.
Print Assumptions C01_memdb_iterator_yields_pairs.

(* (7b) Rotation. *)
Theorem C01_rotate_step_bytes :
  forall c, comparer_ok c -> forall p, kparams_ok p -> (keyTypeSeek p <= keyTypeVal p)%N ->
  forall mp, MemDB.mparams_ok mp -> forall tp crc decompress fname ufc verify o, (1 <= wo_ri o)%N ->
  forall st d, bfull c p mp tp crc decompress fname ufc verify o st -> bs_mem st = Some d -> bs_frozen st = None ->
  let A := abs c mp tp crc decompress fname ufc verify (wo_ri o) in
  exists st', b_rotate mp st = Some st' /\ bfull c p mp tp crc decompress fname ufc verify o st' /\
    st_mem (A st') = [] /\ st_frozen (A st') = st_mem (A st) /\ st_levels (A st') = st_levels (A st) /\
    all_entries (A st') = all_entries (A st) /\
    forall k s, wf_bytes k -> (s <= keyMaxSeq p)%N ->
      db_get_bytes c p mp tp crc decompress fname ufc verify st' k s = db_get_bytes c p mp tp crc decompress fname ufc verify st k s.
Proof. exact rotate_bytes. Qed.
Print Assumptions C01_rotate_step_bytes.

(* (7c) Flush: wf_bstate (inside bfull) is preserved; the abstraction of the new state is the L1 flush step of the old one — the
   frozen memdb's entries are now the table the model writer wrote, installed by finish at the level pickMemdbLevel chooses —
   the stored entries are the same, and every read at every sequence number returns what it returned before. *)
Theorem C01_flush_step_bytes :
  forall c, comparer_ok c -> forall p, kparams_ok p -> (keyTypeSeek p <= keyTypeVal p)%N ->
  forall mp, MemDB.mparams_ok mp -> forall tp, tparams_ok tp -> forall crc, (forall b, (crc b < 2 ^ 32)%N) ->
  forall compress decompress, (forall x, decompress (compress x) = Some x) -> (forall x, compress x <> []) ->
  forall fname ufc verify o, (1 <= wo_ri o)%N ->
  forall st d num, bfull c p mp tp crc decompress fname ufc verify o st -> bs_frozen st = Some d ->
  let A := abs c mp tp crc decompress fname ufc verify (wo_ri o) in
  (forall f, In f (files_of st) -> tf_num f <> num) ->
  (forall x, In x (all_entries (A st)) -> (e_seq x <= keyMaxSeq p)%N) ->
  (mem_pairs mp d <> [] -> write_sizes_ok c p tp crc compress o (mem_pairs mp d) = true) ->
  table_filter_ok c p tp crc compress decompress fname ufc verify o (mem_pairs mp d) ->
  exists st', b_flush c p mp tp crc compress decompress fname ufc verify o num st = Some st' /\
    bfull c p mp tp crc decompress fname ufc verify o st' /\
    st_mem (A st') = st_mem (A st) /\ st_frozen (A st') = [] /\
    (mem_pairs mp d = [] -> st_levels (A st') = st_levels (A st)) /\
    (mem_pairs mp d <> [] ->
       finish c true (st_levels (A st))
              (flush_edit c p (file_size (files_of st)) (st_levels (A st)) (wo_gpOverlaps o) (wo_memMaxLevel o)
                          {| t_num := num; t_entries := st_frozen (A st) |}) = POk (st_levels (A st')) /\
       exists f, write_table c p tp crc compress o num (mem_pairs mp d) = Some f /\
                 tfile_okb c p tp crc decompress fname ufc verify (wo_ri o) f = true /\
                 abs_table c tp crc decompress fname ufc verify (wo_ri o) f = {| t_num := num; t_entries := st_frozen (A st) |} /\
                 In f (files_of st')) /\
    same_elems (all_entries (A st)) (all_entries (A st')) /\
    forall k s, wf_bytes k -> (s <= keyMaxSeq p)%N ->
      db_get_bytes c p mp tp crc decompress fname ufc verify st' k s = db_get_bytes c p mp tp crc decompress fname ufc verify st k s.
Proof. exact flush_bytes. Qed.
Print Assumptions C01_flush_step_bytes.

(* (7d) Trivial move. *)
Theorem C01_trivial_move_step_bytes :
  forall c, comparer_ok c -> forall p, kparams_ok p -> (keyTypeSeek p <= keyTypeVal p)%N ->
  forall mp, MemDB.mparams_ok mp -> forall tp crc decompress fname ufc verify o, (1 <= wo_ri o)%N ->
  forall st lvl seed, bfull c p mp tp crc decompress fname ufc verify o st ->
  let A := abs c mp tp crc decompress fname ufc verify (wo_ri o) in
  seed_tables (st_levels (A st)) lvl seed <> [] ->
  exists cm, new_compaction c (file_size (files_of st)) (st_levels (A st)) lvl (wo_expandLimit o lvl)
                            (seed_tables (st_levels (A st)) lvl seed) = POk cm /\
    (trivial (file_size (files_of st)) cm (wo_gpOverlaps o lvl) = true ->
     exists st', b_trivial_move c tp crc decompress fname ufc verify o lvl seed st = Some st' /\
       bfull c p mp tp crc decompress fname ufc verify o st' /\
       st_mem (A st') = st_mem (A st) /\ st_frozen (A st') = st_frozen (A st) /\
       finish c true (st_levels (A st)) (move_edit cm) = POk (st_levels (A st')) /\
       same_elems (all_entries (A st)) (all_entries (A st')) /\
       forall k s, wf_bytes k -> (s <= keyMaxSeq p)%N ->
         db_get_bytes c p mp tp crc decompress fname ufc verify st' k s = db_get_bytes c p mp tp crc decompress fname ufc verify st k s).
Proof. exact move_bytes. Qed.
Print Assumptions C01_trivial_move_step_bytes.

(* (7e) Table compaction, for every level, every seed the picker might choose, every failure history [os] of compactionTransact
   that ends normally, with the drop rule at minSeq: wf_bstate preserved; the abstraction of the new state is the L1
   compaction step (finish of compaction_edit with the builder's tables, which are outputs in the sense of property C06:
   cuts only between different user keys, concatenation = the kept merged entries); nothing new is stored; every read at every
   sequence number >= minSeq — that is, at db.seq and at every live snapshot when minSeq = db.minSeq() — returns the value it
   returned before. *)
Theorem C01_compaction_step_bytes :
  forall c, comparer_ok c -> forall p, kparams_ok p -> (keyTypeSeek p <= keyTypeVal p)%N ->
  forall mp, MemDB.mparams_ok mp -> forall tp, tparams_ok tp -> forall crc, (forall b, (crc b < 2 ^ 32)%N) ->
  forall compress decompress, (forall x, decompress (compress x) = Some x) -> (forall x, compress x <> []) ->
  forall fname ufc verify o, (1 <= wo_ri o)%N ->
  forall st lvl seed os nums minSeq, bfull c p mp tp crc decompress fname ufc verify o st ->
  let A := abs c mp tp crc decompress fname ufc verify (wo_ri o) in
  seed_tables (st_levels (A st)) lvl seed <> [] -> (minSeq < keyMaxSeq p)%N ->
  NoDup nums -> (forall n f, In n nums -> In f (files_of st) -> tf_num f <> n) ->
  exists cm, new_compaction c (file_size (files_of st)) (st_levels (A st)) lvl (wo_expandLimit o lvl)
                            (seed_tables (st_levels (A st)) lvl seed) = POk cm /\
    forall s',
      let deeper := skipn (lvl + 2) (st_levels (A st)) in
      transact c p (file_size (files_of st)) (c_gp cm) (wo_gpOverlaps o lvl) deeper minSeq (wo_strict o) (wo_tableSize o (S lvl))
               (bytes_len c p tp crc compress o) os (map IGood (merge_inputs c (c_t0 cm ++ c_t1 cm))) (bst0 deeper) = (s', TDone) ->
      length nums = length (fin s') ->
      Forall (fun ch => write_sizes_ok c p tp crc compress o (chunk_kvs ch) = true /\
                        table_filter_ok c p tp crc compress decompress fname ufc verify o (chunk_kvs ch)) (fin s') ->
      exists st', b_compact c p tp crc compress decompress fname ufc verify o lvl seed os nums minSeq st = Some st' /\
        bfull c p mp tp crc decompress fname ufc verify o st' /\
        st_mem (A st') = st_mem (A st) /\ st_frozen (A st') = st_frozen (A st) /\
        outputs_of c p cm minSeq deeper (fin s') /\
        finish c true (st_levels (A st)) (compaction_edit cm (mk_outputs nums (fin s'))) = POk (st_levels (A st')) /\
        (forall x, In x (all_entries (A st')) -> In x (all_entries (A st))) /\
        forall k s, wf_bytes k -> (minSeq <= s)%N -> (s <= keyMaxSeq p)%N ->
          bapi (db_get_bytes c p mp tp crc decompress fname ufc verify st' k s) =
          bapi (db_get_bytes c p mp tp crc decompress fname ufc verify st k s).
Proof. exact compact_bytes. Qed.
Print Assumptions C01_compaction_step_bytes.

(* (7e') A committed transaction.  L1 part (the case property C06 left to the correspondence check): installing ONE level-0
   table that is well-formed, under an unused number and newer than every stored entry of its user keys, by a record
   committed with trivial = false, keeps the step invariant; level 0 is a permutation of the old level 0 plus the table. *)
Theorem C01_txn_install_step : forall c p v t, wf_lsm c p v -> PickBase.tbl_ok c p t -> uniq (t_entries t) ->
  (forall i x y, In x (t_entries t) -> In y (LE (lv v i)) -> e_uk x = e_uk y -> (e_seq y < e_seq x)%N) ->
  (forall i s, In s (lv v i) -> t_num s <> t_num t) ->
  exists nv, finish c false v (txn_edit t) = POk nv /\ wf_lsm c p nv /\
    Permutation.Permutation (lv nv 0) (t :: lv v 0) /\ forall l, (0 < l)%nat -> lv nv l = lv v l.
Proof. exact txn_install. Qed.
Print Assumptions C01_txn_install_step.

(* ... and the byte-level step: bfull kept, the stored entries are the old ones plus exactly the stamped records. *)
Theorem C01_txn_step_bytes :
  forall c, comparer_ok c -> forall p, kparams_ok p -> (keyTypeSeek p <= keyTypeVal p)%N ->
  forall mp, MemDB.mparams_ok mp -> forall tp, tparams_ok tp -> forall crc, (forall b, (crc b < 2 ^ 32)%N) ->
  forall compress decompress, (forall x, decompress (compress x) = Some x) -> (forall x, compress x <> []) ->
  forall fname ufc verify o, (1 <= wo_ri o)%N ->
  forall st recs hs num seq, bfull c p mp tp crc decompress fname ufc verify o st ->
  let A := abs c mp tp crc decompress fname ufc verify (wo_ri o) in
  bs_frozen st = None -> mem_is_empty c mp (bs_mem st) = true ->
  (forall x, In x (all_entries (A st)) -> (e_seq x <= seq)%N) ->
  Forall (rec_wf p) recs -> (seq + N.of_nat (length recs) <= keyMaxSeq p)%N -> heights_okl mp hs ->
  (lenN (enc_recs p recs) < 2 ^ 63)%N ->
  (forall f, In f (files_of st) -> tf_num f <> num) ->
  (forall d0 d' hs', MemDB.mdb_new mp = MemDB.Ok d0 ->
     batch_putmem p (ibc c) mp (batch_of p recs) (seq + 1) d0 hs = PmOk d' hs' -> mem_pairs mp d' <> [] ->
     write_sizes_ok c p tp crc compress o (mem_pairs mp d') = true /\
     table_filter_ok c p tp crc compress decompress fname ufc verify o (mem_pairs mp d')) ->
  exists st', b_txn_commit c p mp tp crc compress decompress fname ufc verify o recs hs num seq st = Some st' /\
    bfull c p mp tp crc decompress fname ufc verify o st' /\ bs_mem st' = bs_mem st /\ bs_frozen st' = None /\
    same_elems (all_entries (A st) ++ stamp seq (map (norm_rec p) recs)) (all_entries (A st')).
Proof. exact txn_step. Qed.
Print Assumptions C01_txn_step_bytes.

Theorem C01_bfull_is_wf_bstate :
  forall c p mp tp crc decompress fname ufc verify o st, bfull c p mp tp crc decompress fname ufc verify o st ->
  wf_bstate c p mp tp crc decompress fname ufc verify (wo_ri o) st.
Proof. exact bfull_wf. Qed.
Print Assumptions C01_bfull_is_wf_bstate.

(* (7f) THE CAPSTONE.  For every finite sequence of byte-level steps from the empty DB — writes of batches, rotations, flushes,
   table compactions with any picker choice / seed / failure history, trivial moves, committed transactions, snapshot
   acquisitions and releases —
   that the model executes (brun = Some: each step is enabled, e.g. a flush has a frozen memdb to flush) and whose side
   conditions hold (bops_ok: records well-formed, db.seq stays below keyMaxSeq, heights as randHeight draws them, fresh file
   numbers, the size condition and — when a filter policy is configured — the filter condition of every table written), the
   byte state is well-formed and DB.Get computed on the BYTES at
   db.seq returns, for every key, what the plain map driven by the written batches returns; and a read at the sequence
   number of a snapshot that is still live returns what the plain map returned at the instant the snapshot was taken. *)
Theorem C01_history_bytes :
  forall c, comparer_ok c -> forall p, kparams_ok p -> (keyTypeSeek p <= keyTypeVal p)%N ->
  forall mp, MemDB.mparams_ok mp -> forall tp, tparams_ok tp -> forall crc, (forall b, (crc b < 2 ^ 32)%N) ->
  forall compress decompress, (forall x, decompress (compress x) = Some x) -> (forall x, compress x <> []) ->
  forall fname ufc verify o, (1 <= wo_ri o)%N ->
  forall ops w0 w, w_init mp = Some w0 ->
  brun c p mp tp crc compress decompress fname ufc verify o w0 ops = Some w ->
  bops_ok c p mp tp crc compress decompress fname ufc verify o w0 ops ->
  wf_bstate c p mp tp crc decompress fname ufc verify (wo_ri o) (ws_bs w) /\
  (forall k, wf_bytes k ->
     bapi (db_get_bytes c p mp tp crc decompress fname ufc verify (ws_bs w) k (ws_seq w)) = Some (a_get c k (wmap c p ops))) /\
  (forall ops1 ops2 w1 k, ops = ops1 ++ ops2 ->
     brun c p mp tp crc compress decompress fname ufc verify o w0 ops1 = Some w1 -> In (ws_seq w1) (ws_snaps w) -> wf_bytes k ->
     bapi (db_get_bytes c p mp tp crc decompress fname ufc verify (ws_bs w) k (ws_seq w1)) = Some (a_get c k (wmap c p ops1))).
Proof. exact history_bytes. Qed.
Print Assumptions C01_history_bytes.

(* Non-vacuity of (7): a codec that satisfies the contract, options with NoCompression and no filter policy (block size 16,
   restart interval 2, table size 30 so that the compaction cuts), and a run of ten steps from the empty DB — a batch of three
   Puts, rotation, flush to file 5, a Delete and a Put, a snapshot (at 5), a Put, rotation, flush to file 6, a level-0 table
   compaction of files 6 and 5 whose builder writes two tables (7 and 8, minSeq = 5 because of the snapshot), a Put, rotation,
   flush to file 9, a committed transaction (a Put and a Delete, table 10 at level 0) — that the
   model executes, that meets every side condition (bops_ok), and whose reads, evaluated, are the plain map's: at db.seq = 9
   a = the last Put, b deleted, c overwritten, d deleted by the transaction, f put by it; at the snapshot c still has its
   first value and a is absent.  The second
   example: the same writer with compression ON (the tag codec) writes a file for which the size condition evaluates to
   true and which passes tfile_okb. *)
From GL Require Import Lsm.BatchWriteProofs.
Definition wx_compress (x : bytes) : bytes := 7 :: x.
Definition wx_decompress (y : bytes) : option bytes := match y with 7 :: x => Some x | _ => None end.
Definition wx_o : wopts := mkWO 16 2 false None (fun _ => 30) (fun _ => 1000) (fun _ => 1000) 0 true.
Definition wx_ops : list bop :=
  [ BWrite [(1, [98], [1]); (1, [99], [2]); (1, [100], [3])] [1; 2; 1];
    BRotate; BFlush 5;
    BWrite [(0, [98], []); (1, [101], [4])] [1; 1];
    BSnap;
    BWrite [(1, [99], [9])] [2];
    BRotate; BFlush 6;
    BCompact 0 [6; 5] [o_ok] [7; 8];
    BWrite [(1, [97], [5])] [1];
    BRotate; BFlush 9;
    BTxn [(1, [102], [7]); (0, [100], [])] [1; 1] 10 ].
Local Notation wx_run := (brun bytewise kp mp tblp tbl_crc wx_compress wx_decompress None (fun _ _ _ => true) true wx_o).
Local Notation wx_step := (bstep bytewise kp mp tblp tbl_crc wx_compress wx_decompress None (fun _ _ _ => true) true wx_o).
Local Notation wx_get w k s := (bapi (db_get_bytes bytewise kp mp tblp tbl_crc wx_decompress None (fun _ _ _ => true) true (ws_bs w) [k] s)).

Ltac wx_next :=
  match goal with
  | |- match ?s with _ => _ end => let r := eval vm_compute in s in replace s with r by (vm_compute; reflexivity); cbv iota
  end.
Ltac wx_in H := repeat (destruct H as [<-|H]; [vm_compute; try discriminate; try reflexivity|]); try destruct H.
Ltac wx_recs := repeat (apply Forall_cons; [split; [vm_compute; auto | repeat (apply Forall_cons; [vm_compute; reflexivity|]); apply Forall_nil]|]); apply Forall_nil.
Ltac wx_heights := repeat (apply Forall_cons; [split; vm_compute; discriminate|]); apply Forall_nil.
Ltac wx_write := split; [wx_recs|split; [vm_compute; reflexivity|split; [wx_heights|vm_compute; reflexivity]]].
Ltac wx_flush := split; [intros f Hf; vm_compute in Hf; wx_in Hf|split; [intros d Hd _; vm_compute in Hd; injection Hd as <-; vm_compute; reflexivity|intros d Hd; left; reflexivity]].

Example C01_write_path_nonvacuous :
  (forall x, wx_decompress (wx_compress x) = Some x) /\ (forall x, wx_compress x <> []) /\ (1 <= wo_ri wx_o)%N /\
  exists w0 w, w_init mp = Some w0 /\ wx_run w0 wx_ops = Some w /\
    bops_ok bytewise kp mp tblp tbl_crc wx_compress wx_decompress None (fun _ _ _ => true) true wx_o w0 wx_ops /\
    ws_seq w = 9 /\ ws_snaps w = [5] /\
    map (map (fun f => tf_num f)) (bs_levels (ws_bs w)) = [[10; 9]; [7; 8]] /\
    map (fun k => wx_get w k 9) [97; 98; 99; 100; 101; 102] =
      [Some (Some [5]); Some None; Some (Some [9]); Some None; Some (Some [4]); Some (Some [7])] /\
    map (fun k => wx_get w k 5) [97; 98; 99; 100; 101; 102] =
      [Some None; Some None; Some (Some [2]); Some (Some [3]); Some (Some [4]); Some None].
Proof.
  split; [reflexivity|]. split; [discriminate|]. split; [vm_compute; discriminate|].
  destruct (w_init mp) as [w0|] eqn:E0; [|vm_compute in E0; discriminate].
  vm_compute in E0. injection E0 as <-.
  eexists. eexists. split; [reflexivity|]. split; [vm_compute; reflexivity|].
  split.
  - cbn [bops_ok wx_ops].
    split; [wx_write|wx_next].
    split; [exact I|wx_next].
    split; [wx_flush|wx_next].
    split; [wx_write|wx_next].
    split; [exact I|wx_next].
    split; [wx_write|wx_next].
    split; [exact I|wx_next].
    split; [wx_flush|wx_next].
    split; [|wx_next].
    { split; [apply NoDup_cons; [intros [H|[]]; discriminate|apply NoDup_cons; [intros []|apply NoDup_nil]]|].
      split.
      - intros n f Hn Hf. vm_compute in Hf. destruct Hn as [<-|[<-|[]]]; wx_in Hf.
      - intros cm s' H1 H2. vm_compute in H1. injection H1 as <-. vm_compute in H2. injection H2 as <-.
        match goal with |- Forall _ ?l => let r := eval vm_compute in l in replace l with r by (vm_compute; reflexivity) end.
        repeat (apply Forall_cons; [split; [vm_compute; reflexivity|left; reflexivity]|]). apply Forall_nil. }
    split; [wx_write|wx_next].
    split; [exact I|wx_next].
    split; [wx_flush|wx_next].
    split; [|wx_next; exact I].
    split; [wx_recs|]. split; [vm_compute; reflexivity|]. split; [wx_heights|]. split; [vm_compute; reflexivity|].
    split; [intros f Hf; vm_compute in Hf; wx_in Hf|].
    intros d0 d' hs' H1 H2 _. vm_compute in H1. injection H1 as <-. vm_compute in H2. injection H2 as <- _.
    split; [vm_compute; reflexivity|left; reflexivity].
  - vm_compute. repeat split; reflexivity.
Qed.

Example C01_writer_snappy_nonvacuous :
  let o := mkWO 16 2 true None (fun _ => 30) (fun _ => 1000) (fun _ => 1000) 0 true in
  let kvs := [([98; 1; 1; 0; 0; 0; 0; 0; 0], [1]); ([99; 1; 2; 0; 0; 0; 0; 0; 0], [2]); ([100; 0; 3; 0; 0; 0; 0; 0; 0], [])]%N in
  write_sizes_ok bytewise kp tblp tbl_crc wx_compress o kvs = true /\
  match table_bytes bytewise kp tblp tbl_crc wx_compress o kvs with
  | Some data => tfile_okb bytewise kp tblp tbl_crc wx_decompress None (fun _ _ _ => true) true 2 (mkTF 9 (key_first kvs) (key_last kvs) data) = true
  | None => False
  end.
Proof. vm_compute. split; reflexivity. Qed.

(* ------------------------------------------------------------------------------------------------------------------
   (P) PREORDER COMPARERS.  LevelDB's Comparer only has to define a total order in which keys that compare equal ARE
   the same user key; it need not be injective (ASCII-case-insensitive order; goleveldb's own test suite has
   numberComparer).  comparer_ok (Base/Order.v) additionally demands cmp a b = Eq <-> a = b; comparer_pre_ok
   (Base/OrderPre.v) replaces that field by reflexivity and compatibility of Eq with the order.  The theorems below are
   the C01 chain (1)-(4) re-proved from comparer_pre_ok alone: "entry e has user key k" reads cmp c (e_uk e) k = Eq
   (Lsm.vis and History.a_get already read it so), the well-formedness conditions speak about equivalence classes
   (wf_state_pre: uniqE, newer_thanE; uniq_inE), and the plain map is keyed by the class (a Put of another spelling of a
   stored key overwrites it).  The theorems (1)-(4) above are their special cases (C01_get_correct_is_corollary).
   What still assumes the injective contract comparer_ok: the byte-level refinement (5) and everything below it
   (memdb, table, block, batch levels), see props/C01.json. *)
From GL Require Import Base.OrderPre Codec.CiCmp Codec.CiCmpProofs Lsm.CompactPre Lsm.LsmPreProofs Lsm.CompactPreProofs
  Lsm.HistoryPreProofs Lsm.ReorgPreProofs Lsm.WfPreProofs.

Theorem C01_comparer_ok_is_pre : forall c, comparer_ok c -> comparer_pre_ok c.
Proof. exact comparer_ok_pre. Qed.
Print Assumptions C01_comparer_ok_is_pre.

(* (1p) DB.get / version.get on a well-formed layout returns the newest entry of k's CLASS with seq <= s among all
   stored entries, for every preorder comparer ... *)
Theorem C01_get_correct_pre : forall c, comparer_pre_ok c -> forall p, kparams_ok p -> forall st k s,
  wf_state_pre c p st -> lsm_get c p st k s = group_res p (newest c k s (all_entries st) None).
Proof. exact get_correct_pre. Qed.
Print Assumptions C01_get_correct_pre.

(* ... so every spelling of a user key reads the same *)
Theorem C01_get_spelling_irrelevant : forall c, comparer_pre_ok c -> forall p, kparams_ok p -> forall st k k' s,
  wf_state_pre c p st -> cmp c k k' = Eq -> lsm_get c p st k s = lsm_get c p st k' s.
Proof. exact get_spelling_irrelevant. Qed.
Print Assumptions C01_get_spelling_irrelevant.

(* the injective theorem (1) is the special case *)
Theorem C01_get_correct_is_corollary : forall c, comparer_ok c -> forall p, kparams_ok p -> forall st k s,
  wf_state c p st -> lsm_get c p st k s = group_res p (newest c k s (all_entries st) None).
Proof. exact get_correct_from_pre. Qed.
Print Assumptions C01_get_correct_is_corollary.

(* (2p) reads at the current sequence number = the class-keyed plain map *)
Theorem C01_get_is_map_pre : forall c, comparer_pre_ok c -> forall p ops k,
  hops_ok c p (h_init) ops ->
  store_get c p (hrun ops) k (h_seq (hrun ops)) = a_get c k (map_of c p ops).
Proof. exact get_is_map_pre. Qed.
Print Assumptions C01_get_is_map_pre.

Theorem C01_get_is_map_spelling : forall c, comparer_pre_ok c -> forall p ops k k',
  hops_ok c p (h_init) ops -> cmp c k k' = Eq ->
  store_get c p (hrun ops) k (h_seq (hrun ops)) = store_get c p (hrun ops) k' (h_seq (hrun ops)).
Proof. exact get_is_map_spelling. Qed.
Print Assumptions C01_get_is_map_spelling.

(* (3p) the reorganisations are admissible *)
Theorem C01_rearrangement_ok_pre : forall c, comparer_pre_ok c -> forall p h s',
  uniq_inE c (h_store h) -> same_elems (h_store h) s' -> reorg_ok c p h s'.
Proof. exact rearrangement_ok_pre. Qed.
Print Assumptions C01_rearrangement_ok_pre.

Theorem C01_compaction_reorg_ok_pre : forall c, comparer_pre_ok c -> forall p, kparams_ok p ->
  forall minSeq base, (minSeq < keyMaxSeq p)%N -> forall I O,
  kinds_ok p I -> uniqE c I -> uniq_inE c (I ++ O) ->
  (forall o i, In o O -> In i I -> cmp c (e_uk o) (e_uk i) = Eq ->
     (e_seq i < e_seq o)%N \/ ((e_seq o < e_seq i)%N /\ base (e_uk i) = false)) ->
  forall h s', same_elems (h_store h) (I ++ O) ->
  same_elems s' (drop_run c p minSeq base None (isort c I) ++ O) ->
  (forall q, protected h q -> (minSeq <= q)%N) ->
  reorg_ok c p h s'.
Proof. exact compaction_reorg_ok_pre. Qed.
Print Assumptions C01_compaction_reorg_ok_pre.

(* (4p) the class-based certificates the correspondence check evaluates under the non-injective comparer (id 4) *)
Theorem C01_wf_versioncb_sound : forall c, comparer_pre_ok c -> forall p lvls,
  wf_versioncb c p lvls = true ->
  wf_state_pre c p {| st_mem := []; st_frozen := []; st_aux := []; st_levels := lvls |}.
Proof. exact wf_versioncb_sound. Qed.
Print Assumptions C01_wf_versioncb_sound.

Theorem C01_certificatec_sound : forall c, comparer_pre_ok c -> forall p, kparams_ok p ->
  forall minSeq deeper I O outs,
  compaction_certc c p minSeq deeper I O outs = true ->
  concat outs = drop_run c p minSeq (is_base c deeper) None (isort c I) ->
  forall k s, (minSeq <= s)%N ->
  History.res p (newest c k s (concat outs ++ O) None) = History.res p (newest c k s (I ++ O) None).
Proof. exact certificatec_sound. Qed.
Print Assumptions C01_certificatec_sound.

(* Non-vacuity with the harness's non-injective comparer (id 4, ASCII case-insensitive): it satisfies the preorder
   contract and NOT the injective one ("Key" = [75;101;121], "KEY" = [75;69;89], "key" = [107;101;121] are one key). *)
Example C01_casefold_is_preorder_not_injective :
  comparer_pre_ok cicmp /\ ~ comparer_ok cicmp /\ cmp cicmp [75; 101; 121]%N [75; 69; 89]%N = Eq.
Proof. split; [exact cicmp_pre_ok|]. split; [exact cicmp_not_injective|exact cicmp_Key_KEY]. Qed.

Definition cx_e (u : bytes) (s kd v : N) : entry := {| e_uk := u; e_seq := s; e_kind := kd; e_val := [v] |}.
Definition cx_Key : bytes := [75; 101; 121]%N.
Definition cx_KEY : bytes := [75; 69; 89]%N.
Definition cx_key : bytes := [107; 101; 121]%N.
(* "Key" was put (seq 3) and flushed down to level 1; then "KEY" deleted (seq 7, level 0); "a" untouched *)
Definition cx_levels : list (list table) :=
  [ [ {| t_num := 9; t_entries := [cx_e cx_KEY 7 0 0] |} ];
    [ {| t_num := 5; t_entries := [cx_e [97]%N 2 1 20; cx_e cx_Key 3 1 30] |} ] ].
Definition cx_st : lstate := {| st_mem := []; st_frozen := []; st_aux := []; st_levels := cx_levels |}.

Example C01_casefold_nonvacuous :
  wf_versioncb cicmp kp cx_levels = true /\
  (* every spelling of the deleted key reads "not found" now, and the old value at sequence number 5 *)
  api_of (lsm_get cicmp kp cx_st cx_key 9) = None /\ api_of (lsm_get cicmp kp cx_st cx_Key 9) = None /\
  api_of (lsm_get cicmp kp cx_st cx_KEY 5) = Some [30]%N /\ api_of (lsm_get cicmp kp cx_st [65]%N 9) = Some [20]%N /\
  (* the full compaction (no snapshot: minSeq = 7, everything at base level) drops the marker AND the old value *)
  drop_run cicmp kp 7 (fun _ => true) None (isort cicmp [cx_e cx_KEY 7 0 0; cx_e [97]%N 2 1 20; cx_e cx_Key 3 1 30]) =
    [cx_e [97]%N 2 1 20] /\
  (* the class-keyed plain map: Put "Key", Delete "KEY" *)
  a_get cicmp cx_key (map_of cicmp kp [HWrite [(1, cx_Key, [30])]%N; HWrite [(0, cx_KEY, [])]%N]) = None /\
  a_get cicmp cx_KEY (map_of cicmp kp [HWrite [(1, cx_Key, [30])]%N; HWrite [(1, cx_key, [31])]%N]) = Some [31]%N.
Proof. repeat split; vm_compute; reflexivity. Qed.

(* The seeded change C01_r2 in the model: deciding "same user key as the previous entry" by BYTE equality (the drop
   rule run with the bytewise comparer's equality on the cicmp-sorted merge) keeps the old value of the deleted key
   while the marker is dropped at base level: the read of the deleted key returns the old value.  The rule with the
   user comparer deciding (drop_rule_sound_pre) does not. *)
Example C01_bytes_equal_drop_rule_refuted :
  let I := isort cicmp [cx_e cx_KEY 7 0 0; cx_e cx_Key 3 1 30] in
  CompactProofs.res kp (newest cicmp cx_KEY 7 I None) = None /\
  CompactProofs.res kp (newest cicmp cx_KEY 7 (drop_run cicmp kp 7 (fun _ => true) None I) None) = None /\
  CompactProofs.res kp (newest cicmp cx_KEY 7 (drop_run bytewise kp 7 (fun _ => true) None I) None) = Some [30]%N.
Proof. repeat split; vm_compute; reflexivity. Qed.
