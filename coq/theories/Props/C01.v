(* Props/C01.v — property C01: reads return the latest write; the DB behaves as an ordered map.
   Property theorems only.  Structure: (1) read path on a well-formed layout = newest visible entry among
   ALL stored entries; (2) any history of writes, snapshots and admissible reorganisations answers like the
   plain map; (3) the reorganisations the DB performs are admissible; (4) the boolean certificates the
   correspondence check evaluates on the implementation's versions/compactions imply the hypotheses. *)
From GL Require Import Base.Order Codec.IKey Codec.BytesCmp Codec.BytesCmpProofs Lsm.Lsm Lsm.Compact Lsm.LsmProofs
  Lsm.CompactProofs Lsm.History Lsm.HistoryProofs Lsm.ReorgProofs Lsm.WfProofs Lsm.CertProofs Gen.ConstsOk.
From GL Require Import Codec.Table Codec.TableCheck Codec.TblCrc Lsm.ReadPath Lsm.ReadPathMem Lsm.ReadPathProofs
  Gen.Inst Gen.InstTbl Gen.InstMem Gen.BloomInst Gen.ConstsOkMem.
From GL Require Mem.MemDB.

(* (1) DB.get / version.get on any well-formed layout (write buffer, frozen buffer, transaction tables,
   level 0, sorted levels) returns the newest entry of k with seq <= s among all stored entries —
   wherever it sits — for every comparer satisfying the contract. *)
Theorem C01_get_correct : forall c, comparer_ok c -> forall p, kparams_ok p -> forall st k s,
  wf_state c p st -> lsm_get c p st k s = group_res p (newest c k s (all_entries st) None).
Proof. exact get_correct. Qed.
Print Assumptions C01_get_correct.

Theorem C01_get_refines_spec : forall c, comparer_ok c -> forall p, kparams_ok p -> forall st k s,
  wf_state c p st -> api_of (lsm_get c p st k s) = spec_get c p st k s.
Proof. exact get_refines_spec. Qed.
Print Assumptions C01_get_refines_spec.

(* (2) For every finite sequence of writes (Put, Delete, batches, committed transactions), snapshot
   acquisitions/releases and admissible reorganisations, a read at the current sequence number returns
   exactly what the plain map driven by the same writes returns. *)
Theorem C01_get_is_map : forall c, comparer_ok c -> forall p ops k,
  hops_ok c p (h_init) ops ->
  store_get c p (hrun ops) k (h_seq (hrun ops)) = a_get c k (map_of c p ops).
Proof. exact get_is_map. Qed.
Print Assumptions C01_get_is_map.

Theorem C01_history_correct : forall c, comparer_ok c -> forall p ops, hops_ok c p h_init ops ->
  forall k s, protected (hrun ops) s -> store_get c p (hrun ops) k s = hist_get c p (hrun ops) k s.
Proof. intros c _ p. exact (history_correct c p). Qed.
Print Assumptions C01_history_correct.

(* (3a) Rotation, flush, trivial move: the same entries in another place. *)
Theorem C01_rearrangement_ok : forall c, comparer_ok c -> forall p h s',
  uniq_in (h_store h) -> same_elems (h_store h) s' -> reorg_ok c p h s'.
Proof. exact rearrangement_ok. Qed.
Print Assumptions C01_rearrangement_ok.

(* (3b) A table compaction (merge of the inputs, drop rule with minSeq, tombstones removed at base level)
   is admissible provided minSeq is below every protected sequence number and every other stored entry
   with the user key of an input entry is newer than it, or older and then the key is not at base level. *)
Theorem C01_compaction_reorg_ok : forall c, comparer_ok c -> forall p, kparams_ok p ->
  forall minSeq base, (minSeq < keyMaxSeq p)%N -> forall I O,
  kinds_ok p I -> NoDup (map keyseq I) -> uniq_in (I ++ O) ->
  (forall o i, In o O -> In i I -> e_uk o = e_uk i ->
     (e_seq i < e_seq o)%N \/ ((e_seq o < e_seq i)%N /\ base (e_uk i) = false)) ->
  forall h s', same_elems (h_store h) (I ++ O) ->
  same_elems s' (drop_run c p minSeq base None (isort c I) ++ O) ->
  (forall q, protected h q -> (minSeq <= q)%N) ->
  reorg_ok c p h s'.
Proof. exact compaction_reorg_ok. Qed.
Print Assumptions C01_compaction_reorg_ok.

(* (4) The certificates evaluated by the correspondence check on the implementation's dumps. *)
Theorem C01_wf_versionb_sound : forall c, comparer_ok c -> forall p lvls,
  wf_versionb c p lvls = true ->
  wf_state c p {| st_mem := []; st_frozen := []; st_aux := []; st_levels := lvls |}.
Proof. exact wf_versionb_sound. Qed.
Print Assumptions C01_wf_versionb_sound.

Theorem C01_certificate_sound : forall c, comparer_ok c -> forall p, kparams_ok p ->
  forall minSeq deeper I O outs,
  compaction_cert c p minSeq deeper I O outs = true ->
  concat outs = drop_run c p minSeq (is_base c deeper) None (isort c I) ->
  forall k s, (minSeq <= s)%N ->
  History.res p (newest c k s (concat outs ++ O) None) = History.res p (newest c k s (I ++ O) None).
Proof. exact certificate_sound. Qed.
Print Assumptions C01_certificate_sound.

(* Non-vacuity: a three-level layout with overlapping level-0 tables, a tombstone and an overwritten key
   satisfies the certificate, and a history with a snapshot and a no-op reorganisation is admissible. *)
Definition ex_e (k : N) (s kd v : N) : entry := {| e_uk := [k]; e_seq := s; e_kind := kd; e_val := [v] |}.
Definition ex_levels : list (list table) :=
  [ [ {| t_num := 9; t_entries := [ex_e 1 12 1 50; ex_e 3 11 0 0] |};
      {| t_num := 8; t_entries := [ex_e 1 10 1 40; ex_e 2 9 1 41] |} ];
    [ {| t_num := 5; t_entries := [ex_e 1 5 1 30; ex_e 2 6 0 0] |};
      {| t_num := 6; t_entries := [ex_e 3 4 1 31; ex_e 4 7 1 32] |} ];
    [ {| t_num := 2; t_entries := [ex_e 2 1 1 20; ex_e 3 2 1 21] |} ] ].

Example C01_nonvacuous_layout :
  wf_versionb bytewise kp ex_levels = true /\
  api_of (lsm_get bytewise kp {| st_mem := []; st_frozen := []; st_aux := []; st_levels := ex_levels |} [1]%N 12) = Some [50]%N /\
  api_of (lsm_get bytewise kp {| st_mem := []; st_frozen := []; st_aux := []; st_levels := ex_levels |} [3]%N 12) = None /\
  api_of (lsm_get bytewise kp {| st_mem := []; st_frozen := []; st_aux := []; st_levels := ex_levels |} [3]%N 10) = Some [31]%N /\
  api_of (lsm_get bytewise kp {| st_mem := []; st_frozen := []; st_aux := []; st_levels := ex_levels |} [2]%N 8) = None.
Proof. repeat split; vm_compute; reflexivity. Qed.

Example C01_nonvacuous_history :
  hops_ok bytewise kp h_init [HWrite [(1, [7], [1]); (1, [8], [2])]%N; HSnap; HWrite [(0, [7], [])]%N] /\
  a_get bytewise [7]%N (map_of bytewise kp [HWrite [(1, [7], [1]); (1, [8], [2])]%N; HSnap; HWrite [(0, [7], [])]%N]) = None /\
  a_get bytewise [8]%N (map_of bytewise kp [HWrite [(1, [7], [1]); (1, [8], [2])]%N; HSnap; HWrite [(0, [7], [])]%N]) = Some [2]%N.
Proof.
  split; [|split; vm_compute; reflexivity].
  cbn [hops_ok hop_ok]. repeat split; try (repeat constructor; vm_compute; congruence).
Qed.

(* (5) The read path at BYTE level.  Lsm/ReadPath.v db_get_bytes is DB.Get as the code computes it: memGet =
   memdb.Find with the probe key (ukey, seq, keyTypeSeek) on the array-encoded skip list (live, then frozen),
   then version.get: level 0 in slice order among the tables whose recorded [imin.ukey, imax.ukey] contains the
   key, keeping the hit with the largest sequence number; deeper levels by sort.Search on imax and the imin
   test; every table consulted through table.Reader.Find on the BYTES of its file (footer, metaindex, index
   block seek, the filter block asked first about the user key, data block seek, fall through to the next
   block); user-key equality test after each Find; a deletion marker ends the search with ErrNotFound.
   For every comparer satisfying the contract and every well-formed byte state — the memdbs satisfy the
   representation invariant of property C14 and hold stored keys only; every table file passes the executable
   format check of property C13 (table_check) and has decodable keys, the recorded bounds, and a filter that
   does not hide a stored user key; the abstraction (the sorted entry lists of the buffers and tables) is a
   well-formed L1 layout — every read of a real byte-string key at a sequence number <= keyMaxSeq computes
   exactly what the L1 model's lsm_get computes on the abstraction (no panic, no error, fuel suffices). *)
Theorem C01_read_path_refines :
  forall c, comparer_ok c -> forall p, kparams_ok p -> (keyTypeSeek p <= keyTypeVal p)%N ->
  forall mp, MemDB.mparams_ok mp ->
  forall tp crc decompress fname ufc verify ri k s, wf_bytes k -> (s <= keyMaxSeq p)%N ->
  forall st, wf_bstate c p mp tp crc decompress fname ufc verify ri st ->
  db_get_bytes c p mp tp crc decompress fname ufc verify st k s =
  BRes (lsm_get c p (abs c mp tp crc decompress fname ufc verify ri st) k s).
Proof. exact read_path_refines. Qed.
Print Assumptions C01_read_path_refines.

(* ... hence (with (1)) it returns the newest entry of k with seq <= s among all stored entries, wherever it is
   stored: in a memdb, in a level-0 file, in a deeper file. *)
Theorem C01_get_correct_bytes :
  forall c, comparer_ok c -> forall p, kparams_ok p -> (keyTypeSeek p <= keyTypeVal p)%N ->
  forall mp, MemDB.mparams_ok mp ->
  forall tp crc decompress fname ufc verify ri k s, wf_bytes k -> (s <= keyMaxSeq p)%N ->
  forall st, wf_bstate c p mp tp crc decompress fname ufc verify ri st ->
  db_get_bytes c p mp tp crc decompress fname ufc verify st k s =
  BRes (group_res p (newest c k s (all_entries (abs c mp tp crc decompress fname ufc verify ri st)) None)).
Proof. exact get_correct_bytes. Qed.
Print Assumptions C01_get_correct_bytes.

(* ... and the filter setting is invisible: two settings (no filter, another policy, another reading of the
   filter block) under which the state is well-formed answer every read alike. *)
Theorem C01_filter_setting_irrelevant :
  forall c, comparer_ok c -> forall p, kparams_ok p -> (keyTypeSeek p <= keyTypeVal p)%N ->
  forall mp, MemDB.mparams_ok mp ->
  forall tp crc decompress verify ri fname fname' ufc ufc' st k s, wf_bytes k -> (s <= keyMaxSeq p)%N ->
  wf_bstate c p mp tp crc decompress fname ufc verify ri st ->
  wf_bstate c p mp tp crc decompress fname' ufc' verify ri st ->
  db_get_bytes c p mp tp crc decompress fname ufc verify st k s =
  db_get_bytes c p mp tp crc decompress fname' ufc' verify st k s.
Proof. exact filter_setting_irrelevant. Qed.
Print Assumptions C01_filter_setting_irrelevant.

(* ... and against the plain map of (2): when the memdbs and table files hold exactly the stored collection of an
   admissible history, DB.Get computed on the bytes at the history's current sequence number is the plain
   map's answer, and at every protected sequence number the answer judged on everything ever written. *)
Theorem C01_get_is_map_bytes :
  forall c, comparer_ok c -> forall p, kparams_ok p -> (keyTypeSeek p <= keyTypeVal p)%N ->
  forall mp, MemDB.mparams_ok mp ->
  forall tp crc decompress fname ufc verify ri st ops k,
  wf_bstate c p mp tp crc decompress fname ufc verify ri st -> wf_bytes k ->
  hops_ok c p h_init ops -> h_store (hrun ops) = all_entries (abs c mp tp crc decompress fname ufc verify ri st) ->
  (h_seq (hrun ops) <= keyMaxSeq p)%N ->
  bapi (db_get_bytes c p mp tp crc decompress fname ufc verify st k (h_seq (hrun ops))) =
  Some (a_get c k (map_of c p ops)).
Proof. exact get_is_map_bytes. Qed.
Print Assumptions C01_get_is_map_bytes.

Theorem C01_history_correct_bytes :
  forall c, comparer_ok c -> forall p, kparams_ok p -> (keyTypeSeek p <= keyTypeVal p)%N ->
  forall mp, MemDB.mparams_ok mp ->
  forall tp crc decompress fname ufc verify ri st ops k s,
  wf_bstate c p mp tp crc decompress fname ufc verify ri st -> wf_bytes k ->
  hops_ok c p h_init ops -> h_store (hrun ops) = all_entries (abs c mp tp crc decompress fname ufc verify ri st) ->
  protected (hrun ops) s -> (s <= keyMaxSeq p)%N ->
  bapi (db_get_bytes c p mp tp crc decompress fname ufc verify st k s) = Some (hist_get c p (hrun ops) k s).
Proof. exact history_correct_bytes. Qed.
Print Assumptions C01_history_correct_bytes.

(* the boolean certificate the correspondence run evaluates on the abstraction of every dumped byte state *)
Theorem C01_wf_fullb_sound : forall c, comparer_ok c -> forall p st,
  wf_fullb c p st = true -> wf_state c p st.
Proof. exact wf_fullb_sound. Qed.
Print Assumptions C01_wf_fullb_sound.

(* Non-vacuity at byte level: three table files WRITTEN BY GOLEVELDB (NoCompression, block size 40, restart
   interval 2, bloom filter 10 bits per key, FilterBaseLg 5; taken from a DB after: Put b c d f, CompactRange,
   Put c, Delete d, Put e, reopen, Put c g, reopen, Put a, Delete g) — level 0 = files 8 (newest) and 5 with
   overlapping ranges, level 1 = file 4 with two data blocks — and the write buffer built by the memdb
   model's own Put.  The state is well-formed (so the theorems apply to it), with the bloom filter consulted
   (property C16's model) and with no filter configured, and db_get_bytes, evaluated, returns what the
   real DB returned: a from the buffer, c from the newest level-0 file although older values sit in file 5
   and in level 1, b and f from level 1, d hidden by the deletion marker in file 5, g hidden by the marker in
   the buffer, e from file 5; at sequence number 8 (before the second reopen) c is c2 and g is absent; at 4 d
   is d1. *)
From Coq Require Import String.
Definition ex_file8 : tfile := mkTF 8 (unhex "630109000000000000"%string) (unhex "67010a000000000000"%string)
  (unhex "000902630109000000000000633300090267010a00000000000067330000000001000000006b85060f020a0c14504080800600000000090000000500c55eddb500210266696c7465722e6c6576656c64622e4275696c74696e426c6f6f6d46696c746572291200000000010000000053af85db00090267010a000000000000002400000000010000000038479861402e731600000000000000000000000000000000000000000000000000000000000000000000000057fb808b247547db"%string).
Definition ex_file5 : tfile := mkTF 5 (unhex "630105000000000000"%string) (unhex "650107000000000000"%string)
  (unhex "00090263010500000000000063320009006400060000000000000009026501070000000000006532000000001a00000002000000004c075ecc020a0c18e02080000600000000090000000500768ea2f800210266696c7465722e6c6576656c64622e4275696c74696e426c6f6f6d46696c7465723912000000000100000000326a53e60009026501070000000000000034000000000100000000e6f3e89c502e830116000000000000000000000000000000000000000000000000000000000000000000000057fb808b247547db"%string).
Definition ex_file4 : tfile := mkTF 4 (unhex "620101000000000000"%string) (unhex "660104000000000000"%string)
  (unhex "000902620101000000000000623100090263010200000000000063310009026401030000000000006431000000001c000000020000000004f67afd0009026601040000000000006631000000000100000000900df521122a4c9860218200064000010104001040060000000009000000120000000500441ab79300210266696c7465722e6c6576656c64622e4275696c74696e426c6f6f6d46696c746572561f000000000100000000102a39ac00090264010300000000000000360009026601040000000000003b16000000000e00000002000000007f35b5527a2ead0128000000000000000000000000000000000000000000000000000000000000000000000057fb808b247547db"%string).
Definition ex_mem_puts : list (bytes * bytes * N) :=
  [([97; 1; 12; 0; 0; 0; 0; 0; 0], [97; 52], 1); ([103; 0; 13; 0; 0; 0; 0; 0; 0], [], 2)]%N.
Definition ex_bstate : bstate :=
  mkBS (mem_of bytewise mp ex_mem_puts) None [[ex_file8; ex_file5]; [ex_file4]].
Definition ex_fname : option bytes := Some (unhex "6c6576656c64622e4275696c74696e426c6f6f6d46696c746572"%string).
Definition ex_nodec (_ : bytes) : option bytes := None.
Definition ex_get (fname : option bytes) (k : N) (s : N) : option (option bytes) :=
  bapi (db_get_bytes bytewise kp mp tblp tbl_crc ex_nodec fname (bloom_ufc bp (BinInt.Z.of_N 10)) true ex_bstate [k] s).

Lemma ex_mem_keys :
  match mem_of bytewise mp ex_mem_puts with Some d => mem_keys_okb kp mp d | None => false end = true.
Proof. vm_compute. reflexivity. Qed.

Lemma ex_wf fname : (fname = ex_fname \/ fname = None) ->
  wf_bstate bytewise kp mp tblp tbl_crc ex_nodec fname (bloom_ufc bp (BinInt.Z.of_N 10)) true 2 ex_bstate.
Proof.
  intros Hf. constructor.
  - intros d H. split.
    + apply (mem_of_inv bytewise bytewise_ok mp mp_ok ex_mem_puts d); [|exact H].
      apply Forall_cons; [split; vm_compute; congruence|]. apply Forall_cons; [split; vm_compute; congruence|]. apply Forall_nil.
    + cbn [bs_mem ex_bstate] in H. pose proof ex_mem_keys as K. rewrite H in K. exact K.
  - intros d H. discriminate.
  - destruct Hf as [-> | ->];
      (apply Forall_cons; [apply Forall_cons; [vm_compute; reflexivity | apply Forall_cons; [vm_compute; reflexivity | apply Forall_nil]]
                          | apply Forall_cons; [apply Forall_cons; [vm_compute; reflexivity | apply Forall_nil] | apply Forall_nil]]).
  - apply (wf_fullb_sound bytewise bytewise_ok kp). destruct Hf as [-> | ->]; vm_compute; reflexivity.
Qed.

Example C01_bytes_nonvacuous :
  wf_bstate bytewise kp mp tblp tbl_crc ex_nodec ex_fname (bloom_ufc bp (BinInt.Z.of_N 10)) true 2 ex_bstate /\
  wf_bstate bytewise kp mp tblp tbl_crc ex_nodec None (bloom_ufc bp (BinInt.Z.of_N 10)) true 2 ex_bstate /\
  (keyTypeSeek kp <= keyTypeVal kp)%N /\ MemDB.mparams_ok mp /\
  map (fun k => ex_get ex_fname k 13) [97; 98; 99; 100; 101; 102; 103; 104]%N =
    [Some (Some [97; 52]); Some (Some [98; 49]); Some (Some [99; 51]); Some None; Some (Some [101; 50]);
     Some (Some [102; 49]); Some None; Some None]%N /\
  map (fun k => ex_get None k 13) [97; 98; 99; 100; 101; 102; 103; 104]%N =
  map (fun k => ex_get ex_fname k 13) [97; 98; 99; 100; 101; 102; 103; 104]%N /\
  ex_get ex_fname 99 8 = Some (Some [99; 50])%N /\ ex_get ex_fname 103 8 = Some None /\
  ex_get ex_fname 100 4 = Some (Some [100; 49])%N /\ ex_get ex_fname 99 1 = Some None.
Proof.
  split; [apply ex_wf; left; reflexivity|]. split; [apply ex_wf; right; reflexivity|].
  split; [vm_compute; discriminate|]. split; [exact mp_ok|].
  split; [vm_compute; reflexivity|]. split; [vm_compute; reflexivity|]. split; [vm_compute; reflexivity|].
  split; [vm_compute; reflexivity|]. split; vm_compute; reflexivity.
Qed.
