(* Props/C01.v — property C01: reads return the latest write; the DB behaves as an ordered map.
   Property theorems only.  Structure: (1) read path on a well-formed layout = newest visible entry among
   ALL stored entries; (2) any history of writes, snapshots and admissible reorganisations answers like the
   plain map; (3) the reorganisations the DB performs are admissible; (4) the boolean certificates the
   correspondence check evaluates on the implementation's versions/compactions imply the hypotheses. *)
From GL Require Import Base.Order Codec.IKey Codec.BytesCmp Codec.BytesCmpProofs Lsm.Lsm Lsm.Compact Lsm.LsmProofs
  Lsm.CompactProofs Lsm.History Lsm.HistoryProofs Lsm.ReorgProofs Lsm.WfProofs Lsm.CertProofs Gen.ConstsOk.

(* (1) DB.get / version.get on any well-formed layout (write buffer, frozen buffer, transaction tables,
   level 0, sorted levels) returns the newest entry of k with seq <= s among all stored entries —
   wherever it sits — for every comparer satisfying the contract. *)
Theorem C01_get_correct : forall c, comparer_ok c -> forall p, kparams_ok p -> forall st k s,
  wf_state c p st -> lsm_get c p st k s = group_res p (newest c k s (all_entries st) None).
Proof. exact get_correct. Qed.
Print Assumptions C01_get_correct.

Theorem C01_get_refines_spec : forall c, comparer_ok c -> forall p, kparams_ok p -> forall st k s,
  wf_state c p st -> api_of (lsm_get c p st k s) = spec_get c p st k s.
Proof. exact get_refines_spec. Qed.
Print Assumptions C01_get_refines_spec.

(* (2) For every finite sequence of writes (Put, Delete, batches, committed transactions), snapshot
   acquisitions/releases and admissible reorganisations, a read at the current sequence number returns
   exactly what the plain map driven by the same writes returns. *)
Theorem C01_get_is_map : forall c, comparer_ok c -> forall p ops k,
  hops_ok c p (h_init) ops ->
  store_get c p (hrun ops) k (h_seq (hrun ops)) = a_get c k (map_of c p ops).
Proof. exact get_is_map. Qed.
Print Assumptions C01_get_is_map.

Theorem C01_history_correct : forall c, comparer_ok c -> forall p ops, hops_ok c p h_init ops ->
  forall k s, protected (hrun ops) s -> store_get c p (hrun ops) k s = hist_get c p (hrun ops) k s.
Proof. intros c _ p. exact (history_correct c p). Qed.
Print Assumptions C01_history_correct.

(* (3a) Rotation, flush, trivial move: the same entries in another place. *)
Theorem C01_rearrangement_ok : forall c, comparer_ok c -> forall p h s',
  uniq_in (h_store h) -> same_elems (h_store h) s' -> reorg_ok c p h s'.
Proof. exact rearrangement_ok. Qed.
Print Assumptions C01_rearrangement_ok.

(* (3b) A table compaction (merge of the inputs, drop rule with minSeq, tombstones removed at base level)
   is admissible provided minSeq is below every protected sequence number and every other stored entry
   with the user key of an input entry is newer than it, or older and then the key is not at base level. *)
Theorem C01_compaction_reorg_ok : forall c, comparer_ok c -> forall p, kparams_ok p ->
  forall minSeq base, (minSeq < keyMaxSeq p)%N -> forall I O,
  kinds_ok p I -> NoDup (map keyseq I) -> uniq_in (I ++ O) ->
  (forall o i, In o O -> In i I -> e_uk o = e_uk i ->
     (e_seq i < e_seq o)%N \/ ((e_seq o < e_seq i)%N /\ base (e_uk i) = false)) ->
  forall h s', same_elems (h_store h) (I ++ O) ->
  same_elems s' (drop_run c p minSeq base None (isort c I) ++ O) ->
  (forall q, protected h q -> (minSeq <= q)%N) ->
  reorg_ok c p h s'.
Proof. exact compaction_reorg_ok. Qed.
Print Assumptions C01_compaction_reorg_ok.

(* (4) The certificates evaluated by the correspondence check on the implementation's dumps. *)
Theorem C01_wf_versionb_sound : forall c, comparer_ok c -> forall p lvls,
  wf_versionb c p lvls = true ->
  wf_state c p {| st_mem := []; st_frozen := []; st_aux := []; st_levels := lvls |}.
Proof. exact wf_versionb_sound. Qed.
Print Assumptions C01_wf_versionb_sound.

Theorem C01_certificate_sound : forall c, comparer_ok c -> forall p, kparams_ok p ->
  forall minSeq deeper I O outs,
  compaction_cert c p minSeq deeper I O outs = true ->
  concat outs = drop_run c p minSeq (is_base c deeper) None (isort c I) ->
  forall k s, (minSeq <= s)%N ->
  History.res p (newest c k s (concat outs ++ O) None) = History.res p (newest c k s (I ++ O) None).
Proof. exact certificate_sound. Qed.
Print Assumptions C01_certificate_sound.

(* Non-vacuity: a three-level layout with overlapping level-0 tables, a tombstone and an overwritten key
   satisfies the certificate, and a history with a snapshot and a no-op reorganisation is admissible. *)
Definition ex_e (k : N) (s kd v : N) : entry := {| e_uk := [k]; e_seq := s; e_kind := kd; e_val := [v] |}.
Definition ex_levels : list (list table) :=
  [ [ {| t_num := 9; t_entries := [ex_e 1 12 1 50; ex_e 3 11 0 0] |};
      {| t_num := 8; t_entries := [ex_e 1 10 1 40; ex_e 2 9 1 41] |} ];
    [ {| t_num := 5; t_entries := [ex_e 1 5 1 30; ex_e 2 6 0 0] |};
      {| t_num := 6; t_entries := [ex_e 3 4 1 31; ex_e 4 7 1 32] |} ];
    [ {| t_num := 2; t_entries := [ex_e 2 1 1 20; ex_e 3 2 1 21] |} ] ].

Example C01_nonvacuous_layout :
  wf_versionb bytewise kp ex_levels = true /\
  api_of (lsm_get bytewise kp {| st_mem := []; st_frozen := []; st_aux := []; st_levels := ex_levels |} [1]%N 12) = Some [50]%N /\
  api_of (lsm_get bytewise kp {| st_mem := []; st_frozen := []; st_aux := []; st_levels := ex_levels |} [3]%N 12) = None /\
  api_of (lsm_get bytewise kp {| st_mem := []; st_frozen := []; st_aux := []; st_levels := ex_levels |} [3]%N 10) = Some [31]%N /\
  api_of (lsm_get bytewise kp {| st_mem := []; st_frozen := []; st_aux := []; st_levels := ex_levels |} [2]%N 8) = None.
Proof. repeat split; vm_compute; reflexivity. Qed.

Example C01_nonvacuous_history :
  hops_ok bytewise kp h_init [HWrite [(1, [7], [1]); (1, [8], [2])]%N; HSnap; HWrite [(0, [7], [])]%N] /\
  a_get bytewise [7]%N (map_of bytewise kp [HWrite [(1, [7], [1]); (1, [8], [2])]%N; HSnap; HWrite [(0, [7], [])]%N]) = None /\
  a_get bytewise [8]%N (map_of bytewise kp [HWrite [(1, [7], [1]); (1, [8], [2])]%N; HSnap; HWrite [(0, [7], [])]%N]) = Some [2]%N.
Proof.
  split; [|split; vm_compute; reflexivity].
  cbn [hops_ok hop_ok]. repeat split; try (repeat constructor; vm_compute; congruence).
Qed.
