(* Props/C09O.v — property C09, options part: the RELATIONS between option values that the rest of goleveldb
   relies on, each traced to its use site, and whether the getters of leveldb/opt/options.go establish them for
   EVERY Options value (nil receiver, negative, zero and huge fields included).
   Property theorems only; each is closed by [exact lemma] and followed by Print Assumptions.

   Model: Gen/Options.v (every getter as written; defaults regenerated from the Go source; Go int = 64-bit wrapping;
   float64 computed exactly with an explicit "Outside the exact domain" result, see the header of that file).
   Tie: (K) case kind KOpt of Corr/C09Run.v — generated Options values through the REAL getters
   (opt.VerifGetters) must give the model's results; (P) every witness below is exercised on the real DB in its
   own process under a watchdog (harness/cmd/c09/optwit.go, same values).

   Naming: opt_<relation>_holds = the relation holds for every Options value; opt_<relation>_refuted = a witness
   violates it; opt_<relation>_old_refuted = a witness violated it BEFORE the repair named next to it (the getter
   before the repair is kept in the model as <getter>_old), and opt_<relation>_holds is about the repaired getter.

   RELATIONS (o ranges over all Options values incl. nil):
    R1  1 <= GetBlockRestartInterval                 table/writer.go blockWriter.append: nEntries % restartInterval
    R2  1 <= GetBlockSize                            table/writer.go Writer.Append: bytesLen() >= blockSize
    R2' GetBlockSize + 5 and 4 * (GetBlockSize + 5) do not wrap
                                                     table.go newTableOps / db.go recoverTable: util.NewBufferPool(bs + 5)
    R3  0 <= GetFilterBaseLg < 64                    table/writer.go filterWriter.flush: offset / uint64(1 << baseLg)
    R4  0 <= GetCompactionTableSize(level)           table/writer.go NewWriter: make([]byte, size) / pool.Get(size);
        (> 0 is NOT needed)                          db_compaction.go tableCompactionBuilder.needFlush: BytesLen() >= tableSize
    R5  1 <= GetCompactionL0Trigger                  version.go computeCompaction: score = len(tables) / trigger, needCompaction = score >= 1
    R6  GetCompactionL0Trigger <= GetWriteL0PauseTrigger
                                                     db_write.go DB.flush: at tLen >= pauseTrigger the writer waits for a table
                                                     compaction (compTriggerWait(tcompCmdC)) and re-evaluates; db_compaction.go
                                                     tCompaction acknowledges at once when tableNeedCompaction() is false
    R7  trigger <= slowdown <= pause                 NOT needed: the slowdown branch of DB.flush only sleeps 1 ms once per write
    R8  beyond the per-level table, GetCompactionTotalSize(level) >= the base limit (>= 1)
                                                     version.go computeCompaction: score = size / limit for level >= 1
    R9  1 <= GetMaxManifestFileSize                  session.go commit: manifest.Size() >= max starts a new manifest
    R10 1 <= GetWriteBuffer                          db_state.go newMem: memdb.New(maxInt(writeBuffer, n)); db_write.go Write:
                                                     batch.internalLen > writeBuffer selects the transaction path
    R11 0 <= cache capacities, negative = disabled   table.go newTableOps: capacity > 0 creates the cacher
    R12 2 * GetIteratorSamplingRate does not wrap    db_iter.go DB.iterSamplingRate: rand.Intn(2 * rate), reached when rate > 0
    R13 GetCompression is none or snappy             table/writer.go writeBlock tests == SnappyCompression
    R14 limit factors >= 1 (the limits themselves may be any int: they are only compared with sizes)
                                                     session_compaction.go getCompactionRange / newCompaction / expand, version.go pickMemdbLevel
    R15 Strict = 0 reads as DefaultStrict            options.go dupOptions does the same substitution *)
From Coq Require Import ZArith List.
From GL Require Import Gen.Consts Gen.Options Gen.OptionsProofs.
Import ListNotations.
Open Scope Z_scope.

(* ---- R1, R2, R9, R10: the "<= 0 selects the default" getters *)
Theorem opt_restart_interval_pos_holds : forall o, 1 <= GetBlockRestartInterval o.
Proof. exact restart_interval_pos. Qed.
Print Assumptions opt_restart_interval_pos_holds.

Theorem opt_block_size_pos_holds : forall o, 1 <= GetBlockSize o.
Proof. exact block_size_pos. Qed.
Print Assumptions opt_block_size_pos_holds.

Theorem opt_max_manifest_pos_holds : forall o, 1 <= GetMaxManifestFileSize o.
Proof. exact max_manifest_pos. Qed.
Print Assumptions opt_max_manifest_pos_holds.

Theorem opt_write_buffer_pos_holds : forall o, 1 <= GetWriteBuffer o.
Proof. exact write_buffer_pos. Qed.
Print Assumptions opt_write_buffer_pos_holds.

(* ---- R2': RESOURCE REQUEST, not repaired.  BlockSize = MaxInt makes NewBufferPool(bs + 5) see a wrapped, negative
   baseline: Open panics ("baseline can't be <= 0"; with DisableBufferPool the DB works).  Block sizes are
   allocation sizes (the pool allocates baseline/4 bytes for the smallest read): a value near the address space is a
   request the process cannot serve however the getter clamps it; every block size up to 2^60 passes the pool's
   arithmetic.  WriteBuffer = MaxInt (memdb.New: makeslice panics in Open) and CompactionTableSize near MaxInt
   (table.NewWriter allocates the table size; float64(MaxInt) rounds to 2^63, outside the model's exact domain, and
   the real conversion yields MinInt64: the compaction goroutine panics) are the same class; all three are exercised
   on the real DB with their outcome class recorded in the evidence and accepted whatever it is. *)
Theorem opt_block_size_pool_refuted : exists o, pool_ok (GetBlockSize o) = false.
Proof. exact pool_refuted. Qed.
Print Assumptions opt_block_size_pool_refuted.

Theorem opt_block_size_pool_small_holds : forall o, GetBlockSize o <= 2 ^ 60 -> pool_ok (GetBlockSize o) = true.
Proof. exact pool_ok_small. Qed.
Print Assumptions opt_block_size_pool_small_holds.

(* ---- R3: REPAIRED (fix: GetFilterBaseLg is bounded by 63).  Before: FilterBaseLg >= 64 with a Filter set made
   filterWriter.flush divide by uint64(1<<64) = 0 in table.NewWriter: the memdb flush goroutine panicked and the
   process died at the first flush. *)
Theorem opt_filter_base_old_refuted : exists o, filter_shift_ok (GetFilterBaseLg_old o) = false.
Proof. exact filter_shift_old_refuted. Qed.
Print Assumptions opt_filter_base_old_refuted.

Theorem opt_filter_base_holds : forall o, filter_shift_ok (GetFilterBaseLg o) = true.
Proof. exact filter_shift_holds. Qed.
Print Assumptions opt_filter_base_holds.

Theorem opt_filter_base_range_holds : forall o, 1 <= GetFilterBaseLg o <= 63.
Proof. exact filter_base_range. Qed.
Print Assumptions opt_filter_base_range_holds.

(* ---- R4: inside the exact float domain a table size is never negative (what NewWriter needs); it can be zero
   (CompactionTableSize = 1, multiplier 0.5, level 1): every user key then gets its own table -- degenerate, but the
   real DB works (witness exercised). *)
Theorem opt_table_size_nonneg_holds : forall o level z, GetCompactionTableSize o level = Val z -> 0 <= z.
Proof. exact table_size_nonneg. Qed.
Print Assumptions opt_table_size_nonneg_holds.

Theorem opt_table_size_pos_refuted : exists o level, GetCompactionTableSize o level = Val 0.
Proof. exact table_size_pos_refuted. Qed.
Print Assumptions opt_table_size_pos_refuted.

(* ---- R5: REPAIRED (fix: a non-positive CompactionL0Trigger selects the default).  Before: a negative trigger
   was returned as it is, the level-0 score was never >= 1, level 0 grew to the pause trigger and the writer spun
   (R6's loop). *)
Theorem opt_l0_trigger_pos_old_refuted : exists o, GetCompactionL0Trigger_old o < 1.
Proof. exact l0_trigger_pos_old_refuted. Qed.
Print Assumptions opt_l0_trigger_pos_old_refuted.

Theorem opt_l0_trigger_pos_holds : forall o, 1 <= GetCompactionL0Trigger o.
Proof. exact l0_trigger_pos. Qed.
Print Assumptions opt_l0_trigger_pos_holds.

(* ---- R6: REPAIRED (fix: GetWriteL0PauseTrigger is never below the level-0 compaction trigger).  Before:
   WriteL0PauseTrigger = 2 (default compaction trigger 4), or CompactionL0Trigger = 16 (default pause trigger 12):
   a writer whose memdb is full finds tLen >= pauseTrigger, asks tCompaction and waits; tCompaction finds no
   compaction necessary and acknowledges; the writer re-evaluates the same condition: a busy loop for ever
   (state WF -> TrigS BT (SFlushPause _) -> TrigW -> WF of Conc/Locks.v, whose data-dependent tests are
   non-deterministic: the LTS theorems exclude deadlock, not this livelock -- the relation below does). *)
Theorem opt_l0_pause_ge_trigger_old_refuted :
  GetWriteL0PauseTrigger_old (Some w_pause_below_trigger) < GetCompactionL0Trigger_old (Some w_pause_below_trigger) /\
  GetWriteL0PauseTrigger_old (Some w_trigger_above_pause) < GetCompactionL0Trigger_old (Some w_trigger_above_pause).
Proof. exact l0_pause_ge_trigger_old_refuted. Qed.
Print Assumptions opt_l0_pause_ge_trigger_old_refuted.

Theorem opt_pause_implies_compaction_old_refuted :
  exists o tlen, 0 <= tlen /\ writer_pauses_old o tlen = true /\ need_l0_compaction_old o tlen = false.
Proof. exact pause_implies_compaction_old_refuted. Qed.
Print Assumptions opt_pause_implies_compaction_old_refuted.

Theorem opt_l0_pause_ge_trigger_holds : forall o, GetCompactionL0Trigger o <= GetWriteL0PauseTrigger o.
Proof. exact l0_pause_ge_trigger. Qed.
Print Assumptions opt_l0_pause_ge_trigger_holds.

(* whenever the writer takes the pause branch, the version it looks at needs a level-0 compaction: the table
   compaction it waits for is one tCompaction will run, and each such compaction removes tables from level 0 *)
Theorem opt_pause_implies_compaction_holds :
  forall o tlen, writer_pauses o tlen = true -> need_l0_compaction o tlen = true.
Proof. exact pause_implies_compaction. Qed.
Print Assumptions opt_pause_implies_compaction_holds.

(* ---- R7: not needed, still violable, works on the real DB (witness exercised: trigger 2, slowdown 10, pause 4) *)
Theorem opt_l0_slowdown_order_refuted :
  exists o, ~ (GetCompactionL0Trigger o <= GetWriteL0SlowdownTrigger o <= GetWriteL0PauseTrigger o).
Proof. exact l0_slowdown_order_refuted. Qed.
Print Assumptions opt_l0_slowdown_order_refuted.

(* ---- R8: REPAIRED (fix: a CompactionTotalSizeMultiplier below one is read as one).  Before: with multiplier 0.5
   the limits shrink to zero with the level; a table that reaches a level whose limit is below its own size gives
   that level a score >= 1 whatever else it holds, is moved one level down, meets a still smaller limit, and so on
   for ever (CompactRange never returned; the manifest and the level list grew without bound).  After: beyond the
   per-level table no limit is below the base limit.  RESIDUAL, not repaired and not an option-only relation: a
   flat multiplier of exactly one with a base limit smaller than one table never lets that table rest either
   (scenario total-1-mult-one: outcome recorded). *)
Theorem opt_total_size_ge_base_old_refuted :
  exists o level, per_level_len o <= level /\ GetCompactionTotalSize_old o level = Val 0 /\ 1 <= total_base o.
Proof. exact total_size_ge_base_old_refuted. Qed.
Print Assumptions opt_total_size_ge_base_old_refuted.

Theorem opt_total_size_ge_base_holds : forall o level z,
  per_level_len o <= level -> GetCompactionTotalSize o level = Val z -> total_base o <= z /\ 1 <= z.
Proof. exact total_size_ge_base_pos. Qed.
Print Assumptions opt_total_size_ge_base_holds.

(* a limit of zero for ONE level is still expressible through the per-level table (multiplier 2^-30 for level 1):
   score = size / 0 = +Inf, the level is simply always compacted into the next one, whose limit follows the global
   multiplier again: the real DB works (witness exercised) *)
Theorem opt_total_size_pos_refuted : exists o level, GetCompactionTotalSize o level = Val 0.
Proof. exact total_size_pos_refuted. Qed.
Print Assumptions opt_total_size_pos_refuted.

Theorem opt_total_size_nonneg_holds : forall o level z, GetCompactionTotalSize o level = Val z -> 0 <= z.
Proof. exact total_size_nonneg. Qed.
Print Assumptions opt_total_size_nonneg_holds.

(* ---- R11: cache capacities and the "-1 disables" convention *)
Theorem opt_cache_capacity_nonneg_holds : forall o, 0 <= GetBlockCacheCapacity o /\ 0 <= GetOpenFilesCacheCapacity o.
Proof. exact cache_capacity_nonneg. Qed.
Print Assumptions opt_cache_capacity_nonneg_holds.

Theorem opt_cache_negative_disables_holds : forall o,
  (BlockCacheCapacity o < 0 -> GetBlockCacheCapacity (Some o) = 0) /\
  (OpenFilesCacheCapacity o < 0 -> GetOpenFilesCacheCapacity (Some o) = 0) /\
  (0 < BlockCacheCapacity o -> GetBlockCacheCapacity (Some o) = BlockCacheCapacity o) /\
  (0 < OpenFilesCacheCapacity o -> GetOpenFilesCacheCapacity (Some o) = OpenFilesCacheCapacity o).
Proof. exact cache_negative_disables. Qed.
Print Assumptions opt_cache_negative_disables_holds.

(* ---- R12: REPAIRED (fix: GetIteratorSamplingRate is bounded by MaxInt/2).  Before: IteratorSamplingRate above
   MaxInt/2 (e.g. MaxInt as "never sample") made 2*rate wrap to a non-positive number and NewIterator panicked in
   rand.Intn. *)
Theorem opt_sampling_old_refuted : exists o, sampling_ok (GetIteratorSamplingRate_old o) = false.
Proof. exact sampling_old_refuted. Qed.
Print Assumptions opt_sampling_old_refuted.

Theorem opt_sampling_holds : forall o, sampling_ok (GetIteratorSamplingRate o) = true.
Proof. exact sampling_holds. Qed.
Print Assumptions opt_sampling_holds.

Theorem opt_sampling_range_holds : forall o, 0 <= GetIteratorSamplingRate o <= 2 ^ 62 - 1.
Proof. exact sampling_range. Qed.
Print Assumptions opt_sampling_range_holds.

(* ---- R13 *)
Theorem opt_compression_valid_holds : forall o,
  GetCompression o = dflt opt_NoCompression \/ GetCompression o = dflt opt_SnappyCompression.
Proof. exact compression_valid. Qed.
Print Assumptions opt_compression_valid_holds.

(* ---- R14: the factors are positive; the products wrap for huge factors (limit -2^63 from factor 2^53 on a 1 KiB
   table size): the limits are only compared with sizes, the real DB works (witness exercised) *)
Theorem opt_limit_factors_pos_holds : forall o,
  1 <= factor_of o CompactionExpandLimitFactor opt_DefaultCompactionExpandLimitFactor /\
  1 <= factor_of o CompactionGPOverlapsFactor opt_DefaultCompactionGPOverlapsFactor /\
  1 <= factor_of o CompactionSourceLimitFactor opt_DefaultCompactionSourceLimitFactor.
Proof. exact limit_factors_pos. Qed.
Print Assumptions opt_limit_factors_pos_holds.

Theorem opt_limit_nonneg_refuted : exists o z, GetCompactionExpandLimit o 0 = Val z /\ z < 0.
Proof. exact limit_nonneg_refuted. Qed.
Print Assumptions opt_limit_nonneg_refuted.

(* ---- R15 *)
Theorem opt_strict_zero_is_default_holds : forall o s, Strict o = 0 -> GetStrict (Some o) s = GetStrict None s.
Proof. exact strict_zero_is_default. Qed.
Print Assumptions opt_strict_zero_is_default_holds.

(* ---- non-vacuity *)
(* the repaired getters on the witnesses of the repaired relations *)
Example opt_witnesses_repaired :
  GetWriteL0PauseTrigger (Some w_pause_below_trigger) = 4 /\ GetWriteL0PauseTrigger (Some w_trigger_above_pause) = 16 /\
  GetCompactionL0Trigger (Some w_trigger_negative) = 4 /\ GetFilterBaseLg (Some w_filter_base_64) = 63 /\
  GetIteratorSamplingRate (Some w_sampling_maxint) = 2 ^ 62 - 1 /\
  GetCompactionTotalSize (Some w_total_mult_half) 13 = Val 4096.
Proof. exact witnesses_repaired. Qed.

(* the float-derived statements are not vacuous: the defaults are inside the exact domain (levels that exist) *)
Example opt_default_sizes :
  map (GetCompactionTableSize None) [0; 1; 6; 64] = [Val 2097152; Val 2097152; Val 2097152; Val 2097152] /\
  map (GetCompactionTotalSize None) [0; 1; 2; 7] = [Val 10485760; Val 104857600; Val 1048576000; Val 104857600000000] /\
  GetCompactionExpandLimit None 0 = Val 52428800 /\ GetCompactionGPOverlaps None 0 = Val 20971520 /\
  GetCompactionSourceLimit None 0 = Val 2097152.
Proof. exact default_sizes. Qed.

Example opt_default_total_size_domain :
  GetCompactionTotalSize None 11 = Val (10485760 * 10 ^ 11) /\ GetCompactionTotalSize None 12 = Outside.
Proof. exact default_total_size_domain. Qed.

(* every getter on a nil receiver, in the order of opt.VerifScalarNames *)
Example opt_default_scalars :
  scalar_results None None None =
  [0; 0; 8388608; 0; 16; 4096; 4; 1; 2; 0; 0; 0; 0; 0; 0; 0; 0; 1048576; 0; 0; 0; 500; 0; 58; 4194304; 12; 8; 11; 67108864;
   0; 0; 0; 0; 58].
Proof. exact default_scalars. Qed.
