(* Props/C16.v — property C16: filters never hide a stored key; they change cost, not results.
   Property theorems only; each is closed by [exact lemma] and followed by Print Assumptions.
   bp = the Bloom/Hash constants generated from the current source (Gen/BloomInst.v); its side
   conditions are re-proved on every run (Gen/BloomConstsOk.v).  In all statements
   [Some _] = the Go code returns normally, [None] = it panics. *)
From GL Require Import Base.Bytes Base.NIdx Codec.Bloom Codec.BloomProofs Codec.FilterBlock
  Codec.FilterBlockProofs Gen.BloomConstsOk.
From Coq Require Import ZArith.

(* 1. bloom_no_false_negative: for every bits-per-key (any Go int), every list of keys and every key
      of the list, Contains on the generated filter answers true. *)
Theorem C16_bloom_no_false_negative : forall (bpk : Z) (keys : list bytes) (f key : bytes),
  bloom_filter_of bp bpk keys = Some f -> In key keys -> bloom_contains bp f key = Some true.
Proof. intros bpk keys f key. exact (bloom_no_false_negative bp bpk keys f key bp_ok). Qed.
Print Assumptions C16_bloom_no_false_negative.

(*    The same when Generate writes into memory that Buffer.Alloc did not clear (util.Buffer does
      not clear; Generate only ORs bits in). *)
Theorem C16_bloom_no_false_negative_any_memory : forall bpk hashes alloc f key,
  lenN alloc = (bloom_nbytes bp bpk (lenN hashes) + 1)%N ->
  bloom_generate_into bp bpk hashes alloc = Some f ->
  In (bloom_hash bp key) hashes ->
  bloom_contains bp f key = Some true.
Proof. intros bpk hashes alloc f key. exact (bloom_no_false_negative_into bp bpk hashes alloc f key bp_ok). Qed.
Print Assumptions C16_bloom_no_false_negative_any_memory.

(*    Generate returns (does not divide by zero, does not wrap) for EVERY int bitsPerKey -- negative,
      zero, 2^32, MaxInt -- and every list of key hashes.  (Repaired code: NewBloomFilter reads a
      negative bitsPerKey as 0, bloomBits multiplies in 64 bits under the ceiling maxBloomBits.) *)
Theorem C16_bloom_generate_total : forall bpk hashes, exists f, bloom_generate bp bpk hashes = Some f.
Proof. intros bpk hashes. exact (bloom_generate_total bp bpk hashes bp_tot_ok). Qed.
Print Assumptions C16_bloom_generate_total.

(*    Contains returns on EVERY filter: every byte string of every length. *)
Theorem C16_bloom_contains_total : forall f key, exists b, bloom_contains bp f key = Some b.
Proof. intros f key. exact (bloom_contains_total bp f key bp_tot_ok). Qed.
Print Assumptions C16_bloom_contains_total.

(*    The code before the repairs (bloom_generate_old / bloom_contains_old) does not have these
      properties: one key at bitsPerKey = 2^32 - 7, or at bitsPerKey = -1, divides by zero in Generate;
      a filter of 2^29+1 bytes with k = 1 divides by zero in Contains. *)
Theorem C16_bloom_generate_total_old_refuted :
  bloom_generate_old bp 4294967289 [0%N] = None /\ bloom_generate_old bp (-1) [0%N] = None /\
  ~ (forall bpk hashes, exists f, bloom_generate_old bp bpk hashes = Some f).
Proof.
  assert (A : bloom_generate_old bp 4294967289 [0%N] = None) by (vm_compute; reflexivity).
  split; [exact A|]. split; [vm_compute; reflexivity|].
  intros H. destruct (H 4294967289%Z [0%N]) as [f Hf]. rewrite A in Hf. discriminate.
Qed.
Print Assumptions C16_bloom_generate_total_old_refuted.

Theorem C16_bloom_contains_total_old_refuted :
  bloom_contains_fn_old bp (2 ^ 29 + 1) (fun i => if (i =? 2 ^ 29)%N then 1%N else 0%N) [] = None /\
  ~ (forall f key, exists b, bloom_contains_old bp f key = Some b).
Proof.
  split; [vm_compute; reflexivity|].
  apply bloom_contains_old_not_total. vm_compute. congruence.
Qed.
Print Assumptions C16_bloom_contains_total_old_refuted.

(*    Nothing on disk changes: on the domain of the old totality theorems (0 <= bitsPerKey,
      keys * bitsPerKey < 2^32 - 7; filters of at most 2^29 bytes) the repaired Generate writes the same
      bytes and the repaired Contains gives the same answers as the code before the repairs. *)
Theorem C16_bloom_same_bytes_on_old_domain :
  (forall bpk hashes, (0 <= bpk)%Z -> (Z.of_N (lenN hashes) * bpk < 2 ^ 32 - 7)%Z ->
     bloom_generate bp bpk hashes = bloom_generate_old bp bpk hashes) /\
  (forall f key, (lenN f <= 2 ^ 29)%N -> bloom_contains bp f key = bloom_contains_old bp f key).
Proof.
  destruct bp_tot_ok as (_ & _ & _ & Hm & Hp). split.
  - intros bpk hashes. exact (bloom_generate_same_on_old_domain bp bpk hashes Hm).
  - intros f key. exact (bloom_contains_same_on_old_domain bp f key Hp).
Qed.
Print Assumptions C16_bloom_same_bytes_on_old_domain.

(*    The (K) evaluator runs Contains on (length, byte function) for filters no list can hold; it is
      the same function. *)
Theorem C16_bloom_contains_fn_eq : forall f key, bloom_contains_fn bp (lenN f) (get_at f) key = bloom_contains bp f key.
Proof. exact (bloom_contains_fn_eq bp). Qed.
Print Assumptions C16_bloom_contains_fn_eq.

(* 2. bloom_reads_any_k: a filter whose stored k is in the reserved range (> 30) answers true for
      every key; and a generated filter never stores such a k (so generated filters are probed). *)
Theorem C16_bloom_reads_any_k : forall f key,
  (2 <= lenN f)%N -> (b_ckmax bp < get_at f (lenN f - 1))%N -> bloom_contains bp f key = Some true.
Proof. exact (bloom_reads_any_k bp). Qed.
Print Assumptions C16_bloom_reads_any_k.

Theorem C16_bloom_generated_shape : forall bpk hashes f,
  bloom_generate bp bpk hashes = Some f ->
  lenN f = (bloom_nbytes bp bpk (lenN hashes) + 1)%N /\
  (hashes <> [] -> get_at f (lenN f - 1) = bloom_k bp bpk /\ (bloom_k bp bpk <= b_ckmax bp)%N /\ (2 <= lenN f)%N).
Proof. intros bpk hashes f. exact (bloom_generated_shape bp bpk hashes f bp_ok). Qed.
Print Assumptions C16_bloom_generated_shape.

(* 3. filter_block_no_false_negative: for every policy meeting the contract [policy_ok], every baseLg,
      every sequence of add(key) / flush(offset) with non-decreasing offsets that the writer survives,
      every key added while the data block at offset o was open is reported present by the reader's
      filterBlock.contains at offset o.  The size hypothesis is the uint32 range of the offsets stored
      in the block (a filter block of 4 GiB or more wraps them in the Go code). *)
Theorem C16_filter_block_no_false_negative : forall P, policy_ok P -> forall lg ops data,
  flushes_mono ops 0 -> fw_build P lg ops = Some data -> (lenN data < 2 ^ 32)%N ->
  forall o k, In (o, k) (tagged ops 0) -> fb_may_contain P data o k = Some true.
Proof. exact fw_no_false_negative. Qed.
Print Assumptions C16_filter_block_no_false_negative.

(*    The contract holds for the bloom policy at every bits-per-key, and is preserved by the iFilter
      wrapper (which strips the 8-byte trailer on both the Add and the Contains side). *)
Theorem C16_bloom_policy_ok : forall bpk, policy_ok (bloom_policy bp bpk).
Proof. intros bpk. exact (bloom_policy_ok bp bpk bp_ok). Qed.
Print Assumptions C16_bloom_policy_ok.

Theorem C16_ifilter_ok : forall P, policy_ok P -> policy_ok (ifilter P).
Proof. exact ifilter_ok. Qed.
Print Assumptions C16_ifilter_ok.

(*    Hence for the tables of a DB (internal keys, iFilter over bloom): *)
Theorem C16_db_filter_block_no_false_negative : forall bpk lg ops data,
  flushes_mono ops 0 -> fw_build (ifilter (bloom_policy bp bpk)) lg ops = Some data -> (lenN data < 2 ^ 32)%N ->
  forall o k, In (o, k) (tagged ops 0) -> fb_may_contain (ifilter (bloom_policy bp bpk)) data o k = Some true.
Proof.
  intros bpk. exact (fw_no_false_negative _ (ifilter_ok _ (bloom_policy_ok bp bpk bp_ok))).
Qed.
Print Assumptions C16_db_filter_block_no_false_negative.

(*    The block the writer produces is accepted by readFilterBlock, with the writer's baseLg. *)
Theorem C16_filter_block_parses : forall P, policy_ok P -> forall lg ops data,
  fw_build P lg ops = Some data -> flushes_mono ops 0 -> (lenN data < 2 ^ 32)%N ->
  exists b, fb_parse data = Some b /\ fb_lg b = lg /\ fb_data b = data.
Proof. exact fw_block_parses. Qed.
Print Assumptions C16_filter_block_parses.

(*    The filter writer itself never panics when the policy does not and baseLg < 64
      (for baseLg >= 64 NewWriter divides by zero: fw_new = None). *)
Theorem C16_filter_writer_total : forall P, (forall k, p_add P k <> None) -> (forall ks, p_gen P ks <> None) ->
  forall lg ops, (lg < 64)%N -> exists data, fw_build P lg ops = Some data.
Proof. exact fw_build_total. Qed.
Print Assumptions C16_filter_writer_total.

(* 4. The step from "no false negative" to "cost, not results", at the level this model has: let
      [unfiltered o k] be what the lookup in the data block at offset o yields for k without a filter,
      and assume it only finds keys that were added while that block was open.  Then the lookup that
      first asks the filter block (Reader.find, filtered) returns exactly the same.
      policy_change_invisible itself (Get/Has/iteration of a table or DB do not depend on the configured
      policy, incl. AltFilters and tables of another policy) needs the index/data-block side of
      Reader.find and is proved over the table model (C13: filter_independent) from this fact. *)
Theorem C16_filter_changes_no_result : forall P, policy_ok P -> forall lg ops data A (unfiltered : N -> bytes -> option A),
  flushes_mono ops 0 -> fw_build P lg ops = Some data -> (lenN data < 2 ^ 32)%N ->
  (forall o k, unfiltered o k <> None -> In (o, k) (tagged ops 0)) ->
  forall o k, fb_may_contain P data o k <> None ->
    find_with_filter P data o k (unfiltered o k) = Some (unfiltered o k).
Proof. intros P ok lg ops data A. exact (fw_filter_changes_no_result P ok lg ops data). Qed.
Print Assumptions C16_filter_changes_no_result.

(* Non-vacuity: a concrete writer run (3 data blocks, baseLg 4, a flush that skips partitions) whose
   block the reader accepts; the stored keys are reported present, an absent key is rejected, an
   empty partition rejects, an offset beyond the last filter is let through. *)
Example C16_nonvacuous :
  let P := bloom_policy bp 10 in
  let ops := [FAdd [97]%N; FAdd [98; 1]%N; FFlush 40; FAdd [99]%N; FFlush 100; FFlush 130; FAdd []; FFlush 140]%N in
  flushes_mono ops 0 /\
  match fw_build P 4 ops with
  | Some data =>
      (lenN data <? 2 ^ 32)%N = true /\
      fb_may_contain P data 0 [97]%N = Some true /\ fb_may_contain P data 0 [98; 1]%N = Some true /\
      fb_may_contain P data 40 [99]%N = Some true /\ fb_may_contain P data 130 [] = Some true /\
      fb_may_contain P data 0 [99]%N = Some false /\
      fb_may_contain P data 64 [99]%N = Some false /\
      fb_may_contain P data 4096 [99]%N = Some true
  | None => False
  end.
Proof. vm_compute. repeat split; try congruence; intros H; discriminate H. Qed.
