(* Props/C12.v — property C12: journal framing round-trips and contains damage.
   Property theorems only; each is closed by [exact lemma] and followed by Print Assumptions.
   All theorems hold for every constant record satisfying jparams_ok (re-proved for the
   constants of the current source in Gen/InstJournalOk.v: jp_ok) and for EVERY checksum
   function crc : bytes -> N. *)
From GL Require Import Base.Bytes Codec.Crc Codec.Journal Codec.JournalSpec Codec.JournalReaderProofs
  Codec.JournalWriterProofs Codec.JournalProofs Codec.JournalDamageProofs Codec.JournalCutProofs Codec.JournalZeroTailProofs Gen.InstJournalOk.

(* 0. The writer model never panics / runs out of fuel: jwrite is the output of a completed run. *)
Theorem C12_writer_total : forall crc p, jparams_ok p -> forall fl rs,
  exists s, jwrite_res crc p fl rs = WOk s /\ w_out s = jwrite crc p fl rs.
Proof. exact writer_total. Qed.
Print Assumptions C12_writer_total.

(* 1. Round trip: any records, any sizes, any flush pattern, both modes, checksums on or off;
      the dropper is never called (jread_log is the full observation list). *)
Theorem C12_roundtrip : forall crc p, jparams_ok p -> forall strict ck fl rs,
  jread crc p strict ck (jwrite crc p fl rs) = map Rec rs.
Proof. exact roundtrip. Qed.
Print Assumptions C12_roundtrip.

Theorem C12_roundtrip_no_drop : forall crc p, jparams_ok p -> forall strict ck fl rs,
  jread_log crc p strict ck (jwrite crc p fl rs) = map Rec rs.
Proof. exact roundtrip_log. Qed.
Print Assumptions C12_roundtrip_no_drop.

(* 2. The bytes written do not depend on where Flush is called. *)
Theorem C12_flush_irrelevant : forall crc p, jparams_ok p -> forall fl1 fl2 rs,
  jwrite crc p fl1 rs = jwrite crc p fl2 rs.
Proof. exact flush_irrelevant. Qed.
Print Assumptions C12_flush_irrelevant.

(*    ... nor on how the payload of a record is split into Write calls (jwrite_pieces: each
      record is a list of pieces written by successive Write calls, as session records are). *)
Theorem C12_split_writes_irrelevant : forall crc p, jparams_ok p -> forall fl fl' rss,
  jwrite_pieces crc p fl rss = jwrite crc p fl' (map (@concat N) rss).
Proof. exact split_writes_irrelevant. Qed.
Print Assumptions C12_split_writes_irrelevant.

Theorem C12_writer_pieces_total : forall crc p, jparams_ok p -> forall fl rss,
  exists s, jwrite_pieces_res crc p fl rss = WOk s /\ w_out s = jwrite_pieces crc p fl rss.
Proof. exact writer_pieces_total. Qed.
Print Assumptions C12_writer_pieces_total.

(* 3. The reader is total on arbitrary bytes: every slice/index expression stays in range
      (no Panic) and every loop terminates within the fuel given (no OutOfFuel). *)
Theorem C12_no_panic : forall crc p, jparams_ok p -> forall strict ck b,
  Forall (fun o => o <> Panic /\ o <> OutOfFuel) (jread_log crc p strict ck b).
Proof. exact no_panic. Qed.
Print Assumptions C12_no_panic.

(* 3b. The refinement results everything else is proved through (and that make the models
      comparable with the code at two levels): the reader model is the record assembler run
      over the block parser's events; the writer model's bytes are the rendering of the layout. *)
Theorem C12_reader_factor : forall crc p, jparams_ok p -> forall strict ck b,
  jread_log crc p strict ck b = assemble p strict AIdle (stream_events crc p ck b).
Proof. exact reader_factor. Qed.
Print Assumptions C12_reader_factor.

Theorem C12_writer_layout : forall crc p, jparams_ok p -> forall fl rs,
  jwrite crc p fl rs = render_lay crc p (layout p rs).
Proof. exact jwrite_layout. Qed.
Print Assumptions C12_writer_layout.

(* 4. Truncation at any offset n: the reader yields a prefix of the records written, followed
      by nothing or by exactly one Skipped (tolerant) / one Err (strict); hence never a record
      that was not written. *)
Theorem C12_truncation : forall crc p, jparams_ok p -> forall strict ck fl rs n,
  exists m t,
    jread crc p strict ck (firstn n (jwrite crc p fl rs)) = map Rec (firstn m rs) ++ t /\
    (t = [] \/ t = [if strict then Err else Skipped]).
Proof. exact truncation. Qed.
Print Assumptions C12_truncation.

(*    ... and every record that lies wholly inside the first n bytes is among them: if the
      stream written for the first j records is at most n bytes long, the result starts with
      those j records. *)
Theorem C12_truncation_complete : forall crc p, jparams_ok p -> forall strict ck fl rs n j,
  (length (jwrite crc p fl (firstn j rs)) <= n)%nat ->
  exists t, jread crc p strict ck (firstn n (jwrite crc p fl rs)) = map Rec (firstn j rs) ++ t.
Proof. exact truncation_complete. Qed.
Print Assumptions C12_truncation_complete.

(*    ... and no other: the number m of records yielded is EXACTLY the number of records whose
      bytes lie wholly inside the first n bytes (the stream written for the first m records is at
      most n bytes long, and m is the largest such number). *)
Theorem C12_truncation_exact : forall crc p, jparams_ok p -> forall strict ck fl rs n,
  exists m t,
    jread crc p strict ck (firstn n (jwrite crc p fl rs)) = map Rec (firstn m rs) ++ t /\
    (t = [] \/ t = [if strict then Err else Skipped]) /\
    (m <= length rs)%nat /\
    (length (jwrite crc p fl (firstn m rs)) <= n)%nat /\
    (forall j, (j <= length rs)%nat ->
               (length (jwrite crc p fl (firstn j rs)) <= n)%nat -> (j <= m)%nat).
Proof. exact truncation_exact. Qed.
Print Assumptions C12_truncation_exact.

(* 4b. The block parser is sequential: ANY byte string d that agrees with the written stream on
      its first n bytes (a cut, a cut followed by zeros or garbage, damage after offset n, ...) is
      read, in either mode, with or without checksums, and with no hypothesis on the rest of d,
      as the records written wholly inside those n bytes followed by something. *)
Theorem C12_prefix_complete : forall crc p, jparams_ok p -> forall strict ck fl rs d n j,
  firstn n d = firstn n (jwrite crc p fl rs) ->
  (length (jwrite crc p fl (firstn j rs)) <= n)%nat ->
  exists t, jread crc p strict ck d = map Rec (firstn j rs) ++ t.
Proof. exact prefix_complete. Qed.
Print Assumptions C12_prefix_complete.

(* 5. Damage.  no_forgery ck rs d is a COMPUTABLE boolean on the concrete damaged stream d:
      d has as many blocks as the stream written for rs and, in every block, what the block
      parser accepts is a run of that block's original chunks from the block start, the rest of
      the block being reported as dropped (i.e. no damaged or displaced chunk passes the
      type / length / checksum tests).  It is a hypothesis because a 32-bit checksum cannot
      exclude collisions; it holds of every undamaged stream (C12_no_forgery_intact) and the
      harness evaluates its Go counterpart on every damaged case it generates.
      Tolerant mode: the records yielded are a sub-sequence of the records written (nothing
      invented, order kept), and every record all of whose chunks lie in blocks that are
      byte-identical to the written ones is kept. *)
Theorem C12_damage_contained : forall crc p, jparams_ok p -> forall ck fl rs d,
  no_forgery crc p ck rs d = true ->
  exists keep,
    length keep = length rs /\
    recs_of (jread crc p false ck d) = select keep rs /\
    forall k, (k < length rs)%nat ->
      (forall i, In i (rec_blocks p rs k) ->
         nth i (stream_blocks p d) [] = nth i (stream_blocks p (jwrite crc p fl rs)) []) ->
      nth k keep false = true.
Proof. exact damage_contained. Qed.
Print Assumptions C12_damage_contained.

(*    Strict mode: a prefix of the records, then nothing (no parsed chunk was affected) or Err. *)
Theorem C12_damage_strict : forall crc p, jparams_ok p -> forall ck rs d,
  no_forgery crc p ck rs d = true ->
  exists m t, jread crc p true ck d = map Rec (firstn m rs) ++ t /\ (t = [] \/ t = [Err]).
Proof. exact damage_strict. Qed.
Print Assumptions C12_damage_strict.

(*    ... and the prefix contains every record lying entirely before the damage: if d agrees
      with the written stream on its first n bytes (n = offset of the first altered byte; for
      damage confined to blocks b, b+1, ... take n = b * blockSize) then every one of the first j
      records, the stream written for which is at most n bytes long, is yielded. *)
Theorem C12_damage_strict_complete : forall crc p, jparams_ok p -> forall ck fl rs d n j,
  no_forgery crc p ck rs d = true ->
  firstn n d = firstn n (jwrite crc p fl rs) ->
  (j <= length rs)%nat ->
  (length (jwrite crc p fl (firstn j rs)) <= n)%nat ->
  exists m t, jread crc p true ck d = map Rec (firstn m rs) ++ t /\ (t = [] \/ t = [Err]) /\
              (j <= m)%nat /\ (m <= length rs)%nat.
Proof. exact damage_strict_complete. Qed.
Print Assumptions C12_damage_strict_complete.

(*    Tolerant mode, same situation: the records yielded are the records written wholly inside
      the intact first n bytes, all of them, followed by a sub-sequence of the others. *)
Theorem C12_damage_contained_prefix : forall crc p, jparams_ok p -> forall ck fl rs d n j,
  no_forgery crc p ck rs d = true ->
  firstn n d = firstn n (jwrite crc p fl rs) ->
  (length (jwrite crc p fl (firstn j rs)) <= n)%nat ->
  exists keep, recs_of (jread crc p false ck d) = firstn j rs ++ select keep (skipn j rs).
Proof. exact damage_contained_prefix. Qed.
Print Assumptions C12_damage_contained_prefix.

(* 6. Tails: what a crash leaves of an unsynced journal on some file systems (the images C04
      builds: vstor TailCut / TailCutZero / TailCutJunk) is the stream cut at a byte offset n
      followed by other bytes - zeros or garbage - up to the written length.
      For ANY tail (any bytes, any length), either mode, no hypothesis: the records wholly inside
      the cut are yielded first. *)
Theorem C12_tail_complete : forall crc p, jparams_ok p -> forall strict ck fl rs n tail j,
  (n <= length (jwrite crc p fl rs))%nat ->
  (length (jwrite crc p fl (firstn j rs)) <= n)%nat ->
  exists t, jread crc p strict ck (firstn n (jwrite crc p fl rs) ++ tail) = map Rec (firstn j rs) ++ t.
Proof. exact tail_complete. Qed.
Print Assumptions C12_tail_complete.

(*    ZERO tail (any number of zero bytes after the cut), EVERY checksum function, checksums
      verified or not, both modes, no hypothesis: the reader yields exactly the m records wholly
      inside the cut (m as in C12_truncation_exact), then at most ONE further record.  No chunk is
      ever parsed out of the zeros; the one further record can only stem from the chunk the cut
      falls in, when its header survived (its payload is then zero-filled: accepted if the
      checksum is not verified, collides, or the lost bytes were zeros anyway - the two witnesses
      of C12_zero_tail_witnesses show that "at most one" cannot be improved to "none"). *)
Theorem C12_zero_tail : forall crc p, jparams_ok p -> forall strict ck fl rs n z,
  exists m t,
    jread crc p strict ck (firstn n (jwrite crc p fl rs) ++ repeat 0 z) = map Rec (firstn m rs) ++ t /\
    (m <= length rs)%nat /\
    (length (jwrite crc p fl (firstn m rs)) <= n)%nat /\
    (forall j, (j <= length rs)%nat ->
               (length (jwrite crc p fl (firstn j rs)) <= n)%nat -> (j <= m)%nat) /\
    (length (recs_of t) <= 1)%nat.
Proof. exact zero_tail. Qed.
Print Assumptions C12_zero_tail.

(*    ... and, tolerant mode, when the checksum detects the tail (no_forgery evaluated on the
      image: zeros or garbage of the same length), nothing is invented after them: what follows
      is a sub-sequence of the remaining records (for a zero tail: at most one of them). *)
Theorem C12_tail_contained : forall crc p, jparams_ok p -> forall ck fl rs n tail j,
  (n <= length (jwrite crc p fl rs))%nat ->
  no_forgery crc p ck rs (firstn n (jwrite crc p fl rs) ++ tail) = true ->
  (length (jwrite crc p fl (firstn j rs)) <= n)%nat ->
  exists keep,
    recs_of (jread crc p false ck (firstn n (jwrite crc p fl rs) ++ tail))
    = firstn j rs ++ select keep (skipn j rs).
Proof. exact tail_contained. Qed.
Print Assumptions C12_tail_contained.

Theorem C12_no_forgery_intact : forall crc p, jparams_ok p -> forall ck fl rs,
  no_forgery crc p ck rs (jwrite crc p fl rs) = true.
Proof. exact no_forgery_intact. Qed.
Print Assumptions C12_no_forgery_intact.

(* The constants of the current source satisfy the side conditions. *)
Theorem C12_params_ok : jparams_ok jp.
Proof. exact jp_ok. Qed.
Print Assumptions C12_params_ok.

(* Non-vacuity: a concrete run with 32-byte blocks (same header size and type codes), the real
   CRC: an empty record, a record that leaves exactly 7 bytes in the block (empty first chunk
   follows), a 3-block record. *)
Example C12_nonvacuous :
  jparams_ok jp_small /\
  let rs := [[]; [1;2;3;4;5;6;7;8;9;10;11]; [5]; repeat 9 60] in
  jread jcrc jp_small true true (jwrite jcrc jp_small [true; false] rs) = map Rec rs /\
  jread jcrc jp_small false true (firstn 39 (jwrite jcrc jp_small [] rs)) = [Rec []; Rec [1;2;3;4;5;6;7;8;9;10;11]; Skipped] /\
  (* one payload byte of the 3-block record flipped: the hypothesis of the damage theorems holds
     with the real CRC-32C, the damaged record is skipped, everything else is read *)
  let s := jwrite jcrc jp_small [] rs in
  let d := firstn 70 s ++ [77] ++ skipn 71 s in
  no_forgery jcrc jp_small true rs d = true /\
  jread jcrc jp_small false true d = [Rec []; Rec [1;2;3;4;5;6;7;8;9;10;11]; Rec [5]; Skipped] /\
  jread jcrc jp_small true true d = [Rec []; Rec [1;2;3;4;5;6;7;8;9;10;11]; Rec [5]; Err] /\
  map (rec_blocks jp_small rs) [0; 1; 2; 3]%nat = [[0]; [0]; [0; 1]; [1; 2; 3]]%nat.
Proof. split; [exact jp_small_ok|]. vm_compute. repeat split; reflexivity. Qed.

(* Non-vacuity of the cut / damage-prefix / tail theorems on the same 32-byte-block instance
   (record k ends at stream offset 7, 25, 40, 121): a cut at 39 yields exactly 2 records; the
   flipped byte at offset 70 leaves the 3 records wholly before it; a cut at 50 followed by zeros
   or by 255s up to the written length satisfies no_forgery with the real CRC-32C and yields the 3
   records inside the cut. *)
Example C12_nonvacuous_cut :
  let rs := [[]; [1;2;3;4;5;6;7;8;9;10;11]; [5]; repeat 9 60] in
  let s := jwrite jcrc jp_small [] rs in
  map (fun j => length (jwrite jcrc jp_small [] (firstn j rs))) [0;1;2;3;4]%nat = [0;7;25;40;121]%nat /\
  jread jcrc jp_small true true (firstn 39 s) = map Rec (firstn 2 rs) ++ [Err] /\
  (let d := firstn 70 s ++ [77] ++ skipn 71 s in
   no_forgery jcrc jp_small true rs d = true /\ firstn 70 d = firstn 70 s /\
   jread jcrc jp_small true true d = map Rec (firstn 3 rs) ++ [Err]) /\
  (let d := firstn 50 s ++ repeat 0 71 in
   no_forgery jcrc jp_small true rs d = true /\
   recs_of (jread jcrc jp_small false true d) = firstn 3 rs ++ select [] (skipn 3 rs)) /\
  (let d := firstn 50 s ++ repeat 255 71 in
   no_forgery jcrc jp_small true rs d = true /\
   recs_of (jread jcrc jp_small false true d) = firstn 3 rs ++ select [] (skipn 3 rs)).
Proof. vm_compute. repeat split; reflexivity. Qed.

(* Why "a zero tail yields exactly the records inside the cut" is NOT a theorem: (1) a record
   whose bytes beyond the cut are zeros anyway is intact in the image and is yielded (records end
   at 8, 21, 29; cut at 18 = inside the payload of the second one); (2) with checksum
   verification off (opt.StrictJournalChecksum cleared) a chunk whose header survived the cut is
   accepted with a zero-filled payload: a record that was never written (no_forgery is false). *)
Example C12_zero_tail_witnesses :
  (let rz := [[1]; [0;0;0;0;0;0]; [2]] in
   let s := jwrite jcrc jp_small [] rz in
   map (fun j => length (jwrite jcrc jp_small [] (firstn j rz))) [1;2;3]%nat = [8;21;29]%nat /\
   jread jcrc jp_small false true (firstn 18 s ++ repeat 0 11) = [Rec [1]; Rec [0;0;0;0;0;0]]) /\
  (let rs := [[]; [1;2;3;4;5;6;7;8;9;10;11]; [5]; repeat 9 60] in
   let d := firstn 14 (jwrite jcrc jp_small [] rs) ++ repeat 0 107 in
   jread jcrc jp_small false false d = [Rec []; Rec [0;0;0;0;0;0;0;0;0;0;0]] /\
   no_forgery jcrc jp_small false rs d = false).
Proof. vm_compute. repeat split; reflexivity. Qed.
