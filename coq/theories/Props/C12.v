(* Props/C12.v — property C12: journal framing round-trips and contains damage.
   Property theorems only; each is closed by [exact lemma] and followed by Print Assumptions.
   All theorems hold for every constant record satisfying jparams_ok (re-proved for the
   constants of the current source in Gen/InstJournalOk.v: jp_ok) and for EVERY checksum
   function crc : bytes -> N. *)
From GL Require Import Base.Bytes Codec.Crc Codec.Journal Codec.JournalSpec Codec.JournalProofs
  Gen.InstJournalOk.

(* 0. The writer model never panics / runs out of fuel: jwrite is the output of a completed run. *)
Theorem C12_writer_total : forall crc p, jparams_ok p -> forall fl rs,
  exists s, jwrite_res crc p fl rs = WOk s /\ w_out s = jwrite crc p fl rs.
Proof. exact writer_total. Qed.
Print Assumptions C12_writer_total.

(* 1. Round trip: any records, any sizes, any flush pattern, both modes, checksums on or off;
      the dropper is never called (jread_log is the full observation list). *)
Theorem C12_roundtrip : forall crc p, jparams_ok p -> forall strict ck fl rs,
  jread crc p strict ck (jwrite crc p fl rs) = map Rec rs.
Proof. exact roundtrip. Qed.
Print Assumptions C12_roundtrip.

Theorem C12_roundtrip_no_drop : forall crc p, jparams_ok p -> forall strict ck fl rs,
  jread_log crc p strict ck (jwrite crc p fl rs) = map Rec rs.
Proof. exact roundtrip_log. Qed.
Print Assumptions C12_roundtrip_no_drop.

(* 2. The bytes written do not depend on where Flush is called. *)
Theorem C12_flush_irrelevant : forall crc p, jparams_ok p -> forall fl1 fl2 rs,
  jwrite crc p fl1 rs = jwrite crc p fl2 rs.
Proof. exact flush_irrelevant. Qed.
Print Assumptions C12_flush_irrelevant.

(* 3. The reader is total on arbitrary bytes: every slice/index expression stays in range
      (no Panic) and every loop terminates within the fuel given (no OutOfFuel). *)
Theorem C12_no_panic : forall crc p, jparams_ok p -> forall strict ck b,
  Forall (fun o => o <> Panic /\ o <> OutOfFuel) (jread_log crc p strict ck b).
Proof. exact no_panic. Qed.
Print Assumptions C12_no_panic.

(* The constants of the current source satisfy the side conditions. *)
Theorem C12_params_ok : jparams_ok jp.
Proof. exact jp_ok. Qed.
Print Assumptions C12_params_ok.

(* Non-vacuity: a concrete run with 32-byte blocks (same header size and type codes), the real
   CRC: an empty record, a record that leaves exactly 7 bytes in the block (empty first chunk
   follows), a 3-block record. *)
Example C12_nonvacuous :
  jparams_ok jp_small /\
  let rs := [[]; [1;2;3;4;5;6;7;8;9;10;11]; [5]; repeat 9 60] in
  jread jcrc jp_small true true (jwrite jcrc jp_small [true; false] rs) = map Rec rs /\
  jread jcrc jp_small false true (firstn 39 (jwrite jcrc jp_small [] rs)) = [Rec []; Rec [1;2;3;4;5;6;7;8;9;10;11]; Skipped].
Proof. split; [exact jp_small_ok|]. vm_compute. split; reflexivity. Qed.
