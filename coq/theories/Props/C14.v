(* Props/C14.v — property C14: the in-memory buffer is an ordered map, safe under concurrent
   readers.  Property theorems only. *)
From GL Require Import Base.Order Mem.MemDB Mem.MemSpec Gen.ConstsOkMem.

(* The constants of the current source give the node layout the model and the theorems assume. *)
Theorem C14_layout_ok : mparams_ok mp.
Proof. exact mp_ok. Qed.
Print Assumptions C14_layout_ok.
