(* Props/C14.v — property C14: the in-memory buffer is an ordered map, safe under concurrent
   readers.  Property theorems only; each is closed by [exact lemma] and followed by
   Print Assumptions.

   Model: Mem/MemDB.v (the array-encoded skip list as coded in leveldb/memdb/memdb.go).
   Reference: Mem/MemSpec.v (sorted association list + cursor over its visible part). *)
From GL Require Import Base.Order Codec.BytesCmp Codec.BytesCmpProofs Mem.MemDB Mem.MemSpec Mem.MemDBProofs
  Mem.MemConc Mem.MemConcProofs Mem.MemTotal Gen.ConstsOkMem.
Open Scope N_scope.

(* 0. The constants of the current source give the node layout the theorems assume. *)
Theorem C14_layout_ok : mparams_ok mp.
Proof. exact mp_ok. Qed.
Print Assumptions C14_layout_ok.

(* 1. memdb_refines_map.  For every lawful comparer, every layout satisfying mparams_ok, every
   program (any sequence of Put/Delete/Get/Find/Contains/Len/Size/used/Reset and of
   NewIterator/First/Last/Seek/Next/Prev on any number of iterators with any slices, writes and
   iterator movements interleaved at will) whose Puts carry heights in [1, tMaxHeight]: whenever
   the reference answers the program, the array model returns exactly the same outputs — in
   particular it never panics (no index outside an array) and never runs out of fuel.
   The reference declines (None) exactly the programs that call Next on an iterator whose
   current key was deleted after the iterator reached it (see Mem/MemSpec.v); those are covered by
   theorem 4 instead. *)
Theorem C14_memdb_refines_map :
  forall c, comparer_ok c -> forall p, mparams_ok p ->
  forall ops outs, heights_ok (tMaxHeight p) ops ->
    spec_run c ops = Some outs -> run c p ops = Ok outs.
Proof. exact refines. Qed.
Print Assumptions C14_memdb_refines_map.

(* the same for the layout constants of the current source *)
Theorem C14_memdb_refines_map_src :
  forall c, comparer_ok c ->
  forall ops outs, heights_ok (tMaxHeight mp) ops ->
    spec_run c ops = Some outs -> run c mp ops = Ok outs.
Proof. intros c ok. exact (refines c ok mp mp_ok). Qed.
Print Assumptions C14_memdb_refines_map_src.

(* 2. len_size_consistent.  After every such program Len is the number of keys of the reference
   map, Size the sum of their key and value lengths, and the reference map is strictly sorted. *)
Theorem C14_len_size_consistent :
  forall c, comparer_ok c -> forall p, mparams_ok p ->
  forall ops t outs, heights_ok (tMaxHeight p) ops ->
    spec_run_from c sp_init ops = Some (t, outs) ->
    exists d s,
      mdb_new p = Ok d /\ run_from c p {| st_db := d; st_its := [] |} ops = Ok (s, outs) /\
      mdb_len (st_db s) = Z.of_nat (length (sp_map t)) /\
      mdb_size (st_db s) = s_size (sp_map t) /\
      smap_sorted c (sp_map t).
Proof. exact len_size. Qed.
Print Assumptions C14_len_size_consistent.

(* 3. Fuel.  Under the representation invariant, fuel = live nodes + maxHeight makes every
   search return a value (not OutOfFuel, not Panic); that is the fuel every operation uses. *)
Theorem C14_search_fuel_suffices :
  forall c, comparer_ok c -> forall p, mparams_ok p ->
  forall d A L k prev fuel,
    Inv c (tMaxHeight p) d A L ->
    (length L + N.to_nat (maxHeight d) <= fuel)%nat ->
    (exists r, findGE c p fuel d k prev (prev_init p) = Ok r) /\
    (exists r, findLT c p fuel d k = Ok r) /\
    (exists r, findLast p fuel d = Ok r).
Proof. exact search_fuel_suffices. Qed.
Print Assumptions C14_search_fuel_suffices.

Theorem C14_op_fuel_is_bound :
  forall c p d A L, Inv c (tMaxHeight p) d A L -> op_fuel d = (length L + N.to_nat (maxHeight d))%nat.
Proof. exact op_fuel_is_bound. Qed.
Print Assumptions C14_op_fuel_is_bound.

(* 4. concurrent_readers_safe (array level).  Mem/MemConc.v: one writer whose Put/Delete are atomic
   (the code holds p.mu.Lock for the whole call) interleaved in any order with any number of
   readers, each of whose steps is one iterator call or one Get/Find/Contains (p.mu.RLock per
   call); iterators keep only node index, direction and the copied key/value between steps.
   For every such action sequence: no step panics (indexes outside the arrays) or runs out of
   fuel, and everything a reader sees satisfies obs_good: a valid iterator shows a pair that is
   in the writer's log (was stored at some time) and lies inside its slice; Next from a valid
   position yields a strictly larger key, Prev a strictly smaller one, Seek k a key >= k; Get/Find
   return logged pairs.  This holds also when the iterator's current key was deleted under it.
   Outside the statement: Reset while iterators exist, the Go memory model below the granularity
   of the two locks (checked by reading and by the stress runs of the harness). *)
Theorem C14_concurrent_readers_safe :
  forall c, comparer_ok c -> forall p, mparams_ok p ->
  forall acts, aheights_ok p acts ->
    exists obs, crun c p acts = Ok obs /\ Forall (obs_good c) obs.
Proof. exact conc_safe. Qed.
Print Assumptions C14_concurrent_readers_safe.

(* 5. The model never panics: on ANY sequential program with heights in range - also those the
   reference declines in 1 (Next on an iterator whose key was deleted under it) - every operation
   of the array model returns: no index outside nodeData/kvData/prevNode, fuel never exhausted. *)
Theorem C14_model_never_panics :
  forall c, comparer_ok c -> forall p, mparams_ok p ->
  forall ops, heights_ok (tMaxHeight p) ops -> exists outs, run c p ops = Ok outs.
Proof. exact run_total. Qed.
Print Assumptions C14_model_never_panics.

(* Non-vacuity of 4: a reader stands on key 1; the writer deletes 1 and then 2; the reader's Next
   follows the link the unlinked node kept and yields the pair (2, 20), which is no longer live but
   was stored and is larger than 1; the following Next yields (3, 30). *)
Definition c14_conc_example : list action :=
  [AWPut [1] [10] 1; AWPut [2] [20] 2; AWPut [3] [30] 1; ARNew 0 None; ARMove 0 MFirst;
   AWDelete [1]; AWDelete [2]; ARMove 0 MNext; ARMove 0 MNext; ARGet [2]; ARMove 0 MPrev].

Example C14_conc_nonvacuous :
  aheights_ok mp c14_conc_example /\
  exists obs, crun bytewise mp c14_conc_example = Ok obs /\
    map (fun o => match o with
                  | ObsMove _ _ a _ => (it_key a, it_val a)
                  | ObsGet _ v _ => (None, v)
                  | _ => (None, None) end) obs =
    [(None, None); (None, None); (None, None); (None, None); (Some [1], Some [10]);
     (None, None); (None, None); (Some [2], Some [20]); (Some [3], Some [30]); (None, None);
     (None, None)].
Proof.
  split.
  - unfold c14_conc_example. repeat constructor; vm_compute; congruence.
  - eexists. split; vm_compute; reflexivity.
Qed.

(* Non-vacuity: a program with an overwrite that changes the value length, a Delete, a Delete of
   an absent key, a sliced iterator walked in both directions around a write, Reset and reuse is
   answered by the reference, and the model's run (computed) gives the same outputs. *)
Definition c14_example : list op :=
  [OPut [1] [10] 1; OPut [2] [20] 3; OPut [1;0] [30] 2; OPut [1] [11;12] 1;
   ONewIter 0 (Some (Some [1], Some [2])); OFirst 0; ONext 0; OPut [1;5] [] 12; ONext 0; OPrev 0; ONext 0; ONext 0;
   ODelete [2]; ODelete [7]; OGet [1]; OFind [1;1]; OContains [2]; OLen; OSize; OLast 0; OPrev 0;
   OReset; OLen; OPut [] [1] 1; OFind []; OUsed].

Example C14_nonvacuous :
  comparer_ok bytewise /\ heights_ok (tMaxHeight mp) c14_example /\
  exists outs, spec_run bytewise c14_example = Some outs /\ run bytewise mp c14_example = Ok outs /\
               length outs = 26%nat.
Proof.
  split; [exact bytewise_ok|]. split.
  - unfold c14_example. repeat constructor; vm_compute; congruence.
  - eexists. split; [vm_compute; reflexivity|]. split; vm_compute; reflexivity.
Qed.
