(* Props/C09.v — property C09: no call blocks forever and Close always returns.
   Property theorems only; each is closed by [exact lemma] and followed by Print Assumptions.

   The theorems speak about Conc/Locks.v, a hand-written executable model of the BLOCKING SKELETON of
   goleveldb (control flow of every public call and of the background goroutines over the write lock,
   compCommitLk, tr.lk and the channels), derived by reading the Go source and tied to the running code by
   trace inclusion of the lock events (Corr/C09Run.v) and by the watchdog harness (harness/cmd/c09).
   PARTIAL by nature: the Go scheduler and memory model, fairness and wall-clock time are outside the model;
   the model proves ownership discipline, exits of waits and deadlock freedom, the watchdog observes liveness. *)
From GL Require Import Conc.Locks Conc.LocksProofs Conc.LocksDeadlock Conc.LocksInv Conc.LocksInvBg Conc.LocksInvAll
  Conc.LocksClose Conc.LocksLate.

(* 1. locks_balanced.  In every reachable state of the repaired code (any number of clients, any schedule,
      any outcome of the storage operations, Close at any point) what a client holds is a function of where
      it is in its call: the write lock exactly at the program counters [cW], compCommitLk exactly at [cC],
      tr.lk only at [cTl]. *)
Theorem C09_held_is_pc : forall s, reachable fixed s ->
  forall i, holdsW s i = cW (cli s i) /\ holdsC s i = cC (cli s i) /\ (holdsT s i = true -> cTl (cli s i) = true).
Proof. exact held_is_pc. Qed.
Print Assumptions C09_held_is_pc.

(*    Hence a client that is not inside a call holds nothing: every call path that terminates -- whatever
      faults occurred on it -- has given back what it acquired.  OpenTransaction hands the write lock to its
      Transaction (state WTr, given back by Commit / Discard / Close's Discard); Close keeps it for ever on
      behalf of the closed DB (state WClosed). *)
Theorem C09_locks_balanced : forall s, reachable fixed s ->
  forall i, (cli s i = Idle \/ cli s i = IdleTr) -> holdsW s i = false /\ holdsC s i = false /\ holdsT s i = false.
Proof. exact locks_balanced_lts. Qed.
Print Assumptions C09_locks_balanced.

(* 2. every_wait_has_exit.  Every program counter of a client whose outgoing steps can all block is either a
      select that lists closeC, or one of the listed unconditional operations (mutex Lock, the merge
      protocol's replies, Close's own acquisition and closeW.Wait) whose partner is guaranteed by an invariant
      (see Conc/LocksProofs.v, client_unconditional).  Same for the two compaction goroutines. *)
Theorem C09_every_wait_has_exit_clients : forall pc,
  match classify (cedges fixed pc) with
  | WPartner | WFinal => client_unconditional pc = true
  | _ => client_unconditional pc = false
  end.
Proof. exact client_waits. Qed.
Print Assumptions C09_every_wait_has_exit_clients.

Theorem C09_every_wait_has_exit_mcompaction : forall pc,
  match classify (medges pc) with
  | WPartner => m_unconditional pc = true | WFinal => pc = MDone | _ => m_unconditional pc = false end.
Proof. exact m_waits. Qed.
Print Assumptions C09_every_wait_has_exit_mcompaction.

Theorem C09_every_wait_has_exit_tcompaction : forall pc,
  match classify (tedges pc) with
  | WPartner => t_unconditional pc = true | WFinal => pc = TDone | _ => t_unconditional pc = false end.
Proof. exact t_waits. Qed.
Print Assumptions C09_every_wait_has_exit_tcompaction.

(*    Waits for background work also list compErrC; waits for the write lock (Close excepted) also list
      compPerErrC. *)
Theorem C09_error_exits : forall pc,
  let es := cedges fixed pc in
  (has_send_cmd es || is_trigw_pc pc = true -> has_lbl LRecvErr es && has_lbl LSeeClosed es = true) /\
  (has_acq es = true -> has_lbl LRecvPerr es && has_lbl LSeeClosed es = true).
Proof. exact error_exits. Qed.
Print Assumptions C09_error_exits.

(* 3. no_deadlock (FULL for the model).  In every reachable state in which some client is inside a call (or owns
      an open transaction that it has not yet committed or discarded) some step other than a new arrival is
      enabled: no state of the model is a deadlock.  Proof: the lock-ownership invariant inv1 and the protocol
      invariant inv2 (Conc/LocksDeadlock.v: ack tickets, merge protocol, pause protocol, Close, transaction
      ownership) hold in every reachable state -- inv2 is preserved by every step of a client (one lemma per
      label, Conc/LocksInv.v, dispatched in Conc/LocksInvAll.v) and by every step of mCompaction, tCompaction and
      compactionError (Conc/LocksInvBg.v) -- and inv1 /\ inv2 imply progress (Conc/LocksDeadlock.v).
      Outside: that the Go scheduler eventually runs an enabled step (fairness), wall-clock time. *)
Theorem C09_inv2_reachable : forall s, reachable fixed s -> inv2 s.
Proof. exact inv2_reachable. Qed.
Print Assumptions C09_inv2_reachable.

Theorem C09_no_deadlock : forall s, reachable fixed s -> pending s ->
  exists a, is_arrival fixed s a = false /\ exists s', step fixed s a = Some s'.
Proof. exact no_deadlock. Qed.
Print Assumptions C09_no_deadlock.

(*    Non-vacuity: a reachable state with calls in progress -- client 0 is inside a Put and holds the write lock
      (at the merge point), client 1 is inside Close and has closed closeC. *)
Definition c09_pre : list action :=
  [ACli 0 0 0; ACli 0 1 0; ACli 0 0 0; ACli 0 0 0; ACli 1 7 0; ACli 1 0 0; ACli 1 0 0; ACli 1 0 0].
Definition c09_s0 : state := match run fixed init c09_pre with Some s => s | None => init end.
Example C09_no_deadlock_nonvacuous :
  reachable fixed c09_s0 /\ pending c09_s0 /\
  (cli c09_s0 0, cli c09_s0 1, closeC c09_s0, wl c09_s0) = (WM true, CL3, true, WHeld (PCli 0)).
Proof.
  split; [| split].
  - apply (run_reachable c09_pre init); [apply reach_init | vm_compute; reflexivity].
  - exists 0. vm_compute. discriminate.
  - vm_compute. reflexivity.
Qed.

(*    The hypothesis-carrying form that was proved first (kept: it is the progress argument itself). *)
Theorem C09_no_deadlock_partial : forall s, reachable fixed s -> inv2 s -> pending s ->
  exists a, is_arrival fixed s a = false /\ exists s', step fixed s a = Some s'.
Proof. intros s R I2 P. exact (progress s (inv1_reachable s R) I2 P). Qed.
Print Assumptions C09_no_deadlock_partial.

(*    no_lost_wakeup.  While a client waits for the acknowledgement of a compaction command (second select of
      compTriggerWait) the addressed goroutine still holds the acknowledgement channel -- as its current command
      or, for tCompaction, in its wait queue -- and stands at a point from which every path, the exit paths at
      closeC / a persistent error included, sends the acknowledgement (x.ack(err) in the loop, x.ack(ErrClosed)
      and waitQ[i].ack(ErrClosed) in the deferred exit code).  The waiting select itself also lists compErrC and
      closeC (C09_error_exits). *)
Theorem C09_no_lost_wakeup : forall s i, reachable fixed s ->
  (is_trigw BM (cli s i) = true -> mx s = Some (i, ctk s i) /\ mc s <> M0 /\ mc s <> MDone) /\
  (is_trigw BT (cli s i) = true ->
     (tx s = Some (i, ctk s i) /\ tx_none_pc (tc s) = false) \/
     (In (i, ctk s i) (tq s) /\ tc s <> T2 /\ tc s <> TDone)).
Proof. exact ack_registered. Qed.
Print Assumptions C09_no_lost_wakeup.

(* 3b. close_terminates (PARTIAL: the measure-based core).  Full statement (NOT proved, and false for the model
      as for the code without a probabilistic reading of select): from every reachable state in which Close has
      closed closeC, every maximal run without new calls, under weak fairness, returns from Close.  Reason: Go
      picks at random among the ready cases of a select; a run in which a select with a ready closeC case keeps
      taking another ready case (flush's write-delay loop sends its command, tCompaction accepts it, ...) is a
      run of the model and of the code -- of probability 0.
      Proved (Conc/LocksClose.v, Conc/LocksLate.v): call a step GOOD when it is not a new call (no edge out of
      Idle or IdleTr -- so no step at all of the owner of a Transaction handle that is between calls) and the
      goroutine, when it stands at a select that lists closeC, takes the closeC case (compactionError: its
      closeC case).  With
      measure N s = 200 * (sum over the clients below N of their distance to the end of the call) +
      10 * distance of mCompaction to its exit + distance of tCompaction to its exit + length of its wait
      queue + (compactionError still running):
        - every good step of a reachable state with closeC closed strictly decreases the measure;
        - hence every run of good steps has at most [measure] steps;
        - as long as some client is inside a call a good step is enabled.  This rests on repair fb021ae: once
          Close has read db.tr, an open transaction is either the one Close read and discards itself, or one
          whose OpenTransaction is on its way to give it up (C09_close_never_waits_for_idle_owner); before the
          repair Close could wait for the owner of a transaction returned on a closed DB
          (C09_late_transaction_refuted);
        - hence a run of good steps that cannot be extended ends with every client between calls (Idle, or
          IdleTr with a handle of a transaction that is closed): Close has returned, and so has every other call.
      Outside: scheduler fairness, the random choice of select, wall-clock time. *)
Theorem C09_close_good_step_decreases : forall N s a s', inv2 s -> closeC s = true -> support N s ->
  good s a = true -> step fixed s a = Some s' -> measure N s' < measure N s.
Proof. exact good_step_decreases. Qed.
Print Assumptions C09_close_good_step_decreases.

Theorem C09_close_never_waits_for_idle_owner : forall s, reachable fixed s ->
  forall i o, crd (cli s i) = true -> trown s = Some o ->
    late_pc (cli s o) = true \/ (cpre (cli s i) = true /\ closetgt s = Some o).
Proof. exact invK_reachable. Qed.
Print Assumptions C09_close_never_waits_for_idle_owner.

Theorem C09_close_good_step_enabled : forall s, reachable fixed s -> closeC s = true -> in_call s ->
  exists a s', good s a = true /\ step fixed s a = Some s'.
Proof. exact good_enabled. Qed.
Print Assumptions C09_close_good_step_enabled.

Theorem C09_close_terminates_partial : forall s, reachable fixed s -> closeC s = true ->
  exists B, forall l s', grun s l = Some s' ->
    length l <= B /\ ((forall a, grun s' [a] = None) -> forall i, cli s' i = Idle \/ cli s' i = IdleTr).
Proof. exact close_terminates_core. Qed.
Print Assumptions C09_close_terminates_partial.

(*    Non-vacuity: from the state above (a Put holds the write lock, Close has closed closeC) a run of 16 good
      steps ends with both clients Idle, both compaction goroutines and compactionError gone, the write lock
      kept by the closed DB, measure 0 (from 4226). *)
Definition c09_close_run : list action :=
  [ACli 0 2 0; ACli 0 0 0; ACli 0 0 0; ACli 0 2 0; ACli 0 0 0; ACli 1 1 0; ACli 1 0 0; AM 0; AM 0; AT 0; AT 0; AT 1;
   ACli 1 0 0; ACli 1 0 0; ACli 1 0 0; ACE 1].
Example C09_close_terminates_nonvacuous :
  match grun c09_s0 c09_close_run with
  | Some s => Some (cli s 0, cli s 1, mc s, tc s, ce s, wl s, measure 2 c09_s0, measure 2 s)
  | None => None
  end = Some (Idle, Idle, MDone, TDone, E_done, WClosed, 4226, 0).
Proof. vm_compute. reflexivity. Qed.

Theorem C09_inv2_init : inv2 init.
Proof. exact (inv2_of_parts init inv2'_init). Qed.
Print Assumptions C09_inv2_init.

(*    Four of the per-label preservation lemmas for client steps (all of them are in Conc/LocksInv.v): releasing the write lock,
      handing it to the overflowed merge writer, handing it to the Transaction, setDone. *)
Theorem C09_inv2_release_write_lock : forall s i pc' l, inv1 s -> inv2' s -> wl s = WHeld (PCli i) ->
  (l = LRelW \/ (l = LRelWU /\ merged s = [] /\ pend s = None)) ->
  cedge1_ok (cli s i) (l, pc') = true -> cedge2_ok (cli s i) (l, pc') = true ->
  inv2' (set_pc (set_wl s WFree) i pc').
Proof. exact step_rel. Qed.
Print Assumptions C09_inv2_release_write_lock.

Theorem C09_inv2_hand_over : forall s i n pc', inv1 s -> inv2' s -> wl s = WHeld (PCli i) -> merged s = [] ->
  pend s = Some n -> cli s n = W2 ->
  cedge1_ok (cli s i) (LGiveW, pc') = true -> cedge2_ok (cli s i) (LGiveW, pc') = true ->
  inv2' (set_pc (set_pend (set_pc (set_wl s (WHeld (PCli n))) n (WF true)) None) i pc').
Proof. exact step_givew. Qed.
Print Assumptions C09_inv2_hand_over.

Theorem C09_inv2_open_transaction : forall s i pc', inv1 s -> inv2' s -> wl s = WHeld (PCli i) ->
  cedge1_ok (cli s i) (LWToTr, pc') = true -> cedge2_ok (cli s i) (LWToTr, pc') = true ->
  inv2' (set_pc (set_trown (set_wl s WTr) (Some i)) i pc').
Proof. exact step_wtotr. Qed.
Print Assumptions C09_inv2_open_transaction.

Theorem C09_inv2_set_done : forall s i pc', inv1 s -> inv2' s -> wl s = WTr -> tr_current s i = true ->
  cedge2_ok (cli s i) (LRelWTr, pc') = true ->
  inv2' (set_pc (set_trown (set_wl s WFree) None) i pc').
Proof. exact step_reltr. Qed.
Print Assumptions C09_inv2_set_done.

(* 4. The code before the repairs leaks: concrete schedules of the unfixed variants end in a state where a lock
      is held by nobody who will release it (and the repaired code, on the same schedule, does not). *)
Example C09_commit_leaks_refuted :
  summary (run unfixed_D4a init trace_D4a) = Some (WTr, Some (PCli 0), Some 0, IdleTr, Idle) /\
  summary (run fixed init trace_D4a) = Some (WTr, None, Some 0, IdleTr, Idle).
Proof. exact commit_leaks_refuted. Qed.
Print Assumptions C09_commit_leaks_refuted.

Example C09_write_large_leaks_refuted :
  summary (run unfixed_D4b init trace_D4b) = Some (WTr, None, Some 0, Idle, Idle) /\
  summary (run fixed init trace_D4b) = Some (WTr, None, Some 0, DC0 XLB, Idle).
Proof. exact write_large_leaks_refuted. Qed.
Print Assumptions C09_write_large_leaks_refuted.

Example C09_open_transaction_leaks_refuted :
  summary (run unfixed_D4c init trace_D4c) = Some (WHeld (PCli 0), None, None, Idle, CL3) /\
  summary (run fixed init trace_D4c) = Some (WFree, None, None, Idle, CL3).
Proof. exact open_transaction_leaks_refuted. Qed.
Print Assumptions C09_open_transaction_leaks_refuted.

Example C09_commit_retry_leaks_refuted :
  (match run unfixed_D7 init trace_D7 with
   | Some s => (cl s, mc s, poisoned s, summary (step unfixed_D7 s (AM 0)))
   | None => (None, M0, false, None) end) = (Some PM, MD1 true, true, None) /\
  (match run fixed init trace_D7 with
   | Some s => match step fixed s (AM 0) with Some s' => Some (mc s') | None => None end
   | None => None end) = Some (MDs true EOk).
Proof. exact commit_retry_leaks_refuted. Qed.
Print Assumptions C09_commit_retry_leaks_refuted.

Theorem C09_poisoned_manifest_sticks : forall s a s',
  poisoned s = true -> step unfixed_D7 s a = Some s' -> poisoned s' = true.
Proof. exact poisoned_sticks_unfixed. Qed.
Print Assumptions C09_poisoned_manifest_sticks.

Example C09_set_read_only_leaks_refuted :
  (match run unfixed_D8 init trace_D8 with
   | Some s => (wl s, cli s 0, cli s 1, ce s, summary (step unfixed_D8 s (ACli 1 0 0)))
   | None => (WFree, Idle, Idle, E_no, None) end) = (WHeld (PCli 0), Idle, CL4, E_done, None) /\
  summary (run fixed init trace_D8) = Some (WFree, None, None, Ret, CL4).
Proof. exact set_read_only_leaks_refuted. Qed.
Print Assumptions C09_set_read_only_leaks_refuted.

(*    OpenTransaction racing Close (repaired by fb021ae; found by this check, findings/C09_close_waits_for_late_transaction.json):
      OpenTransaction passes the closed test and takes the write lock, Close sets closed, closes closeC and reads
      db.tr == nil, OpenTransaction publishes db.tr.  Old code: it returns the transaction, and Close waits for the
      write lock until the owner of a transaction on a closed DB discards it.  Repaired code, same schedule: it
      sees closeC closed and gives the transaction up itself (tr.lk.Lock, discard, setDone); nine good steps
      later OpenTransaction has returned ErrClosed and Close has returned. *)
Example C09_late_transaction_refuted :
  summary9 unfixed_D9 (run unfixed_D9 init trace_D9) = Some (IdleTr, CL4, WTr, Some 0, MDone, TDone, E_done, false) /\
  summary9 fixed (run fixed init trace_D9) = Some (OT6 XUser, CL4, WTr, Some 0, MDone, TDone, E_done, false) /\
  match run fixed init trace_D9 with
  | Some s => match grun s trace_D9_rest with Some s' => Some (cli s' 0, cli s' 1, wl s', trown s') | None => None end
  | None => None
  end = Some (Idle, Idle, WClosed, None).
Proof. exact late_transaction_refuted. Qed.
Print Assumptions C09_late_transaction_refuted.

(*    The compaction goroutines in read-only mode (repair "a DB in the persistent-error state starts no flush and no
      table compaction"; the branch is part of the model every theorem above is about): a range command that
      reaches tCompaction after SetReadOnly is not executed -- tCompaction acknowledges it with the error and
      returns, CompactRange returns, and a later Close returns with one compaction goroutine already gone. *)
Example C09_read_only_parks_compaction :
  summary_bg (run fixed init (firstn 14 trace_ro_parks)) = Some (WHeld PCE, E_per, M0, T3 XRange, Idle, TrigW BT SCrT) /\
  summary_bg (run fixed init (firstn 15 trace_ro_parks)) = Some (WHeld PCE, E_per, M0, TX, Idle, TrigW BT SCrT) /\
  summary_bg (run fixed init (firstn 17 trace_ro_parks)) = Some (WHeld PCE, E_per, M0, TDone, Idle, Idle) /\
  summary_bg (run fixed init trace_ro_parks) = Some (WClosed, E_done, MDone, TDone, Idle, Idle).
Proof. exact read_only_parks_compaction. Qed.
Print Assumptions C09_read_only_parks_compaction.
