(* Lsm/BatchWriteProofs.v — the memdb-insertion half of the write path (Codec/Batch.v putMem / the tail of
   writeLocked / decodeBatchToMem) on C14's memdb states, composed with the byte-level read path
   (Lsm/ReadPath.v) and the history machine (Lsm/History.v).  Uses, does not re-prove: C14's put_ok under the
   representation invariant, the level-0 chain = the represented map (ReadPathMem), C15's key encoding,
   the L1 theory of newest / stamp (LsmProofs, HistoryProofs, ReorgProofs), get_correct_bytes.  Proof file. *)
From GL Require Import Base.Bytes Base.BytesProofs Base.Order Base.OrderProofs Base.Varint Base.VarintProofs
  Codec.IKey Codec.IKeyProofs Codec.Batch Codec.BatchProofs Codec.BatchGroupProofs
  Lsm.Lsm Lsm.LsmProofs Lsm.History Lsm.HistoryProofs Lsm.ReorgProofs Lsm.ReadPath Lsm.ReadPathKey Lsm.ReadPathMem
  Lsm.ReadPathProofs.
From GL Require Import Mem.MemDB Mem.MemSpec Mem.MemInv Mem.MemOps.
From Coq Require Import Arith ZArith Lia ZifyN ZifyNat ZifyBool.
Open Scope N_scope.

(* ---------------- membership in a sorted-map insertion (any lawful comparer) ---------------- *)
Section SInsert.
  Variable cc : comparer.
  Hypothesis cok : comparer_ok cc.

  Lemma s_insert_in_inv k v m x : In x (s_insert cc k v m) -> x = (k, v) \/ In x m.
  Proof.
    induction m as [|[k' v'] m IH]; cbn [s_insert].
    - intros [<-|[]]. left; reflexivity.
    - destruct (cmp cc k k').
      + intros [<-|H]; [left; reflexivity|right; right; exact H].
      + intros [<-|H]; [left; reflexivity|right; exact H].
      + intros [<-|H]; [right; left; reflexivity|]. destruct (IH H) as [E|E]; [left; exact E|right; right; exact E].
  Qed.

  Lemma s_insert_in_new k v m : In (k, v) (s_insert cc k v m).
  Proof.
    induction m as [|[k' v'] m IH]; cbn [s_insert]; [left; reflexivity|].
    destruct (cmp cc k k'); [left; reflexivity|left; reflexivity|right; exact IH].
  Qed.

  Lemma s_insert_in_old k v m x : In x m -> fst x <> k -> In x (s_insert cc k v m).
  Proof.
    induction m as [|[k' v'] m IH]; cbn [s_insert]; [intros []|].
    intros Hin Hne. destruct (cmp cc k k') eqn:E.
    - apply (cmp_eq cc cok) in E. subst k'. destruct Hin as [<-|Hin]; [cbn in Hne; congruence|right; exact Hin].
    - right. exact Hin.
    - destruct Hin as [<-|Hin]; [left; reflexivity|right; apply IH; assumption].
  Qed.
End SInsert.

Section Write.
  Variable c : comparer.
  Hypothesis ok : comparer_ok c.
  Variable p : kparams.
  Hypothesis pok : kparams_ok p.
  Hypothesis seek_val : keyTypeSeek p <= keyTypeVal p.
  Variable mp : mparams.
  Hypothesis mpok : mparams_ok mp.

  Local Notation ic := (ibc c).
  Local Notation tmax := (tMaxHeight mp).

  (* a record the DB writes: Put or Delete of a byte-string key *)
  Definition rec_wf (r : brec) : Prop :=
    (fst (fst r) = keyTypeDel p \/ fst (fst r) = keyTypeVal p) /\ wf_bytes (snd (fst r)).

  Definition heights_okl (hs : list N) : Prop := Forall (fun h => 1 <= h /\ h <= tmax) hs.

  Lemma del_le_val : keyTypeDel p <= keyTypeVal p.
  Proof. destruct pok as (H1 & H2 & _). lia. Qed.

  Lemma rec_wf_ok r : rec_wf r -> rec_ok p r.
  Proof. unfold rec_wf, rec_ok. pose proof del_le_val. intros [[->| ->] _]; lia. Qed.

  Lemma val_256 : keyTypeVal p < 256.
  Proof. destruct pok as (_ & H1 & _ & H2 & _). lia. Qed.

  (* the encoded internal key of a record *)
  Definition rkey (k : bytes) (seq kt : N) : bytes := encode_ikey {| uk := k; num := pack seq kt |}.

  Lemma make_ikey_ok k seq kt : seq <= keyMaxSeq p -> kt <= keyTypeVal p ->
    make_ikey p k seq kt = MkOk {| uk := k; num := pack seq kt |}.
  Proof.
    intros Hs Hk. unfold make_ikey.
    replace (keyMaxSeq p <? seq) with false by lia. replace (keyTypeVal p <? kt) with false by lia. reflexivity.
  Qed.

  Lemma pack_bound seq kt : seq <= keyMaxSeq p -> kt <= keyTypeVal p -> pack seq kt < 2 ^ 64.
  Proof.
    intros Hs Hk. pose proof val_256. destruct pok as (_ & _ & _ & _ & Hmax & _). rewrite Hmax in Hs.
    unfold pack. change (2 ^ 64) with (2 ^ 56 * 256). change (2 ^ 56) with 72057594037927936 in *. nia.
  Qed.

  Lemma rkey_dec k seq kt : wf_bytes k -> seq <= keyMaxSeq p -> kt <= keyTypeVal p ->
    ik_dec (rkey k seq kt) = Some {| uk := k; num := pack seq kt |}.
  Proof. intros W Hs Hk. apply ik_dec_encode; [exact W|]. cbn [num]. apply pack_bound; assumption. Qed.

  Lemma ik_pack k seq kt : kt < 256 ->
    ik_seq {| uk := k; num := pack seq kt |} = seq /\ ik_kind {| uk := k; num := pack seq kt |} = kt.
  Proof.
    intros H. unfold ik_seq, ik_kind, pack. cbn [num]. split.
    - rewrite N.div_add_l by lia. rewrite N.div_small by lia. lia.
    - rewrite N.add_comm, N.mod_add by lia. apply N.mod_small. lia.
  Qed.

  Lemma rkey_entry k seq kt v : wf_bytes k -> seq <= keyMaxSeq p -> kt <= keyTypeVal p ->
    entry_of (rkey k seq kt, v) = {| e_uk := k; e_seq := seq; e_kind := kt; e_val := v |}.
  Proof.
    intros W Hs Hk. rewrite (entry_of_dec (rkey k seq kt, v) _ (rkey_dec k seq kt W Hs Hk)). cbn [uk snd].
    pose proof val_256. destruct (ik_pack k seq kt ltac:(lia)) as [-> ->]. reflexivity.
  Qed.

  Lemma rkey_okb k seq kt : wf_bytes k -> seq <= keyMaxSeq p -> (kt = keyTypeDel p \/ kt = keyTypeVal p) ->
    key_okb p (rkey k seq kt) = true.
  Proof.
    intros W Hs Hk. pose proof del_le_val. pose proof val_256.
    assert (Hle : kt <= keyTypeVal p) by (destruct Hk as [-> | ->]; lia).
    unfold key_okb. rewrite (rkey_dec k seq kt W Hs Hle).
    destruct (ik_pack k seq kt ltac:(lia)) as [_ ->].
    destruct Hk as [-> | ->]; rewrite N.eqb_refl; [reflexivity|apply Bool.orb_true_r].
  Qed.

  (* the pairs and the map after the insertions of a record list starting at sequence number seq *)
  Fixpoint rpairs (recs : list brec) (seq : N) : list (bytes * bytes) :=
    match recs with
    | [] => []
    | (kt, k, v) :: t => (rkey k seq kt, v) :: rpairs t (seq + 1)
    end.

  Fixpoint ins_recs (recs : list brec) (seq : N) (m : smap) : smap :=
    match recs with
    | [] => m
    | (kt, k, v) :: t => ins_recs t (seq + 1) (s_insert ic (rkey k seq kt) v m)
    end.

  Lemma heights_tl hs : heights_okl hs -> heights_okl (tl hs).
  Proof. intros H. destruct hs; [exact H|]. inversion H; assumption. Qed.

  Lemma heights_hd hs : heights_okl hs -> 1 <= hd 1 hs /\ hd 1 hs <= tmax.
  Proof.
    intros H. destruct hs as [|h t]; cbn [hd].
    - destruct mpok as (H1 & _). lia.
    - inversion H; assumption.
  Qed.

  (* ---------------- one Put, by C14's put_ok ---------------- *)
  Lemma put_one_ok d A L m used hs k seq kt v :
    rep ic mp d A L m used -> heights_okl hs -> seq <= keyMaxSeq p -> kt <= keyTypeVal p ->
    exists d' hs' A' L' used',
      put_one p ic mp d hs k seq kt v = PmOk d' hs' /\
      rep ic mp d' A' L' (s_insert ic (rkey k seq kt) v m) used' /\ heights_okl hs'.
  Proof.
    intros R Hh Hs Hk. unfold put_one. rewrite (make_ikey_ok k seq kt Hs Hk).
    destruct (heights_hd hs Hh) as [H1 H2].
    destruct (put_ok ic (ibc_ok c ok) mp mpok d A L m used (rkey k seq kt) v (hd 1 hs) R H1 H2)
      as (d' & A' & L' & E & R' & _).
    unfold rkey in *. rewrite E.
    eexists d', _, A', L', _. split; [reflexivity|]. split; [exact R'|].
    destruct (nEnt d' =? nEnt d)%Z; [exact Hh|apply heights_tl; exact Hh].
  Qed.

  Lemma putmem_recs_ok recs : forall seq d A L m used hs,
    rep ic mp d A L m used -> heights_okl hs ->
    Forall (rec_ok p) recs -> seq + N.of_nat (length recs) <= keyMaxSeq p + 1 ->
    exists d' hs' A' L' used',
      putmem_recs p ic mp recs seq d hs = PmOk d' hs' /\
      rep ic mp d' A' L' (ins_recs recs seq m) used' /\ heights_okl hs'.
  Proof.
    induction recs as [|[[kt k] v] t IH]; intros seq d A L m used hs R Hh Hok Hs.
    - exists d, hs, A, L, used. split; [reflexivity|]. split; assumption.
    - inversion Hok as [|? ? Hr Ht]; subst. unfold rec_ok in Hr. cbn [fst] in Hr. cbn [length] in Hs.
      assert (Hmax : keyMaxSeq p < 2 ^ 64).
      { destruct pok as (_ & _ & _ & _ & Hm & _). rewrite Hm. change (2 ^ 56) with 72057594037927936.
        change (2 ^ 64) with 18446744073709551616. lia. }
      cbn [putmem_recs ins_recs]. rewrite u64_small by lia.
      destruct (put_one_ok d A L m used hs k seq kt v R Hh ltac:(lia) Hr) as (d1 & hs1 & A1 & L1 & u1 & E & R1 & Hh1).
      rewrite E. apply (IH (seq + 1) d1 A1 L1 _ u1 hs1 R1 Hh1 Ht). lia.
  Qed.

  (* ---------------- what the insertions do to the represented map ---------------- *)
  Definition pseq (kv : bytes * bytes) : N := e_seq (entry_of kv).

  Lemma rpairs_wf recs : forall seq, Forall rec_wf recs -> seq + N.of_nat (length recs) <= keyMaxSeq p + 1 ->
    forall kv, In kv (rpairs recs seq) -> key_okb p (fst kv) = true /\ seq <= pseq kv /\ pseq kv < seq + N.of_nat (length recs).
  Proof.
    induction recs as [|[[kt k] v] t IH]; intros seq Hw Hs kv; cbn [rpairs length]; [intros []|].
    inversion Hw as [|? ? [Hk Wk] Ht]; subst. cbn [fst snd] in Hk, Wk. cbn [length] in Hs.
    pose proof del_le_val.
    assert (Hle : kt <= keyTypeVal p) by (destruct Hk as [-> | ->]; lia).
    intros [<-|Hin].
    - cbn [fst]. split; [apply rkey_okb; try assumption; lia|].
      unfold pseq. rewrite rkey_entry by (try assumption; lia). cbn [e_seq]. lia.
    - destruct (IH (seq + 1) Ht ltac:(lia) kv Hin) as (H1 & H2 & H3). split; [exact H1|]. lia.
  Qed.

  Lemma ins_recs_in recs : forall s m,
    Forall rec_wf recs -> s + N.of_nat (length recs) <= keyMaxSeq p ->
    keys_ok p m -> (forall kv, In kv m -> pseq kv <= s) ->
    forall kv, In kv (ins_recs recs (s + 1) m) <-> In kv m \/ In kv (rpairs recs (s + 1)).
  Proof.
    induction recs as [|[[kt k] v] t IH]; intros s m Hw Hs Hk Hf kv; cbn [ins_recs rpairs].
    - split; [left; assumption|intros [H|[]]; exact H].
    - inversion Hw as [|? ? [Hkt Wk] Ht]; subst. cbn [fst snd] in Hkt, Wk. cbn [length] in Hs.
      pose proof del_le_val.
      assert (Hle : kt <= keyTypeVal p) by (destruct Hkt as [-> | ->]; lia).
      set (nk := rkey k (s + 1) kt).
      assert (Hnew : pseq (nk, v) = s + 1).
      { unfold pseq, nk. rewrite rkey_entry by (try assumption; lia). reflexivity. }
      assert (Hstep : forall x, In x (s_insert ic nk v m) <-> x = (nk, v) \/ In x m).
      { intros x. split.
        - apply s_insert_in_inv.
        - intros [->|Hx]; [apply s_insert_in_new|].
          apply (s_insert_in_old ic (ibc_ok c ok)); [exact Hx|].
          intros E. specialize (Hf x Hx).
          assert (pseq x = pseq (nk, v)).
          { unfold pseq, entry_of. cbn [fst]. rewrite E. destruct (ik_dec nk); reflexivity. }
          lia. }
      rewrite (IH (s + 1) (s_insert ic nk v m) Ht ltac:(lia)).
      + rewrite Hstep. cbn [In]. split; [intros [[->|H1]|H1]; [right; left; reflexivity|left; exact H1|right; right; exact H1] | intros [H1|[<-|H1]]; [left; right; exact H1|left; left; reflexivity|right; exact H1]].
      + unfold keys_ok in *. apply Forall_forall. intros x Hx. apply Hstep in Hx as [->|Hx].
        * cbn [fst]. unfold nk. apply rkey_okb; try assumption. lia.
        * rewrite Forall_forall in Hk. apply Hk. exact Hx.
      + intros x Hx. apply Hstep in Hx as [->|Hx]; [lia|]. specialize (Hf x Hx). lia.
  Qed.

  Lemma rpairs_stamp recs : forall s, Forall rec_wf recs -> s + N.of_nat (length recs) <= keyMaxSeq p ->
    map entry_of (rpairs recs (s + 1)) = stamp s recs.
  Proof.
    induction recs as [|[[kt k] v] t IH]; intros s Hw Hs; [reflexivity|].
    inversion Hw as [|? ? [Hkt Wk] Ht]; subst. cbn [fst snd] in Hkt, Wk. cbn [length] in Hs.
    pose proof del_le_val.
    assert (Hle : kt <= keyTypeVal p) by (destruct Hkt as [-> | ->]; lia).
    cbn [rpairs map stamp]. rewrite rkey_entry by (try assumption; lia). f_equal. apply IH; [exact Ht|lia].
  Qed.

  (* ---------------- C01_putmem_is_history_write ---------------- *)
  (* inserting a record list at db.seq+1 .. into a memdb that satisfies C14's invariant, holds stored keys
     and nothing newer than db.seq: the call succeeds (no panic, fuel suffices), the invariant and the key
     condition still hold, and the abstraction (the entries of the level-0 chain, as ReadPath's abs reads
     them) is the old abstraction plus exactly stamp db.seq recs — the store of one HWrite step *)
  Theorem putmem_recs_history d recs dbseq hs :
    mem_ok c p mp d -> (forall x, In x (mem_entries mp (Some d)) -> e_seq x <= dbseq) ->
    Forall rec_wf recs -> dbseq + N.of_nat (length recs) <= keyMaxSeq p -> heights_okl hs ->
    exists d' hs',
      putmem_recs p ic mp recs (dbseq + 1) d hs = PmOk d' hs' /\ mem_ok c p mp d' /\ heights_okl hs' /\
      (forall x, In x (mem_entries mp (Some d')) <-> In x (mem_entries mp (Some d)) \/ In x (stamp dbseq recs)).
  Proof.
    intros [(A & L & I) Hk] Hfresh Hw Hs Hh.
    assert (R : rep ic mp d A L (mem_pairs mp d) (len (kvData d))).
    { split; [exact I|]. split; [|reflexivity]. symmetry. apply (mem_pairs_abs c p seek_val mp mpok d A L I). }
    assert (Hok : Forall (rec_ok p) recs).
    { eapply Forall_impl; [|exact Hw]. apply rec_wf_ok. }
    destruct (putmem_recs_ok recs (dbseq + 1) d A L _ _ hs R Hh Hok ltac:(lia))
      as (d' & hs' & A' & L' & u' & E & (I' & Eabs & _) & Hh').
    exists d', hs'. split; [exact E|].
    assert (Ep : mem_pairs mp d' = ins_recs recs (dbseq + 1) (mem_pairs mp d)).
    { rewrite (mem_pairs_abs c p seek_val mp mpok d' A' L' I'). exact Eabs. }
    assert (Hks : keys_ok p (mem_pairs mp d)).
    { unfold keys_ok. apply Forall_forall. unfold mem_keys_okb in Hk. rewrite forallb_forall in Hk. exact Hk. }
    assert (Hf : forall kv, In kv (mem_pairs mp d) -> pseq kv <= dbseq).
    { intros kv Hin. apply Hfresh. cbn [mem_entries]. apply in_map. exact Hin. }
    pose proof (ins_recs_in recs dbseq (mem_pairs mp d) Hw Hs Hks Hf) as Hin.
    split; [|split; [exact Hh'|]].
    - split; [exists A', L'; exact I'|].
      unfold mem_keys_okb. rewrite Ep. apply forallb_forall. intros kv Hkv. apply Hin in Hkv as [Hkv|Hkv].
      + unfold keys_ok in Hks. rewrite Forall_forall in Hks. apply Hks. exact Hkv.
      + apply (rpairs_wf recs (dbseq + 1) Hw ltac:(lia) kv Hkv).
    - intros x. cbn [mem_entries]. rewrite Ep. rewrite <- (rpairs_stamp recs dbseq Hw Hs).
      rewrite !in_map_iff. split.
      + intros (kv & <- & Hkv). apply Hin in Hkv as [Hkv|Hkv]; [left|right]; exists kv; split; auto.
      + intros [(kv & <- & Hkv)|(kv & <- & Hkv)]; exists kv; (split; [reflexivity|]); apply Hin; [left|right]; exact Hkv.
  Qed.

  Lemma norm_wf recs : Forall rec_wf recs -> Forall rec_wf (map (norm_rec p) recs).
  Proof.
    intros H. apply Forall_forall. intros r Hr. apply in_map_iff in Hr as ([[kt k] v] & <- & Hin).
    rewrite Forall_forall in H. exact (H _ Hin).
  Qed.

  (* the same for Batch.putMem of a batch built by Put/Delete calls ... *)
  Corollary putmem_is_history_write d recs dbseq hs :
    mem_ok c p mp d -> (forall x, In x (mem_entries mp (Some d)) -> e_seq x <= dbseq) ->
    Forall rec_wf recs -> dbseq + N.of_nat (length recs) <= keyMaxSeq p -> heights_okl hs ->
    lenN (enc_recs p recs) < 2 ^ 63 ->
    exists d' hs',
      batch_putmem p ic mp (batch_of p recs) (dbseq + 1) d hs = PmOk d' hs' /\ mem_ok c p mp d' /\ heights_okl hs' /\
      (forall x, In x (mem_entries mp (Some d')) <->
                 In x (mem_entries mp (Some d)) \/ In x (stamp dbseq (map (norm_rec p) recs))).
  Proof.
    intros Hm Hf Hw Hs Hh Hl.
    rewrite (putmem_batch_of p pok ic mp recs (dbseq + 1) d hs) by first [exact Hl | (eapply Forall_impl; [|exact Hw]; apply rec_wf_ok)].
    apply putmem_recs_history; try assumption; [apply norm_wf; exact Hw|rewrite map_length; exact Hs].
  Qed.

  (* ... and for a merged group: the loop of writeLocked over its batches *)
  Corollary putmem_group_history d groups dbseq hs :
    mem_ok c p mp d -> (forall x, In x (mem_entries mp (Some d)) -> e_seq x <= dbseq) ->
    Forall rec_wf (concat groups) -> dbseq + N.of_nat (length (concat groups)) <= keyMaxSeq p -> heights_okl hs ->
    lenN (enc_recs p (concat groups)) < 2 ^ 63 ->
    exists d' hs',
      putmem_group p ic mp (group_of p groups) (dbseq + 1) d hs = PmOk d' hs' /\ mem_ok c p mp d' /\ heights_okl hs' /\
      (forall x, In x (mem_entries mp (Some d')) <->
                 In x (mem_entries mp (Some d)) \/ In x (stamp dbseq (map (norm_rec p) (concat groups)))).
  Proof.
    intros Hm Hf Hw Hs Hh Hl.
    rewrite (putmem_group_recs p pok ic mp groups (dbseq + 1) d hs) by first [exact Hl | (eapply Forall_impl; [|exact Hw]; apply rec_wf_ok)].
    apply putmem_recs_history; try assumption; [apply norm_wf; exact Hw|rewrite map_length; exact Hs].
  Qed.

  (* ---------------- the read after the write ---------------- *)
  Lemma a_get_fold k recs : forall m,
    a_get c k (fold_left (a_apply c p) recs m) = recs_get p c k recs (a_get c k m).
  Proof.
    induction recs as [|[[kd k'] v] t IH]; intros m; [reflexivity|].
    cbn [fold_left recs_get]. rewrite IH. f_equal.
    rewrite (a_get_apply c ok p k m (kd, k', v)). reflexivity.
  Qed.

  Lemma recs_get_norm k recs : Forall rec_wf recs -> forall prev,
    recs_get p c k (map (norm_rec p) recs) prev = recs_get p c k recs prev.
  Proof.
    induction recs as [|[[kd k'] v] t IH]; intros Hw prev; [reflexivity|].
    inversion Hw as [|? ? [Hk _] Ht]; subst. cbn [fst] in Hk.
    cbn [map norm_rec recs_get]. rewrite (IH Ht).
    destruct (kd =? keyTypeVal p) eqn:E; [reflexivity|].
    destruct Hk as [-> | ->]; [rewrite N.eqb_refl; reflexivity|rewrite N.eqb_refl in E; discriminate].
  Qed.

  Section Bytes.
    Variable tp : Table.tparams.
    Variable crc : bytes -> N.
    Variable decompress : bytes -> option bytes.
    Variable fname : option bytes.
    Variable ufc : bytes -> N -> bytes -> bool.
    Variable verify : bool.
    Variable ri : N.

    Local Notation wfb := (wf_bstate c p mp tp crc decompress fname ufc verify ri).
    Local Notation absS := (ReadPath.abs c mp tp crc decompress fname ufc verify ri).
    Local Notation getb := (db_get_bytes c p mp tp crc decompress fname ufc verify).

    Definition with_mem (st : bstate) (d : db) : bstate := mkBS (Some d) (bs_frozen st) (bs_levels st).

    Lemma abs_with_mem st d :
      absS (with_mem st d) = {| st_mem := mem_entries mp (Some d); st_frozen := st_frozen (absS st);
                                st_aux := []; st_levels := st_levels (absS st) |}.
    Proof. reflexivity. Qed.

    Lemma in_comps_tail st x y : In y (tl (comps (absS st))) -> In x y -> In x (all_entries (absS st)).
    Proof.
      intros Hy Hx. rewrite all_entries_comps. apply in_concat. exists y. split; [|exact Hx].
      destruct (comps (absS st)); [destruct Hy|right; exact Hy].
    Qed.

    (* the byte state after the insertions is well-formed again, and holds the old entries plus the stamped
       records *)
    Lemma write_wf st d d' recs dbseq :
      wfb st -> bs_mem st = Some d -> mem_ok c p mp d' ->
      (forall x, In x (all_entries (absS st)) -> e_seq x <= dbseq) ->
      (forall x, In x (mem_entries mp (Some d')) <-> In x (mem_entries mp (Some d)) \/ In x (stamp dbseq recs)) ->
      wfb (with_mem st d') /\
      same_elems (all_entries (absS st) ++ stamp dbseq recs) (all_entries (absS (with_mem st d'))).
    Proof.
      intros W Hd Hm' Hfresh Hin.
      assert (Emem : st_mem (absS st) = mem_entries mp (Some d)) by (cbn [ReadPath.abs st_mem]; rewrite Hd; reflexivity).
      split.
      - destruct W as [Wm Wf Wt Wa]. constructor.
        + intros x Hx. cbn [with_mem bs_mem] in Hx. injection Hx as <-. exact Hm'.
        + exact Wf.
        + exact Wt.
        + destruct Wa as [Wmem Wfro Waux Wl0 Wdeep Wch]. rewrite abs_with_mem. constructor; cbn [st_mem st_frozen st_aux st_levels].
          * destruct Hm' as [(A' & L' & I') Hk'].
            assert (Hks : keys_ok p (mem_pairs mp d')).
            { unfold keys_ok. apply Forall_forall. unfold mem_keys_okb in Hk'. rewrite forallb_forall in Hk'. exact Hk'. }
            split.
            -- cbn [mem_entries]. apply (sorted_ssorted c ok p _ Hks).
               apply (mem_pairs_sorted c p seek_val mp mpok d' A' L' I').
            -- cbn [mem_entries]. apply (keys_ok_kinds p pok _ Hks).
          * exact Wfro.
          * exact Waux.
          * exact Wl0.
          * exact Wdeep.
          * unfold comps in *. cbn [st_mem st_frozen st_aux st_levels chain_newer] in *.
            destruct Wch as [Nm Rest]. split; [|exact Rest].
            apply Forall_forall. intros y Hy a b Ha Hb Hu.
            apply Hin in Ha as [Ha|Ha].
            -- rewrite Forall_forall in Nm. rewrite <- Emem in Ha. exact (Nm y Hy a b Ha Hb Hu).
            -- apply stamp_seq in Ha as [Ha _].
               assert (In b (all_entries (absS st))).
               { apply (in_comps_tail st b y); [|exact Hb]. unfold comps. cbn [tl]. exact Hy. }
               specialize (Hfresh b H). lia.
      - intros x. unfold all_entries. rewrite abs_with_mem. cbn [st_mem st_frozen st_aux st_levels all_tables].
        rewrite Emem. cbn [ReadPath.abs st_aux]. rewrite !in_app_iff. rewrite Hin. tauto.
    Qed.

    (* ---------------- the corollary that composes with C01_get_correct_bytes ---------------- *)
    (* after a record list was inserted at db.seq+1.. (by whichever path), DB.Get computed on the BYTES at the
       new sequence number returns, for every key, what the list's last record for that key says — its value,
       or not-found for a deletion — and for a key the list does not mention what DB.Get returned before *)
    Theorem get_after_write st d d' recs dbseq k :
      wfb st -> bs_mem st = Some d -> mem_ok c p mp d' ->
      uniq_in (all_entries (absS st)) ->
      (forall x, In x (all_entries (absS st)) -> e_seq x <= dbseq) ->
      (forall x, In x (mem_entries mp (Some d')) <-> In x (mem_entries mp (Some d)) \/ In x (stamp dbseq recs)) ->
      dbseq + N.of_nat (length recs) <= keyMaxSeq p -> wf_bytes k ->
      exists prev, bapi (getb st k dbseq) = Some prev /\
        bapi (getb (with_mem st d') k (dbseq + N.of_nat (length recs))) = Some (recs_get p c k recs prev).
    Proof.
      intros W Hd Hm' Hu Hfresh Hin Hs Wk.
      destruct (write_wf st d d' recs dbseq W Hd Hm' Hfresh Hin) as [W' SE].
      exists (History.res p (newest c k dbseq (all_entries (absS st)) None)). split.
      - rewrite (get_correct_bytes c ok p pok seek_val mp mpok tp crc decompress fname ufc verify ri k dbseq Wk ltac:(lia) st W).
        reflexivity.
      - rewrite (get_correct_bytes c ok p pok seek_val mp mpok tp crc decompress fname ufc verify ri k _ Wk Hs _ W').
        cbn [bapi]. f_equal.
        assert (Hu2 : uniq_in (all_entries (absS st) ++ stamp dbseq recs)).
        { intros a b Ha Hb Euk Eseq. apply in_app_iff in Ha. apply in_app_iff in Hb.
          destruct Ha as [Ha|Ha], Hb as [Hb|Hb].
          - apply Hu; assumption.
          - apply stamp_seq in Hb as [Hb _]. specialize (Hfresh a Ha). lia.
          - apply stamp_seq in Ha as [Ha _]. specialize (Hfresh b Hb). lia.
          - clear - Ha Hb Eseq. revert dbseq Ha Hb.
            induction recs as [|[[kd k'] v] t IH]; intros s Ha Hb; [destruct Ha|].
            cbn [stamp] in Ha, Hb. destruct Ha as [<-|Ha], Hb as [<-|Hb].
            + reflexivity.
            + apply stamp_seq in Hb as [Hb _]. cbn [e_seq] in *. lia.
            + apply stamp_seq in Ha as [Ha _]. cbn [e_seq] in *. lia.
            + apply (IH (s + 1)); assumption. }
        rewrite <- (newest_same_elems c ok k _ _ _ Hu2 SE).
        change (api_of (group_res p ?z)) with (History.res p z).
        set (prev := History.res p (newest c k dbseq (all_entries (absS st)) None)).
        set (m := match prev with Some v => [(k, v)] | None => [] end : amap).
        assert (Em : a_get c k m = prev).
        { unfold m. destruct prev; cbn [a_get]; [rewrite (cmp_refl c ok)|]; reflexivity. }
        rewrite (hist_recs c ok p k recs dbseq (all_entries (absS st)) m Hfresh (eq_sym Em)).
        rewrite a_get_fold, Em. reflexivity.
    Qed.

    (* live path: a merged group written by writeLocked's tail *)
    Corollary get_after_group_write st d groups dbseq hs k :
      wfb st -> bs_mem st = Some d -> uniq_in (all_entries (absS st)) ->
      (forall x, In x (all_entries (absS st)) -> e_seq x <= dbseq) ->
      Forall rec_wf (concat groups) -> dbseq + N.of_nat (length (concat groups)) <= keyMaxSeq p -> heights_okl hs ->
      lenN (enc_recs p (concat groups)) < 2 ^ 63 -> wf_bytes k ->
      exists record d' hs' prev,
        write_group p ic mp dbseq (group_of p groups) d hs = WgOk record d' hs' (dbseq + N.of_nat (length (concat groups))) /\
        wfb (with_mem st d') /\
        bapi (getb st k dbseq) = Some prev /\
        bapi (getb (with_mem st d') k (dbseq + N.of_nat (length (concat groups)))) = Some (recs_get p c k (concat groups) prev).
    Proof.
      intros W Hd Hu Hfresh Hw Hs Hh Hl Wk.
      assert (Hfm : forall x, In x (mem_entries mp (Some d)) -> e_seq x <= dbseq).
      { intros x Hx. apply Hfresh. unfold all_entries. apply in_app_iff. left. cbn [ReadPath.abs st_mem]. rewrite Hd. exact Hx. }
      destruct (putmem_group_history d groups dbseq hs (wb_mem _ _ _ _ _ _ _ _ _ _ _ W d Hd) Hfm Hw Hs Hh Hl)
        as (d' & hs' & E & Hm' & _ & Hin).
      assert (Hmax : keyMaxSeq p + 1 < 18446744073709551616).
      { destruct pok as (_ & _ & _ & _ & Hm & _). rewrite Hm. change (2 ^ 56) with 72057594037927936. lia. }
      assert (Hs' : dbseq + N.of_nat (length (map (norm_rec p) (concat groups))) <= keyMaxSeq p) by (rewrite map_length; exact Hs).
      destruct (get_after_write st d d' (map (norm_rec p) (concat groups)) dbseq k W Hd Hm' Hu Hfresh Hin Hs' Wk)
        as (prev & G1 & G2).
      destruct (write_wf st d d' _ dbseq W Hd Hm' Hfresh Hin) as [W' _].
      exists (group_record (group_of p groups) (dbseq + 1)), d', hs', prev.
      split; [|split; [exact W'|split; [exact G1|]]].
      - unfold write_group. rewrite u64_small by (change (2 ^ 64) with 18446744073709551616; lia). rewrite E. f_equal.
        rewrite (group_len p). apply u64_small. change (2 ^ 64) with 18446744073709551616. lia.
      - rewrite map_length in G2. rewrite G2. f_equal. apply recs_get_norm. exact Hw.
    Qed.

    (* replay path: the same group's journal record replayed by recoverJournal's step into the same memdb
       (the expected sequence number is the old db.seq): the same state, hence the same answers; db.seq ends
       one higher than on the live path (first seq + count), which no read at or above it can notice *)
    Corollary get_after_group_replay st d groups dbseq hs k strict :
      wfb st -> bs_mem st = Some d -> uniq_in (all_entries (absS st)) ->
      (forall x, In x (all_entries (absS st)) -> e_seq x <= dbseq) ->
      Forall rec_wf (concat groups) -> dbseq + N.of_nat (length (concat groups)) < keyMaxSeq p -> heights_okl hs ->
      N.of_nat (length (concat groups)) < 2 ^ 32 -> lenN (enc_recs p (concat groups)) < 2 ^ 59 -> wf_bytes k ->
      exists record d' hs' prev,
        write_group p ic mp dbseq (group_of p groups) d hs = WgOk record d' hs' (dbseq + N.of_nat (length (concat groups))) /\
        recover_step p 12 ic mp strict record dbseq d hs = RsOk d' hs' (dbseq + N.of_nat (length (concat groups)) + 1) /\
        wfb (with_mem st d') /\
        bapi (getb st k dbseq) = Some prev /\
        bapi (getb (with_mem st d') k (dbseq + N.of_nat (length (concat groups)))) = Some (recs_get p c k (concat groups) prev).
    Proof.
      intros W Hd Hu Hfresh Hw Hs0 Hh Hn Hl Wk.
      assert (Hs : dbseq + N.of_nat (length (concat groups)) <= keyMaxSeq p) by lia.
      assert (Hl' : lenN (enc_recs p (concat groups)) < 2 ^ 63).
      { change (2 ^ 59) with 576460752303423488 in Hl. change (2 ^ 63) with 9223372036854775808. lia. }
      destruct (get_after_group_write st d groups dbseq hs k W Hd Hu Hfresh Hw Hs Hh Hl' Wk)
        as (record & d' & hs' & prev & E & W' & G1 & G2).
      exists record, d', hs', prev. split; [exact E|]. split; [|split; [exact W'|split; [exact G1|exact G2]]].
      assert (Hmax : keyMaxSeq p + 1 < 18446744073709551616).
      { destruct pok as (_ & _ & _ & _ & Hm & _). rewrite Hm. change (2 ^ 56) with 72057594037927936. lia. }
      assert (Hok : Forall (rec_ok p) (concat groups)) by (eapply Forall_impl; [|exact Hw]; apply rec_wf_ok).
      rewrite (write_then_recover p pok 12 eq_refl ic mp groups dbseq strict d hs record d' hs' _ Hok
                 ltac:(change (2 ^ 64) with 18446744073709551616; lia) Hn Hl ltac:(lia) E).
      f_equal. apply u64_small. change (2 ^ 64) with 18446744073709551616. lia.
    Qed.
  End Bytes.
End Write.
