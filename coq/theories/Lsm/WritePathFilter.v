(* Lsm/WritePathFilter.v — the filter generator the DB hands to its table writers when a bloom policy is configured:
   leveldb/table filterWriter (Codec/FilterBlock.v fw_build, property C16) driven the way table.Writer drives it — add(key)
   per appended key, flush(w.offset) after every finished data block — over the iFilterGenerator wrapper (the user key is
   added) and filter.NewBloomFilter(bitsPerKey) (Codec/Bloom.v).  Model file: definitions only. *)
From GL Require Import Base.Bytes Codec.Bloom Codec.FilterBlock Lsm.WritePath.
From Coq Require Import ZArith.
Open Scope N_scope.

(* the filterWriter operations for the data blocks (offset, keys) of one table; the flush after a block carries the
   offset at which the next block starts — for the last block the offset at which it ended *)
Fixpoint fw_ops (blocks : list (N * list bytes)) (endoff : N) : list fwop :=
  match blocks with
  | [] => []
  | (_, ks) :: r =>
      map FAdd ks ++ FFlush (match r with (o', _) :: _ => o' | [] => endoff end) :: fw_ops r endoff
  end.

Definition bloom_fgen (bp : bparams) (bpk : Z) (lg : N) : fgen_t :=
  fun blocks endoff => fw_build (ifilter (bloom_policy bp bpk)) lg (fw_ops blocks endoff).
