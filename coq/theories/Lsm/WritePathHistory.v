(* Lsm/WritePathHistory.v — the capstone of the byte-level write path: every finite run of byte-level steps (writes of
   batches, rotations, flushes, table compactions with any picker choice / seed / failure history, trivial moves, snapshot
   acquisitions and releases) from the empty DB keeps the byte state well-formed, and DB.Get computed on the BYTES answers
   like the plain map driven by the written batches; a live snapshot keeps reading the map of the instant it was taken.
   Composition of the per-step theorems (WritePathSteps.v) with the history machine (History.v / HistoryProofs.v) and the
   byte-level read path (ReadPathProofs.v). *)
From GL Require Import Base.Bytes Base.BytesProofs Base.Varint Base.Order Base.OrderProofs Codec.BytesCmp Codec.IKey
  Codec.Table Codec.TableCheck Codec.TableSizes Codec.Batch Lsm.Lsm Lsm.Compact Lsm.LsmProofs Lsm.CompactProofs
  Lsm.History Lsm.HistoryProofs Lsm.ReorgProofs Lsm.Pick Lsm.PickBase Lsm.WfLsm Lsm.C06Steps Lsm.Builder Lsm.BuilderCuts
  Lsm.ReadPath Lsm.ReadPathKey Lsm.ReadPathMem Lsm.ReadPathProofs Lsm.BatchWriteProofs
  Lsm.WritePath Lsm.WritePathTable Lsm.WritePathMem Lsm.WritePathInstall Lsm.WritePathSteps Lsm.WritePathTxn.
From GL Require Mem.MemDB.
From Coq Require Import Arith ZArith Lia Sorted.
Open Scope N_scope.

Section HistoryBytes.
  Variable c : comparer.
  Hypothesis ok : comparer_ok c.
  Variable p : kparams.
  Hypothesis pok : kparams_ok p.
  Hypothesis seek_val : keyTypeSeek p <= keyTypeVal p.
  Variable mp : MemDB.mparams.
  Hypothesis mpok : MemDB.mparams_ok mp.
  Variable tp : tparams.
  Hypothesis tp_ok : tparams_ok tp.
  Variable crc : bytes -> N.
  Hypothesis crc_bound : forall b, crc b < 2 ^ 32.
  Variable compress : bytes -> bytes.
  Variable decompress : bytes -> option bytes.
  Hypothesis codec_ok : forall x, decompress (compress x) = Some x.
  Hypothesis compress_ne : forall x, compress x <> [].
  Variable fname : option bytes.
  Variable ufc : bytes -> N -> bytes -> bool.
  Variable verify : bool.
  Variable o : wopts.
  Hypothesis ri_pos : 1 <= wo_ri o.

  Local Notation ri := (wo_ri o).
  Local Notation wfb := (wf_bstate c p mp tp crc decompress fname ufc verify ri).
  Local Notation absS := (ReadPath.abs c mp tp crc decompress fname ufc verify ri).
  Local Notation av := (aversion c tp crc decompress fname ufc verify o).
  Local Notation getb := (db_get_bytes c p mp tp crc decompress fname ufc verify).
  Local Notation bfull := (bfull c p mp tp crc decompress fname ufc verify o).
  Local Notation step := (bstep c p mp tp crc compress decompress fname ufc verify o).
  Local Notation run := (brun c p mp tp crc compress decompress fname ufc verify o).
  Local Notation fsz st := (file_size (files_of st)).
  Local Notation blen := (bytes_len c p tp crc compress o).
  Local Notation sizes_ok := (write_sizes_ok c p tp crc compress o).
  Local Notation tfilt := (table_filter_ok c p tp crc compress decompress fname ufc verify o).
  Local Notation allE w := (all_entries (absS (ws_bs w))).

  (* ---------------- the side conditions of a step (everything that is not implied by the step succeeding) ---------------- *)
  Definition bop_ok (w : wstate) (op : bop) : Prop :=
    match op with
    | BWrite recs hs =>
        Forall (rec_wf p) recs /\ ws_seq w + N.of_nat (length recs) < keyMaxSeq p /\ heights_okl mp hs /\
        lenN (enc_recs p recs) < 2 ^ 63
    | BRotate => True
    | BFlush num =>
        (forall f, In f (files_of (ws_bs w)) -> tf_num f <> num) /\
        (forall d, bs_frozen (ws_bs w) = Some d -> mem_pairs mp d <> [] -> sizes_ok (mem_pairs mp d) = true) /\
        (forall d, bs_frozen (ws_bs w) = Some d -> tfilt (mem_pairs mp d))
    | BCompact lvl seed os nums =>
        NoDup nums /\ (forall n f, In n nums -> In f (files_of (ws_bs w)) -> tf_num f <> n) /\
        (forall cm s',
           b_pick c tp crc decompress fname ufc verify o (ws_bs w) lvl seed = POk cm ->
           transact c p (fsz (ws_bs w)) (c_gp cm) (wo_gpOverlaps o lvl) (skipn (lvl + 2) (av (ws_bs w))) (min_seq w)
                    (wo_strict o) (wo_tableSize o (S lvl)) blen os
                    (map IGood (merge_inputs c (c_t0 cm ++ c_t1 cm))) (bst0 (skipn (lvl + 2) (av (ws_bs w)))) = (s', TDone) ->
           Forall (fun ch => sizes_ok (chunk_kvs ch) = true /\ tfilt (chunk_kvs ch)) (fin s'))
    | BMove _ _ => True
    | BTxn recs hs num =>
        Forall (rec_wf p) recs /\ ws_seq w + N.of_nat (length recs) < keyMaxSeq p /\ heights_okl mp hs /\
        lenN (enc_recs p recs) < 2 ^ 63 /\
        (forall f, In f (files_of (ws_bs w)) -> tf_num f <> num) /\
        (forall d0 d' hs', MemDB.mdb_new mp = MemDB.Ok d0 ->
           batch_putmem p (ibc c) mp (batch_of p recs) (ws_seq w + 1) d0 hs = PmOk d' hs' -> mem_pairs mp d' <> [] ->
           sizes_ok (mem_pairs mp d') = true /\ tfilt (mem_pairs mp d'))
    | BSnap => True
    | BRelease _ => True
    end.

  Fixpoint bops_ok (w : wstate) (ops : list bop) : Prop :=
    match ops with
    | [] => True
    | op :: r => bop_ok w op /\ match step w op with Some w' => bops_ok w' r | None => True end
    end.

  (* the plain map driven by the written batches *)
  Definition wmap (ops : list bop) : amap :=
    fold_left (fun m op => fold_left (a_apply c p) (hop_writes p op) m) ops [].

  (* the history operations a run stands for: a write is an HWrite followed by the re-listing of the stored collection
     (the memdb keeps its entries sorted), every reorganisation is an HReorg to the stored collection after it *)
  Definition hop_of (op : bop) (w' : wstate) : list hop :=
    match op with
    | BWrite recs _ | BTxn recs _ _ => [HWrite (map (norm_rec p) recs); HReorg (allE w')]
    | BSnap => [HSnap]
    | BRelease i => [HRelease i]
    | _ => [HReorg (allE w')]
    end.

  Fixpoint hops_run (w : wstate) (ops : list bop) : list hop :=
    match ops with
    | [] => []
    | op :: r => match step w op with Some w' => hop_of op w' ++ hops_run w' r | None => [] end
    end.

  (* ---------------- the invariant ---------------- *)
  Definition snaps_ok (seq : N) (snaps : list N) : Prop := StronglySorted N.le snaps /\ Forall (fun s => s <= seq) snaps.

  Record winv (w : wstate) (hs : list hop) : Prop := {
    wi_b : bfull (ws_bs w);
    wi_mem : exists d, bs_mem (ws_bs w) = Some d;
    wi_hok : hops_ok c p h_init hs;
    wi_store : h_store (hrun hs) = allE w;
    wi_seq : h_seq (hrun hs) = ws_seq w;
    wi_snaps : h_snaps (hrun hs) = ws_snaps w;
    wi_bound : forall x, In x (allE w) -> e_seq x <= ws_seq w;
    wi_max : ws_seq w < keyMaxSeq p;
    wi_sn : snaps_ok (ws_seq w) (ws_snaps w)
  }.

  Lemma hrun_app a b : hrun (a ++ b) = fold_left hstep b (hrun a).
  Proof. unfold hrun. apply fold_left_app. Qed.

  Lemma hops_ok_app' h a b : hops_ok c p h a -> hops_ok c p (fold_left hstep a h) b -> hops_ok c p h (a ++ b).
  Proof.
    revert h. induction a as [|x a IH]; intros h Ha Hb; [exact Hb|].
    cbn [app hops_ok fold_left] in *. destruct Ha as [H1 H2]. split; [exact H1|apply IH; assumption].
  Qed.

  Lemma min_seq_le w s : snaps_ok (ws_seq w) (ws_snaps w) -> (s = ws_seq w \/ In s (ws_snaps w)) -> min_seq w <= s.
  Proof.
    intros [Ss Sb] Hs. unfold min_seq. destruct (ws_snaps w) as [|s0 r]; cbn [hd].
    - destruct Hs as [->|[]]. lia.
    - inversion Ss as [|? ? _ Hall]; subst. inversion Sb as [|? ? Hb0 _]; subst.
      destruct Hs as [->|[<-|Hs]]; [exact Hb0|lia|]. rewrite Forall_forall in Hall. apply Hall. exact Hs.
  Qed.

  Lemma remove_nth_sorted i : forall l, StronglySorted N.le l -> StronglySorted N.le (remove_nth i l).
  Proof.
    induction i as [|i IH]; intros [|x l] H; cbn [remove_nth]; try exact H.
    - inversion H; assumption.
    - inversion H as [|? ? Hs Hall]; subst. constructor; [apply IH; exact Hs|].
      apply Forall_forall. intros y Hy. rewrite Forall_forall in Hall. apply Hall. apply (remove_nth_in _ _ _ Hy).
  Qed.

  Lemma uniq_old_stamp old seq recs : uniq_in old -> (forall x, In x old -> e_seq x <= seq) -> uniq_in (old ++ stamp seq recs).
  Proof.
    intros Hu Hfresh a b Ha Hb Euk Eseq. apply in_app_iff in Ha. apply in_app_iff in Hb.
    destruct Ha as [Ha|Ha], Hb as [Hb|Hb].
    - apply Hu; assumption.
    - apply stamp_seq in Hb as [Hb _]. specialize (Hfresh a Ha). lia.
    - apply stamp_seq in Ha as [Ha _]. specialize (Hfresh b Hb). lia.
    - clear - Ha Hb Eseq. revert seq Ha Hb.
      induction recs as [|[[kd k'] v] t IH]; intros s Ha Hb; [destruct Ha|].
      cbn [stamp] in Ha, Hb. destruct Ha as [<-|Ha], Hb as [<-|Hb].
      + reflexivity.
      + apply stamp_seq in Hb as [Hb _]. cbn [e_seq] in *. lia.
      + apply stamp_seq in Ha as [Ha _]. cbn [e_seq] in *. lia.
      + apply (IH (s + 1)); assumption.
  Qed.

  (* a reorganisation that only re-lists (or moves) the stored entries *)
  Lemma winv_rearrange w hs b' :
    winv w hs -> bfull b' -> (exists d, bs_mem b' = Some d) ->
    same_elems (allE w) (all_entries (absS b')) ->
    winv (mkWS b' (ws_seq w) (ws_snaps w)) (hs ++ [HReorg (all_entries (absS b'))]).
  Proof.
    intros [B M Hok Hst Hsq Hsn Hbd Hmx Hso] B' M' SE.
    assert (R : reorg_ok c p (hrun hs) (all_entries (absS b'))).
    { apply (rearrangement_ok c ok p); rewrite Hst; [exact (bf_uniq _ _ _ _ _ _ _ _ _ _ _ B)|exact SE]. }
    constructor; cbn [ws_bs ws_seq ws_snaps]; try assumption.
    - apply hops_ok_app'; [exact Hok|]. cbn [fold_left hops_ok hop_ok]. fold (hrun hs). split; [exact R|exact I].
    - rewrite hrun_app. reflexivity.
    - rewrite hrun_app. cbn [fold_left hstep h_seq]. exact Hsq.
    - rewrite hrun_app. cbn [fold_left hstep h_snaps]. exact Hsn.
    - intros x Hx. apply Hbd. apply SE. exact Hx.
  Qed.

  Lemma write_outputs_len nums chunks outs :
    write_outputs c p tp crc compress o nums chunks = Some outs -> length nums = length chunks.
  Proof.
    revert chunks outs. induction nums as [|n nums IH]; intros [|ch chunks] outs H; cbn [write_outputs] in H; try discriminate; [reflexivity|].
    destruct (write_table c p tp crc compress o n (chunk_kvs ch)); [|discriminate].
    destruct (write_outputs c p tp crc compress o nums chunks) as [l|] eqn:E; [|discriminate].
    cbn [length]. f_equal. apply (IH chunks l E).
  Qed.

  (* ---------------- one step ---------------- *)
  Theorem step_inv w hs op w' : winv w hs -> step w op = Some w' -> bop_ok w op -> winv w' (hs ++ hop_of op w').
  Proof.
    intros Inv Est Hop. pose proof Inv as [B M Hok Hst Hsq Hsn Hbd Hmx Hso]. destruct M as (d & Hd).
    destruct op as [recs hts| |num|lvl seed os nums|lvl seed|recs hts num| |i]; cbn [bstep bop_ok hop_of] in *; unfold with_bs in *.
    - (* a write *)
      destruct Hop as (Hrw & Hsq' & Hhs & Hlen).
      destruct (putmem_is_history_write c ok p pok seek_val mp mpok d recs (ws_seq w) hts) as (d' & hs' & Epm & Md' & _ & Hin);
        try assumption; try lia.
      { apply (wb_mem _ _ _ _ _ _ _ _ _ _ _ (bf_wf _ _ _ _ _ _ _ _ _ _ _ B)). exact Hd. }
      { intros x Hx. apply Hbd. unfold all_entries. apply in_or_app. left. cbn [ReadPath.abs st_mem]. rewrite Hd. exact Hx. }
      unfold b_write in Est. rewrite Hd, Epm in Est. cbn [option_map] in Est. injection Est as <-.
      set (rs := map (norm_rec p) recs) in *.
      destruct (write_wf c ok p pok seek_val mp mpok tp crc decompress fname ufc verify ri (ws_bs w) d d' rs (ws_seq w)
                  (bf_wf _ _ _ _ _ _ _ _ _ _ _ B) Hd Md' Hbd Hin) as [W' SE].
      fold (with_mem (ws_bs w) d') in *.
      set (b' := with_mem (ws_bs w) d') in *.
      assert (Elen : length rs = length recs) by (unfold rs; apply map_length).
      assert (Ust : uniq_in (allE w ++ stamp (ws_seq w) rs)) by (apply uniq_old_stamp; [exact (bf_uniq _ _ _ _ _ _ _ _ _ _ _ B)|exact Hbd]).
      assert (B' : bfull b').
      { constructor; [exact W'|exact (bf_lsm _ _ _ _ _ _ _ _ _ _ _ B)|]. apply (uniq_in_same _ _ SE Ust). }
      set (h1 := hstep (hrun hs) (HWrite rs)).
      assert (R : reorg_ok c p h1 (all_entries (absS b'))).
      { apply (rearrangement_ok c ok p); unfold h1; cbn [hstep h_store]; rewrite Hst, Hsq; assumption. }
      constructor; cbn [ws_bs ws_seq ws_snaps].
      + exact B'.
      + exists d'. reflexivity.
      + apply hops_ok_app'; [exact Hok|]. cbn [fold_left hops_ok hop_ok]. fold (hrun hs). fold h1.
        split; [|split; [exact R|exact I]].
        apply Forall_forall. intros r Hr. unfold rs in Hr. apply in_map_iff in Hr as ([[kt k0] v0] & <- & Hr0).
        rewrite Forall_forall in Hrw. destruct (Hrw _ Hr0) as [Hk _]. cbn [fst] in Hk.
        unfold norm_rec. destruct pok as (P1 & P2 & _). destruct (kt =? keyTypeVal p); cbn [fst]; destruct Hk as [-> | ->]; assumption.
      + rewrite hrun_app. reflexivity.
      + rewrite hrun_app. cbn [fold_left hstep h_seq]. rewrite Hsq. f_equal. f_equal. exact Elen.
      + rewrite hrun_app. cbn [fold_left hstep h_snaps]. exact Hsn.
      + intros x Hx. apply SE in Hx. apply in_app_or in Hx as [Hx|Hx]; [specialize (Hbd x Hx); lia|].
        apply stamp_seq in Hx as [_ Hx]. eapply N.le_trans; [exact Hx|]. apply N.eq_le_incl. f_equal. f_equal. exact Elen.
      + lia.
      + destruct Hso as [S1 S2]. split; [exact S1|]. eapply Forall_impl; [|exact S2]. cbn beta. intros; lia.
    - (* rotation *)
      destruct (b_rotate mp (ws_bs w)) as [b'|] eqn:Er; [|discriminate]. cbn [option_map] in Est. injection Est as <-.
      assert (Hfz : bs_frozen (ws_bs w) = None).
      { unfold b_rotate in Er. rewrite Hd in Er. destruct (bs_frozen (ws_bs w)); [discriminate|reflexivity]. }
      destruct (rotate_step c ok p pok seek_val mp mpok tp crc decompress fname ufc verify o ri_pos (ws_bs w) d B Hd Hfz)
        as (st' & d0 & Er' & B' & Em' & _ & _ & _ & _ & _ & Eall).
      rewrite Er in Er'. injection Er' as <-.
      apply (winv_rearrange w hs b' Inv B'); [exists d0; exact Em'|]. rewrite Eall. intros x; reflexivity.
    - (* flush *)
      destruct Hop as (Hfresh & Hsz & Hfl).
      destruct (b_flush c p mp tp crc compress decompress fname ufc verify o num (ws_bs w)) as [b'|] eqn:Ef; [|discriminate].
      cbn [option_map] in Est. injection Est as <-.
      destruct (bs_frozen (ws_bs w)) as [df|] eqn:Hfz; [|unfold b_flush in Ef; rewrite Hfz in Ef; discriminate].
      destruct (flush_step c ok p pok seek_val mp mpok tp tp_ok crc crc_bound compress decompress codec_ok compress_ne fname ufc verify o ri_pos
                  (ws_bs w) df num B Hfz Hfresh) as (st' & Ef' & B' & SE & Em' & _).
      { intros x Hx. specialize (Hbd x Hx). lia. }
      { apply Hsz. reflexivity. }
      { destruct (Hfl df eq_refl) as [Hn|Hf]; [left; exact Hn|right; intros f Hw; apply (Hf num f Hw)]. }
      rewrite Ef in Ef'. injection Ef' as <-.
      apply (winv_rearrange w hs b' Inv B'); [exists d; rewrite Em'; exact Hd|exact SE].
    - (* table compaction *)
      destruct Hop as (Hnd & Hfresh & Hsz).
      destruct (b_compact c p tp crc compress decompress fname ufc verify o lvl seed os nums (min_seq w) (ws_bs w)) as [b'|] eqn:Ec; [|discriminate].
      cbn [option_map] in Est. injection Est as <-.
      (* what the success of the step tells *)
      assert (Hseed : seed_tables (av (ws_bs w)) lvl seed <> []).
      { intros Q. unfold b_compact, b_pick, new_compaction, expand in Ec. rewrite Q in Ec. cbn in Ec. discriminate. }
      assert (Hms : min_seq w < keyMaxSeq p).
      { pose proof (min_seq_le w (ws_seq w) Hso (or_introl eq_refl)). lia. }
      destruct (compact_step c ok p pok seek_val mp mpok tp tp_ok crc crc_bound compress decompress codec_ok compress_ne fname ufc verify o ri_pos
                  (ws_bs w) lvl seed os nums (min_seq w) B Hseed Hms Hnd Hfresh) as (cm & Ecm & Hstep).
      pose proof Ec as Ec0. unfold b_compact in Ec0. rewrite Ecm in Ec0.
      destruct (transact c p (fsz (ws_bs w)) (c_gp cm) (wo_gpOverlaps o lvl) (skipn (lvl + 2) (av (ws_bs w))) (min_seq w) (wo_strict o)
                  (wo_tableSize o (S lvl)) blen os (map IGood (merge_inputs c (c_t0 cm ++ c_t1 cm)))
                  (bst0 (skipn (lvl + 2) (av (ws_bs w))))) as [s' r] eqn:Etr.
      destruct r; try discriminate.
      destruct (write_outputs c p tp crc compress o nums (fin_of s')) as [outs|] eqn:Ewo; [|discriminate].
      pose proof (write_outputs_len _ _ _ Ewo) as Hlen.
      destruct (Hstep s' Etr Hlen (Hsz cm s' Ecm Etr)) as (st' & Ec' & B' & Em' & Efz' & _ & _ & Hincl & Hreads).
      rewrite Ec in Ec'. injection Ec' as <-.
      assert (R : reorg_ok c p (hrun hs) (all_entries (absS b'))).
      { split.
        - intros x Hx. rewrite Hst. apply Hincl. exact Hx.
        - intros k s Hps. rewrite Hst. apply Hreads. apply (min_seq_le w s Hso).
          destruct Hps as [->|Hin]; [left; exact Hsq|right; rewrite <- Hsn; exact Hin]. }
      constructor; cbn [ws_bs ws_seq ws_snaps]; try assumption.
      + exists d. rewrite Em'. exact Hd.
      + apply hops_ok_app'; [exact Hok|]. cbn [fold_left hops_ok hop_ok]. fold (hrun hs). split; [exact R|exact I].
      + rewrite hrun_app. reflexivity.
      + rewrite hrun_app. cbn [fold_left hstep h_seq]. exact Hsq.
      + rewrite hrun_app. cbn [fold_left hstep h_snaps]. exact Hsn.
      + intros x Hx. apply Hbd. apply Hincl. exact Hx.
    - (* trivial move *)
      destruct (b_trivial_move c tp crc decompress fname ufc verify o lvl seed (ws_bs w)) as [b'|] eqn:Em; [|discriminate].
      cbn [option_map] in Est. injection Est as <-.
      assert (Hseed : seed_tables (av (ws_bs w)) lvl seed <> []).
      { intros Q. unfold b_trivial_move, b_pick, new_compaction, expand in Em. rewrite Q in Em. cbn in Em. discriminate. }
      destruct (move_step c ok p pok seek_val mp mpok tp crc decompress fname ufc verify o ri_pos (ws_bs w) lvl seed B Hseed) as (cm & Ecm & Hstep).
      pose proof Em as Em0. unfold b_trivial_move in Em0. rewrite Ecm in Em0.
      destruct (trivial (fsz (ws_bs w)) cm (wo_gpOverlaps o lvl)) eqn:T; [|discriminate].
      destruct (Hstep eq_refl) as (st' & Em' & B' & Emem & _ & _ & SE).
      rewrite Em in Em'. injection Em' as <-.
      apply (winv_rearrange w hs b' Inv B'); [exists d; rewrite Emem; exact Hd|exact SE].
    - (* a committed transaction *)
      destruct Hop as (Hrw & Hsq' & Hhs & Hlen & Hfresh & Hsz).
      destruct (b_txn_commit c p mp tp crc compress decompress fname ufc verify o recs hts num (ws_seq w) (ws_bs w)) as [b'|] eqn:Et; [|discriminate].
      cbn [option_map] in Est. injection Est as <-.
      assert (Hfz : bs_frozen (ws_bs w) = None).
      { unfold b_txn_commit in Et. destruct (negb (mem_is_empty c mp (bs_mem (ws_bs w)))); [discriminate|].
        destruct (bs_frozen (ws_bs w)); [discriminate|reflexivity]. }
      assert (Hme : mem_is_empty c mp (bs_mem (ws_bs w)) = true).
      { unfold b_txn_commit in Et. destruct (mem_is_empty c mp (bs_mem (ws_bs w))); [reflexivity|discriminate]. }
      destruct (txn_step c ok p pok seek_val mp mpok tp tp_ok crc crc_bound compress decompress codec_ok compress_ne fname ufc verify o ri_pos
                  (ws_bs w) recs hts num (ws_seq w) B Hfz Hme Hbd Hrw ltac:(lia) Hhs Hlen Hfresh Hsz) as (st' & Et' & B' & Em' & _ & SE).
      rewrite Et in Et'. injection Et' as <-.
      set (rs := map (norm_rec p) recs) in *.
      assert (Elen : length rs = length recs) by (unfold rs; apply map_length).
      assert (Ust : uniq_in (allE w ++ stamp (ws_seq w) rs)) by (apply uniq_old_stamp; [exact (bf_uniq _ _ _ _ _ _ _ _ _ _ _ B)|exact Hbd]).
      set (h1 := hstep (hrun hs) (HWrite rs)).
      assert (R : reorg_ok c p h1 (all_entries (absS b'))).
      { apply (rearrangement_ok c ok p); unfold h1; cbn [hstep h_store]; rewrite Hst, Hsq; assumption. }
      constructor; cbn [ws_bs ws_seq ws_snaps].
      + exact B'.
      + exists d. rewrite Em'. exact Hd.
      + apply hops_ok_app'; [exact Hok|]. cbn [fold_left hops_ok hop_ok]. fold (hrun hs). fold h1.
        split; [|split; [exact R|exact I]].
        apply Forall_forall. intros r Hr. unfold rs in Hr. apply in_map_iff in Hr as ([[kt k0] v0] & <- & Hr0).
        rewrite Forall_forall in Hrw. destruct (Hrw _ Hr0) as [Hk _]. cbn [fst] in Hk.
        unfold norm_rec. destruct pok as (P1 & P2 & _). destruct (kt =? keyTypeVal p); cbn [fst]; destruct Hk as [-> | ->]; assumption.
      + rewrite hrun_app. reflexivity.
      + rewrite hrun_app. cbn [fold_left hstep h_seq]. rewrite Hsq. f_equal. f_equal. exact Elen.
      + rewrite hrun_app. cbn [fold_left hstep h_snaps]. exact Hsn.
      + intros x Hx. apply SE in Hx. apply in_app_or in Hx as [Hx|Hx]; [specialize (Hbd x Hx); lia|].
        apply stamp_seq in Hx as [_ Hx]. eapply N.le_trans; [exact Hx|]. apply N.eq_le_incl. f_equal. f_equal. exact Elen.
      + lia.
      + destruct Hso as [S1 S2]. split; [exact S1|]. eapply Forall_impl; [|exact S2]. cbn beta. intros; lia.
    - (* GetSnapshot *)
      injection Est as <-. constructor; cbn [ws_bs ws_seq ws_snaps]; try assumption.
      + exists d. exact Hd.
      + apply hops_ok_app'; [exact Hok|]. cbn [fold_left hops_ok hop_ok]. auto.
      + rewrite hrun_app. cbn [fold_left hstep h_store]. exact Hst.
      + rewrite hrun_app. cbn [fold_left hstep h_seq]. exact Hsq.
      + rewrite hrun_app. cbn [fold_left hstep h_snaps]. rewrite Hsn, Hsq. reflexivity.
      + destruct Hso as [S1 S2]. split.
        * clear - S1 S2. induction (ws_snaps w) as [|s0 r IH]; cbn [app]; [constructor; constructor|].
          inversion S1 as [|? ? S1' Ha]; subst. inversion S2 as [|? ? Hb S2']; subst.
          constructor; [apply IH; assumption|]. apply Forall_app. split; [exact Ha|constructor; [exact Hb|constructor]].
        * apply Forall_app. split; [exact S2|constructor; [lia|constructor]].
    - (* Release *)
      injection Est as <-. constructor; cbn [ws_bs ws_seq ws_snaps]; try assumption.
      + exists d. exact Hd.
      + apply hops_ok_app'; [exact Hok|]. cbn [fold_left hops_ok hop_ok]. auto.
      + rewrite hrun_app. cbn [fold_left hstep h_store]. exact Hst.
      + rewrite hrun_app. cbn [fold_left hstep h_seq]. exact Hsq.
      + rewrite hrun_app. cbn [fold_left hstep h_snaps]. rewrite Hsn. reflexivity.
      + destruct Hso as [S1 S2]. split; [apply remove_nth_sorted; exact S1|].
        apply Forall_forall. intros s Hs. rewrite Forall_forall in S2. apply S2. apply (remove_nth_in _ _ _ Hs).
  Qed.

  (* ---------------- runs ---------------- *)
  Theorem run_inv : forall ops w hs w', winv w hs -> run w ops = Some w' -> bops_ok w ops -> winv w' (hs ++ hops_run w ops).
  Proof.
    induction ops as [|op ops IH]; intros w hs w' Inv Er Hok; cbn [brun bops_ok hops_run] in *.
    - injection Er as <-. rewrite app_nil_r. exact Inv.
    - destruct Hok as [Hop Hrest]. destruct (step w op) as [w1|] eqn:Es; [|discriminate].
      rewrite app_assoc. apply (IH w1 _ w'); [apply (step_inv w hs op w1 Inv Es Hop)|exact Er|exact Hrest].
  Qed.

  Lemma run_app : forall a b w w1, run w a = Some w1 -> run w (a ++ b) = run w1 b.
  Proof.
    induction a as [|x a IH]; intros b w w1 H; cbn [brun app] in *; [injection H as <-; reflexivity|].
    destruct (step w x) as [w2|]; [|discriminate]. apply IH. exact H.
  Qed.

  Lemma hops_run_app : forall a b w w1, run w a = Some w1 -> hops_run w (a ++ b) = hops_run w a ++ hops_run w1 b.
  Proof.
    induction a as [|x a IH]; intros b w w1 H; cbn [brun hops_run app] in *; [injection H as <-; reflexivity|].
    destruct (step w x) as [w2|]; [|discriminate]. rewrite <- app_assoc. f_equal. apply IH. exact H.
  Qed.

  Lemma bops_ok_app : forall a b w, bops_ok w (a ++ b) -> bops_ok w a.
  Proof.
    induction a as [|x a IH]; intros b w H; cbn [bops_ok app] in *; [exact I|].
    destruct H as [H1 H2]. split; [exact H1|]. destruct (step w x); [apply (IH b); exact H2|exact I].
  Qed.

  (* the plain map of the history operations of a run is the plain map of the written batches *)
  Lemma map_steps_run : forall ops w w' m, run w ops = Some w' ->
    fold_left (map_step c p) (hops_run w ops) m = fold_left (fun m op => fold_left (a_apply c p) (hop_writes p op) m) ops m.
  Proof.
    induction ops as [|op ops IH]; intros w w' m Er; cbn [brun hops_run fold_left] in *; [reflexivity|].
    destruct (step w op) as [w1|] eqn:Es; [|discriminate]. rewrite fold_left_app, (IH w1 w' _ Er). f_equal.
    destruct op; reflexivity.
  Qed.

  Lemma map_of_run ops w w' : run w ops = Some w' -> map_of c p (hops_run w ops) = wmap ops.
  Proof. intros Er. unfold map_of, wmap. apply (map_steps_run ops w w' [] Er). Qed.

  Lemma wf_lsm_nil : wf_lsm c p [].
  Proof.
    assert (E : forall i, lv [] i = (@nil table)) by (intros [|i]; reflexivity).
    constructor.
    - intros i t Ht. rewrite E in Ht. destruct Ht.
    - intros i. rewrite E. constructor.
    - rewrite E. exact I.
    - intros i _. rewrite E. exact I.
    - intros i j _. rewrite E. intros a b [].
    - intros i j t t' Ht. rewrite E in Ht. destruct Ht.
  Qed.

  (* Open of an empty DB *)
  Theorem init_inv w0 : w_init mp = Some w0 -> winv w0 [].
  Proof.
    unfold w_init. destruct (mem_new_ok c p seek_val mp mpok) as (d0 & E0 & M0 & P0). rewrite E0. intros H. injection H as <-.
    set (b0 := mkBS (Some d0) None []).
    assert (Eall : all_entries (absS b0) = []).
    { unfold all_entries, all_tables. cbn [ReadPath.abs st_mem st_frozen st_aux st_levels b0 bs_mem bs_frozen bs_levels mem_entries map concat app].
      rewrite P0. reflexivity. }
    constructor; cbn [ws_bs ws_seq ws_snaps].
    - constructor.
      + constructor.
        * intros x Hx. cbn [b0 bs_mem] in Hx. injection Hx as <-. exact M0.
        * intros x Hx. discriminate.
        * constructor.
        * change (absS b0) with {| st_mem := mem_entries mp (Some d0); st_frozen := []; st_aux := []; st_levels := [] |}.
          cbn [mem_entries]. rewrite P0. cbn [map].
          apply (wf_state_parts c p [] [] [] I (Forall_nil _) I (Forall_nil _) wf_lsm_nil); [intros a b []|intros i a b []|intros i a b []].
      + exact wf_lsm_nil.
      + rewrite Eall. intros a b [].
    - exists d0. reflexivity.
    - exact I.
    - rewrite Eall. reflexivity.
    - reflexivity.
    - reflexivity.
    - rewrite Eall. intros x [].
    - destruct pok as (_ & _ & _ & _ & Hm & _). rewrite Hm. reflexivity.
    - split; constructor.
  Qed.

  (* ---------------- the capstone ---------------- *)
  Theorem history_bytes ops w0 w : w_init mp = Some w0 -> run w0 ops = Some w -> bops_ok w0 ops ->
    wfb (ws_bs w) /\
    (forall k, wf_bytes k -> bapi (getb (ws_bs w) k (ws_seq w)) = Some (a_get c k (wmap ops))) /\
    (forall ops1 ops2 w1 k, ops = ops1 ++ ops2 -> run w0 ops1 = Some w1 -> In (ws_seq w1) (ws_snaps w) -> wf_bytes k ->
       bapi (getb (ws_bs w) k (ws_seq w1)) = Some (a_get c k (wmap ops1))).
  Proof.
    intros Hi Er Hok. pose proof (run_inv ops w0 [] w (init_inv w0 Hi) Er Hok) as Inv. cbn [app] in Inv.
    pose proof Inv as [B M Hhok Hst Hsq Hsn Hbd Hmx Hso].
    pose proof (bf_wf _ _ _ _ _ _ _ _ _ _ _ B) as W.
    split; [exact W|]. split.
    - intros k Wk.
      pose proof (get_is_map_bytes c ok p pok seek_val mp mpok tp crc decompress fname ufc verify ri (ws_bs w) (hops_run w0 ops) k
                    W Wk Hhok Hst ltac:(rewrite Hsq; lia)) as G.
      rewrite Hsq, (map_of_run ops w0 w Er) in G. exact G.
    - intros ops1 ops2 w1 k -> Er1 Hlive Wk.
      pose proof (run_inv ops1 w0 [] w1 (init_inv w0 Hi) Er1 (bops_ok_app ops1 ops2 w0 Hok)) as Inv1. cbn [app] in Inv1.
      pose proof (wi_seq _ _ Inv1) as Hsq1.
      assert (Hle : ws_seq w1 <= ws_seq w).
      { destruct Hso as [_ Sb]. rewrite Forall_forall in Sb. apply Sb. exact Hlive. }
      pose proof (history_correct_bytes c ok p pok seek_val mp mpok tp crc decompress fname ufc verify ri (ws_bs w) _ k (ws_seq w1)
                    W Wk Hhok Hst ltac:(right; rewrite Hsn; exact Hlive) ltac:(lia)) as G.
      rewrite G. f_equal.
      rewrite (hops_run_app ops1 ops2 w0 w1 Er1), hrun_app.
      rewrite (hist_get_stable c p (hops_run w1 ops2) (hrun (hops_run w0 ops1)) k (ws_seq w1)) by (rewrite Hsq1; lia).
      rewrite <- Hsq1. rewrite (hist_is_map c ok p (hops_run w0 ops1) k), (map_of_run ops1 w0 w1 Er1). reflexivity.
  Qed.
End HistoryBytes.
