(* Lsm/Builder.v — L1: tableCompactionBuilder (leveldb/db_compaction.go) with its transient-error resume logic, and the
   per-compaction state it drives (leveldb/session_compaction.go: shouldStopBefore, baseLevelForKey, save, restore).
   Mirrors, branch by branch,
     tableCompactionBuilder.run      the loop over the merged iterator: skip of the first snapIter entries of a FRESH
                                     iterator, [resumed] for the first processed entry, parseInternalKey (good / corrupted
                                     key), shouldStopBefore, the first-occurrence test with hasLastUkey/lastUkey/lastSeq,
                                     flush + snapshot (taken only right after a successful flush at a first-occurrence
                                     boundary), the drop rule with minSeq and baseLevelForKey, strict / kerrCnt handling of
                                     corrupted keys, appendKV (lazy creation of the writer, first/last), the final flush,
                                     the deferred cleanup (drops the partially written table, never keeps the writer);
     tableCompactionBuilder.flush / cleanup / revert, tWriter.append / empty;
     compaction.shouldStopBefore     gpi, seenKey, gpOverlappedBytes vs maxGPOverlaps;
     compaction.baseLevelForKey      the per-level cursors tPtrs;
     compaction.save / restore       snapGPI, snapSeenKey, snapGPOverlappedBytes, snapTPtrs;
     DB.compactionTransact           re-run after an error until an attempt succeeds; exit (revert) on a closed DB, a
                                     persistent error, or a corruption error.
   What fails is an ORACLE per attempt: iterator Next at position i, table creation / append at entry i, flush at
   entry i (i = number of entries: the final flush), the cleanup's drop.  Sizes: [tsize] is table.Writer.BytesLen after the
   given entries were appended to a fresh writer.  int64 wrap-around of gpOverlappedBytes is not modelled (sums of table
   sizes).  Back-off timing and the transact counter are not modelled (no influence on the result).
   Model file: definitions only. *)
From GL Require Export Lsm.Pick.
From Coq Require Import Arith.

(* what the merged iterator yields: an entry whose internal key parses, or a corrupted key (kerr != nil) kept as raw
   key bytes and value *)
Inductive item := IGood (e : entry) | IBad (k v : bytes).

(* tWriter.append: first = append([]byte(nil), key...) stays nil for a zero-length key *)
Definition item_key_empty (it : item) : bool := match it with IBad [] _ => true | _ => false end.

Record twriter := { w_items : list item; w_first : option item; w_last : option item }.
(* a finished table as recorded by flush: its entries, imin = w.first, imax = w.last *)
Record otable := { o_items : list item; o_first : option item; o_last : option item }.

(* compaction: gpi, seenKey, gpOverlappedBytes, tPtrs (one cursor per level below the output level) *)
Record cstate := { cs_gpi : nat; cs_seen : bool; cs_bytes : N; cs_ptrs : list nat }.

(* snapHasLastUkey, snapLastUkey, snapLastSeq, snapIter, snapKerrCnt, snapDropCnt + the compaction's snap fields *)
Record snapshot := { sn_has : bool; sn_ukey : bytes; sn_seq : N; sn_iter : nat; sn_kerr : N; sn_drop : N; sn_cs : cstate }.

(* everything run reads and writes: its locals hasLastUkey/lastUkey/lastSeq, b.kerrCnt, b.dropCnt, the compaction's live
   fields, b.tw, the tables in b.rec, the snapshot *)
Record bst := {
  has : bool; ukey : bytes; lseq : N;
  kerr : N; drop : N;
  cs : cstate;
  tw : option twriter;
  recs : list otable;
  snap : snapshot
}.

Definition set_cs (s : bst) (x : cstate) : bst :=
  {| has := has s; ukey := ukey s; lseq := lseq s; kerr := kerr s; drop := drop s; cs := x; tw := tw s; recs := recs s;
     snap := snap s |}.
Definition set_last (s : bst) (h : bool) (u : bytes) (q : N) : bst :=
  {| has := h; ukey := u; lseq := q; kerr := kerr s; drop := drop s; cs := cs s; tw := tw s; recs := recs s; snap := snap s |}.
Definition set_seq (s : bst) (q : N) : bst := set_last s (has s) (ukey s) q.
Definition set_tw (s : bst) (w : option twriter) : bst :=
  {| has := has s; ukey := ukey s; lseq := lseq s; kerr := kerr s; drop := drop s; cs := cs s; tw := w; recs := recs s;
     snap := snap s |}.
Definition set_kerr (s : bst) (n : N) : bst :=
  {| has := has s; ukey := ukey s; lseq := lseq s; kerr := n; drop := drop s; cs := cs s; tw := tw s; recs := recs s;
     snap := snap s |}.
Definition set_drop (s : bst) (n : N) : bst :=
  {| has := has s; ukey := ukey s; lseq := lseq s; kerr := kerr s; drop := n; cs := cs s; tw := tw s; recs := recs s;
     snap := snap s |}.
Definition set_ptrs (s : bst) (ptrs : list nat) : bst :=
  set_cs s {| cs_gpi := cs_gpi (cs s); cs_seen := cs_seen (cs s); cs_bytes := cs_bytes (cs s); cs_ptrs := ptrs |}.

(* which call of appendKV fails: tops.create (only called when there is no writer yet) or tw.append *)
Inductive afault := AOk | ACreate | AWrite.

(* one attempt's failures *)
Record oracle := {
  o_closed : bool;            (* compactionTransact: db.isClosed() at the loop head *)
  o_next : nat -> bool;       (* iter.Next() number i ends the iteration with iter.Error() != nil *)
  o_append : nat -> afault;   (* appendKV for entry i *)
  o_flush : nat -> bool;      (* flush at entry i (tw.finish fails); i = number of entries: the final flush *)
  o_cleanup : bool;           (* cleanup: tw.drop fails *)
  o_perr : bool;              (* after run: a persistent error is pending (exits only when run failed) *)
  o_closed_sel : bool         (* after run: closeC is chosen by the select (exits whatever run returned) *)
}.

Definition o_ok : oracle :=
  {| o_closed := false; o_next := fun _ => false; o_append := fun _ => AOk; o_flush := fun _ => false;
     o_cleanup := false; o_perr := false; o_closed_sel := false |}.

(* result of run: nil, an error that is retried, a corruption error (errors.IsCorrupted: compactionTransact exits) *)
Inductive rres := ROk | RErr | RCorrupt.
Inductive sres := SCont (s : bst) | SFail (s : bst) (r : rres).
Inductive tres := TDone | TExit | TOutOfFuel.

Section WithParams.
  Variable c : comparer.
  Variable p : kparams.
  Variable sz : table -> N.               (* tFile.size *)
  Variable gp : list table.               (* c.gp *)
  Variable maxgp : N.                     (* c.maxGPOverlaps *)
  Variable deeper : list (list table).    (* c.v.levels[sourceLevel+2:] *)
  Variable minSeq : N.
  Variable strict : bool.
  Variable tableSize : N.
  Variable tsize : list item -> N.        (* b.tw.tw.BytesLen() *)

  (* ---- compaction.shouldStopBefore ---- *)
  Fixpoint ssb_loop (rest : list table) (gpi : nat) (seen : bool) (b : N) (ik : ikey) : nat * N :=
    match rest with
    | [] => (gpi, b)
    | g :: r => match icmp c ik (imax_of g) with
                | Gt => ssb_loop r (S gpi) seen (if seen then b + sz g else b) ik
                | _ => (gpi, b)
                end
    end.

  Definition should_stop (x : cstate) (ik : ikey) : bool * cstate :=
    let '(gpi', b') := ssb_loop (skipn (cs_gpi x) gp) (cs_gpi x) (cs_seen x) (cs_bytes x) ik in
    if maxgp <? b'
    then (true, {| cs_gpi := gpi'; cs_seen := true; cs_bytes := 0; cs_ptrs := cs_ptrs x |})
    else (false, {| cs_gpi := gpi'; cs_seen := true; cs_bytes := b'; cs_ptrs := cs_ptrs x |}).

  (* ---- compaction.baseLevelForKey: per level, advance the cursor past tables ending before the key; a table covering
     the key answers false at once (the cursors of the remaining levels are not touched) ---- *)
  Fixpoint base_scan (rest : list table) (ptr : nat) (u : bytes) : bool * nat :=
    match rest with
    | [] => (false, ptr)
    | t :: r => match cmp c u (umax_of t) with
                | Gt => base_scan r (S ptr) u
                | _ => (match cmp c u (umin_of t) with Lt => false | _ => true end, ptr)
                end
    end.

  Fixpoint base_levels (lvls : list (list table)) (ptrs : list nat) (u : bytes) : bool * list nat :=
    match lvls, ptrs with
    | tables :: lr, ptr :: pr =>
        let '(covered, ptr') := base_scan (skipn ptr tables) ptr u in
        if covered then (false, ptr' :: pr)
        else let '(b, pr') := base_levels lr pr u in (b, ptr' :: pr')
    | _, _ => (true, ptrs)
    end.

  (* ---- tWriter.append / tableCompactionBuilder.appendKV, needFlush, flush ---- *)
  Definition tw_append (w : option twriter) (it : item) : twriter :=
    match w with
    | None => {| w_items := [it]; w_first := if item_key_empty it then None else Some it; w_last := Some it |}
    | Some x => {| w_items := w_items x ++ [it];
                   w_first := match w_first x with
                              | None => if item_key_empty it then None else Some it
                              | f => f
                              end;
                   w_last := Some it |}
    end.

  Definition append_kv (o : oracle) (i : nat) (it : item) (s : bst) : sres :=
    match tw s, o_append o i with
    | None, ACreate => SFail s RErr                                         (* create failed: still no writer *)
    | _, AWrite => SFail (set_tw s (Some (tw_append (tw s) it))) RErr       (* first/last already updated *)
    | _, _ => SCont (set_tw s (Some (tw_append (tw s) it)))
    end.

  Definition need_flush (w : twriter) : bool := tableSize <=? tsize (w_items w).

  Definition to_otable (w : twriter) : otable :=
    {| o_items := w_items w; o_first := w_first w; o_last := w_last w |}.

  (* flush succeeded (table added to b.rec, b.tw = nil), then "Creates snapshot of the state" with snapIter = i *)
  Definition flush_and_snapshot (i : nat) (w : twriter) (s : bst) : bst :=
    {| has := has s; ukey := ukey s; lseq := lseq s; kerr := kerr s; drop := drop s; cs := cs s;
       tw := None; recs := recs s ++ [to_otable w];
       snap := {| sn_has := has s; sn_ukey := ukey s; sn_seq := lseq s; sn_iter := i; sn_kerr := kerr s;
                  sn_drop := drop s; sn_cs := cs s |} |}.

  Definition first_occ (s : bst) (u : bytes) : bool :=
    negb (has s) || match cmp c (ukey s) u with Eq => false | _ => true end.

  Definition drop_entry (s : bst) (q : N) : bst := set_drop (set_seq s q) (drop s + 1).

  (* ---- one iteration of the loop for an entry whose key parses (kerr == nil) ---- *)
  Definition step_good (o : oracle) (resumed : bool) (i : nat) (e : entry) (s : bst) : sres :=
    let '(stop, cs1) := if resumed then (false, cs s) else should_stop (cs s) (e_ikey e) in
    let s1 := set_cs s cs1 in
    let r :=
      if first_occ s1 (e_uk e) then
        (* "Only rotate tables if ukey doesn't hop across." *)
        match (match tw s1 with
               | Some w => if stop || need_flush w
                           then if o_flush o i then SFail s1 RErr else SCont (flush_and_snapshot i w s1)
                           else SCont s1
               | None => SCont s1
               end) with
        | SCont s2 => SCont (set_last s2 true (e_uk e) (keyMaxSeq p))
        | f => f
        end
      else SCont s1 in
    match r with
    | SFail _ _ => r
    | SCont s3 =>
        if lseq s3 <=? minSeq then SCont (drop_entry s3 (e_seq e))                 (* (A) a newer entry exists *)
        else if (e_kind e =? keyTypeDel p) && (e_seq e <=? minSeq) then
               let '(b, ptrs') := base_levels deeper (cs_ptrs (cs s3)) (ukey s3) in
               let s4 := set_ptrs s3 ptrs' in
               if b then SCont (drop_entry s4 (e_seq e))
               else append_kv o i (IGood e) (set_seq s4 (e_seq e))
             else append_kv o i (IGood e) (set_seq s3 (e_seq e))
    end.

  (* ---- ... and for a corrupted key ---- *)
  Definition step_bad (o : oracle) (i : nat) (it : item) (s : bst) : sres :=
    if strict then SFail s RCorrupt
    else append_kv o i it (set_kerr (set_last s false [] (keyMaxSeq p)) (kerr s + 1)).   (* "Don't drop corrupted keys." *)

  Definition step (o : oracle) (resumed : bool) (i : nat) (it : item) (s : bst) : sres :=
    match it with
    | IGood e => step_good o resumed i e s
    | IBad _ _ => step_bad o i it s
    end.

  (* tWriter.empty *)
  Definition tw_empty (w : twriter) : bool := match w_first w with None => true | Some _ => false end.

  (* ---- the loop: [k] = b.snapIter, [i] = loop index, [rp] = snapResumed ---- *)
  Fixpoint run_loop (o : oracle) (k i : nat) (rp : bool) (l : list item) (s : bst) : bst * rres :=
    if o_next o i then (s, RErr)                      (* Next returned false, iter.Error() != nil *)
    else
      match l with
      | [] =>                                          (* "Finish last table." *)
          match tw s with
          | Some w => if tw_empty w then (s, ROk)
                      else if o_flush o i then (s, RErr)
                           else ({| has := has s; ukey := ukey s; lseq := lseq s; kerr := kerr s; drop := drop s;
                                    cs := cs s; tw := None; recs := recs s ++ [to_otable w]; snap := snap s |}, ROk)
          | None => (s, ROk)
          end
      | it :: l' =>
          if Nat.ltb i k then run_loop o k (S i) rp l' s       (* "Skip until last state." *)
          else match step o rp i it s with
               | SCont s' => run_loop o k (S i) false l' s'
               | SFail s' r => (s', r)
               end
      end.

  (* the start of run: locals and counters from the builder's snapshot, c.restore() *)
  Definition restore (s : bst) : bst :=
    {| has := sn_has (snap s); ukey := sn_ukey (snap s); lseq := sn_seq (snap s);
       kerr := sn_kerr (snap s); drop := sn_drop (snap s); cs := sn_cs (snap s);
       tw := tw s; recs := recs s; snap := snap s |}.

  (* the deferred cleanup: the writer is dropped and forgotten whatever happened; a failing drop turns success into an
     error and wraps an error into a new one (which is no longer a corruption error) *)
  Definition cleanup (o : oracle) (x : bst * rres) : bst * rres :=
    match tw (fst x) with
    | Some _ => (set_tw (fst x) None, if o_cleanup o then RErr else snd x)
    | None => x
    end.

  Definition run_attempt (o : oracle) (items : list item) (s : bst) : bst * rres :=
    let s0 := restore s in
    cleanup o (run_loop o (sn_iter (snap s0)) O (Nat.ltb O (sn_iter (snap s0))) items s0).

  (* revert: the tables written so far are removed *)
  Definition revert (s : bst) : bst :=
    {| has := has s; ukey := ukey s; lseq := lseq s; kerr := kerr s; drop := drop s; cs := cs s; tw := tw s; recs := [];
       snap := snap s |}.

  (* ---- compactionTransact: one oracle per attempt; the list is the fuel ---- *)
  Fixpoint transact (os : list oracle) (items : list item) (s : bst) : bst * tres :=
    match os with
    | [] => (s, TOutOfFuel)
    | o :: os' =>
        if o_closed o then (revert s, TExit)
        else
          let '(s', r) := run_attempt o items s in
          if o_closed_sel o then (revert s', TExit)
          else match r with
               | ROk => (s', TDone)
               | RCorrupt => (revert s', TExit)
               | RErr => if o_perr o then (revert s', TExit) else transact os' items s'
               end
    end.

  (* newCompaction: c.save() on the fresh compaction; the builder's snap fields are zero *)
  Definition cs0 : cstate := {| cs_gpi := O; cs_seen := false; cs_bytes := 0; cs_ptrs := repeat O (length deeper) |}.
  Definition snap0 : snapshot :=
    {| sn_has := false; sn_ukey := []; sn_seq := 0; sn_iter := O; sn_kerr := 0; sn_drop := 0; sn_cs := cs0 |}.
  Definition bst0 : bst :=
    {| has := false; ukey := []; lseq := 0; kerr := 0; drop := 0; cs := cs0; tw := None; recs := []; snap := snap0 |}.

  (* what is installed: the entry lists of the tables in b.rec *)
  Definition out_items (s : bst) : list (list item) := map o_items (recs s).
End WithParams.

Definition good_entries (l : list item) : list entry :=
  concat (map (fun it => match it with IGood e => [e] | IBad _ _ => [] end) l).
Definition is_good (it : item) : bool := match it with IGood _ => true | IBad _ _ => false end.
