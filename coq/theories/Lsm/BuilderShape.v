(* Lsm/BuilderShape.v — every table tableCompactionBuilder records (model Lsm/Builder.v) is non-empty, its recorded
   largest key is its last entry and its recorded smallest key is its first entry with a non-empty key (tWriter.append
   leaves first == nil for zero-length keys) — for all inputs, all failure histories, every way compactionTransact ends.
   Also: shouldStopBefore is idempotent on one key, which is why the [resumed] flag of run is redundant. *)
From GL Require Import Base.Order Codec.IKey Lsm.Lsm Lsm.Compact Lsm.Pick Lsm.Builder.
From Coq Require Import Arith Lia.

Local Open Scope nat_scope.

Definition no_item : item := IBad [] [].
Definition key_present (it : item) : bool := negb (item_key_empty it).

Definition shape (items : list item) (first last_ : option item) : Prop :=
  items <> [] /\ last_ = Some (last items no_item) /\ first = find key_present items.

Definition shape_w (w : twriter) : Prop := shape (w_items w) (w_first w) (w_last w).
Definition shape_o (o : otable) : Prop := shape (o_items o) (o_first o) (o_last o).
Definition sinv (s : bst) : Prop := Forall shape_o (recs s) /\ forall w, tw s = Some w -> shape_w w.

Lemma find_snoc {A} (f : A -> bool) l x :
  find f (l ++ [x]) = match find f l with Some y => Some y | None => if f x then Some x else None end.
Proof. induction l as [|a l IH]; cbn [app find]; [reflexivity|]. destruct (f a); [reflexivity|exact IH]. Qed.

Lemma skipn_add {A} a : forall b (l : list A), skipn a (skipn b l) = skipn (b + a) l.
Proof.
  induction b as [|b IH]; intros l; [reflexivity|]. destruct l as [|x l]; cbn [skipn plus]; [destruct a; reflexivity|apply IH].
Qed.

Lemma tw_append_shape w it : (forall x, w = Some x -> shape_w x) -> shape_w (tw_append w it).
Proof.
  intros H. destruct w as [x|]; unfold shape_w, shape; cbn [tw_append w_items w_first w_last].
  - destruct (H x eq_refl) as [H1 [H2 H3]]. split; [destruct (w_items x); discriminate|]. split.
    + rewrite last_last. reflexivity.
    + rewrite find_snoc, <- H3. unfold key_present. destruct (w_first x); [reflexivity|].
      destruct (item_key_empty it); reflexivity.
  - split; [discriminate|]. split; [reflexivity|]. cbn [find]. unfold key_present. destruct (item_key_empty it); reflexivity.
Qed.

Section Shape.
  Variable c : comparer.
  Variable p : kparams.
  Variable sz : table -> N.
  Variable gp : list table.
  Variable maxgp : N.
  Variable deeper : list (list table).
  Variable minSeq : N.
  Variable strict : bool.
  Variable tableSize : N.
  Variable tsize : list item -> N.

  Notation run_loop := (run_loop c p sz gp maxgp deeper minSeq strict tableSize tsize).
  Notation step := (step c p sz gp maxgp deeper minSeq strict tableSize tsize).
  Notation run_attempt := (run_attempt c p sz gp maxgp deeper minSeq strict tableSize tsize).
  Notation transact := (transact c p sz gp maxgp deeper minSeq strict tableSize tsize).

  Definition sres_inv (r : sres) : Prop := match r with SCont s => sinv s | SFail s _ => sinv s end.

  Lemma append_shape o i it s : sinv s -> sres_inv (append_kv o i it s).
  Proof.
    intros I. unfold append_kv.
    assert (A : sinv (set_tw s (Some (tw_append (tw s) it)))).
    { destruct I as [H1 H2]. split; [exact H1|]. intros w Hw. cbn [tw set_tw] in Hw. injection Hw as <-.
      apply tw_append_shape. exact H2. }
    set (nw := tw_append (tw s) it) in *. clearbody nw.
    destruct (tw s) as [w|]; destruct (o_append o i); cbn [sres_inv]; try exact A. exact I.
  Qed.

  Lemma flush_shape i w s : sinv s -> tw s = Some w -> sinv (flush_and_snapshot i w s).
  Proof.
    intros [H1 H2] T. split; [|intros w' Hw'; discriminate]. cbn [recs flush_and_snapshot]. apply Forall_app. split; [exact H1|].
    constructor; [|constructor]. exact (H2 w T).
  Qed.

  Lemma step_shape o rp i it s : sinv s -> sres_inv (step o rp i it s).
  Proof.
    intros I. destruct it as [e|k v]; cbn [Builder.step].
    - unfold Builder.step_good.
      destruct (if rp then (false, cs s) else should_stop c sz gp maxgp (cs s) (e_ikey e)) as [stop cs1].
      assert (I1 : sinv (set_cs s cs1)) by exact I. set (s1 := set_cs s cs1) in *.
      assert (PB : forall s3, sinv s3 ->
        sres_inv (if (lseq s3 <=? minSeq)%N then SCont (drop_entry s3 (e_seq e))
                  else if ((e_kind e =? keyTypeDel p) && (e_seq e <=? minSeq))%N
                       then let '(b, ptrs') := base_levels c deeper (cs_ptrs (cs s3)) (ukey s3) in
                            let s4 := set_ptrs s3 ptrs' in
                            if b then SCont (drop_entry s4 (e_seq e)) else append_kv o i (IGood e) (set_seq s4 (e_seq e))
                       else append_kv o i (IGood e) (set_seq s3 (e_seq e)))).
      { intros s3 I3. destruct (lseq s3 <=? minSeq)%N; [exact I3|].
        destruct ((e_kind e =? keyTypeDel p) && (e_seq e <=? minSeq))%N.
        - destruct (base_levels c deeper (cs_ptrs (cs s3)) (ukey s3)) as [b ptrs']. destruct b; [exact I3|].
          apply append_shape. exact I3.
        - apply append_shape. exact I3. }
      destruct (first_occ c s1 (e_uk e)); [|apply PB; exact I1].
      destruct (tw s1) as [w|] eqn:T.
      + destruct (stop || need_flush tableSize tsize w).
        * destruct (o_flush o i); [exact I1|]. apply PB. apply (flush_shape i w s1 I1 T).
        * apply PB. exact I1.
      + apply PB. exact I1.
    - unfold Builder.step_bad. destruct strict; [exact I|]. apply append_shape. exact I.
  Qed.

  Lemma loop_shape o k : forall l i rp s, sinv s -> sinv (fst (run_loop o k i rp l s)).
  Proof.
    induction l as [|it l IH]; intros i rp s I; cbn [Builder.run_loop].
    - destruct (o_next o i); [exact I|]. destruct (tw s) as [w|] eqn:T; [|exact I].
      destruct (tw_empty w); [exact I|]. destruct (o_flush o i); [exact I|]. cbn [fst].
      destruct I as [H1 H2]. split; [|intros w' Hw'; discriminate]. cbn [recs]. apply Forall_app. split; [exact H1|].
      constructor; [exact (H2 w T)|constructor].
    - destruct (o_next o i); [exact I|]. destruct (Nat.ltb i k); [apply IH; exact I|].
      pose proof (step_shape o rp i it s I) as S. destruct (step o rp i it s) as [s'|s' r]; [apply IH; exact S|exact S].
  Qed.

  Lemma attempt_shape o items s : sinv s -> sinv (fst (run_attempt o items s)).
  Proof.
    intros I. unfold Builder.run_attempt, cleanup.
    assert (R : sinv (restore s)) by exact I.
    pose proof (loop_shape o (sn_iter (snap (restore s))) items 0 (Nat.ltb 0 (sn_iter (snap (restore s)))) (restore s) R) as L.
    destruct (tw (fst (run_loop o (sn_iter (snap (restore s))) 0 (Nat.ltb 0 (sn_iter (snap (restore s)))) items (restore s)))); [|exact L].
    cbn [fst]. destruct L as [L1 _]. split; [exact L1|intros w Hw; discriminate].
  Qed.

  Lemma revert_shape s : sinv s -> sinv (revert s).
  Proof. intros [_ H2]. split; [constructor|exact H2]. Qed.

  Theorem transact_shape items : forall os s, sinv s -> sinv (fst (transact os items s)).
  Proof.
    induction os as [|o os IH]; intros s I; cbn [Builder.transact]; [exact I|].
    destruct (o_closed o); [apply revert_shape; exact I|].
    pose proof (attempt_shape o items s I) as A. destruct (run_attempt o items s) as [s1 r]. cbn [fst] in A.
    destruct (o_closed_sel o); [apply revert_shape; exact A|].
    destruct r; [exact A| |apply revert_shape; exact A].
    destruct (o_perr o); [apply revert_shape; exact A|apply IH; exact A].
  Qed.

  Theorem outputs_shape items os : Forall shape_o (recs (fst (transact os items (bst0 deeper)))).
  Proof.
    apply (transact_shape items os (bst0 deeper)). split; [constructor|intros w H; discriminate].
  Qed.

  (* ---- shouldStopBefore twice on the same key: the second call answers false and changes nothing ---- *)
  Lemma ssb_loop_ge ik : forall rest gpi seen b, gpi <= fst (ssb_loop c sz rest gpi seen b ik).
  Proof.
    induction rest as [|g r IH]; intros gpi seen b; cbn [ssb_loop]; [cbn; lia|].
    destruct (icmp c ik (imax_of g)); try (cbn; lia). specialize (IH (S gpi) seen (if seen then (b + sz g)%N else b)). lia.
  Qed.

  Lemma ssb_loop_fix ik : forall rest gpi seen b g' b',
    ssb_loop c sz rest gpi seen b ik = (g', b') ->
    ssb_loop c sz (skipn (g' - gpi) rest) g' true b' ik = (g', b').
  Proof.
    induction rest as [|g r IH]; intros gpi seen b g' b' H; cbn [ssb_loop] in H.
    - injection H as <- <-. rewrite Nat.sub_diag. reflexivity.
    - destruct (icmp c ik (imax_of g)) eqn:E.
      + injection H as <- <-. rewrite Nat.sub_diag. cbn [skipn ssb_loop]. rewrite E. reflexivity.
      + injection H as <- <-. rewrite Nat.sub_diag. cbn [skipn ssb_loop]. rewrite E. reflexivity.
      + assert (Hge : S gpi <= g').
        { pose proof (ssb_loop_ge ik r (S gpi) seen (if seen then (b + sz g)%N else b)) as Q. rewrite H in Q. exact Q. }
        specialize (IH _ _ _ _ _ H). replace (g' - gpi) with (S (g' - S gpi)) by lia. cbn [skipn]. exact IH.
  Qed.

  Theorem should_stop_idempotent x ik :
    let x1 := snd (should_stop c sz gp maxgp x ik) in
    should_stop c sz gp maxgp x1 ik = (false, x1).
  Proof.
    cbn zeta. unfold should_stop.
    destruct (ssb_loop c sz (skipn (cs_gpi x) gp) (cs_gpi x) (cs_seen x) (cs_bytes x) ik) as [g' b'] eqn:E.
    pose proof (ssb_loop_fix ik _ _ _ _ _ _ E) as F.
    pose proof (ssb_loop_ge ik (skipn (cs_gpi x) gp) (cs_gpi x) (cs_seen x) (cs_bytes x)) as G. rewrite E in G. cbn [fst] in G.
    assert (Sk : skipn (g' - cs_gpi x) (skipn (cs_gpi x) gp) = skipn g' gp).
    { rewrite skipn_add. f_equal. lia. }
    rewrite Sk in F.
    destruct (maxgp <? b')%N eqn:M; cbn [snd cs_gpi cs_seen cs_bytes cs_ptrs].
    - (* the first call answered true and reset the counter *)
      assert (F0 : ssb_loop c sz (skipn g' gp) g' true 0%N ik = (g', 0%N)).
      { clear -F. destruct (skipn g' gp) as [|g r]; cbn [ssb_loop] in *; [reflexivity|].
        destruct (icmp c ik (imax_of g)); try reflexivity.
        exfalso. pose proof (ssb_loop_ge ik r (S g') true (b' + sz g)%N) as Q. rewrite F in Q. cbn [fst] in Q. lia. }
      rewrite F0. replace (maxgp <? 0)%N with false by (symmetry; apply N.ltb_ge; lia). reflexivity.
    - rewrite F, M. reflexivity.
  Qed.

  (* the first entry processed after a resume is a first occurrence whatever hasLastUkey / lastUkey / lastSeq were restored
     to: starting the resumed run with hasLastUkey = false gives the same iteration *)
  Theorem resume_last_irrelevant o i e m u q : tw m = None -> first_occ c m (e_uk e) = true ->
    step_good c p sz gp maxgp deeper minSeq tableSize tsize o true i e (set_last m false u q) =
    step_good c p sz gp maxgp deeper minSeq tableSize tsize o true i e m.
  Proof.
    intros T F. unfold Builder.step_good.
    assert (F1 : first_occ c (set_cs (set_last m false u q) (cs (set_last m false u q))) (e_uk e) = true) by reflexivity.
    assert (F2 : first_occ c (set_cs m (cs m)) (e_uk e) = true) by exact F.
    rewrite F1, F2.
    assert (T1 : tw (set_cs (set_last m false u q) (cs (set_last m false u q))) = None) by exact T.
    assert (T2 : tw (set_cs m (cs m)) = None) by exact T.
    rewrite T1, T2. reflexivity.
  Qed.
End Shape.
