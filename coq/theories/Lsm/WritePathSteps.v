(* Lsm/WritePathSteps.v — the byte-level steps of Lsm/WritePath.v keep the byte state well-formed and have the L1 steps
   as their abstraction.  Composition only: C14 (memdb iterator, put), C13 (table writer / format check, through
   WritePathTable.writer_output_ok), C15 (key order), C06 (Lsm/C06Steps.v flush_step, compaction_step,
   trivial_move_step, model_compaction_admissible; Lsm/BuilderStep.v), C01 (read path refinement, write_wf).

   The invariant [bfull]: the byte state is well-formed (ReadPathProofs.wf_bstate), the abstraction of its levels
   satisfies the step invariant of property C06 (WfLsm.wf_lsm), and no two stored entries share user key and sequence
   number. *)
From GL Require Import Base.Bytes Base.BytesProofs Base.Varint Base.Order Base.OrderProofs Base.Cursor Codec.BytesCmp Codec.IKey
  Codec.IKeyProofs Codec.Table Codec.TableCheck Codec.TableSizes Codec.Batch Lsm.Lsm Lsm.Compact Lsm.LsmProofs Lsm.CompactProofs
  Lsm.WfProofs Lsm.History Lsm.HistoryProofs Lsm.ReorgProofs Lsm.Pick Lsm.PickBase Lsm.WfLsm Lsm.ModelStep Lsm.C06Steps
  Lsm.Builder Lsm.BuilderBase Lsm.BuilderCuts Lsm.BuilderStep Lsm.FinishProofs
  Lsm.ReadPath Lsm.ReadPathKey Lsm.ReadPathMem Lsm.ReadPathTable Lsm.ReadPathProofs Lsm.BatchWriteProofs
  Lsm.WritePath Lsm.WritePathTable Lsm.WritePathMem Lsm.WritePathInstall.
From GL Require Mem.MemDB.
From Coq Require Import Arith ZArith Lia.
Open Scope N_scope.

Section Steps.
  Variable c : comparer.
  Hypothesis ok : comparer_ok c.
  Variable p : kparams.
  Hypothesis pok : kparams_ok p.
  Hypothesis seek_val : keyTypeSeek p <= keyTypeVal p.
  Variable mp : MemDB.mparams.
  Hypothesis mpok : MemDB.mparams_ok mp.
  Variable tp : tparams.
  Hypothesis tp_ok : tparams_ok tp.
  Variable crc : bytes -> N.
  Hypothesis crc_bound : forall b, crc b < 2 ^ 32.
  Variable compress : bytes -> bytes.
  Variable decompress : bytes -> option bytes.
  Hypothesis codec_ok : forall x, decompress (compress x) = Some x.
  Hypothesis compress_ne : forall x, compress x <> [].
  Variable fname : option bytes.
  Variable ufc : bytes -> N -> bytes -> bool.
  Variable verify : bool.
  Variable o : wopts.
  Hypothesis ri_pos : 1 <= wo_ri o.

  Local Notation ri := (wo_ri o).
  Local Notation icr := (ibc c).
  Local Notation wfb := (wf_bstate c p mp tp crc decompress fname ufc verify ri).
  Local Notation absS := (ReadPath.abs c mp tp crc decompress fname ufc verify ri).
  Local Notation atab := (abs_table c tp crc decompress fname ufc verify ri).
  Local Notation okb := (tfile_okb c p tp crc decompress fname ufc verify ri).
  Local Notation pairs := (tf_pairs c tp crc decompress fname ufc verify ri).
  Local Notation av := (aversion c tp crc decompress fname ufc verify o).
  Local Notation getb := (db_get_bytes c p mp tp crc decompress fname ufc verify).
  Local Notation wf_lsm := (wf_lsm c p).
  Local Notation inst := (install c tp crc decompress fname ufc verify o).

  Record bfull (st : bstate) : Prop := {
    bf_wf : wfb st;
    bf_lsm : wf_lsm (av st);
    bf_uniq : uniq_in (all_entries (absS st))
  }.

  Lemma abs_levels st : st_levels (absS st) = av st.
  Proof. reflexivity. Qed.

  Lemma all_entries_abs st :
    all_entries (absS st) = mem_entries mp (bs_mem st) ++ mem_entries mp (bs_frozen st) ++ LE (concat (av st)).
  Proof. reflexivity. Qed.

  Lemma in_LE_concat (v : list (list table)) x : In x (LE (concat v)) <-> exists i, In x (LE (lv v i)).
  Proof.
    rewrite LE_in. split.
    - intros (t & Ht & Hx). destruct (in_concat_lv v t Ht) as (j & Hj). exists j. apply LE_in. exists t. auto.
    - intros (i & Hx). apply LE_in in Hx as (t & Ht & Hx). exists t. split; [|exact Hx].
      apply in_concat. exists (lv v i). split; [|exact Ht]. unfold lv in *.
      destruct (Nat.lt_ge_cases i (length v)) as [L|L]; [apply nth_In; exact L|]. rewrite nth_overflow in Ht by lia. destruct Ht.
  Qed.

  (* ---------------- a well-formed L1 state from its parts ---------------- *)
  Lemma wf_state_parts mem frozen v :
    ssorted c mem -> kinds_ok p mem -> ssorted c frozen -> kinds_ok p frozen -> wf_lsm v ->
    newer_thanP mem frozen ->
    (forall i, newer_thanP mem (LE (lv v i))) -> (forall i, newer_thanP frozen (LE (lv v i))) ->
    wf_state c p {| st_mem := mem; st_frozen := frozen; st_aux := []; st_levels := v |}.
  Proof.
    intros S1 K1 S2 K2 W N1 N2 N3.
    destruct (wf_lsm_wf_state c p v W) as [_ _ Wa W0 Wd Wc]. cbn [st_mem st_frozen st_aux st_levels] in *.
    unfold comps in Wc. cbn [st_mem st_frozen st_aux st_levels chain_newer] in Wc. destruct Wc as (_ & _ & C3 & C4).
    assert (E : forall x, newer_thanP x []) by (intros x a b _ []).
    assert (Lv : forall x, (forall i, newer_thanP x (LE (lv v i))) -> Forall (fun y => newer_thanP x y) (map LE v)).
    { intros x H. apply Forall_forall. intros y Hy. apply in_map_iff in Hy as (l & <- & Hl).
      destruct (In_nth _ _ [] Hl) as (j & _ & <-). apply H. }
    constructor; cbn [st_mem st_frozen st_aux st_levels]; try assumption; try (split; assumption).
    unfold comps. cbn [st_mem st_frozen st_aux st_levels chain_newer].
    split; [constructor; [exact N1|constructor; [apply E|apply Lv; exact N2]]|].
    split; [constructor; [apply E|apply Lv; exact N3]|]. split; [exact C3|exact C4].
  Qed.

  (* what the parts of a well-formed state give back *)
  Lemma wf_state_newer st : wf_state c p st ->
    newer_thanP (st_mem st) (st_frozen st) /\
    (forall i, newer_thanP (st_mem st) (LE (lv (st_levels st) i))) /\
    (forall i, newer_thanP (st_frozen st) (LE (lv (st_levels st) i))).
  Proof.
    intros [_ _ _ _ _ Wc]. unfold comps in Wc. cbn [chain_newer] in Wc. destruct Wc as (C1 & C2 & _).
    inversion C1 as [|? ? N1 C1']; subst. inversion C1' as [|? ? _ C1'']; subst. inversion C2 as [|? ? _ C2']; subst.
    split; [exact N1|].
    assert (Lv : forall x, Forall (fun y => newer_thanP x y) (map LE (st_levels st)) -> forall i, newer_thanP x (LE (lv (st_levels st) i))).
    { intros x H i. unfold lv. destruct (Nat.lt_ge_cases i (length (st_levels st))) as [L|L].
      - rewrite Forall_forall in H. apply H. apply in_map. apply nth_In. exact L.
      - rewrite nth_overflow by lia. intros a b _ []. }
    split; apply Lv; assumption.
  Qed.

  Lemma mem_entries_wf d : (forall m, d = Some m -> mem_ok c p mp m) ->
    ssorted c (mem_entries mp d) /\ kinds_ok p (mem_entries mp d).
  Proof.
    intros H. destruct d as [m|]; [|split; [exact I|constructor]].
    destruct (H m eq_refl) as [(A & L & Iv) Hk]. cbn [mem_entries].
    assert (Hks : keys_ok p (mem_pairs mp m)).
    { unfold keys_ok. apply Forall_forall. unfold mem_keys_okb in Hk. rewrite forallb_forall in Hk. exact Hk. }
    split; [apply (sorted_ssorted c ok p _ Hks); apply (mem_pairs_sorted c p seek_val mp mpok m A L Iv)|apply (keys_ok_kinds p pok _ Hks)].
  Qed.

  (* ---------------- the files of a well-formed state have pairwise different numbers ---------------- *)
  Lemma files_nodup st : wf_lsm (av st) -> NoDup (map tf_num (files_of st)).
  Proof.
    intros W. unfold files_of. rewrite (files_nums c tp crc decompress fname ufc verify ri). apply (wf_lsm_nodup_nums c p). exact W.
  Qed.

  Lemma in_files_level st f : In f (files_of st) -> exists i, In (atab f) (lv (av st) i).
  Proof.
    unfold files_of. intros H. apply in_concat in H as (l & Hl & Hf). destruct (In_nth _ _ [] Hl) as (i & Hi & <-).
    exists i. unfold lv, aversion. rewrite (nth_indep _ [] (map atab [])) by (rewrite map_length; exact Hi).
    rewrite map_nth. apply in_map. exact Hf.
  Qed.

  Lemma in_level_file st i t : In t (lv (av st) i) -> exists f, In f (files_of st) /\ atab f = t.
  Proof.
    unfold lv, aversion. intros H.
    destruct (Nat.lt_ge_cases i (length (bs_levels st))) as [L|L].
    - rewrite (nth_indep _ [] (map atab [])) in H by (rewrite map_length; exact L). rewrite map_nth in H.
      apply in_map_iff in H as (f & <- & Hf). exists f. split; [|reflexivity].
      unfold files_of. apply in_concat. exists (nth i (bs_levels st) []). split; [apply nth_In; exact L|exact Hf].
    - rewrite nth_overflow in H by (rewrite map_length; lia). destruct H.
  Qed.

  (* ---------------- session.commit: the installed state ---------------- *)
  Lemma install_ok tr st newf ed mem frozen nv :
    wfb st -> wf_lsm (av st) ->
    finish c tr (av st) ed = POk nv ->
    Forall (fun f => okb f = true) newf ->
    NoDup (map tf_num (newf ++ files_of st)) ->
    (forall l t, In t (adds_at ed l) -> exists f, In f (newf ++ files_of st) /\ atab f = t) ->
    exists st', inst tr st newf ed mem frozen = Some st' /\
      bs_mem st' = mem /\ bs_frozen st' = frozen /\ av st' = nv /\
      Forall (Forall (fun f => okb f = true)) (bs_levels st').
  Proof.
    intros W Wl Ef Hnew Hnd Hadd. unfold install. rewrite Ef.
    assert (Hall : forall t, In t (concat nv) -> exists f, In f (newf ++ files_of st) /\ atab f = t).
    { intros t Ht. destruct (in_concat_lv nv t Ht) as (l & Hl).
      apply (finish_in c tr (av st) ed nv Ef l t) in Hl as [(Hb & _)|Ha]; [|apply (Hadd l t Ha)].
      destruct (in_level_file st l t Hb) as (f & Hf & E). exists f. split; [apply in_or_app; right; exact Hf|exact E]. }
    destruct (levels_for_ok c tp crc decompress fname ufc verify ri _ Hnd nv Hall) as (lvs & El & Ml & Il).
    rewrite El. cbn [option_map]. eexists. split; [reflexivity|]. cbn [bs_mem bs_frozen bs_levels].
    split; [reflexivity|]. split; [reflexivity|]. split; [exact Ml|].
    assert (Hpool : forall f, In f (newf ++ files_of st) -> okb f = true).
    { intros f Hf. apply in_app_or in Hf as [Hf|Hf]; [rewrite Forall_forall in Hnew; apply Hnew; exact Hf|].
      pose proof (wb_tables _ _ _ _ _ _ _ _ _ _ _ W) as Ht. unfold files_of in Hf. apply in_concat in Hf as (l & Hl & Hf).
      rewrite Forall_forall in Ht. specialize (Ht l Hl). rewrite Forall_forall in Ht. apply Ht. exact Hf. }
    apply Forall_forall. intros l Hl. apply Forall_forall. intros f Hf. apply Hpool. apply Il.
    apply in_concat. exists l. split; assumption.
  Qed.

  (* uniq_in and the sequence bound are properties of the SET of stored entries *)
  Lemma uniq_in_same l1 l2 : same_elems l1 l2 -> uniq_in l1 -> uniq_in l2.
  Proof. intros S U a b Ha Hb. apply U; apply S; assumption. Qed.

  Lemma LE_finish tr v ed nv : finish c tr v ed = POk nv -> forall x,
    In x (LE (concat nv)) <->
    exists l t, In x (t_entries t) /\
      ((In t (lv v l) /\ memN (t_num t) (dels_at ed l (lv v l)) = false /\ memN (t_num t) (nums_of (adds_at ed l)) = false)
       \/ In t (adds_at ed l)).
  Proof.
    intros Ef x. rewrite in_LE_concat. split.
    - intros (l & Hx). apply LE_in in Hx as (t & Ht & Hx). exists l, t. split; [exact Hx|].
      apply (finish_in c tr v ed nv Ef l t). exact Ht.
    - intros (l & t & Hx & Ht). exists l. apply LE_in. exists t. split; [|exact Hx].
      apply (finish_in c tr v ed nv Ef l t). exact Ht.
  Qed.

  (* ---------------- rotateMem / newMem ---------------- *)
  Theorem rotate_step st d : bfull st -> bs_mem st = Some d -> bs_frozen st = None ->
    exists st' d0, b_rotate mp st = Some st' /\ bfull st' /\
      bs_mem st' = Some d0 /\ bs_frozen st' = Some d /\ bs_levels st' = bs_levels st /\
      st_mem (absS st') = [] /\ st_frozen (absS st') = st_mem (absS st) /\ st_levels (absS st') = st_levels (absS st) /\
      all_entries (absS st') = all_entries (absS st).
  Proof.
    intros [W Wl U] Hm Hf.
    destruct (mem_new_ok c p seek_val mp mpok) as (d0 & E0 & M0 & P0).
    unfold b_rotate. rewrite Hm, Hf, E0. eexists. exists d0. split; [reflexivity|].
    set (st' := mkBS (Some d0) (Some d) (bs_levels st)).
    assert (Em : st_mem (absS st') = []) by (cbn [ReadPath.abs st_mem st' bs_mem mem_entries]; rewrite P0; reflexivity).
    assert (Efz : st_frozen (absS st') = st_mem (absS st)) by (cbn [ReadPath.abs st_mem st_frozen st' bs_mem bs_frozen]; rewrite Hm; reflexivity).
    assert (Eall : all_entries (absS st') = all_entries (absS st)).
    { rewrite !all_entries_abs. cbn [st' bs_mem bs_frozen]. rewrite Hm, Hf. cbn [mem_entries]. rewrite P0. cbn [map app]. reflexivity. }
    destruct (wf_state_newer _ (wb_abs _ _ _ _ _ _ _ _ _ _ _ W)) as (_ & N2 & _).
    destruct (mem_entries_wf (bs_mem st) (wb_mem _ _ _ _ _ _ _ _ _ _ _ W)) as [S1 K1].
    split; [|repeat split; try reflexivity; assumption].
    constructor.
    - constructor.
      + intros x Hx. cbn [st' bs_mem] in Hx. injection Hx as <-. exact M0.
      + intros x Hx. cbn [st' bs_frozen] in Hx. injection Hx as <-. apply (wb_mem _ _ _ _ _ _ _ _ _ _ _ W). exact Hm.
      + exact (wb_tables _ _ _ _ _ _ _ _ _ _ _ W).
      + change (absS st') with {| st_mem := st_mem (absS st'); st_frozen := st_frozen (absS st'); st_aux := []; st_levels := av st |}.
        rewrite Em, Efz. apply wf_state_parts; try assumption.
        * exact I.
        * constructor.
        * intros a b [].
        * intros i a b [].
    - exact Wl.
    - rewrite Eall. exact U.
  Qed.

  (* ---------------- memCompaction ---------------- *)
  Local Notation fsz st := (file_size (files_of st)).

  Lemma write_table_some num kvs data : kvs <> [] -> table_bytes c p tp crc compress o kvs = Some data ->
    write_table c p tp crc compress o num kvs = Some (mkTF num (key_first kvs) (key_last kvs) data).
  Proof. intros Hne E. unfold write_table. destruct kvs; [congruence|]. rewrite E. reflexivity. Qed.

  Definition frozen_table (num : N) (st : bstate) : table := {| t_num := num; t_entries := st_frozen (absS st) |}.

  Theorem flush_step st d num :
    bfull st -> bs_frozen st = Some d ->
    (forall f, In f (files_of st) -> tf_num f <> num) ->
    (forall x, In x (all_entries (absS st)) -> e_seq x <= keyMaxSeq p) ->
    (mem_pairs mp d <> [] -> write_sizes_ok c p tp crc compress o (mem_pairs mp d) = true) ->
    (wo_filter o = None \/
     forall f, write_table c p tp crc compress o num (mem_pairs mp d) = Some f ->
               filter_part c tp crc decompress fname ufc verify f = true) ->
    exists st', b_flush c p mp tp crc compress decompress fname ufc verify o num st = Some st' /\ bfull st' /\
      same_elems (all_entries (absS st)) (all_entries (absS st')) /\
      bs_mem st' = bs_mem st /\ bs_frozen st' = None /\
      (mem_pairs mp d = [] -> bs_levels st' = bs_levels st) /\
      (mem_pairs mp d <> [] ->
         finish c true (av st) (flush_edit c p (fsz st) (av st) (wo_gpOverlaps o) (wo_memMaxLevel o) (frozen_table num st))
         = POk (av st') /\
         exists f, write_table c p tp crc compress o num (mem_pairs mp d) = Some f /\ okb f = true /\
                   atab f = frozen_table num st /\ In f (files_of st')).
  Proof.
    intros [W Wl U] Hfz Hfresh Hseq Hsz Hflt.
    pose proof (wb_frozen _ _ _ _ _ _ _ _ _ _ _ W d Hfz) as Md.
    unfold b_flush. rewrite Hfz, (mem_iter_pairs c ok p seek_val mp mpok d Md).
    assert (Efr : st_frozen (absS st) = map entry_of (mem_pairs mp d)) by (cbn [ReadPath.abs st_frozen]; rewrite Hfz; reflexivity).
    destruct (mem_pairs mp d) as [|kv0 kvr] eqn:Ekv.
    - (* empty: the frozen memdb is dropped *)
      eexists. split; [reflexivity|]. set (st' := mkBS (bs_mem st) None (bs_levels st)).
      assert (Eabs : absS st' = absS st).
      { unfold ReadPath.abs. cbn [st' bs_mem bs_frozen bs_levels]. rewrite Hfz. cbn [mem_entries]. rewrite Ekv. reflexivity. }
      split; [constructor|].
      + constructor.
        * exact (wb_mem _ _ _ _ _ _ _ _ _ _ _ W).
        * intros x Hx. discriminate.
        * exact (wb_tables _ _ _ _ _ _ _ _ _ _ _ W).
        * rewrite Eabs. exact (wb_abs _ _ _ _ _ _ _ _ _ _ _ W).
      + exact Wl.
      + rewrite Eabs. exact U.
      + rewrite Eabs. split; [intros x; reflexivity|]. split; [reflexivity|]. split; [reflexivity|]. split; [reflexivity|]. intros Q. congruence.
    - (* a table is written *)
      set (kvs := kv0 :: kvr) in *. assert (Hne : kvs <> []) by discriminate.
      specialize (Hsz Hne). pose proof Hsz as Hsz0. unfold write_sizes_ok in Hsz0. apply andb_prop in Hsz0 as [_ Hb].
      destruct (table_bytes c p tp crc compress o kvs) as [data|] eqn:Eb; [|discriminate].
      assert (Ewt : write_table c p tp crc compress o num kvs = Some (mkTF num (key_first kvs) (key_last kvs) data)).
      { apply write_table_some; assumption. }
      set (f := mkTF num (key_first kvs) (key_last kvs) data) in *.
      destruct Md as [(A & L & Iv) Hk].
      assert (Hks : Forall (fun kv => key_okb p (fst kv) = true) kvs).
      { apply Forall_forall. unfold mem_keys_okb in Hk. rewrite forallb_forall in Hk. rewrite Ekv in Hk. exact Hk. }
      pose proof (mem_pairs_sorted c p seek_val mp mpok d A L Iv) as Hso. rewrite Ekv in Hso.
      destruct (writer_output_ok c ok p pok tp tp_ok crc crc_bound compress decompress codec_ok compress_ne fname ufc verify o ri_pos
                  num kvs data Hso Hne Hks Eb Hsz) as (Hokf & Hpf & _).
      { destruct Hflt as [Hn|Hf]; [left; exact Hn|right; apply Hf; exact Ewt]. }
      fold f in Hokf, Hpf.
      assert (Etab : atab f = frozen_table num st).
      { unfold abs_table, frozen_table. rewrite Hpf, Efr. reflexivity. }
      rewrite Ewt.
      (* the hypotheses of the L1 flush step *)
      destruct (mem_entries_wf (bs_frozen st) (wb_frozen _ _ _ _ _ _ _ _ _ _ _ W)) as [S2 K2].
      change (mem_entries mp (bs_frozen st)) with (st_frozen (absS st)) in S2, K2.
      destruct (wf_state_newer _ (wb_abs _ _ _ _ _ _ _ _ _ _ _ W)) as (N1 & N2 & N3).
      assert (Hfin : forall x, In x (st_frozen (absS st)) -> In x (all_entries (absS st))).
      { intros x Hx. unfold all_entries. apply in_or_app. right. apply in_or_app. left. exact Hx. }
      assert (Hlin : forall i x, In x (LE (lv (av st) i)) -> In x (all_entries (absS st))).
      { intros i x Hx. rewrite all_entries_abs. apply in_or_app. right. apply in_or_app. right.
        apply in_LE_concat. exists i. exact Hx. }
      assert (FO : flushed_ok c p (av st) (frozen_table num st)).
      { split; [|split; [|split]].
        - split; [split; assumption|]. cbn [frozen_table t_entries]. rewrite Efr. discriminate.
        - cbn [frozen_table t_entries]. apply (ssorted_uniq c ok); [exact S2|].
          intros a b Ha Hb'. apply U; apply Hfin; assumption.
        - intros i x y Hx Hy. cbn [frozen_table t_entries] in Hx. apply (N3 i x y Hx Hy).
        - intros i s Hs. destruct (in_level_file st i s Hs) as (g & Hg & <-). cbn [frozen_table t_num abs_table]. apply Hfresh. exact Hg. }
      assert (SF : seqs_fit p (av st)).
      { intros i t Ht. apply Hseq. apply (Hlin i). apply LE_in. exists t. split; [exact Ht|].
        destruct (wl_tbl c p _ Wl i t Ht) as [_ Hnz]. unfold t_hi. destruct (t_entries t) as [|e r] eqn:Et; [congruence|].
        rewrite (ReadPathProofs.last_cons_dflt r e no_entry). apply (ReadPathProofs.in_last r e). }
      destruct (flush_step c ok p pok (fsz st) (av st) (wo_gpOverlaps o) (wo_memMaxLevel o) _ Wl SF FO) as (nv & Ef & Wnv).
      rewrite Etab.
      set (ed := flush_edit c p (fsz st) (av st) (wo_gpOverlaps o) (wo_memMaxLevel o) (frozen_table num st)) in *.
      set (k := pick_memdb_level c p (fsz st) (av st) (Some (umin_of (frozen_table num st))) (Some (umax_of (frozen_table num st)))
                  (wo_gpOverlaps o) (wo_memMaxLevel o)) in *.
      assert (Eadd : forall l, adds_at ed l = if Nat.eqb k l then [frozen_table num st] else []).
      { intros l. unfold adds_at, ed, flush_edit. cbn [ed_add filter fst]. fold k. destruct (Nat.eqb k l); reflexivity. }
      assert (Edel : forall l base, dels_at ed l base = []).
      { intros l base. unfold dels_at, ed, flush_edit. cbn [ed_del filter map]. destruct base; reflexivity. }
      destruct (install_ok true st [f] ed (bs_mem st) None nv W Wl Ef) as (st' & Ei & Em' & Ef' & Eav & Hall).
      { constructor; [exact Hokf|constructor]. }
      { cbn [app map]. constructor; [|apply files_nodup; exact Wl].
        intros Hin. apply in_map_iff in Hin as (g & Eg & Hg). apply (Hfresh g Hg). exact Eg. }
      { intros l t Ht. rewrite Eadd in Ht. destruct (Nat.eqb k l); [|destruct Ht]. destruct Ht as [<-|[]].
        exists f. split; [left; reflexivity|exact Etab]. }
      exists st'. split; [exact Ei|].
      (* the entries of the new levels: the old ones and the frozen memdb's *)
      assert (HLE : forall x, In x (LE (concat (av st'))) <-> In x (st_frozen (absS st)) \/ In x (LE (concat (av st)))).
      { intros x. rewrite Eav, (LE_finish true (av st) ed nv Ef x). split.
        - intros (l & t & Hx & [(Ht & _)|Ht]).
          + right. apply in_LE_concat. exists l. apply LE_in. exists t. auto.
          + rewrite Eadd in Ht. destruct (Nat.eqb k l); [|destruct Ht]. destruct Ht as [<-|[]]. left. exact Hx.
        - intros [Hx|Hx].
          + exists k, (frozen_table num st). split; [exact Hx|]. right. rewrite Eadd, Nat.eqb_refl. left. reflexivity.
          + apply in_LE_concat in Hx as (l & Hx). apply LE_in in Hx as (t & Ht & Hx). exists l, t. split; [exact Hx|]. left.
            split; [exact Ht|]. rewrite Edel. split; [reflexivity|]. rewrite Eadd.
            destruct (Nat.eqb k l); [|reflexivity]. cbn [nums_of map memN existsb frozen_table t_num].
            destruct (in_level_file st l t Ht) as (g & Hg & <-). cbn [abs_table t_num].
            destruct (N.eqb_spec (tf_num g) num) as [Q|Q]; [exfalso; apply (Hfresh g Hg Q)|reflexivity]. }
      assert (Hnewlv : forall i x, In x (LE (lv (av st') i)) -> In x (st_frozen (absS st)) \/ exists j, In x (LE (lv (av st) j))).
      { intros i x Hx. assert (Hc : In x (LE (concat (av st')))) by (apply in_LE_concat; exists i; exact Hx).
        apply HLE in Hc as [Hc|Hc]; [left; exact Hc|right; apply in_LE_concat; exact Hc]. }
      assert (SE : same_elems (all_entries (absS st)) (all_entries (absS st'))).
      { intros x. rewrite !all_entries_abs, Em', Ef'. cbn [mem_entries app]. rewrite !in_app_iff, HLE.
        change (mem_entries mp (bs_frozen st)) with (st_frozen (absS st)). tauto. }
      split; [constructor|].
      + constructor.
        * rewrite Em'. exact (wb_mem _ _ _ _ _ _ _ _ _ _ _ W).
        * rewrite Ef'. intros x Hx. discriminate.
        * exact Hall.
        * destruct (mem_entries_wf (bs_mem st) (wb_mem _ _ _ _ _ _ _ _ _ _ _ W)) as [S1 K1].
          change (absS st') with {| st_mem := mem_entries mp (bs_mem st'); st_frozen := mem_entries mp (bs_frozen st'); st_aux := []; st_levels := av st' |}.
          rewrite Em', Ef'. cbn [mem_entries]. apply wf_state_parts; try assumption.
          -- exact I.
          -- constructor.
          -- rewrite Eav. exact Wnv.
          -- intros a b _ [].
          -- intros i a b Ha Hb2. destruct (Hnewlv i b Hb2) as [Hb'|(j & Hb')]; [apply (N1 a b Ha Hb')|apply (N2 j a b Ha Hb')].
          -- intros i a b [].
      + rewrite Eav. exact Wnv.
      + apply (uniq_in_same _ _ SE U).
      + split; [exact SE|]. split; [exact Em'|]. split; [exact Ef'|]. split; [intros Q; discriminate|].
        intros _. split; [rewrite Eav; exact Ef|]. exists f. split; [reflexivity|]. split; [exact Hokf|]. split; [exact Etab|].
        (* the new file is installed *)
        assert (Hin : In (frozen_table num st) (lv (av st') k)).
        { rewrite Eav. apply (finish_in c true (av st) ed nv Ef k). right. rewrite Eadd, Nat.eqb_refl. left. reflexivity. }
        destruct (in_level_file st' k _ Hin) as (g & Hg & Eg).
        assert (g = f); [|subst g; exact Hg].
        unfold install in Ei. rewrite Ef in Ei.
        destruct (levels_for ([f] ++ files_of st) nv) as [lvs|] eqn:El; [|discriminate]. cbn [option_map] in Ei. injection Ei as <-.
        cbn [files_of bs_levels] in Hg.
        assert (Hnd : NoDup (map tf_num ([f] ++ files_of st))).
        { cbn [app map]. constructor; [|apply files_nodup; exact Wl].
          intros Hi. apply in_map_iff in Hi as (g' & Eg' & Hg'). apply (Hfresh g' Hg'). exact Eg'. }
        assert (Hall2 : forall t, In t (concat nv) -> exists f0, In f0 ([f] ++ files_of st) /\ atab f0 = t).
        { intros t Ht. destruct (in_concat_lv nv t Ht) as (l & Hl).
          apply (finish_in c true (av st) ed nv Ef l t) in Hl as [(Hb' & _)|Ha].
          - destruct (in_level_file st l t Hb') as (f0 & Hf0 & E0). exists f0. split; [right; exact Hf0|exact E0].
          - rewrite Eadd in Ha. destruct (Nat.eqb k l); [|destruct Ha]. destruct Ha as [<-|[]]. exists f. split; [left; reflexivity|exact Etab]. }
        destruct (levels_for_ok c tp crc decompress fname ufc verify ri _ Hnd nv Hall2) as (lvs' & El' & _ & Il').
        rewrite El in El'. injection El' as <-.
        specialize (Il' g Hg). destruct Il' as [Q|Q]; [symmetry; exact Q|].
        exfalso. apply (Hfresh g Q). pose proof (f_equal t_num Eg) as En. cbn [abs_table t_num frozen_table] in En. exact En.
  Qed.
End Steps.
